import AC.Decompile
/-! C04 prototype (second half): the builder's inlining preserves the direct semantics. -/
namespace P.Sem

def norm (o : Nat × Nat) : Nat × Nat := (min o.1 o.2, max o.1 o.2)
def isOpE : Expr → Bool | .add .. => true | .shift .. => true | .double .. => true | _ => false
def inputs : Op → List Nat | .add x y => [x, y] | .dbl x => [x] | .shl x _ => [x]

/-- `builder.operator` / `builder.add`: the operator sub-expression goes first -/
def opExpr (E : Nat → Expr) : Op → Expr
  | .add x y => if isOpE (E y) && !isOpE (E x) then .add (E y) (E x) else .add (E x) (E y)
  | .dbl x => .double (E x)
  | .shl x s => .shift (E x) s

/-- `pass.ReadCounts`: an addition of an element to itself counts twice -/
def irReads (ir : List Inst) (i : Nat) : Nat := (ir.map (fun inst => (inputs inst.op).count i)).sum

structure BS where
  stmts : List Stmt
  E : Nat → Expr

def setE (E : Nat → Expr) (k : Nat) (e : Expr) : Nat → Expr := fun j => if j = k then e else E j

def usedNext (o : Nat) : Option Inst → Bool
  | some nx => (inputs nx.op).contains o
  | none => false

def inlineCond (want : Nat → Bool) (full : List Inst) (inst : Inst) (next : Option Inst) : Bool :=
  want inst.out && irReads full inst.out == 1 && usedNext inst.out next

def bStep (name : Nat → String) (want : Nat → Bool) (full : List Inst) (bs : BS) (inst : Inst)
    (next : Option Inst) : BS :=
  if inlineCond want full inst next then
    { bs with E := setE bs.E inst.out (opExpr bs.E inst.op) }
  else
    { stmts := bs.stmts ++ [⟨name inst.out, opExpr bs.E inst.op⟩],
      E := setE bs.E inst.out (.ident (name inst.out)) }

def bLoop (name : Nat → String) (want : Nat → Bool) (full : List Inst) : BS → List Inst → BS
  | bs, [] => bs
  | bs, inst :: r => bLoop name want full (bStep name want full bs inst r.head?) r

def build (name : Nat → String) (want : Nat → Bool) (ir : List Inst) : List Stmt :=
  (bLoop name want ir ⟨[], fun k => .operand k⟩ ir).stmts

/-- direct semantics returning the final name table as well -/
def dRun (p : Prog) (env : Env) : List Stmt → Option (Prog × Env)
  | [] => some (p, env)
  | st :: r =>
    match dExpr p env st.e with
    | none => none
    | some (p', x) =>
      match lookup env st.name with
      | some _ => none
      | none => dRun p' ((st.name, x) :: env) r

theorem dRun_append : ∀ (a b : List Stmt) (p : Prog) (env : Env),
    dRun p env (a ++ b) = match dRun p env a with | none => none | some (p', env') => dRun p' env' b := by
  intro a
  induction a with
  | nil => intro b p env; rfl
  | cons st r ih =>
    intro b p env
    simp only [List.cons_append, dRun]
    cases dExpr p env st.e with
    | none => rfl
    | some r1 =>
      obtain ⟨p', x⟩ := r1
      simp only []
      cases lookup env st.name with
      | some _ => rfl
      | none => exact ih b p' _

theorem dRun_dStmts (p : Prog) (env : Env) (ss : List Stmt) : (dRun p env ss).map (·.1) = dStmts p env ss := by
  induction ss generalizing p env with
  | nil => rfl
  | cons st r ih =>
    simp only [dRun, dStmts]
    cases dExpr p env st.e with
    | none => rfl
    | some r1 =>
      obtain ⟨p', x⟩ := r1
      simp only []
      cases lookup env st.name with
      | some _ => rfl
      | none => exact ih p' _


/-! ### expressions built from atoms and at most one pending inlined expression -/
def AtomOK (name : Nat → String) (env : Env) (E : Nat → Expr) (x : Nat) : Prop :=
  E x = .operand x ∨ (E x = .ident (name x) ∧ lookup env (name x) = some x)

theorem atom_eval {name env E x} (h : AtomOK name env E x) (P : Prog) : dExpr P env (E x) = some (P, x) := by
  rcases h with h | ⟨h, hl⟩
  · rw [h]; rfl
  · rw [h]; simp [dExpr, hl]

theorem atom_notOp {name env E x} (h : AtomOK name env E x) : isOpE (E x) = false := by
  rcases h with h | ⟨h, _⟩ <;> rw [h] <;> rfl

/-- applying an IR operation in the direct semantics (operands of an addition sorted) -/
def apOp (P : Prog) : Op → Option (Prog × Nat)
  | .add x y => pAdd P (min x y) (max x y)
  | .dbl x => pAdd P x x
  | .shl x s => pShift s P x

theorem min_max_comm (a b : Nat) : (min a b, max a b) = (min b a, max b a) := by
  rw [Nat.min_comm, Nat.max_comm]

/-- all inputs are atoms -/
theorem opExpr_atoms (name : Nat → String) (env : Env) (E : Nat → Expr) (op : Op) (P : Prog)
    (hs : ∀ x s, op = .shl x s → 1 ≤ s)
    (h : ∀ x ∈ inputs op, AtomOK name env E x) : dExpr P env (opExpr E op) = apOp P op := by
  cases op with
  | add x y =>
    have hx := h x (by simp [inputs]); have hy := h y (by simp [inputs])
    simp only [opExpr, atom_notOp hy, Bool.false_and, Bool.false_eq_true, if_false, dExpr,
      atom_eval hx, atom_eval hy, apOp]
  | dbl x =>
    have hx := h x (by simp [inputs])
    simp only [opExpr, dExpr, atom_eval hx, apOp]
  | shl x s =>
    have hx := h x (by simp [inputs])
    have := hs x s rfl
    simp only [opExpr, dExpr, atom_eval hx, apOp]
    simp [show s ≠ 0 by omega]

/-- exactly one input is the pending inlined expression `o`, the others are atoms -/
theorem opExpr_pending (name : Nat → String) (env : Env) (E : Nat → Expr) (op : Op) (D D' : Prog) (o : Nat)
    (hs : ∀ x s, op = .shl x s → 1 ≤ s)
    (hpend : dExpr D env (E o) = some (D', o)) (hop : isOpE (E o) = true)
    (hcount : (inputs op).count o = 1)
    (h : ∀ x ∈ inputs op, x ≠ o → AtomOK name env E x) : dExpr D env (opExpr E op) = apOp D' op := by
  cases op with
  | add x y =>
    simp only [inputs] at hcount
    by_cases hxo : x = o
    · have hyo : y ≠ o := by
        intro e; subst hxo; subst e; simp at hcount
      have hy := h y (by simp [inputs]) hyo
      subst hxo
      simp only [opExpr, atom_notOp hy, Bool.false_and, Bool.false_eq_true, if_false, dExpr, hpend,
        atom_eval hy, apOp]
    · have hyo : y = o := by
        by_cases e : y = o
        · exact e
        · simp [List.count_cons, hxo, e] at hcount
      have hx := h x (by simp [inputs]) hxo
      subst hyo
      simp only [opExpr, hop, atom_notOp hx, Bool.not_false, Bool.and_self, if_true, dExpr, hpend,
        atom_eval hx, apOp]
      have := min_max_comm y x
      simp only [Prod.mk.injEq] at this
      rw [this.1, this.2]
  | dbl x =>
    have hxo : x = o := by
      by_cases e : x = o
      · exact e
      · simp [inputs, List.count_cons, e] at hcount
    subst hxo
    simp only [opExpr, dExpr, hpend, apOp]
  | shl x s =>
    have hxo : x = o := by
      by_cases e : x = o
      · exact e
      · simp [inputs, List.count_cons, e] at hcount
    subst hxo
    have := hs x s rfl
    simp only [opExpr, dExpr, hpend, apOp]
    simp [show s ≠ 0 by omega]


/-! ### compile vs the direct application of an operation -/
theorem norm_diag (k : Nat) : norm (k, k) = (k, k) := by simp [norm]

theorem pShift_bound : ∀ (s : Nat) (p : Prog) (x : Nat) (r : Prog × Nat), 1 ≤ s → pShift s p x = some r → x ≤ p.length := by
  intro s p x r hs h
  cases s with
  | zero => omega
  | succ s =>
    simp only [pShift] at h
    cases h1 : pAdd p x x with
    | none => rw [h1] at h; cases h
    | some r1 =>
      unfold pAdd at h1
      split at h1
      · rename_i hb; exact hb.1
      · cases h1

theorem apOp_of_cInst (C C' : Prog) (inst : Inst) (hs : ∀ x s, inst.op = .shl x s → 1 ≤ s)
    (h : cInst C inst = some C') :
    apOp (C.map norm) inst.op = some (C'.map norm, inst.out) ∧
    (∀ x ∈ inputs inst.op, x ≤ C.length) ∧ inst.out = C'.length ∧ C.length < C'.length := by
  obtain ⟨o, op⟩ := inst
  cases op with
  | add x y =>
    unfold cInst at h
    simp only [] at h
    cases ha : pAdd C x y with
    | none => rw [ha] at h; cases h
    | some r =>
      obtain ⟨C1, o1⟩ := r
      rw [ha] at h
      simp only [] at h
      split at h
      · rename_i ho
        cases h
        unfold pAdd at ha
        split at ha
        · rename_i hb
          cases ha
          refine ⟨?_, ?_, by simp; omega, by simp⟩
          · simp only [apOp, pAdd, List.length_map]
            have : min x y ≤ C.length ∧ max x y ≤ C.length := by
              constructor
              · exact Nat.le_trans (Nat.min_le_left _ _) hb.1
              · exact Nat.max_le.mpr hb
            simp [this, norm, ho]
          · intro z hz; simp [inputs] at hz; rcases hz with rfl | rfl
            · exact hb.1
            · exact hb.2
        · cases ha
      · cases h
  | dbl x =>
    unfold cInst at h
    simp only [] at h
    cases ha : pAdd C x x with
    | none => rw [ha] at h; cases h
    | some r =>
      obtain ⟨C1, o1⟩ := r
      rw [ha] at h
      simp only [] at h
      split at h
      · rename_i ho
        cases h
        unfold pAdd at ha
        split at ha
        · rename_i hb
          cases ha
          refine ⟨?_, ?_, by simp; omega, by simp⟩
          · simp [apOp, pAdd, hb.1, norm, ho]
          · intro z hz; simp [inputs] at hz; subst hz; exact hb.1
        · cases ha
      · cases h
  | shl x s =>
    have hs1 := hs x s rfl
    unfold cInst at h
    simp only [] at h
    cases ha : pShift s C x with
    | none => rw [ha] at h; cases h
    | some r =>
      obtain ⟨C1, o1⟩ := r
      rw [ha] at h
      simp only [] at h
      split at h
      · rename_i ho
        cases h
        have hx := pShift_bound s C x _ hs1 ha
        obtain ⟨s', rfl⟩ : ∃ s', s = s' + 1 := ⟨s - 1, by omega⟩
        rw [pShift_doubles s' C x hx] at ha
        cases ha
        refine ⟨?_, ?_, by simp; omega, by simp⟩
        · simp only [apOp]
          rw [pShift_doubles s' (C.map norm) x (by simpa using hx)]
          simp only [List.length_map, List.map_append, List.map_cons, List.map_map, norm_diag]
          congr 4
          apply List.map_congr_left
          intro t _
          simp [Function.comp, norm_diag]
        · intro z hz; simp [inputs] at hz; subst hz; exact hx
      · cases h


/-! ### the builder invariant -/
theorem lookup_cons (n : String) (v : Nat) (env : Env) (s : String) :
    lookup ((n, v) :: env) s = if n = s then some v else lookup env s := by
  unfold lookup
  simp only [List.find?_cons]
  by_cases h : n = s
  · simp [h]
  · have : (n == s) = false := by simpa using h
    simp [h, this]

theorem irReads_append (a b : List Inst) (i : Nat) : irReads (a ++ b) i = irReads a i + irReads b i := by
  simp [irReads, List.map_append, List.sum_append]

theorem irReads_cons (a : Inst) (b : List Inst) (i : Nat) :
    irReads (a :: b) i = (inputs a.op).count i + irReads b i := by
  simp [irReads]

theorem not_mem_of_irReads_zero : ∀ (r : List Inst) (i : Nat), irReads r i = 0 → ∀ inst ∈ r, i ∉ inputs inst.op := by
  intro r
  induction r with
  | nil => intro i _ inst h; simp at h
  | cons a r ih =>
    intro i h inst hm
    rw [irReads_cons] at h
    rcases List.mem_cons.mp hm with rfl | hm
    · intro hc
      have := List.count_pos_iff.mpr hc
      omega
    · exact ih i (by omega) inst hm

structure BInv (name : Nat → String) (full pre rest : List Inst) (C : Prog) (bs : BS)
    (pend : Option Nat) (D : Prog) (env : Env) : Prop where
  run : dRun [] [] bs.stmts = some (D, env)
  envSelf : ∀ k v, lookup env (name k) = some v → v = k
  envOld : ∀ k v, lookup env (name k) = some v → k ≤ C.length
  atoms : ∀ k, pend = some k ∨ AtomOK name env bs.E k ∨ (∀ inst ∈ rest, k ∉ inputs inst.op)
  preBound : ∀ inst ∈ pre, ∀ x ∈ inputs inst.op, x ≤ C.length
  pendNone : pend = none → D = C.map norm
  pendSome : ∀ o, pend = some o → dExpr D env (bs.E o) = some (C.map norm, o) ∧ isOpE (bs.E o) = true ∧
        irReads full o = 1 ∧ irReads pre o = 0 ∧ ∃ nx r', rest = nx :: r' ∧ o ∈ inputs nx.op

theorem atomOK_ext {name : Nat → String} (hinj : ∀ a b, name a = name b → a = b) {env : Env} {E : Nat → Expr}
    {k o : Nat} (hko : k ≠ o) (e : Expr) (h : AtomOK name env E k) :
    AtomOK name ((name o, o) :: env) (setE E o e) k := by
  unfold AtomOK setE at *
  simp only [hko, if_false]
  rcases h with h | ⟨h, hl⟩
  · exact Or.inl h
  · right
    refine ⟨h, ?_⟩
    rw [lookup_cons]
    have : name o ≠ name k := fun e => hko (hinj _ _ e).symm
    simp [this, hl]

theorem atomOK_setE {name : Nat → String} {env : Env} {E : Nat → Expr} {k o : Nat} (hko : k ≠ o) (e : Expr)
    (h : AtomOK name env E k) : AtomOK name env (setE E o e) k := by
  unfold AtomOK setE at *
  simp only [hko, if_false]
  exact h


theorem isOpE_opExpr (E : Nat → Expr) (op : Op) : isOpE (opExpr E op) = true := by
  cases op with
  | add x y => simp only [opExpr]; split <;> rfl
  | dbl x => rfl
  | shl x s => rfl

theorem irReads_zero_of_bound (l : List Inst) (o b : Nat) (hb : b < o)
    (h : ∀ inst ∈ l, ∀ x ∈ inputs inst.op, x ≤ b) : irReads l o = 0 := by
  induction l with
  | nil => rfl
  | cons a r ih =>
    rw [irReads_cons, ih (fun inst hi => h inst (List.mem_cons_of_mem _ hi))]
    have : (inputs a.op).count o = 0 := by
      apply List.count_eq_zero.mpr
      intro hc
      have := h a (by simp) o hc
      omega
    omega

theorem bStep_inv (name : Nat → String) (hinj : ∀ a b, name a = name b → a = b) (want : Nat → Bool)
    (full pre : List Inst) (inst : Inst) (r : List Inst) (C C' : Prog) (bs : BS) (pend : Option Nat)
    (D : Prog) (env : Env)
    (hfull : full = pre ++ inst :: r)
    (hs : ∀ x s, inst.op = .shl x s → 1 ≤ s)
    (hc : cInst C inst = some C')
    (hI : BInv name full pre (inst :: r) C bs pend D env) :
    ∃ pend' D' env', BInv name full (pre ++ [inst]) r C' (bStep name want full bs inst r.head?) pend' D' env' := by
  obtain ⟨hap, hbound, hout, hlen⟩ := apOp_of_cInst C C' inst hs hc
  have hsplit : ∀ o, irReads full o = irReads pre o + ((inputs inst.op).count o + irReads r o) := by
    intro o; rw [hfull, irReads_append, irReads_cons]
  -- inputs of the current instruction: pending or atom
  have hin : ∀ x ∈ inputs inst.op, pend = some x ∨ AtomOK name env bs.E x := by
    intro x hx
    rcases hI.atoms x with h | h | h
    · exact Or.inl h
    · exact Or.inr h
    · exact absurd hx (h inst (by simp))
  -- evaluation of the built expression, and what happens to an old pending index
  have heval : dExpr D env (opExpr bs.E inst.op) = some (C'.map norm, inst.out) ∧
      (∀ o, pend = some o → ∀ i' ∈ r, o ∉ inputs i'.op) := by
    cases hp : pend with
    | none =>
      have hD : D = C.map norm := hI.pendNone hp
      refine ⟨?_, by intro o h; cases h⟩
      rw [opExpr_atoms name env bs.E inst.op D hs, hD, hap]
      intro x hx
      rcases hin x hx with h | h
      · rw [hp] at h; cases h
      · exact h
    | some o =>
      obtain ⟨hpe, hpop, hr1, hr0, nx, r', hrest, hmem⟩ := hI.pendSome o hp
      have hnx : nx = inst := by cases hrest; rfl
      subst hnx
      have hcnt := hsplit o
      have hpos : 0 < (inputs nx.op).count o := List.count_pos_iff.mpr hmem
      have hc1 : (inputs nx.op).count o = 1 := by omega
      have hr : irReads r o = 0 := by omega
      refine ⟨?_, ?_⟩
      · rw [opExpr_pending name env bs.E nx.op D (C.map norm) o hs hpe hpop hc1, hap]
        intro x hx hxo
        rcases hin x hx with h | h
        · rw [hp] at h; cases h; exact absurd rfl hxo
        · exact h
      · intro o' ho'; cases ho'
        exact not_mem_of_irReads_zero r o hr
  obtain ⟨hev, hold⟩ := heval
  have hfreshenv : lookup env (name inst.out) = none := by
    cases hl : lookup env (name inst.out) with
    | none => rfl
    | some v => have := hI.envOld _ _ hl; omega
  have hpreB : ∀ i' ∈ pre ++ [inst], ∀ x ∈ inputs i'.op, x ≤ C'.length := by
    intro i' hi' x hx
    rcases List.mem_append.mp hi' with h | h
    · have := hI.preBound i' h x hx; omega
    · simp at h; subst h; have := hbound x hx; omega
  unfold bStep
  by_cases hcond : inlineCond want full inst r.head? = true
  · -- inline
    simp only [hcond, if_true]
    have hinl := hcond
    unfold inlineCond at hinl
    simp only [Bool.and_eq_true, beq_iff_eq] at hinl
    obtain ⟨⟨_, hreads⟩, hnext⟩ := hinl
    refine ⟨some inst.out, D, env, ⟨hI.run, hI.envSelf, ?_, ?_, hpreB, (by intro h; cases h), ?_⟩⟩
    · intro k v h; have := hI.envOld k v h; omega
    · intro k
      by_cases hk : k = inst.out
      · left; rw [hk]
      · rcases hI.atoms k with h | h | h
        · right; right; exact hold k h
        · right; left; exact atomOK_setE hk _ h
        · right; right; intro i' hi'; exact h i' (List.mem_cons_of_mem _ hi')
    · intro o ho
      cases ho
      simp only [setE, if_true]
      refine ⟨hev, isOpE_opExpr _ _, hreads, ?_, ?_⟩
      · exact irReads_zero_of_bound _ _ C.length (by omega) (by
          intro i' hi' x hx
          rcases List.mem_append.mp hi' with h | h
          · exact hI.preBound i' h x hx
          · simp at h; subst h; exact hbound x hx)
      · cases hr : r with
        | nil => rw [hr] at hnext; simp [usedNext] at hnext
        | cons nx r' =>
          rw [hr] at hnext
          simp [usedNext] at hnext
          exact ⟨nx, r', rfl, hnext⟩
  · -- commit
    simp only [hcond, Bool.false_eq_true, if_false]
    refine ⟨none, C'.map norm, (name inst.out, inst.out) :: env, ⟨?_, ?_, ?_, ?_, hpreB, (fun _ => rfl), (by intro o h; cases h)⟩⟩
    · simp only []
      rw [dRun_append, hI.run]
      simp only [dRun, hev, hfreshenv]
    · intro k v h
      rw [lookup_cons] at h
      split at h
      · rename_i hn; cases h; exact hinj _ _ hn
      · exact hI.envSelf k v h
    · intro k v h
      rw [lookup_cons] at h
      split at h
      · rename_i hn; have := hinj _ _ hn; omega
      · have := hI.envOld k v h; omega
    · intro k
      by_cases hk : k = inst.out
      · right; left
        subst hk
        right
        refine ⟨by simp [setE], ?_⟩
        rw [lookup_cons]; simp
      · rcases hI.atoms k with h | h | h
        · right; right; exact hold k h
        · right; left; exact atomOK_ext hinj hk _ h
        · right; right; intro i' hi'; exact h i' (List.mem_cons_of_mem _ hi')


theorem bLoop_inv (name : Nat → String) (hinj : ∀ a b, name a = name b → a = b) (want : Nat → Bool)
    (full : List Inst) (Cfin : Prog) :
    ∀ (rest pre : List Inst) (C : Prog) (bs : BS) (pend : Option Nat) (D : Prog) (env : Env),
    full = pre ++ rest → (∀ inst ∈ rest, ∀ x s, inst.op = .shl x s → 1 ≤ s) → cAll C rest = some Cfin →
    BInv name full pre rest C bs pend D env →
    ∃ pend' D' env', BInv name full full [] Cfin (bLoop name want full bs rest) pend' D' env' := by
  intro rest
  induction rest with
  | nil =>
    intro pre C bs pend D env hf _ hc hI
    simp only [cAll] at hc
    cases hc
    have : pre = full := by simp [hf]
    subst this
    exact ⟨pend, D, env, hI⟩
  | cons inst r ih =>
    intro pre C bs pend D env hf hs hc hI
    simp only [cAll] at hc
    cases hci : cInst C inst with
    | none => rw [hci] at hc; cases hc
    | some C' =>
      rw [hci] at hc
      simp only [] at hc
      obtain ⟨pend1, D1, env1, hI1⟩ := bStep_inv name hinj want full pre inst r C C' bs pend D env hf
        (hs inst (by simp)) hci hI
      simp only [bLoop]
      exact ih (pre ++ [inst]) C' _ pend1 D1 env1 (by simp [hf])
        (fun i' hi' => hs i' (List.mem_cons_of_mem _ hi')) hc hI1

/-- **C04 (builder half)**: for an IR program that compiles to `p` (all shifts ≥ 1), under any
    injective naming and any inlining preference, the built script denotes `p` with the operands
    of every addition sorted. -/
theorem build_denotes (name : Nat → String) (hinj : ∀ a b, name a = name b → a = b) (want : Nat → Bool)
    (ir : List Inst) (p : Prog) (hs : ∀ inst ∈ ir, ∀ x s, inst.op = .shl x s → 1 ≤ s)
    (hc : cAll [] ir = some p) :
    dStmts [] [] (build name want ir) = some (p.map norm) := by
  have h0 : BInv name ir [] ir [] ⟨[], fun k => .operand k⟩ none [] [] := by
    refine ⟨rfl, ?_, ?_, ?_, ?_, fun _ => rfl, by intro o h; cases h⟩
    · intro k v h; simp [lookup] at h
    · intro k v h; simp [lookup] at h
    · intro k; right; left; left; rfl
    · intro inst h; simp at h
  obtain ⟨pend, D, env, hI⟩ := bLoop_inv name hinj want ir p ir [] [] _ none [] [] rfl hs hc h0
  have hpn : pend = none := by
    cases hp : pend with
    | none => rfl
    | some o =>
      obtain ⟨_, _, _, _, nx, r', hr, _⟩ := hI.pendSome o hp
      cases hr
  have hD := hI.pendNone hpn
  rw [← dRun_dStmts]
  unfold build
  rw [hI.run, hD]
  rfl


theorem decompileFrom_shl_pos (full : Prog) : ∀ (fuel : Nat) (rest : Prog) (i : Nat),
    ∀ inst ∈ decompileFrom full fuel rest i, ∀ x s, inst.op = .shl x s → 1 ≤ s := by
  intro fuel
  induction fuel with
  | zero => intro rest i inst h; simp [decompileFrom] at h
  | succ fuel ih =>
    intro rest i inst h
    cases rest with
    | nil => simp [decompileFrom] at h
    | cons o r =>
      simp only [decompileFrom] at h
      split at h
      · rcases List.mem_cons.mp h with rfl | h
        · intro x s e; cases e
        · exact ih _ _ inst h
      · split at h
        · rcases List.mem_cons.mp h with rfl | h
          · intro x s e; cases e
          · exact ih _ _ inst h
        · rcases List.mem_cons.mp h with rfl | h
          · intro x s e; cases e; omega
          · exact ih _ _ inst h

/-- **C04 core**: decompile, build (any injective naming, any inlining preference), then read the
    script by the direct semantics: the original program, operands of additions sorted. -/
theorem roundtrip_core (name : Nat → String) (hinj : ∀ a b, name a = name b → a = b) (want : Nat → Bool)
    (p : Prog) (h : InRange p 0) :
    dStmts [] [] (build name want (decompile p)) = some (p.map norm) :=
  build_denotes name hinj want (decompile p) p (decompileFrom_shl_pos p _ _ _) (compile_decompile p h)

end P.Sem
