import AC.AllocX
import AC.PeakLive
/-! Proofs about the executable allocator model `AC.AllocX`:
* the ascending-index temporary numbering is an injective relabelling of variable numbers;
* the simulation of the chain semantics by the register machine over names, with definedness
  (no "operand is not defined" error), in both alias modes and for an arbitrary input value;
* the `Temporaries` list is exactly the set of names used other than input and output;
* the boolean well-formedness check of the property text implies the prototype's `WF`. -/
namespace AC.AllocX
open P.Alloc

/-! ### `pos` and the naming loop -/
theorem pos_lt_of_mem : ∀ (A : List Nat) (v : Nat), v ∈ A → pos A v < A.length := by
  intro A
  induction A with
  | nil => intro v h; cases h
  | cons a r ih =>
    intro v h
    by_cases hav : a = v
    · simp [pos, hav]
    · have : v ∈ r := by
        rcases List.mem_cons.mp h with h | h
        · exact absurd h.symm hav
        · exact h
      have := ih v this
      simp [pos, hav]; omega

theorem pos_inj : ∀ (A : List Nat) (v w : Nat), v ∈ A → w ∈ A → pos A v = pos A w → v = w := by
  intro A
  induction A with
  | nil => intro v w h; cases h
  | cons a r ih =>
    intro v w hv hw h
    by_cases hav : a = v <;> by_cases haw : a = w
    · omega
    · subst hav
      have h1 : pos (a :: r) w = pos r w + 1 := by simp [pos, haw]
      have h2 : pos (a :: r) a = 0 := by simp [pos]
      omega
    · subst haw
      have h1 : pos (a :: r) v = pos r v + 1 := by simp [pos, hav]
      have h2 : pos (a :: r) a = 0 := by simp [pos]
      omega
    · simp only [pos, hav, haw, if_false] at h
      have hv' : v ∈ r := by
        rcases List.mem_cons.mp hv with h' | h'
        · exact absurd h'.symm hav
        · exact h'
      have hw' : w ∈ r := by
        rcases List.mem_cons.mp hw with h' | h'
        · exact absurd h'.symm haw
        · exact h'
      exact ih v w hv' hw' (by omega)

theorem pos_getElem : ∀ (A : List Nat) (k : Nat) (hk : k < A.length), A.Nodup → pos A (A[k]) = k := by
  intro A
  induction A with
  | nil => intro k hk; simp at hk
  | cons a r ih =>
    intro k hk hnd
    cases k with
    | zero => simp [pos]
    | succ k =>
      have hk' : k < r.length := by simpa using hk
      have hne : a ≠ r[k] := by
        intro e
        have := (List.nodup_cons.mp hnd).1
        exact this (e ▸ List.getElem_mem hk')
      simp [pos, hne, ih k hk' (List.nodup_cons.mp hnd).2]

theorem visit_mono (rg : Nat → Reg) (A : TMap) (i : Nat) (v : Nat) (h : v ∈ A) : v ∈ visit rg A i := by
  unfold visit
  split
  · split
    · exact h
    · exact List.mem_append_left _ h
  · exact h

theorem visit_nodup (rg : Nat → Reg) (A : TMap) (i : Nat) (h : A.Nodup) : (visit rg A i).Nodup := by
  unfold visit
  split
  · rename_i v _
    split
    · exact h
    · rename_i hc
      have hv : v ∉ A := by simpa using hc
      apply List.nodup_append.mpr
      refine ⟨h, by simp, ?_⟩
      intro a ha b hb
      simp at hb; subst hb
      intro e; subst e; exact hv ha
  · exact h

theorem visit_self (rg : Nat → Reg) (A : TMap) (i v : Nat) (h : rg i = .t v) : v ∈ visit rg A i := by
  unfold visit
  rw [h]
  simp only
  split
  · rename_i hc; simpa using hc
  · simp

theorem visit_origin (rg : Nat → Reg) (A : TMap) (i v : Nat) (h : v ∈ visit rg A i) :
    v ∈ A ∨ rg i = .t v := by
  unfold visit at h
  split at h
  · rename_i w hw
    split at h
    · exact Or.inl h
    · rcases List.mem_append.mp h with h | h
      · exact Or.inl h
      · simp at h; subst h; exact Or.inr hw
  · exact Or.inl h

theorem foldl_visit_mono (rg : Nat → Reg) : ∀ (idx : List Nat) (A : TMap) (v : Nat), v ∈ A →
    v ∈ idx.foldl (visit rg) A := by
  intro idx
  induction idx with
  | nil => intro A v h; exact h
  | cons i r ih => intro A v h; exact ih _ v (visit_mono rg A i v h)

theorem foldl_visit_nodup (rg : Nat → Reg) : ∀ (idx : List Nat) (A : TMap), A.Nodup →
    (idx.foldl (visit rg) A).Nodup := by
  intro idx
  induction idx with
  | nil => intro A h; exact h
  | cons i r ih => intro A h; exact ih _ (visit_nodup rg A i h)

theorem foldl_visit_mem (rg : Nat → Reg) : ∀ (idx : List Nat) (A : TMap) (i v : Nat), i ∈ idx →
    rg i = .t v → v ∈ idx.foldl (visit rg) A := by
  intro idx
  induction idx with
  | nil => intro A i v h; cases h
  | cons j r ih =>
    intro A i v hi hv
    rcases List.mem_cons.mp hi with rfl | hi
    · exact foldl_visit_mono rg r _ v (visit_self rg A i v hv)
    · exact ih _ i v hi hv

theorem foldl_visit_origin (rg : Nat → Reg) : ∀ (idx : List Nat) (A : TMap) (v : Nat),
    v ∈ idx.foldl (visit rg) A → v ∈ A ∨ ∃ i ∈ idx, rg i = .t v := by
  intro idx
  induction idx with
  | nil => intro A v h; exact Or.inl h
  | cons j r ih =>
    intro A v h
    rcases ih _ v h with h | ⟨i, hi, hv⟩
    · rcases visit_origin rg A j v h with h | h
      · exact Or.inl h
      · exact Or.inr ⟨j, by simp, h⟩
    · exact Or.inr ⟨i, by simp [hi], hv⟩

theorem buildA_nodup (rg : Nat → Reg) (idx : List Nat) : (buildA rg idx).Nodup :=
  foldl_visit_nodup rg idx [] List.nodup_nil

theorem buildA_mem (rg : Nat → Reg) (idx : List Nat) (i v : Nat) (hi : i ∈ idx) (hv : rg i = .t v) :
    v ∈ buildA rg idx := foldl_visit_mem rg idx [] i v hi hv

theorem buildA_origin (rg : Nat → Reg) (idx : List Nat) (v : Nat) (h : v ∈ buildA rg idx) :
    ∃ i ∈ idx, rg i = .t v := by
  rcases foldl_visit_origin rg idx [] v h with h | h
  · cases h
  · exact h

/-! ### `Indexes` contains exactly the operand indexes -/
theorem mem_insertSorted (x a : Nat) : ∀ (l : List Nat), a ∈ insertSorted x l ↔ a = x ∨ a ∈ l := by
  intro l
  induction l with
  | nil => simp [insertSorted]
  | cons y r ih =>
    unfold insertSorted
    split
    · simp
    · split
      · rename_i h; subst h; simp
      · simp [ih]; constructor
        · rintro (h | h | h) <;> simp [h]
        · rintro (h | h | h) <;> simp [h]

theorem mem_sortUniq (a : Nat) : ∀ (l : List Nat), a ∈ sortUniq l ↔ a ∈ l := by
  intro l
  induction l with
  | nil => simp [sortUniq]
  | cons x r ih =>
    have : sortUniq (x :: r) = insertSorted x (sortUniq r) := rfl
    rw [this, mem_insertSorted, ih]; simp

theorem mem_indexes (ir : List Inst) (i : Nat) : i ∈ indexes ir ↔ i ∈ operandIdx ir :=
  mem_sortUniq i _

theorem mem_operandIdx (ir : List Inst) (i : Nat) :
    i ∈ operandIdx ir ↔ ∃ inst ∈ ir, i ∈ inst.op.inputs ∨ i = inst.out := by
  simp [operandIdx, List.mem_flatMap]

/-! ### every operand index holds a variable after the reverse scan -/
theorem allocate_self (s : St) (i : Nat) : ∃ v, (s.allocate i).var i = some v := by
  unfold St.allocate
  cases hv : s.var i with
  | some v => exact ⟨v, by simp [hv]⟩
  | none =>
    cases hg : s.avail.getLast? with
    | some w => exact ⟨w, by simp⟩
    | none => exact ⟨s.n, by simp⟩

theorem foldl_allocate_self : ∀ (xs : List Nat) (s : St) (x : Nat), x ∈ xs →
    ∃ v, (xs.foldl St.allocate s).var x = some v := by
  intro xs
  induction xs with
  | nil => intro s x h; cases h
  | cons y r ih =>
    intro s x h
    rcases List.mem_cons.mp h with rfl | h
    · obtain ⟨v, hv⟩ := allocate_self s x
      exact ⟨v, foldl_allocate_mono r _ x v hv⟩
    · exact ih _ x h

theorem run_var_some : ∀ (ir : List Inst) (i : Nat), i ∈ operandIdx ir → ∃ v, (run ir).var i = some v := by
  intro ir
  induction ir with
  | nil => intro i h; simp [operandIdx] at h
  | cons inst suf ih =>
    intro i h
    rw [run_cons]
    have : i ∈ inst.op.inputs ∨ i = inst.out ∨ i ∈ operandIdx suf := by
      simp only [operandIdx, List.flatMap_cons, List.mem_append, List.mem_singleton] at h ⊢
      rcases h with (h | h) | h
      · exact Or.inl h
      · exact Or.inr (Or.inl h)
      · exact Or.inr (Or.inr h)
    rcases this with h | h | h
    · unfold step
      exact foldl_allocate_self _ _ i h
    · subst h
      obtain ⟨v, hv⟩ := allocate_self (run suf) inst.out
      refine ⟨v, ?_⟩
      unfold step
      apply foldl_allocate_mono
      rw [free_var]; exact hv
    · obtain ⟨v, hv⟩ := ih i h
      exact ⟨v, step_var_mono _ _ _ _ hv⟩

/-! ### the naming is injective on the registers in use -/

/-- pairwise distinct input / output / temporary names -/
structure NamesDistinct {α} (cfg : Cfg α) : Prop where
  io : cfg.input ≠ cfg.output
  ti : ∀ k, cfg.temp k ≠ cfg.input
  to : ∀ k, cfg.temp k ≠ cfg.output
  tt : ∀ j k, cfg.temp j = cfg.temp k → j = k

/-- the registers that carry a name: input, output, and the variables entered in the map -/
def InS (A : TMap) : Reg → Prop
  | .x => True
  | .z => True
  | .t v => v ∈ A

theorem nameOf_inj {α} {cfg : Cfg α} (hd : NamesDistinct cfg) (A : TMap) (r1 r2 : Reg)
    (h1 : InS A r1) (h2 : InS A r2) (h : nameOf cfg A r1 = nameOf cfg A r2) : r1 = r2 := by
  cases r1 <;> cases r2 <;> simp only [nameOf] at h
  · rfl
  · exact absurd h hd.io
  · exact absurd h.symm (hd.ti _)
  · exact absurd h.symm hd.io
  · rfl
  · exact absurd h.symm (hd.to _)
  · exact absurd h (hd.ti _)
  · exact absurd h (hd.to _)
  · rename_i v w
    have := pos_inj A v w h1 h2 (hd.tt _ _ h)
    rw [this]

theorem cellOf_InS (alias : Bool) (A : TMap) (r : Reg) (h : InS A r) : InS A (cellOf alias r) := by
  cases alias <;> cases r <;> simp_all [cellOf, InS]

theorem cellX_nameOf {α} [DecidableEq α] {cfg : Cfg α} (hd : NamesDistinct cfg) (alias : Bool) (A : TMap)
    (r : Reg) : cellX cfg alias (nameOf cfg A r) = nameOf cfg A (cellOf alias r) := by
  cases alias <;> cases r <;> simp [cellOf, cellX, nameOf, hd.io, hd.to]

theorem cellX_distinct {α} [DecidableEq α] {cfg : Cfg α} (hd : NamesDistinct cfg) (alias : Bool) (A : TMap)
    (r1 r2 : Reg) (h1 : InS A r1) (h2 : InS A r2) (h : cellOf alias r1 ≠ cellOf alias r2) :
    cellX cfg alias (nameOf cfg A r1) ≠ cellX cfg alias (nameOf cfg A r2) := by
  rw [cellX_nameOf hd, cellX_nameOf hd]
  intro e
  exact h (nameOf_inj hd A _ _ (cellOf_InS alias A r1 h1) (cellOf_InS alias A r2 h2) e)

theorem regOf_InS (ir : List Inst) (i : Nat) (hi : i ∈ operandIdx ir) :
    InS (buildA (regOf ir) (indexes ir)) (regOf ir i) := by
  cases h : regOf ir i with
  | x => trivial
  | z => trivial
  | t v => exact buildA_mem _ _ i v ((mem_indexes ir i).mpr hi) h

theorem live_reader : ∀ (suf : List Inst) (j : Nat), j ∈ liveAt suf → ∃ i' ∈ suf, j ∈ i'.op.inputs := by
  intro suf
  induction suf with
  | nil => intro j h; simp [liveAt] at h
  | cons a r ih =>
    intro j h
    simp only [liveAt, liveBefore', List.mem_append, List.mem_reverse, List.mem_filter] at h
    rcases h with h | h
    · exact ⟨a, by simp, h⟩
    · obtain ⟨i', hi', hr⟩ := ih j h.1
      exact ⟨i', by simp [hi'], hr⟩

theorem live_operand (pre : List Inst) (inst : Inst) (suf : List Inst) (j : Nat) (hj : j ∈ liveAt suf) :
    j ∈ operandIdx (pre ++ inst :: suf) := by
  obtain ⟨i', hi', hr⟩ := live_reader suf j hj
  exact (mem_operandIdx _ j).mpr ⟨i', by simp [hi'], Or.inl hr⟩

theorem out_operand (pre : List Inst) (inst : Inst) (suf : List Inst) :
    inst.out ∈ operandIdx (pre ++ inst :: suf) :=
  (mem_operandIdx _ _).mpr ⟨inst, by simp, Or.inr rfl⟩

/-- the cells (registers after aliasing) of two values needed at the same time are different -/
theorem cellX_live_distinct {α} [DecidableEq α] {cfg : Cfg α} (hd : NamesDistinct cfg) (alias : Bool)
    (pre : List Inst) (inst : Inst) (suf : List Inst)
    (hwf : WFs (pre ++ inst :: suf)) (hs : StrictOuts (pre ++ inst :: suf))
    (j : Nat) (hj : j ∈ liveAt suf) (hne : j ≠ inst.out) :
    cellX cfg alias (nameX cfg (pre ++ inst :: suf) j) ≠
      cellX cfg alias (nameX cfg (pre ++ inst :: suf) inst.out) := by
  unfold nameX
  exact cellX_distinct hd alias _ _ _
    (regOf_InS _ j (live_operand pre inst suf j hj))
    (regOf_InS _ inst.out (out_operand pre inst suf))
    (cell_distinct alias pre inst suf hwf hs j hj hne)

/-! ### the register machine over names simulates the chain semantics -/
section Sim
variable {α : Type} [DecidableEq α]

theorem getX_updX (st : RegsX α) (c d : α) (v : Int) :
    getX (updX st c v) d = if d = c then some v else getX st d := by
  simp [updX, getX]

theorem getX_touchX (st : RegsX α) (c d : α) (a : Int) (h : getX st d = some a) :
    getX (touchX st c) d = some a := by
  unfold touchX
  cases hc : getX st c with
  | some _ => exact h
  | none =>
    simp only [getX_updX]
    by_cases hdc : d = c
    · subst hdc; rw [hc] at h; cases h
    · simp [hdc, h]

theorem evalX_ok (nm : Nat → α) (rd : α → Except String Int) (env : Nat → Int) (op : Op)
    (h : ∀ x ∈ op.inputs, rd (nm x) = .ok (env x)) :
    (nameOp nm op).evalX rd = .ok (opVal env op) := by
  cases op with
  | add x y =>
    simp only [nameOp, NOp.evalX, h x (by simp [Op.inputs]), h y (by simp [Op.inputs]), opVal]
  | dbl x =>
    simp only [nameOp, NOp.evalX, h x (by simp [Op.inputs]), opVal]
    rw [Int.two_mul]
  | shl x s =>
    simp only [nameOp, NOp.evalX, h x (by simp [Op.inputs]), opVal]

theorem envV_snoc (v : Int) (pre : List Inst) (inst : Inst) :
    envV v (pre ++ [inst]) = stepVal (envV v pre) inst := by
  simp [envV, List.foldl_append]

/-- every value needed by the rest of the program sits, defined, in the cell of its name -/
def SimX (cfg : Cfg α) (alias : Bool) (v : Int) (nm : Nat → α) (pre suf : List Inst) (st : RegsX α) : Prop :=
  ∀ i ∈ liveAt suf, getX st (cellX cfg alias (nm i)) = some (envV v pre i)

theorem simX_step (cfg : Cfg α) (alias : Bool) (v : Int) (nm : Nat → α)
    (pre : List Inst) (inst : Inst) (suf : List Inst) (st : RegsX α)
    (hdist : ∀ j ∈ liveAt suf, j ≠ inst.out → cellX cfg alias (nm j) ≠ cellX cfg alias (nm inst.out))
    (h : SimX cfg alias v nm pre (inst :: suf) st) :
    ∃ st', execInstX cfg alias st (nameInst nm inst) = .ok st' ∧
      SimX cfg alias v nm (pre ++ [inst]) suf st' ∧
      getX st' (cellX cfg alias (nm inst.out)) = some (envV v (pre ++ [inst]) inst.out) := by
  have hrd : ∀ x ∈ inst.op.inputs,
      readX (touchX st (cellX cfg alias (nm inst.out))) (cellX cfg alias (nm x)) = .ok (envV v pre x) := by
    intro x hx
    unfold readX
    rw [getX_touchX _ _ _ _ (h x (inputs_live inst suf x hx))]
  have hev := evalX_ok nm (fun n => readX (touchX st (cellX cfg alias (nm inst.out))) (cellX cfg alias n))
    (envV v pre) inst.op hrd
  refine ⟨updX (touchX st (cellX cfg alias (nm inst.out))) (cellX cfg alias (nm inst.out))
    (opVal (envV v pre) inst.op), ?_, ?_, ?_⟩
  · simp only [execInstX, nameInst, hev]
  · intro i hi
    rw [getX_updX, envV_snoc]
    by_cases hio : i = inst.out
    · subst hio; simp [stepVal, upd]
    · rw [if_neg (hdist i hi hio)]
      rw [getX_touchX _ _ _ _ (h i (live_of_later inst suf i hi hio))]
      simp [stepVal, upd, hio]
  · rw [getX_updX, envV_snoc]
    simp [stepVal, upd]

theorem execX_append (cfg : Cfg α) (alias : Bool) : ∀ (p q : List (NInst α)) (st st1 : RegsX α),
    execX cfg alias p st = .ok st1 → execX cfg alias (p ++ q) st = execX cfg alias q st1 := by
  intro p
  induction p with
  | nil => intro q st st1 h; simp only [execX] at h; cases h; rfl
  | cons i r ih =>
    intro q st st1 h
    simp only [execX, List.cons_append] at h ⊢
    cases he : execInstX cfg alias st i with
    | error e => rw [he] at h; cases h
    | ok st' => rw [he] at h; simp only [] at h ⊢; exact ih q st' st1 h

theorem simX_run (cfg : Cfg α) (alias : Bool) (v : Int) (nm : Nat → α) (ir : List Inst)
    (hdist : ∀ pre inst suf, ir = pre ++ inst :: suf → ∀ j ∈ liveAt suf, j ≠ inst.out →
      cellX cfg alias (nm j) ≠ cellX cfg alias (nm inst.out)) :
    ∀ (mid pre rest : List Inst) (st : RegsX α), ir = pre ++ mid ++ rest →
    SimX cfg alias v nm pre (mid ++ rest) st →
    ∃ st', execX cfg alias (mid.map (nameInst nm)) st = .ok st' ∧
      SimX cfg alias v nm (pre ++ mid) rest st' := by
  intro mid
  induction mid with
  | nil => intro pre rest st _ h; exact ⟨st, rfl, by simpa using h⟩
  | cons inst mid ih =>
    intro pre rest st hir h
    have hir' : ir = pre ++ inst :: (mid ++ rest) := by simp [hir]
    obtain ⟨st1, he, hs, _⟩ := simX_step cfg alias v nm pre inst (mid ++ rest) st
      (hdist pre inst (mid ++ rest) hir') h
    obtain ⟨st2, he2, hs2⟩ := ih (pre ++ [inst]) rest st1 (by simp [hir]) hs
    refine ⟨st2, ?_, by simpa using hs2⟩
    simp only [List.map_cons, execX, he]
    exact he2

end Sim

/-! ### linearity of the chain values in the input value -/
theorem opVal_linear (e0 e1 : Nat → Int) (v : Int) (h : ∀ i, e1 i = e0 i * v) (op : Op) :
    opVal e1 op = opVal e0 op * v := by
  cases op with
  | add x y => simp only [opVal, h, Int.add_mul]
  | dbl x => simp only [opVal, h, Int.mul_assoc]
  | shl x s => simp only [opVal, h, Int.mul_right_comm]

theorem foldl_stepVal_linear (v : Int) : ∀ (pre : List Inst) (e0 e1 : Nat → Int), (∀ i, e1 i = e0 i * v) →
    ∀ i, pre.foldl stepVal e1 i = pre.foldl stepVal e0 i * v := by
  intro pre
  induction pre with
  | nil => intro e0 e1 h i; exact h i
  | cons a r ih =>
    intro e0 e1 h i
    simp only [List.foldl_cons]
    apply ih
    intro j
    simp only [stepVal, upd]
    split
    · exact opVal_linear e0 e1 v h a.op
    · exact h j

/-- the chain value at every index is the value for input 1 times the input value -/
theorem envV_linear (v : Int) (pre : List Inst) (i : Nat) : envV v pre i = envV 1 pre i * v := by
  unfold envV
  apply foldl_stepVal_linear
  intro j
  simp only [upd]
  split <;> simp

/-! ### the boolean well-formedness check of the property text implies the prototype's `WF` -/
open AC.PeakLive in
theorem wfFrom_sound : ∀ (ir : List Inst) (D : List Nat) (last : Nat), (∀ d ∈ D, d ≤ last) →
    wfFrom D last ir = true →
    WFs ir ∧ StrictOuts ir ∧ (∀ o ∈ outs ir, last < o) ∧ (∀ j ∈ liveAt ir, j = 0 ∨ j ∈ D) := by
  intro ir
  induction ir with
  | nil =>
    intro D last _ _
    exact ⟨trivial, trivial, by intro o ho; simp [outs] at ho, by intro j hj; simp [liveAt] at hj⟩
  | cons a r ih =>
    intro D last hD h
    simp only [wfFrom, Bool.and_eq_true, decide_eq_true_eq, List.all_eq_true, Bool.or_eq_true,
      beq_iff_eq, List.contains_iff_mem] at h
    obtain ⟨⟨hlt, hin⟩, hrec⟩ := h
    have hD' : ∀ d ∈ a.out :: D, d ≤ a.out := by
      intro d hd
      rcases List.mem_cons.mp hd with rfl | hd
      · exact Nat.le_refl _
      · have := hD d hd; omega
    obtain ⟨hw, hs, ho, hl⟩ := ih (a.out :: D) a.out hD' hrec
    have hinlt : ∀ x ∈ a.op.inputs, x < a.out := by
      intro x hx
      rcases hin x hx with h0 | hd
      · omega
      · have := hD x hd; omega
    refine ⟨⟨?_, ?_, hw⟩, ?_, ?_, ?_⟩
    · intro hm; have := ho _ hm; omega
    · intro x hx
      have := hinlt x hx
      refine ⟨by omega, ?_⟩
      intro hm; have := ho _ hm; omega
    · cases r with
      | nil => show 1 ≤ a.out; omega
      | cons b r' =>
        refine ⟨by omega, ?_, hs⟩
        exact ho b.out (by simp [outs])
    · intro o hm
      simp only [outs, List.map_cons, List.mem_cons] at hm
      rcases hm with rfl | hm
      · exact hlt
      · have := ho o (by simpa [outs] using hm); omega
    · intro j hj
      simp only [liveAt, liveBefore', List.mem_append, List.mem_reverse, List.mem_filter] at hj
      rcases hj with hj | ⟨hj, hne⟩
      · exact hin j hj
      · rcases hl j hj with h0 | hd
        · exact Or.inl h0
        · rcases List.mem_cons.mp hd with rfl | hd
          · simp at hne
          · exact Or.inr hd

theorem wf_of_wfB (ir : List Inst) (h : AC.PeakLive.wfB ir = true) (hne : ir ≠ []) : WF ir := by
  obtain ⟨hw, hs, _, hl⟩ := wfFrom_sound ir [] 0 (by intro d hd; cases hd) h
  refine ⟨hw, hs, ?_, hne⟩
  intro i hi
  rcases hl i hi with h | h
  · exact h
  · cases h

/-! ### the result of the last instruction is named by the output name -/
theorem regOf_last (init : List Inst) (last : Inst) (hwf : WF (init ++ [last])) :
    regOf (init ++ [last]) last.out = .z := by
  have hpos : 1 ≤ last.out := strictOuts_pos _ hwf.outs last.out (by simp [outs])
  unfold regOf
  have hlo : lastOut (init ++ [last]) = last.out := lastOut_snoc init last
  have hlir : lastInputRead (init ++ [last]) ≤ last.out := by
    have : lastInputRead (init ++ [last]) = lirFold 0 (init ++ [last]) := rfl
    rw [this]
    exact lirFold_le _ 0 last.out (by omega) (strictOuts_last_ge init last hwf.outs)
  simp only [show last.out ≠ 0 by omega, if_false, hlo]
  rw [if_pos ⟨trivial, hlir⟩]

/-! ### shape of the allocator's result -/
theorem allocateX_eq {α} (cfg : Cfg α) (ir : List Inst) (hne : ir ≠ []) :
    allocateX cfg ir = .ok (ir.map (nameInst (nameX cfg ir)),
      tempsOf cfg (buildA (regOf ir) (indexes ir))) := by
  unfold allocateX
  have : ir.isEmpty = false := by cases ir <;> simp_all
  simp only [this]
  rfl

theorem nameOp_inputs {α} (nm : Nat → α) (op : Op) : (nameOp nm op).inputs = op.inputs.map nm := by
  cases op <;> rfl

theorem usedNames_map {α} (nm : Nat → α) (ir : List Inst) :
    usedNames (ir.map (nameInst nm)) = (operandIdx ir).map nm := by
  induction ir with
  | nil => rfl
  | cons a r ih =>
    simp only [usedNames, operandIdx, List.map_cons, List.flatMap_cons, List.map_append] at ih ⊢
    rw [ih]
    simp [nameInst, nameOp_inputs]

end AC.AllocX
