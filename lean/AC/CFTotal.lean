import AC.CFProof
/-! C08/C15 prototype: the continued-fraction recursion terminates (fuel suffices) for every
    strategy whose proposals lie in [2, n). -/
namespace P

/-! ### more fuel never hurts -/
theorem cf_mono (s : Strategy) : ∀ f : Nat,
    (∀ n c, minchain s f n = some c → minchain s (f + 1) n = some c) ∧
    (∀ n ks best c, minLoop s f n ks best = some c → minLoop s (f + 1) n ks best = some c) ∧
    (∀ ns c, chain s f ns = some c → chain s (f + 1) ns = some c) := by
  intro f
  induction f with
  | zero =>
    refine ⟨?_, ?_, ?_⟩
    · intro n c h; simp [minchain] at h
    · intro n ks best c h; simp [minLoop] at h
    · intro ns c h; simp [chain] at h
  | succ f ih =>
    obtain ⟨ihM, ihL, ihC⟩ := ih
    refine ⟨?_, ?_, ?_⟩
    · intro n c h
      rw [minchain] at h ⊢
      split
      · rename_i hp; simp [hp] at h; rw [h]
      · rename_i hp
        simp only [hp, Bool.false_eq_true, if_false] at h
        split
        · rename_i h3; simp [h3] at h; rw [h]
        · rename_i h3
          simp only [h3, if_false] at h
          exact ihL n _ none c h
    · intro n ks best c h
      cases ks with
      | nil => rw [minLoop] at h ⊢; exact h
      | cons k ks =>
        rw [minLoop] at h ⊢
        split
        · rename_i hk
          simp only [hk, if_true] at h
          cases hc : chain s f [k, n] with
          | none => rw [hc] at h; cases h
          | some c1 =>
            rw [hc] at h
            simp only [] at h
            rw [ihC _ _ hc]
            simp only []
            exact ihL n ks _ c h
        · rename_i hk; simp [hk] at h
    · intro ns c h
      rw [chain] at h ⊢
      simp only [] at h ⊢
      split
      · rename_i hd; simp only [hd, if_true] at h; exact ihM _ c h
      · rename_i hd
        simp only [hd, if_false] at h
        cases hq : minchain s f (ns.getLastD 0 / ns.dropLast.getLastD 0) with
        | none => rw [hq] at h; cases h
        | some cq =>
          rw [hq] at h
          simp only [] at h
          rw [ihM _ _ hq]
          simp only []
          split
          · rename_i hr
            simp only [hr, if_true] at h
            cases hc' : chain s f ns.dropLast with
            | none => rw [hc'] at h; cases h
            | some c' => rw [hc'] at h; rw [ihC _ _ hc']; exact h
          · rename_i hr
            simp only [hr, if_false] at h
            cases hc' : chain s f (insertSortedUnique ns.dropLast (ns.getLastD 0 % ns.dropLast.getLastD 0)) with
            | none => rw [hc'] at h; cases h
            | some c' => rw [hc'] at h; rw [ihC _ _ hc']; exact h

theorem minchain_mono_add (s : Strategy) (f k : Nat) (n : Int) (c : List Int) (h : minchain s f n = some c) :
    minchain s (f + k) n = some c := by
  induction k with
  | zero => exact h
  | succ k ih => exact (cf_mono s (f + k)).1 n c ih
theorem chain_mono_add (s : Strategy) (f k : Nat) (ns c : List Int) (h : chain s f ns = some c) :
    chain s (f + k) ns = some c := by
  induction k with
  | zero => exact h
  | succ k ih => exact (cf_mono s (f + k)).2.2 ns c ih
theorem minLoop_mono_add (s : Strategy) (f k : Nat) (n : Int) (ks : List Int) (best : Option (List Int))
    (c : List Int) (h : minLoop s f n ks best = some c) : minLoop s (f + k) n ks best = some c := by
  induction k with
  | zero => exact h
  | succ k ih => exact (cf_mono s (f + k)).2.1 n ks best c ih


/-! ### enough fuel exists -/
def StratOK (s : Strategy) : Prop :=
  ∀ n : Int, 5 ≤ n → isPow2 n = false → s.K n ≠ [] ∧ ∀ k ∈ s.K n, 2 ≤ k ∧ k < n

theorem isPow2_small (n : Int) (h1 : 1 ≤ n) (h4 : n ≤ 4) (h3 : n ≠ 3) : isPow2 n = true := by
  have : n = 1 ∨ n = 2 ∨ n = 4 := by omega
  rcases this with rfl | rfl | rfl <;> decide

/-- existence of `chain [k, n]` from the two induction hypotheses at the smaller bound -/
theorem chain_pair_exists (s : Strategy) (N : Nat) (n k : Int) (hk2 : 2 ≤ k) (hkn : k < n) (hnN : n ≤ N + 1)
    (A : ∀ m : Int, 1 ≤ m → m ≤ N → ∃ f c, minchain s f m = some c)
    (B : ∀ ns : List Int, ns ≠ [] → ns.Pairwise (· ≤ ·) → (∀ x ∈ ns, 1 ≤ x) → ns.getLastD 0 ≤ N →
      ∃ f c, chain s f ns = some c) :
    ∃ f c, chain s f [k, n] = some c := by
  have hq1 : 1 ≤ n / k := Int.le_ediv_of_mul_le (by omega) (by omega)
  have hqN : n / k ≤ N := by
    have h1 : n / k * k ≤ n := Int.ediv_mul_le n (by omega)
    have h2 : n / k * 2 ≤ n / k * k := Int.mul_le_mul_of_nonneg_left hk2 (by omega)
    omega
  obtain ⟨f1, cq, hcq⟩ := A (n / k) hq1 hqN
  have hr0 : 0 ≤ n % k := Int.emod_nonneg n (by omega)
  have hrk : n % k < k := Int.emod_lt_of_pos n (by omega)
  by_cases hr : n % k = 0
  · obtain ⟨f2, c2, hc2⟩ := B [k] (by simp) (by simp) (by intro x hx; simp at hx; omega)
      (by simp [List.getLastD]; omega)
    refine ⟨(f1 + f2) + 1, product c2 cq, ?_⟩
    rw [chain]
    simp only [List.getLastD, List.dropLast]
    have hnd : ¬ ([k] = [] ∨ k ≤ 1) := by simp; omega
    simp only [List.getLast?, List.getLast, hnd, if_false, List.getLastD]
    rw [minchain_mono_add s f1 f2 _ _ hcq]
    simp only [hr, if_true]
    have := chain_mono_add s f2 f1 _ _ hc2
    rw [Nat.add_comm] at this
    rw [this]; rfl
  · have hins : insertSortedUnique [k] (n % k) = [n % k, k] := by
      unfold insertSortedUnique
      rw [mergeUnique]
      simp [hrk, mergeUnique]
    obtain ⟨f2, c2, hc2⟩ := B [n % k, k] (by simp) (by simp; omega)
      (by intro x hx; simp at hx; rcases hx with rfl | rfl <;> omega) (by simp [List.getLastD]; omega)
    refine ⟨(f1 + f2) + 1, plus (product c2 cq) (n % k), ?_⟩
    rw [chain]
    simp only [List.getLastD, List.dropLast]
    have hnd : ¬ ([k] = [] ∨ k ≤ 1) := by simp; omega
    simp only [List.getLast?, List.getLast, hnd, if_false, List.getLastD]
    rw [minchain_mono_add s f1 f2 _ _ hcq]
    simp only [hr, if_false, hins]
    have := chain_mono_add s f2 f1 _ _ hc2
    rw [Nat.add_comm] at this
    rw [this]; rfl


theorem better_ne_none (best : Option (List Int)) (c : List Int) : better best c ≠ none := by
  unfold better
  cases best with
  | none => simp
  | some m => simp only []; split <;> simp

theorem minLoop_exists (s : Strategy) (n : Int)
    (P : ∀ k : Int, 2 ≤ k → k < n → ∃ f c, chain s f [k, n] = some c) :
    ∀ (ks : List Int) (best : Option (List Int)), (ks ≠ [] ∨ best ≠ none) → (∀ k ∈ ks, 2 ≤ k ∧ k < n) →
    ∃ f c, minLoop s f n ks best = some c := by
  intro ks
  induction ks with
  | nil =>
    intro best h _
    rcases h with h | h
    · exact absurd rfl h
    · cases best with
      | none => exact absurd rfl h
      | some b => exact ⟨1, b, by simp [minLoop]⟩
  | cons k ks ih =>
    intro best _ hk
    obtain ⟨hk2, hkn⟩ := hk k (by simp)
    obtain ⟨f1, c1, hc1⟩ := P k hk2 hkn
    obtain ⟨f2, c2, hc2⟩ := ih (better best c1) (Or.inr (better_ne_none best c1))
      (fun k' hk' => hk k' (List.mem_cons_of_mem _ hk'))
    refine ⟨(f1 + f2) + 1, c2, ?_⟩
    rw [minLoop]
    simp only [hk2, hkn, and_self, if_true]
    rw [chain_mono_add s f1 f2 _ _ hc1]
    simp only []
    have := minLoop_mono_add s f2 f1 n ks _ c2 hc2
    rw [Nat.add_comm] at this
    exact this

theorem cf_exists (s : Strategy) (hs : StratOK s) : ∀ N : Nat,
    (∀ n : Int, 1 ≤ n → n ≤ N → ∃ f c, minchain s f n = some c) ∧
    (∀ ns : List Int, ns ≠ [] → ns.Pairwise (· ≤ ·) → (∀ x ∈ ns, 1 ≤ x) → ns.getLastD 0 ≤ N →
      ∃ f c, chain s f ns = some c) := by
  intro N
  induction N with
  | zero =>
    refine ⟨by intro n h1 h2; omega, ?_⟩
    intro ns hne _ hpos hl
    have := hpos _ (getLastD_mem ns hne)
    omega
  | succ N ih =>
    obtain ⟨A, B⟩ := ih
    -- A(N+1)
    have A' : ∀ n : Int, 1 ≤ n → n ≤ (N + 1 : Nat) → ∃ f c, minchain s f n = some c := by
      intro n h1 hN
      by_cases hp : isPow2 n = true
      · exact ⟨1, pow2UpTo n, by simp [minchain, hp]⟩
      · by_cases h3 : n = 3
        · refine ⟨1, [1, 2, 3], ?_⟩
          subst h3
          rw [minchain]
          have : isPow2 3 = false := by decide
          simp [this]
        · have hp' : isPow2 n = false := by simpa using hp
          have h5 : 5 ≤ n := by
            by_cases h4 : n ≤ 4
            · rw [isPow2_small n h1 h4 h3] at hp'; cases hp'
            · omega
          obtain ⟨hKne, hK⟩ := hs n h5 hp'
          obtain ⟨f, c, hc⟩ := minLoop_exists s n
            (fun k hk2 hkn => chain_pair_exists s N n k hk2 hkn (by exact_mod_cast hN) A B)
            (s.K n) none (Or.inl hKne) hK
          refine ⟨f + 1, c, ?_⟩
          rw [minchain]
          simp only [hp', Bool.false_eq_true, if_false, h3]
          exact hc
    refine ⟨A', ?_⟩
    -- B(N+1), by induction on the length for repeated maxima
    intro ns
    induction hlen : ns.length using Nat.strongRecOn generalizing ns with
    | _ len ihlen =>
      intro hne hsorted hpos hl
      have hnmem := getLastD_mem ns hne
      obtain ⟨hrsorted, hrle⟩ := le_last_of_pairwise_le ns hsorted hne
      have hsplit := dropLast_concat_getLastD ns hne
      have hn1 := hpos _ hnmem
      by_cases hdeg : ns.dropLast = [] ∨ ns.dropLast.getLastD 0 ≤ 1
      · obtain ⟨f, c, hc⟩ := A' (ns.getLastD 0) hn1 hl
        refine ⟨f + 1, c, ?_⟩
        rw [chain]
        simp only [hdeg, if_true]
        exact hc
      · have hrne : ns.dropLast ≠ [] := fun e => hdeg (Or.inl e)
        have hm2 : ¬ ns.dropLast.getLastD 0 ≤ 1 := fun e => hdeg (Or.inr e)
        have hmmem := getLastD_mem ns.dropLast hrne
        have hmn := hrle _ hmmem
        have hrpos : ∀ x ∈ ns.dropLast, 1 ≤ x := fun x hx => hpos x (List.dropLast_subset _ hx)
        generalize hn : ns.getLastD 0 = n at *
        generalize hm : ns.dropLast.getLastD 0 = m at *
        have hq1 : 1 ≤ n / m := Int.le_ediv_of_mul_le (by omega) (by omega)
        have hqn : n / m ≤ n := by
          have h1 : n / m * m ≤ n := Int.ediv_mul_le n (by omega)
          have h2 : n / m * 1 ≤ n / m * m := Int.mul_le_mul_of_nonneg_left (by omega) (by omega)
          omega
        obtain ⟨f1, cq, hcq⟩ := A' (n / m) hq1 (by omega)
        have hdm : m * (n / m) + n % m = n := Int.mul_ediv_add_emod n m
        have hr0 : 0 ≤ n % m := Int.emod_nonneg n (by omega)
        have hrm : n % m < m := Int.emod_lt_of_pos n (by omega)
        by_cases hr : n % m = 0
        · -- remainder zero: recurse on the shorter list (its maximum may still be N+1)
          have hlenr : ns.dropLast.length < len := by
            rw [← hlen]; simp
            have := List.length_pos_iff.mpr hne; omega
          obtain ⟨f2, c2, hc2⟩ := ihlen _ hlenr ns.dropLast rfl hrne hrsorted hrpos (by rw [hm]; omega)
          refine ⟨(f1 + f2) + 1, product c2 cq, ?_⟩
          rw [chain]
          simp only [hdeg, if_false, hn, hm]
          rw [minchain_mono_add s f1 f2 _ _ hcq]
          simp only [hr, if_true]
          have := chain_mono_add s f2 f1 _ _ hc2
          rw [Nat.add_comm] at this
          rw [this]; rfl
        · -- remainder positive: the new maximum m is strictly below n
          have hmlt : m < n := by
            have : m * 1 ≤ m * (n / m) := Int.mul_le_mul_of_nonneg_left hq1 (by omega)
            omega
          obtain ⟨is1, is2, is3⟩ := insert_le_spec ns.dropLast (n % m) hrne hrsorted (by rw [hm]; exact hrm)
          have hpos' : ∀ x ∈ insertSortedUnique ns.dropLast (n % m), 1 ≤ x := by
            intro x hx
            rcases (mem_mergeUnique _ _ _).1 hx with h' | h'
            · simp at h'; omega
            · exact hrpos x h'
          obtain ⟨f2, c2, hc2⟩ := B _ is3 is1 hpos' (by rw [is2, hm]; omega)
          refine ⟨(f1 + f2) + 1, plus (product c2 cq) (n % m), ?_⟩
          rw [chain]
          simp only [hdeg, if_false, hn, hm]
          rw [minchain_mono_add s f1 f2 _ _ hcq]
          simp only [hr, if_false]
          have := chain_mono_add s f2 f1 _ _ hc2
          rw [Nat.add_comm] at this
          rw [this]; rfl

/-- **C08, continued fractions, with termination**: for a strategy whose proposals lie in
    `[2, n)`, `FindSequence` returns a valid chain containing every target. -/
theorem contfrac_total (s : Strategy) (hs : StratOK s) (targets : List Int) (hne : targets ≠ [])
    (hpos : ∀ x ∈ targets, 1 ≤ x) :
    ∃ f c, chain s f (targets.mergeSort (fun a b => a ≤ b)) = some c ∧ IsChain c ∧ ∀ x ∈ targets, x ∈ c := by
  have hperm := List.mergeSort_perm targets (fun a b => decide (a ≤ b))
  have hsorted : (targets.mergeSort (fun a b => decide (a ≤ b))).Pairwise (· ≤ ·) := by
    have := List.pairwise_mergeSort (le := fun (a b : Int) => decide (a ≤ b))
      (by intro a b c h1 h2; simp at *; omega) (by intro a b; simp; omega) targets
    simpa using this
  have hne' : targets.mergeSort (fun a b => decide (a ≤ b)) ≠ [] := by
    intro e; rw [e] at hperm; exact hne (List.Perm.eq_nil hperm.symm)
  have hpos' : ∀ x ∈ targets.mergeSort (fun a b => decide (a ≤ b)), 1 ≤ x :=
    fun x hx => hpos x (hperm.mem_iff.1 hx)
  have hl1 := hpos' _ (getLastD_mem _ hne')
  obtain ⟨f, c, hc⟩ := (cf_exists s hs ((targets.mergeSort (fun a b => decide (a ≤ b))).getLastD 0).toNat).2
    _ hne' hsorted hpos' (by omega)
  exact ⟨f, c, hc, contfrac_ok s f targets c hne hpos hc⟩

end P
