import AC.Hybrid
/-! C09 prototype: in the hybrid decomposition a sliding-window term never overlaps a long run. -/
namespace P.Bits

/-- what is left of the low `ip` bits of `x` after the long runs found below `ip` are cleared -/
def yLow (x K T : Nat) (fuel ip : Nat) : Nat := x % 2 ^ ip - value (hyRuns x K T fuel ip)

/-- the cleared positions: union of the ranges of the long runs below `ip` -/
def inRun (x K T : Nat) (fuel ip : Nat) (i : Nat) : Prop :=
  ∃ t ∈ hyRuns x K T fuel ip, ∃ n, t.d = 2 ^ n - 1 ∧ t.e ≤ i ∧ i < t.e + n

/-- bits of the remainder: a cleared position holds 0 -/
theorem yLow_clear (x K T : Nat) : ∀ (fuel ip : Nat), ip ≤ fuel →
    yLow x K T fuel ip < 2 ^ ip ∧
    ∀ t ∈ hyRuns x K T fuel ip, ∀ n, t.d = 2 ^ n - 1 → 1 ≤ n → ∀ i, t.e ≤ i → i < t.e + n →
      (yLow x K T fuel ip).testBit i = false := by
  intro fuel
  induction fuel with
  | zero =>
    intro ip h
    have : ip = 0 := by omega
    subst this
    simp [yLow, hyRuns, value, Nat.mod_one]
  | succ f ih =>
    intro ip h
    cases ip with
    | zero => simp [yLow, hyRuns, value, Nat.mod_one]
    | succ ip =>
      have hlt0 : yLow x K T (f + 1) (ip + 1) < 2 ^ (ip + 1) := by
        unfold yLow
        have := Nat.mod_lt x (Nat.pow_pos (n := ip + 1) (show 0 < 2 by omega))
        omega
      refine ⟨hlt0, ?_⟩
      unfold yLow hyRuns
      by_cases hb : x.testBit ip = true
      · simp only [hb, if_true]
        obtain ⟨r1, r2, r3⟩ := runDown_spec x T (ip + 1) 0
        have hn1 : 1 ≤ runDown x T (ip + 1) 0 := by
          unfold runDown
          have : (x.testBit ip && (T == 0 || decide (0 < T))) = true := by simp [hb]; omega
          simp [this]
        generalize hnn : runDown x T (ip + 1) 0 = n at *
        generalize hl : ip + 1 - n = l at *
        obtain ⟨ihlt, ihc⟩ := ih l (by omega)
        obtain ⟨hle, _, _⟩ := hyRuns_spec x K T f l (by omega)
        have hsplit : x % 2 ^ (ip + 1) = x % 2 ^ l + 2 ^ l * (x / 2 ^ l % 2 ^ n) := by
          have : 2 ^ (ip + 1) = 2 ^ l * 2 ^ n := by rw [← Nat.pow_add]; congr 1; omega
          rw [this, Nat.mod_mul]
        have hones : x / 2 ^ l % 2 ^ n = 2 ^ n - 1 := by
          apply mod_all_ones
          intro j hj
          rw [Nat.testBit_div_two_pow]
          have := r2 (n - 1 - j) (by omega)
          have e : ip + 1 - 1 - (n - 1 - j) = j + l := by omega
          rw [e] at this; exact this
        by_cases hshort : n ≤ K
        · -- short run: kept in the remainder; the cleared positions are those found below l
          simp only [hshort, if_true]
          intro t ht m hm hm1 i hi1 hi2
          have hbit := ihc t ht m hm hm1 i hi1 hi2
          -- the remainder is yLow(l) + 2^l * (2^n - 1); below l its bits are those of yLow(l)
          obtain ⟨_, tinfo, _⟩ := hyRuns_spec x K T f l (by omega)
          obtain ⟨m', _, hm', _, hlt'⟩ := tinfo t ht
          have hmm : m = m' := by
            have : 2 ^ m - 1 = 2 ^ m' - 1 := by rw [← hm, ← hm']
            have h1 : 0 < 2 ^ m := Nat.pow_pos (by omega)
            have h2 : 0 < 2 ^ m' := Nat.pow_pos (by omega)
            exact (Nat.pow_right_inj (show 1 < 2 by omega)).1 (by omega)
          subst hmm
          -- i < l because the run lies below 2^l
          have hil : i < l := by
            apply Classical.byContradiction
            intro hc
            have hpl : 2 ^ l ≤ 2 ^ i := Nat.pow_le_pow_right (by omega) (by omega)
            have hpm : 2 ^ (i - t.e) < 2 ^ m := Nat.pow_lt_pow_right (by omega) (by omega)
            have h1 : 2 ^ (i - t.e) ≤ t.d := by rw [hm]; omega
            have h2 : 2 ^ (i - t.e) * 2 ^ t.e ≤ t.d * 2 ^ t.e := Nat.mul_le_mul_right _ h1
            have h3 : 2 ^ (i - t.e) * 2 ^ t.e = 2 ^ i := by rw [← Nat.pow_add]; congr 1; omega
            omega
          have heq : x % 2 ^ (ip + 1) - value (hyRuns x K T f l)
              = yLow x K T f l + 2 ^ l * (2 ^ n - 1) := by
            unfold yLow; rw [hsplit, hones]; omega
          rw [heq]
          have : (yLow x K T f l + 2 ^ l * (2 ^ n - 1)) % 2 ^ l = yLow x K T f l := by
            rw [Nat.add_mul_mod_self_left]; exact Nat.mod_eq_of_lt ihlt
          have hb2 := Nat.testBit_mod_two_pow (yLow x K T f l + 2 ^ l * (2 ^ n - 1)) l i
          rw [this] at hb2
          simp only [hil, decide_true, Bool.true_and] at hb2
          rw [← hb2]; exact hbit
        · -- long run: cleared; the remainder below ip+1 equals the remainder below l
          simp only [hshort, if_false]
          have heq : x % 2 ^ (ip + 1) - value (⟨2 ^ n - 1, l⟩ :: hyRuns x K T f l) = yLow x K T f l := by
            unfold yLow
            simp only [value, List.map_cons, List.sum_cons]
            rw [hsplit, hones, Nat.mul_comm (2 ^ l)]
            simp only [value] at hle
            omega
          rw [heq]
          intro t ht m hm hm1 i hi1 hi2
          rcases List.mem_cons.mp ht with rfl | ht
          · -- the new run: positions ≥ l hold 0 because the remainder is below 2^l
            apply Nat.testBit_lt_two_pow
            have : 2 ^ l ≤ 2 ^ i := Nat.pow_le_pow_right (by omega) hi1
            omega
          · exact ihc t ht m hm hm1 i hi1 hi2
      · simp only [hb, Bool.false_eq_true, if_false]
        obtain ⟨ihlt, ihc⟩ := ih ip (by omega)
        have hmod : x % 2 ^ (ip + 1) = x % 2 ^ ip := by rw [mod_succ_of_bit]; simp [hb]
        rw [hmod]
        exact ihc


/-- both ends of a sliding window are set bits, and it is at most `K` wide -/
theorem sliding_ends (y K : Nat) (hK : 1 ≤ K) : ∀ (fuel hp : Nat), hp ≤ fuel →
    ∀ t ∈ sliding y K fuel hp, ∃ w, 1 ≤ w ∧ w ≤ K ∧ y.testBit t.e = true ∧ y.testBit (t.e + w - 1) = true ∧
      t.d < 2 ^ w := by
  intro fuel
  induction fuel with
  | zero => intro hp h t ht; have : hp = 0 := by omega
            subst this; simp [sliding] at ht
  | succ f ih =>
    intro hp h t ht
    cases hp with
    | zero => simp [sliding] at ht
    | succ hp =>
      unfold sliding at ht
      by_cases hb : y.testBit hp = true
      · simp only [hb, if_true] at ht
        obtain ⟨hl0, hltop, hlbit⟩ := advance_spec y hp hb (hp - (hp + 1 - K)) (hp + 1 - K) (by omega) (by omega)
        generalize advance y (hp - (hp + 1 - K)) (hp + 1 - K) = l at *
        rcases List.mem_cons.mp ht with rfl | ht
        · refine ⟨hp + 1 - l, by omega, by omega, hlbit, ?_, Nat.mod_lt _ (Nat.pow_pos (by omega))⟩
          have : l + (hp + 1 - l) - 1 = hp := by omega
          simp only []
          rw [this]; exact hb
        · exact ih l (by omega) t ht
      · simp only [hb, Bool.false_eq_true, if_false] at ht
        exact ih hp (by omega) t ht

/-- **C09, hybrid, non-overlap across the two groups**: a sliding-window term of the remainder and
    a long run occupy disjoint bit ranges. -/
theorem hybrid_disjoint (x K T : Nat) (hK : 1 ≤ K) :
    let L := Nat.log2 x + 1
    let y := yLow x K T L L
    ∀ r ∈ hyRuns x K T L L, ∀ n, r.d = 2 ^ n - 1 → K < n →
    ∀ s ∈ sliding y K L L, ∃ w, s.d < 2 ^ w ∧ (r.e + n ≤ s.e ∨ s.e + w ≤ r.e) := by
  intro L y r hr n hn hnK s hs
  obtain ⟨_, hclear⟩ := yLow_clear x K T L L (Nat.le_refl _)
  obtain ⟨w, hw1, hwK, hlo, hhi, hdw⟩ := sliding_ends y K hK L L (Nat.le_refl _) s hs
  refine ⟨w, hdw, ?_⟩
  -- the two ends of the window are set bits of y, so neither lies in the cleared range
  have hzero : ∀ i, r.e ≤ i → i < r.e + n → y.testBit i = false :=
    fun i h1 h2 => hclear r hr n hn (by omega) i h1 h2
  apply Classical.byContradiction
  intro hc
  have h1 : ¬ (r.e ≤ s.e ∧ s.e < r.e + n) := by
    rintro ⟨a, b⟩; have := hzero s.e a b; rw [hlo] at this; cases this
  have h2 : ¬ (r.e ≤ s.e + w - 1 ∧ s.e + w - 1 < r.e + n) := by
    rintro ⟨a, b⟩; have := hzero (s.e + w - 1) a b; rw [hhi] at this; cases this
  omega

end P.Bits
