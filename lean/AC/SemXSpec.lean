import AC.SemXSim
/-! # C03: lemmas that make `denote` readable as the property text, and the rejection lemmas -/
namespace P.SemX

/-- an index that has been computed in state `st` -/
def St.has (st : St) (a : Int) : Prop := 0 ≤ a ∧ a < st.chain.length

/-! ## one addition step -/

theorem step_ok (st : St) (a b : Int) (ha : st.has a) (hb : st.has b) :
    step st a b =
      some ((⟨st.chain ++ [st.val a + st.val b],
              st.ops ++ [((min a b).toNat, (max a b).toNat)]⟩ : St),
            (st.chain.length : Int)) := by
  unfold step
  rw [if_pos ⟨ha.1, ha.2, hb.1, hb.2⟩]

theorem step_none (st : St) (a b : Int) (h : ¬ st.has a ∨ ¬ st.has b) : step st a b = none := by
  unfold step
  rw [if_neg]
  intro hc
  rcases h with h | h
  · exact h ⟨hc.1, hc.2.1⟩
  · exact h ⟨hc.2.2.1, hc.2.2.2⟩

theorem step_chain {st st' : St} {a b k : Int} (h : step st a b = some (st', k)) :
    st'.chain = st.chain ++ [st.val a + st.val b] ∧ k = st.chain.length ∧ st.has a ∧ st.has b := by
  unfold step at h
  split at h
  · next hc =>
    cases h
    exact ⟨rfl, rfl, ⟨hc.1, hc.2.1⟩, ⟨hc.2.2.1, hc.2.2.2⟩⟩
  · cases h

/-- value of the element just appended -/
theorem val_append_last (c : List Nat) (ops : Prog) (v : Nat) :
    (St.mk (c ++ [v]) ops).val (c.length : Int) = v := by
  simp [St.val]

theorem val_append_old (c : List Nat) (ops ops' : Prog) (v : Nat) (a : Int)
    (h : (St.mk c ops).has a) : (St.mk (c ++ [v]) ops').val a = (St.mk c ops).val a := by
  obtain ⟨h1, h2⟩ := h
  simp only [St.val]
  have : a.toNat < c.length := by simp at h2; omega
  rw [List.getD_eq_getElem?_getD, List.getD_eq_getElem?_getD, List.getElem?_append_left this]

/-! ## `s` successive doublings -/

theorem pow_list (v s : Nat) :
    [v + v] ++ (List.range s).map (fun k => 2 ^ (k+1) * (v + v))
      = (List.range (s+1)).map (fun k => 2 ^ (k+1) * v) := by
  rw [List.range_succ_eq_map]
  simp only [List.map_cons, List.map_map, List.singleton_append]
  congr 1
  · omega
  · apply List.map_congr_left
    intro k _
    simp only [Function.comp]
    have : 2 ^ (k.succ + 1) = 2 ^ (k + 1) * 2 := Nat.pow_succ 2 (k + 1)
    rw [this, Nat.mul_assoc]
    congr 1
    omega

theorem doubles_spec : ∀ (s : Nat) (st : St) (a : Int), st.has a →
    ∃ ops', doubles (s+1) st a =
      some ((⟨st.chain ++ (List.range (s+1)).map (fun k => 2 ^ (k+1) * st.val a), ops'⟩ : St),
            (st.chain.length : Int) + s) := by
  intro s
  induction s with
  | zero =>
    intro st a ha
    refine ⟨st.ops ++ [((min a a).toNat, (max a a).toNat)], ?_⟩
    simp only [doubles, step_ok st a a ha ha]
    have : st.val a + st.val a = 2 * st.val a := by omega
    simp [List.range_succ, this]
  | succ s ih =>
    intro st a ha
    rw [doubles, step_ok st a a ha ha]
    simp only []
    have hk : (St.mk (st.chain ++ [st.val a + st.val a])
        (st.ops ++ [((min a a).toNat, (max a a).toNat)])).has (st.chain.length : Int) := by
      constructor
      · omega
      · show (st.chain.length : Int) < ((st.chain ++ [st.val a + st.val a]).length : Nat)
        simp only [List.length_append, List.length_singleton]
        omega
    obtain ⟨ops', h⟩ := ih _ _ hk
    refine ⟨ops', ?_⟩
    rw [h]
    have hv := val_append_last st.chain (st.ops ++ [((min a a).toNat, (max a a).toNat)])
      (st.val a + st.val a)
    rw [hv]
    show some ((⟨(st.chain ++ [st.val a + st.val a]) ++
        (List.range (s+1)).map (fun k => 2 ^ (k+1) * (st.val a + st.val a)), ops'⟩ : St),
        (((st.chain ++ [st.val a + st.val a]).length : Nat) : Int) + (s : Int)) = _
    rw [List.append_assoc, pow_list, List.length_append, List.length_singleton]
    have : (((st.chain.length + 1 : Nat) : Int) + (s : Int)) = (st.chain.length : Int) + ((s + 1 : Nat) : Int) := by
      omega
    rw [this]

theorem doubles_none (s : Nat) (st : St) (a : Int) (h : ¬ st.has a) :
    doubles (s+1) st a = none := by
  rw [doubles, step_none st a a (Or.inl h)]

/-! ## evaluation only ever appends to the chain -/

theorem doubles_prefix : ∀ (s : Nat) (st st' : St) (a k : Int), doubles s st a = some (st', k) →
    ∃ l, st'.chain = st.chain ++ l := by
  intro s
  induction s with
  | zero => intro st st' a k h; simp only [doubles] at h; cases h; exact ⟨[], by simp⟩
  | succ s ih =>
    intro st st' a k h
    rw [doubles] at h
    cases hs : step st a a with
    | none => rw [hs] at h; cases h
    | some r =>
      obtain ⟨st1, a1⟩ := r
      rw [hs] at h
      simp only [] at h
      obtain ⟨l, hl⟩ := ih st1 st' a1 k h
      obtain ⟨hc, _⟩ := step_chain hs
      exact ⟨[st.val a + st.val a] ++ l, by rw [hl, hc, List.append_assoc]⟩

theorem dExpr_prefix (env : Env) : ∀ (e : Expr) (st st' : St) (x : Int),
    dExpr st env e = some (st', x) → ∃ l, st'.chain = st.chain ++ l := by
  intro e
  induction e with
  | operand i => intro st st' x h; simp only [dExpr] at h; cases h; exact ⟨[], by simp⟩
  | ident s =>
    intro st st' x h
    simp only [dExpr] at h
    cases hl : lookup env s with
    | none => rw [hl] at h; cases h
    | some v => rw [hl] at h; cases h; exact ⟨[], by simp⟩
  | add x y ihx ihy =>
    intro st st' k h
    simp only [dExpr] at h
    cases hx : dExpr st env x with
    | none => rw [hx] at h; cases h
    | some r1 =>
      obtain ⟨st1, a⟩ := r1
      rw [hx] at h; simp only [] at h
      cases hy : dExpr st1 env y with
      | none => rw [hy] at h; cases h
      | some r2 =>
        obtain ⟨st2, b⟩ := r2
        rw [hy] at h; simp only [] at h
        obtain ⟨l1, h1⟩ := ihx st st1 a hx
        obtain ⟨l2, h2⟩ := ihy st1 st2 b hy
        obtain ⟨hc, _⟩ := step_chain h
        exact ⟨l1 ++ l2 ++ [st2.val a + st2.val b], by rw [hc, h2, h1]; simp⟩
  | double x ihx =>
    intro st st' k h
    simp only [dExpr] at h
    cases hx : dExpr st env x with
    | none => rw [hx] at h; cases h
    | some r1 =>
      obtain ⟨st1, a⟩ := r1
      rw [hx] at h; simp only [] at h
      obtain ⟨l1, h1⟩ := ihx st st1 a hx
      obtain ⟨hc, _⟩ := step_chain h
      exact ⟨l1 ++ [st1.val a + st1.val a], by rw [hc, h1]; simp⟩
  | shift x s ihx =>
    intro st st' k h
    simp only [dExpr] at h
    cases hx : dExpr st env x with
    | none => rw [hx] at h; cases h
    | some r1 =>
      obtain ⟨st1, a⟩ := r1
      rw [hx] at h; simp only [] at h
      obtain ⟨l1, h1⟩ := ihx st st1 a hx
      by_cases hs : s = 0
      · rw [if_pos hs] at h
        split at h
        · cases h; exact ⟨l1, h1⟩
        · cases h
      · rw [if_neg hs] at h
        obtain ⟨l2, h2⟩ := doubles_prefix s st1 st' a k h
        exact ⟨l1 ++ l2, by rw [h2, h1]; simp⟩

theorem dStmts_prefix : ∀ (ss : List Stmt) (st st' : St) (env : Env),
    dStmts st env ss = some st' → ∃ l, st'.chain = st.chain ++ l := by
  intro ss
  induction ss with
  | nil => intro st st' env h; simp only [dStmts] at h; cases h; exact ⟨[], by simp⟩
  | cons s r ih =>
    intro st st' env h
    simp only [dStmts] at h
    cases he : dExpr st env s.e with
    | none => rw [he] at h; cases h
    | some r1 =>
      obtain ⟨st1, x⟩ := r1
      rw [he] at h; simp only [] at h
      cases hl : lookup env s.name with
      | some v => rw [hl] at h; cases h
      | none =>
        rw [hl] at h; simp only [] at h
        obtain ⟨l1, h1⟩ := dExpr_prefix env s.e st st1 x he
        obtain ⟨l2, h2⟩ := ih st1 st' _ h
        exact ⟨l1 ++ l2, by rw [h2, h1]; simp⟩

/-! ## names -/

theorem lookup_cons_self (env : Env) (s : String) (x : Int) : lookup ((s, x) :: env) s = some x := by
  simp [lookup, List.find?]

theorem lookup_cons_ne (env : Env) (s s' : String) (x : Int) (h : s ≠ s') :
    lookup ((s, x) :: env) s' = lookup env s' := by
  have : (s == s') = false := by simp [h]
  simp [lookup, List.find?, this]

/-! ## the output-index cross-check fires only for a shift by 0 -/

def hasShift0 : Expr → Bool
  | .operand _ => false
  | .ident _ => false
  | .add x y => hasShift0 x || hasShift0 y
  | .shift x s => s == 0 || hasShift0 x
  | .double x => hasShift0 x

theorem pAdd_err {p : Prog} {i j : Int} {e : Err} (h : pAdd p i j = .error e) :
    e = .negindex ∨ e = .bounds := by
  unfold pAdd at h
  repeat' split at h
  all_goals first | (cases h; done) | (cases h; simp)

theorem pShift_err : ∀ (s : Nat) (p : Prog) (i : Int) (e : Err), pShift s p i = .error e →
    e = .negindex ∨ e = .bounds := by
  intro s
  induction s with
  | zero => intro p i e h; simp [pShift] at h
  | succ s ih =>
    intro p i e h
    simp only [pShift] at h
    cases h1 : pAdd p i i with
    | error e1 => rw [h1] at h; cases h; exact pAdd_err h1
    | ok r => obtain ⟨p1, i1⟩ := r; rw [h1] at h; exact ih p1 i1 e h

theorem expr_crosscheck (env : Env) : ∀ (e : Expr) (n : Int) (p : Prog), n = p.length + 1 →
    n + weight e < B63 → ∀ Δ n' x, tExpr env n e = .ok (Δ, n', x) →
    cAll p Δ = .error .outputindex → hasShift0 e = true := by
  intro e
  induction e with
  | operand i =>
    intro n p _ _ Δ n' x h hc
    simp [tExpr] at h; obtain ⟨rfl, _, _⟩ := h
    simp [cAll] at hc
  | ident s =>
    intro n p _ _ Δ n' x h hc
    simp only [tExpr] at h
    cases hl : lookup env s with
    | none => rw [hl] at h; cases h
    | some v => rw [hl] at h; cases h; simp [cAll] at hc
  | add x y ihx ihy =>
    intro n p hn hb Δ n' o h hc
    have hn1' : (1 : Int) ≤ n := by omega
    simp only [weight] at hb
    simp only [tExpr] at h
    cases hx : tExpr env n x with
    | error e1 => rw [hx] at h; cases h
    | ok r1 =>
      obtain ⟨d1, n1, a⟩ := r1
      rw [hx] at h; simp only [] at h
      have en1 := tExpr_n env x n d1 n1 a hn1' (by omega) hx
      cases hy : tExpr env n1 y with
      | error e2 => rw [hy] at h; cases h
      | ok r2 =>
        obtain ⟨d2, n2, b⟩ := r2
        rw [hy] at h; simp only [] at h
        have en2 := tExpr_n env y n1 d2 n2 b (by omega) (by omega) hy
        simp only [Except.ok.injEq, Prod.mk.injEq] at h
        obtain ⟨h1, h2, h3⟩ := h
        subst h1 h2 h3
        simp only [hasShift0, Bool.or_eq_true]
        rw [List.append_assoc, cAll_append] at hc
        cases hc1 : cAll p d1 with
        | error e1 =>
          rw [hc1] at hc; simp only [] at hc
          cases hc
          exact Or.inl (ihx n p hn (by omega) d1 n1 a hx hc1)
        | ok p1 =>
          rw [hc1] at hc; simp only [] at hc
          have hn1 := ((expr_sim env x n p hn (by omega)).2 d1 n1 a hx).2 p1 hc1 |>.2
          rw [cAll_append] at hc
          cases hc2 : cAll p1 d2 with
          | error e2 =>
            rw [hc2] at hc; simp only [] at hc
            cases hc
            exact Or.inr (ihy n1 p1 hn1 (by omega) d2 n2 b hy hc2)
          | ok p2 =>
            rw [hc2] at hc; simp only [] at hc
            have hn2 := ((expr_sim env y n1 p1 hn1 (by omega)).2 d2 n2 b hy).2 p2 hc2 |>.2
            rw [cAll_single] at hc
            exfalso
            by_cases hab : a > b
            · rw [if_pos hab, cInst_add p2 n2 _ _ hn2] at hc
              cases hadd : pAdd p2 b a with
              | error e3 =>
                rw [hadd] at hc; simp only [] at hc
                cases hc
                rcases pAdd_err hadd with h | h <;> cases h
              | ok r => rw [hadd] at hc; cases hc
            · rw [if_neg hab, cInst_add p2 n2 _ _ hn2] at hc
              cases hadd : pAdd p2 a b with
              | error e3 =>
                rw [hadd] at hc; simp only [] at hc
                cases hc
                rcases pAdd_err hadd with h | h <;> cases h
              | ok r => rw [hadd] at hc; cases hc
  | double x ihx =>
    intro n p hn hb Δ n' o h hc
    have hn1' : (1 : Int) ≤ n := by omega
    simp only [weight] at hb
    simp only [tExpr] at h
    cases hx : tExpr env n x with
    | error e1 => rw [hx] at h; cases h
    | ok r1 =>
      obtain ⟨d1, n1, a⟩ := r1
      rw [hx] at h; simp only [] at h
      simp only [Except.ok.injEq, Prod.mk.injEq] at h
      obtain ⟨h1, h2, h3⟩ := h
      subst h1 h2 h3
      simp only [hasShift0]
      rw [cAll_append] at hc
      cases hc1 : cAll p d1 with
      | error e1 =>
        rw [hc1] at hc; simp only [] at hc
        cases hc
        exact ihx n p hn (by omega) d1 n1 a hx hc1
      | ok p1 =>
        rw [hc1] at hc; simp only [] at hc
        have hn1 := ((expr_sim env x n p hn (by omega)).2 d1 n1 a hx).2 p1 hc1 |>.2
        rw [cAll_single, cInst_dbl p1 n1 _ hn1] at hc
        exfalso
        cases hadd : pAdd p1 a a with
        | error e3 =>
          rw [hadd] at hc; simp only [] at hc
          cases hc
          rcases pAdd_err hadd with h | h <;> cases h
        | ok r => rw [hadd] at hc; cases hc
  | shift x s ihx =>
    intro n p hn hb Δ n' o h hc
    have hn1' : (1 : Int) ≤ n := by omega
    simp only [weight] at hb
    simp only [tExpr] at h
    cases hx : tExpr env n x with
    | error e1 => rw [hx] at h; cases h
    | ok r1 =>
      obtain ⟨d1, n1, a⟩ := r1
      rw [hx] at h; simp only [] at h
      have en1 := tExpr_n env x n d1 n1 a hn1' (by omega) hx
      have hw1 : wrap64 (s : Int) = s := wrap64_id (by unfold B63; omega) (by omega)
      have hw2 : wrap64 (n1 + (s : Int)) = n1 + s := wrap64_id (by unfold B63; omega) (by omega)
      have hw3 : wrap64 (n1 + (s : Int) - 1) = n1 + s - 1 :=
        wrap64_id (by unfold B63; omega) (by omega)
      rw [hw1, hw2, hw3] at h
      simp only [Except.ok.injEq, Prod.mk.injEq] at h
      obtain ⟨h1, h2, h3⟩ := h
      subst h1 h2 h3
      simp only [hasShift0, Bool.or_eq_true, beq_iff_eq]
      by_cases hs0 : s = 0
      · exact Or.inl hs0
      · right
        rw [cAll_append] at hc
        cases hc1 : cAll p d1 with
        | error e1 =>
          rw [hc1] at hc; simp only [] at hc
          cases hc
          exact ihx n p hn (by omega) d1 n1 a hx hc1
        | ok p1 =>
          rw [hc1] at hc; simp only [] at hc
          have hn1 := ((expr_sim env x n p hn (by omega)).2 d1 n1 a hx).2 p1 hc1 |>.2
          rw [cAll_single] at hc
          unfold cInst at hc
          simp only [] at hc
          exfalso
          cases hsh : pShift s p1 a with
          | error e3 =>
            rw [hsh] at hc; simp only [] at hc
            cases hc
            rcases pShift_err s p1 a _ hsh with h | h <;> cases h
          | ok r =>
            obtain ⟨p3, o3⟩ := r
            rw [hsh] at hc; simp only [] at hc
            obtain ⟨ho3, _⟩ := pShift_out s p1 a p3 o3 (by omega) hsh
            have : o3 = n1 + s - 1 := by omega
            rw [if_pos this] at hc
            cases hc

theorem stmts_crosscheck : ∀ (ss : List Stmt) (env : Env) (n : Int) (p : Prog), n = p.length + 1 →
    n + weightS ss < B63 → ∀ ir, tStmts env n ss = .ok ir →
    cAll p ir = .error .outputindex → (ss.any fun s => hasShift0 s.e) = true := by
  intro ss
  induction ss with
  | nil =>
    intro env n p _ _ ir h hc
    simp only [tStmts] at h; cases h; simp [cAll] at hc
  | cons st r ih =>
    intro env n p hn hb ir h hc
    simp only [weightS] at hb
    have hn1' : (1 : Int) ≤ n := by omega
    simp only [tStmts] at h
    cases ht : tExpr env n st.e with
    | error e1 => rw [ht] at h; cases h
    | ok res =>
      obtain ⟨Δ, n', x⟩ := res
      rw [ht] at h; simp only [] at h
      have en := tExpr_n env st.e n Δ n' x hn1' (by omega) ht
      cases hl : lookup env st.name with
      | some v => rw [hl] at h; cases h
      | none =>
        rw [hl] at h; simp only [] at h
        cases hr : tStmts ((st.name, x) :: env) n' r with
        | error e2 => rw [hr] at h; cases h
        | ok ir' =>
          rw [hr] at h; simp only [] at h
          cases h
          simp only [List.any_cons, Bool.or_eq_true]
          rw [cAll_append] at hc
          cases hc1 : cAll p Δ with
          | error e1 =>
            rw [hc1] at hc; simp only [] at hc
            cases hc
            exact Or.inl (expr_crosscheck env st.e n p hn (by omega) Δ n' x ht hc1)
          | ok p' =>
            rw [hc1] at hc; simp only [] at hc
            have hn' := ((expr_sim env st.e n p hn (by omega)).2 Δ n' x ht).2 p' hc1 |>.2
            exact Or.inr (ih _ n' p' hn' (by omega) ir' hr hc)

end P.SemX
