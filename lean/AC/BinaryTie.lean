import AC.ProgramTie
import AC.BigintTie
import AC.Binary
/-! # The translated `binary.RightToLeft.FindChain` equals the model (C01 translator tie)

`binaryRightToLeftFindChain` of `AC/Gen/ProgramFns.lean` is regenerated from alg/binary/binary.go on every
run; the pointer `var x *big.Int` that starts out nil is an `Option`. The model is `P.Binary.rtl`, which
`C01_binary` is stated over. -/
namespace AC.BinaryTie
open AC.Gen.Program AC.GoPrim AC.BigPrim P

def oI (x : Option Nat) : Option Int := x.map fun (v : Nat) => (v : Int)

theorem nz_true (m : Nat) (h : m ≠ 0) : AC.Gen.Bigint.isNonZero (m : Int) = true :=
  (AC.BigintTie.isNonZero_iff _).2 (by omega)

theorem nz_false : AC.Gen.Bigint.isNonZero (0 : Int) = false := by
  cases h : AC.Gen.Bigint.isNonZero (0 : Int)
  · rfl
  · exact absurd rfl ((AC.BigintTie.isNonZero_iff _).1 h)

theorem rsh_one (m : Nat) : bRsh (m : Int) 1 = ((m / 2 : Nat) : Int) := by
  unfold bRsh
  rw [Int.shiftRight_eq_div_pow]; simp

theorem lsh_one (m : Nat) : bLsh (m : Int) 1 = ((m * 2 : Nat) : Int) := by
  simp [bLsh]

theorem bit0 (m : Nat) : bBit (m : Int) 0 = some (if m % 2 = 1 then 1 else 0) := by
  simp [bBit, Nat.testBit_zero]

theorem div_pos_of_le_log (n i : Nat) (hn : n ≠ 0) (hi : i ≤ Nat.log2 n) : n / 2 ^ i ≠ 0 := by
  have h1 : 2 ^ Nat.log2 n ≤ n := Nat.log2_self_le hn
  have h2 : 2 ^ i ≤ 2 ^ Nat.log2 n := Nat.pow_le_pow_right (by omega) hi
  have : 0 < n / 2 ^ i := Nat.div_pos (by omega) (Nat.two_pow_pos i)
  omega

theorem loop_tie (n : Nat) (hn : n ≠ 0) : ∀ (k i : Nat) (c : List Int) (x : Option Nat),
    i + k = Nat.log2 n + 1 →
    binaryRightToLeftFindChain_loop1 (k + 1) (n : Int) c ((n / 2 ^ i : Nat) : Int) ((2 ^ i : Nat) : Int) (oI x) =
      some (rtlGo n k i c x, goNil) := by
  intro k
  induction k with
  | zero =>
    intro i c x hi
    have hi' : i = Nat.log2 n + 1 := by omega
    have hz : n / 2 ^ i = 0 := by
      rw [hi']; exact Nat.div_eq_of_lt (Nat.lt_log2_self)
    rw [hz]
    simp only [binaryRightToLeftFindChain_loop1, Int.natCast_zero, nz_false, rtlGo]
    rfl
  | succ k ih =>
    intro i c x hi
    have hnz := nz_true _ (div_pos_of_le_log n i hn (by omega))
    have hdiv : n / 2 ^ i / 2 = n / 2 ^ (i + 1) := by
      rw [Nat.div_div_eq_div_mul, ← Nat.pow_succ]
    have hpow : 2 ^ i * 2 = 2 ^ (i + 1) := (Nat.pow_succ ..).symm
    have htb : n.testBit i = decide (n / 2 ^ i % 2 = 1) := Nat.testBit_eq_decide_div_mod_eq
    rw [binaryRightToLeftFindChain_loop1]
    simp only [hnz, if_true, bit0, rsh_one, lsh_one, hdiv, hpow, bind, Option.bind, rtlGo]
    by_cases hb : n / 2 ^ i % 2 = 1
    · have ht : n.testBit i = true := by rw [htb]; simp [hb]
      simp only [hb, if_true, ht]
      cases x with
      | none =>
        have := ih (i + 1) (c ++ [((2 ^ i : Nat) : Int)]) (some (2 ^ i)) (by omega)
        simpa [oI, AC.Gen.Bigint.clone, bSet] using this
      | some xv =>
        have := ih (i + 1) (c ++ [((2 ^ i : Nat) : Int)] ++ [((xv + 2 ^ i : Nat) : Int)]) (some (xv + 2 ^ i)) (by omega)
        simpa [oI, bAdd] using this
    · have ht : n.testBit i = false := by rw [htb]; simp [hb]
      have := ih (i + 1) (c ++ [((2 ^ i : Nat) : Int)]) x (by omega)
      simpa [hb, ht] using this

/-- translated `RightToLeft.FindChain(n)` for `n ≥ 1`: no panic, no divergence, nil error, the model's chain -/
theorem rtl_tie (n : Nat) (hn : 1 ≤ n) :
    binaryRightToLeftFindChain (n : Int) = some (rtl n, goNil) := by
  have hne : n ≠ 0 := by omega
  have hbl : bBitLen (n : Int) = ((Nat.log2 n + 1 : Nat) : Int) := by
    unfold bBitLen P.HX.bitLen
    simp [hne]
  have := loop_tie n hne (Nat.log2 n + 1) 0 [] none (by omega)
  simp only [Nat.pow_zero, Nat.div_one, oI, Option.map_none] at this
  unfold binaryRightToLeftFindChain
  simp only [bSet, hbl, AC.Gen.Bigint.one, bNewInt, bind, Option.bind]
  rw [show (Int.toNat (((Nat.log2 n + 1 : Nat) : Int) + 1)) = Nat.log2 n + 1 + 1 by omega]
  simp only [Int.natCast_one] at this
  rw [this]
  rfl

end AC.BinaryTie
