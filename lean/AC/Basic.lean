def hello := "world"
