import AC.Props.C16
open AC.Props.C16
#print axioms C16_names_distinct
#print axioms C16_final_unnamed
#print axioms C16_names_legal
#print axioms C16_faithful
#print axioms C16_of_program
#print axioms C16_naming_constants
