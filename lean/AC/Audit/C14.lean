import AC.Props.C14
import AC.SearchCompose
open AC.Props.C14
#print axioms C14_argmin_first
#print axioms C14_min_is_cost
#print axioms C14_cost_count
#print axioms C14_cost_unit
#print axioms C14_search_composed_partial
#print axioms P.SearchCompose.executeWith_facts
#print axioms P.SearchCompose.emit_load
#print axioms P.SearchCompose.search_concrete
#print axioms P.SearchCompose.search_total
#print axioms C14_search_concrete
#print axioms C14_search_ensemble_total
