import AC.Props.C14
open AC.Props.C14
#print axioms C14_argmin_first
#print axioms C14_min_is_cost
#print axioms C14_cost_count
#print axioms C14_cost_unit
#print axioms C14_search_composed_partial
