import AC.Props.C12
open AC.Props.C12
#print axioms C12_tokens_inv
#print axioms C12_limit
#print axioms C12_return
#print axioms C12_progress
#print axioms C12_limit_zero_blocks
#print axioms C12_slots
#print axioms C12_accepts_sound
#print axioms C12_accepted_limit
#print axioms C12_accepts_complete
#print axioms C12_accepts_iff
