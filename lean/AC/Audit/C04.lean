import AC.Props.C04
import AC.TextCompose
open AC.Props.C04
#print axioms C04_compile_decompile
#print axioms C04_decompile_no_dangling
#print axioms C04_build_denotes
#print axioms C04_roundtrip_core
#print axioms C04_roundtrip_translate
#print axioms C04_text_of
#print axioms C04_naming_constants
#print axioms P.TextCompose.built_wfTree
#print axioms P.TextCompose.C04_text_build
#print axioms P.TextCompose.C04_text
#print axioms P.TextCompose.C04_text_Statement_sized_holds
