import AC.Props.C05
open AC.Props.C05
#print axioms C05_correct
#print axioms C05_temporaries_exact
#print axioms C05_empty_refused
#print axioms C05_format_injective
