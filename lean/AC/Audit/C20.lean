import AC.Props.C20
open AC.Props.C20
#print axioms C20_unquote_quote
#print axioms C20_unquote_stops_at_closing_quote
#print axioms C20_read_write
#print axioms C20_read_write_shape
#print axioms C20_sections
#print axioms C20_get_add
#print axioms C20_add_existing_err_unchanged
#print axioms C20_set_unknown_err_unchanged
#print axioms C20_set_get
#print axioms C20_order_preserved
