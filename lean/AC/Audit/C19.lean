import AC.Props.C19
open AC.Props.C19
#print axioms C19_mask_testBit
#print axioms C19_ones
#print axioms C19_extract_eq
#print axioms C19_isPow2_iff
#print axioms C19_pow2UpTo_spec
#print axioms C19_pow2UpTo_nonpos
#print axioms C19_pow2UpTo_mem
#print axioms C19_bitsSet_spec
#print axioms C19_minMax
#print axioms C19_uint64s
#print axioms C19_bytesLE
#print axioms C19_hex_spec
#print axioms C19_binary_spec
#print axioms C19_valBE_horner
#print axioms C19_parse_signed
#print axioms C19_parse_some
#print axioms C19_sort
#print axioms C19_contains_iff
#print axioms C19_index_spec
#print axioms C19_containsSorted_iff
#print axioms C19_unique_sorted
#print axioms C19_unique_general
#print axioms C19_mergeUnique
#print axioms C19_insertSortedUnique
#print axioms C19_vadd
#print axioms C19_vlsh
