import AC.Props.C07
open AC.Props.C07
#print axioms C07_roundtrip
#print axioms C07_parse_image_wf
#print axioms C07_fmt_fixed
#print axioms C07_fmt_preserves_tree
#print axioms C07_fmt_idempotent
#print axioms C07_expr_roundtrip
#print axioms C07_wfTreeB_iff
#print axioms C07_printer_positions
#print axioms C07_F8_hypothesis_needed
#print axioms C07_F10_condition_needed
