import AC.Props.C02
open AC.Props.C02
#print axioms C02_validate_iff
#print axioms C02_produces_iff
#print axioms C02_superset_iff
#print axioms C02_isAscending_iff
#print axioms C02_ops_mem
#print axioms C02_ops_eq_spec
#print axioms C02_ops_sorted
#print axioms C02_program_evaluate
#print axioms C02_src_ops
#print axioms C02_src_isAscending
#print axioms AC.ChainTie.ops_tie
#print axioms AC.ChainTie.isAscending_tie
#print axioms AC.ChainTie.end_tie
#print axioms C02_src_validate
#print axioms C02_src_produces
#print axioms C02_src_program
#print axioms AC.ChainTie.program_tie
#print axioms AC.ChainTie.validate_tie
#print axioms AC.ChainTie.produces_tie
#print axioms C02_src_superset
#print axioms AC.ChainTie.superset_tie
