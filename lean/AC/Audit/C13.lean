import AC.Props.C13
open AC.Props.C13
#print axioms C13_popTable_ok
#print axioms C13_yard_eq_conv
#print axioms C13_yard_eq_conv_generic
#print axioms C13_eval_render
#print axioms C13_eval_value
#print axioms C13_number_ok
#print axioms C13_malformed
#print axioms C13_malformed_empty
#print axioms C13_malformed_leading
#print axioms C13_malformed_trailing_operator
#print axioms C13_malformed_missing_operand
#print axioms C13_malformed_stray
#print axioms C13_malformed_two_operands
#print axioms C13_number_none_nondigit
#print axioms C13_number_none_minus
#print axioms C13_number_none_prefix
#print axioms C13_trailing_operator_divzero
