import AC.Props.C15
import AC.SearchCompose
open AC.Props.C15
#print axioms C15_decompose_nonempty
#print axioms C15_delta_positive
#print axioms C15_build_nonempty
#print axioms C15_calc_total
#print axioms C15_calc_halt_source
#print axioms C15_exec_limit_zero_blocks
#print axioms C15_exec_progress
#print axioms C15_sliding_nonempty
#print axioms C15_calc_clause
#print axioms AC.Props.C14.C14_search_ensemble_total
#print axioms P.SearchCompose.search_total
#print axioms P.SearchCompose.emit_total
