import AC.Props.C17
open AC.Props.C17
#print axioms C17_bound
#print axioms C17_reuse_first
#print axioms C17_freed_is_next
