import AC.Props.C01
open AC.Props.C01
#print axioms C01_execute_sound
#print axioms C01_binary
#print axioms C01_asChain_heuristic
#print axioms C01_primitive_ok
#print axioms C01_dictsum
#print axioms C01_assemble
#print axioms C01_execute_of_find
#print axioms C01_total_binary
#print axioms C01_total_heuristic
#print axioms C01_total_opt
#print axioms C01_ensemble_wf
#print axioms C01_total
#print axioms C01_driver_agrees
#print axioms C01_ensemble_total
#print axioms C01_primitivePre_ok
#print axioms C01_src_dictsum
#print axioms C01_src_dictsum_total
#print axioms AC.DictSumTie.dictsumchain_tie
#print axioms C01_src_dictsum_ends_at_sumInt
#print axioms C01_src_binary
#print axioms AC.BinaryTie.rtl_tie
