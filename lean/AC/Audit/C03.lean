import AC.Props.C03
open AC.Props.C03
#print axioms C03_load_eq_denote
#print axioms C03_load_ok_iff
#print axioms C03_load_error_iff
#print axioms C03_denote_spec_index
#print axioms C03_denote_spec_one
#print axioms C03_denote_spec_ident
#print axioms C03_denote_spec_add
#print axioms C03_denote_spec_double
#print axioms C03_denote_spec_shift
#print axioms C03_denote_spec_stmt
#print axioms C03_denote_spec_name
#print axioms C03_rejects_undefined
#print axioms C03_rejects_redefinition
#print axioms C03_rejects_index
#print axioms C03_rejects_propagates
#print axioms C03_rejects
#print axioms C03_shift_zero
#print axioms C03_shift_zero_load
#print axioms C03_crosscheck_only_shift_zero
#print axioms C03_load_text
#print axioms C03_load_text_reject
