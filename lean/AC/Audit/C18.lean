import AC.Props.C18
open AC.Props.C18
#print axioms C18_add_err
#print axioms C18_add_ok
#print axioms C18_double
#print axioms C18_shiftOps
#print axioms C18_shift_ok
#print axioms C18_shift_err
#print axioms C18_shift_zero
#print axioms C18_step_unchanged_or_appends
#print axioms C18_built_inRange
#print axioms C18_built_inRange_nil
#print axioms C18_evaluate
#print axioms C18_evaluate_built
#print axioms C18_count_sum
#print axioms C18_readCounts_spec
#print axioms C18_readCounts_inRange
#print axioms C18_deps_spec
#print axioms C18_product_ok
#print axioms C18_plus_ok
