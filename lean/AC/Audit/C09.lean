import AC.Props.C09
open AC.Props.C09
#print axioms C09_fixed
#print axioms C09_sliding
#print axioms C09_runLength
#print axioms C09_hybrid
#print axioms C09_exponents_increasing
#print axioms C09_dictionary
#print axioms C09_nonempty
#print axioms C09_src_fixed
#print axioms AC.DecompTie.fixedWindow_tie
#print axioms C09_src_sumInt
#print axioms C09_src_dictionary
#print axioms C09_src_fixed_sum
#print axioms AC.DecompTie.termInt_tie
#print axioms AC.DecompTie.sumInt_tie
#print axioms AC.DecompTie.dictionary_tie
