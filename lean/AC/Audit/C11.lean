import AC.Props.C11
open AC.Props.C11
#print axioms C11_runsChain
#print axioms C11_runs_ok
#print axioms C11_refuse
#print axioms C11_refuse_invalid
#print axioms C11_src_runsChain
#print axioms C11_src_refuse_invalid
#print axioms AC.RunsTie.runsChain_tie
