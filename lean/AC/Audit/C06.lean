import AC.Props.C06
import AC.TextCompose
open AC.Props.C06
#print axioms C06_passes_ok
#print axioms C06_dangling_refused
#print axioms C06_empty_refused
#print axioms C06_accepted_shape
#print axioms C06_duplicate_output_refused
#print axioms C06_accepted_wf
#print axioms C06_accepted_listing_correct
#print axioms C06_listing_readback
#print axioms C06_listing_correct
#print axioms C06_prepare_listing
#print axioms C06_chain_readback
#print axioms C06_ops_readback
#print axioms C06_script_reloads
#print axioms P.TextCompose.C06_script_reloads_inst
#print axioms P.TextCompose.C06_script_reloads_state
