import AC.Props.C10
open AC.Props.C10
#print axioms C10_sublist
#print axioms C10_core_alternatives
