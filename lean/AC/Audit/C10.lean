import AC.Props.C10
open AC.Props.C10
#print axioms C10_optimize
#print axioms C10_not_longer
#print axioms C10_invariant
#print axioms C10_uses_unique
#print axioms AC.OptTie.pruneuses_tie
#print axioms C10_src_optimize
#print axioms C10_src_total
#print axioms AC.OptTie.optimize_tie
