import AC.Props.C10
open AC.Props.C10
#print axioms C10_optimize
#print axioms C10_not_longer
#print axioms C10_invariant
#print axioms C10_uses_unique
