import AC.Props.C08
open AC.Props.C08
#print axioms C08_heuristic_total
#print axioms C08_heuristic_partial
#print axioms C08_contfrac_ok
#print axioms C08_contfrac_complete
#print axioms C08_fuel_mono
#print axioms C08_strategy_range
#print axioms C08_src_halving
#print axioms C08_src_deltaLargest
#print axioms C08_src_strategies
#print axioms C08_src_approximation
