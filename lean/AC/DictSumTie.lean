import AC.ProgramTie
import AC.BigintTie
import AC.DictSum
/-! # The translated `dictsumchain` equals the model (C01 translator tie)

`dictdictsumchain` of `AC/Gen/ProgramFns.lean` is regenerated from alg/dict/dict.go on every run. The model
is `P.DictSum.dictsumchain` (over the sum listed from the highest exponent down), which `C01_dictsum` and
the assembly theorems are stated over. No ordering hypothesis is needed: both sides use truncated
subtraction for the number of doublings. -/
namespace AC.DictSumTie
open AC.Gen.Program AC.GoPrim AC.BigPrim P.DictSum

def toG (p : Nat × Nat) : GTerm := ⟨(p.1 : Int), p.2⟩
def G (l : List (Nat × Nat)) : List GTerm := l.map toG
def I (l : List Nat) : List Int := l.map fun (n : Nat) => (n : Int)

theorem I_append (a b : List Nat) : I (a ++ b) = I a ++ I b := by simp [I]

theorem lsh_one (cur : Nat) : bLsh (cur : Int) 1 = ((2 * cur : Nat) : Int) := by
  simp [bLsh]; omega

theorem loop2_tie (sum : List GTerm) (k : Int) : ∀ (j cur : Nat) (c : List Int),
    dictdictsumchain_loop2 j sum c k (cur : Int) = some (c ++ I (doubles j cur), ((cur * 2 ^ j : Nat) : Int)) := by
  intro j
  induction j with
  | zero => intro cur c; simp [dictdictsumchain_loop2, doubles, I]
  | succ j ih =>
    intro cur c
    simp only [dictdictsumchain_loop2, lsh_one]
    rw [ih (2 * cur) (c ++ [((2 * cur : Nat) : Int)])]
    simp only [doubles, I, List.map_cons, List.append_assoc, List.singleton_append]
    congr 2
    rw [Nat.pow_succ]; congr 1
    rw [Nat.mul_comm 2 cur, Nat.mul_assoc, Nat.mul_comm 2]

theorem loop3_tie (sum : List GTerm) (k : Int) : ∀ (j cur : Nat) (c : List Int),
    dictdictsumchain_loop3 j sum c k (cur : Int) = some (c ++ I (doubles j cur)) := by
  intro j
  induction j with
  | zero => intro cur c; simp [dictdictsumchain_loop3, doubles, I]
  | succ j ih =>
    intro cur c
    simp only [dictdictsumchain_loop3, lsh_one]
    rw [ih (2 * cur) (c ++ [((2 * cur : Nat) : Int)])]
    simp [doubles, I]

theorem idx_G (l : List (Nat × Nat)) (n : Nat) (h : n < l.length) : idx (G l) (n : Int) = some (toG l[n]) := by
  rw [AC.ProgramTie.idx_nat]; simp [G, h]

theorem loop1_tie (l : List (Nat × Nat)) : ∀ (n : Nat) (hn : n < l.length) (c : List Int) (cur : Nat),
    dictdictsumchain_loop1 n (n : Int) (G l) c (cur : Int) =
      some (c ++ I (go cur (l[n]).2 (l.take n).reverse)) := by
  intro n
  induction n with
  | zero =>
    intro hn c cur
    have h0 := idx_G l 0 hn
    simp only [Int.natCast_zero] at h0
    simp only [dictdictsumchain_loop1, Int.natCast_zero, h0, bind, Option.bind, toG, Nat.sub_zero, loop3_tie]
    simp [go]
  | succ n ih =>
    intro hn c cur
    have h1 := idx_G l (n + 1) hn
    have h0 := idx_G l n (by omega)
    have hsub : (((n + 1 : Nat) : Int) - 1) = (n : Int) := by omega
    simp only [dictdictsumchain_loop1, h1, hsub, h0, bind, Option.bind, toG, loop2_tie, bAdd]
    rw [show (((cur * 2 ^ (l[n + 1].2 - l[n].2) : Nat) : Int) + (l[n].1 : Int)) =
      ((cur * 2 ^ (l[n + 1].2 - l[n].2) + l[n].1 : Nat) : Int) by simp]
    rw [ih (by omega)]
    have htake : (l.take (n + 1)).reverse = l[n] :: (l.take n).reverse := by
      rw [List.take_succ_eq_append_getElem (by omega)]; simp
    rw [htake]
    simp [go, I]

/-- translated `dictsumchain(sum)` on a non-empty sum of natural terms: never panics, and is the model's
    chain for the sum read from the top term down -/
theorem dictsumchain_tie (l : List (Nat × Nat)) (hne : l ≠ []) :
    dictdictsumchain (G l) = some (I (dictsumchain l.reverse)) := by
  obtain ⟨L, b, rfl⟩ : ∃ L b, l = L ++ [b] :=
    ⟨l.dropLast, l.getLast hne, (List.dropLast_concat_getLast hne).symm⟩
  have hget : (L ++ [b])[L.length]'(by simp) = b := by simp
  have hk : len (G (L ++ [b])) - 1 = (L.length : Int) := by simp [len, G]
  have hidx := idx_G (L ++ [b]) L.length (by simp)
  have hloop := loop1_tie (L ++ [b]) L.length (by simp) [] b.1
  simp only [hget, List.take_left', List.nil_append] at hidx hloop
  unfold dictdictsumchain
  simp only [hk, hidx, bind, Option.bind, toG, AC.Gen.Bigint.clone, bSet, Int.toNat_natCast, hloop]
  simp [dictsumchain]

end AC.DictSumTie
