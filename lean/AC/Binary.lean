import AC.Runs
import AC.Sliding
/-! C01 prototype: `binary.RightToLeft`. -/
namespace P
open P.Bits

def rtlGo (n : Nat) : Nat → Nat → List Int → Option Nat → List Int
  | 0, _, c, _ => c
  | k+1, i, c, x =>
    let c1 := c ++ [((2 ^ i : Nat) : Int)]
    if n.testBit i then
      match x with
      | none => rtlGo n k (i + 1) c1 (some (2 ^ i))
      | some xv => rtlGo n k (i + 1) (c1 ++ [((xv + 2 ^ i : Nat) : Int)]) (some (xv + 2 ^ i))
    else rtlGo n k (i + 1) c1 x

def rtl (n : Nat) : List Int := rtlGo n (Nat.log2 n + 1) 0 [] none


/-- loop invariant from bit position `i ≥ 1` on -/
structure RInvB (n i : Nat) (c : List Int) (x : Option Nat) : Prop where
  chain : IsChain c
  below : ∀ y ∈ c, y < ((2 ^ i : Nat) : Int)
  prev : (((2 ^ (i - 1) : Nat)) : Int) ∈ c
  xnone : x = none → n % 2 ^ i = 0
  xsome : ∀ xv, x = some xv → ((xv : Nat) : Int) ∈ c ∧ xv = n % 2 ^ i ∧ 0 < xv
  last : n.testBit (i - 1) = true → c.getLast? = some (((n % 2 ^ i : Nat)) : Int)

theorem getLast?_snoc (c : List Int) (y : Int) : (c ++ [y]).getLast? = some y := by simp

theorem rtl_step (n i : Nat) (hi : 1 ≤ i) (c : List Int) (x : Option Nat) (h : RInvB n i c x) :
    ∃ c' x', (∀ k, rtlGo n (k + 1) i c x = rtlGo n k (i + 1) c' x') ∧ RInvB n (i + 1) c' x' := by
  have hpow : (2 : Nat) ^ i = 2 ^ (i - 1) + 2 ^ (i - 1) := by
    obtain ⟨j, rfl⟩ : ∃ j, i = j + 1 := ⟨i - 1, by omega⟩
    simp [Nat.pow_succ]; omega
  have hpos : 0 < (2 : Nat) ^ i := Nat.pow_pos (by omega)
  have hsucc : (2 : Nat) ^ (i + 1) = 2 ^ i + 2 ^ i := by rw [Nat.pow_succ]; omega
  have hmod := mod_succ_of_bit n i
  -- appending d = 2^i
  have hc1 : IsChain (c ++ [((2 ^ i : Nat) : Int)]) := by
    have : ((2 ^ i : Nat) : Int) = ((2 ^ (i - 1) : Nat) : Int) + ((2 ^ (i - 1) : Nat) : Int) := by
      omega
    rw [this]
    apply isChain_snoc c _ _ h.chain h.prev h.prev
    · rw [← this]; intro hm; have := h.below _ hm; omega
    · rw [← this]; omega
  have hbelow1 : ∀ y ∈ c ++ [((2 ^ i : Nat) : Int)], y < ((2 ^ (i + 1) : Nat) : Int) := by
    intro y hy
    rcases List.mem_append.mp hy with hy | hy
    · have := h.below y hy; rw [hsucc]; omega
    · have := List.mem_singleton.mp hy; subst this; rw [hsucc]; omega
  by_cases hb : n.testBit i = true
  · cases hx : x with
    | none =>
      refine ⟨c ++ [((2 ^ i : Nat) : Int)], some (2 ^ i), ?_, ?_⟩
      · intro k; simp [rtlGo, hb, hx]
      · have hz := h.xnone hx
        have hm : n % 2 ^ (i + 1) = 2 ^ i := by rw [hmod, hz]; simp [hb]
        refine ⟨hc1, hbelow1, by simp, (by intro e; cases e), ?_, ?_⟩
        · intro xv e; cases e
          exact ⟨by simp, by rw [hm], hpos⟩
        · intro _; simp [hm]
    | some xv =>
      obtain ⟨hxm, hxe, hxp⟩ := h.xsome xv hx
      have hm : n % 2 ^ (i + 1) = xv + 2 ^ i := by rw [hmod, ← hxe]; simp [hb]
      refine ⟨c ++ [((2 ^ i : Nat) : Int)] ++ [((xv + 2 ^ i : Nat) : Int)], some (xv + 2 ^ i), ?_, ?_⟩
      · intro k; simp [rtlGo, hb, hx]
      · have hc2 : IsChain (c ++ [((2 ^ i : Nat) : Int)] ++ [((xv + 2 ^ i : Nat) : Int)]) := by
          have : ((xv + 2 ^ i : Nat) : Int) = ((xv : Nat) : Int) + ((2 ^ i : Nat) : Int) := by omega
          rw [this]
          apply isChain_snoc _ _ _ hc1 (List.mem_append_left _ hxm) (by simp)
          · rw [← this]
            intro hmem
            rcases List.mem_append.mp hmem with hm' | hm'
            · have := h.below _ hm'; omega
            · have := List.mem_singleton.mp hm'; omega
          · rw [← this]; omega
        refine ⟨hc2, ?_, by simp, (by intro e; cases e), ?_, ?_⟩
        · intro y hy
          rcases List.mem_append.mp hy with hy | hy
          · exact hbelow1 y hy
          · have hy' := List.mem_singleton.mp hy; subst hy'
            have : xv < 2 ^ i := by rw [hxe]; exact Nat.mod_lt _ hpos
            rw [hsucc]; omega
        · intro xv' e; cases e
          exact ⟨by simp, by rw [hm], by omega⟩
        · intro _; rw [getLast?_snoc, hm]
  · have hb' : n.testBit i = false := by simpa using hb
    refine ⟨c ++ [((2 ^ i : Nat) : Int)], x, ?_, ?_⟩
    · intro k; simp [rtlGo, hb']
    · have hm : n % 2 ^ (i + 1) = n % 2 ^ i := by rw [hmod]; simp [hb']
      refine ⟨hc1, hbelow1, by simp, ?_, ?_, ?_⟩
      · intro e; rw [hm]; exact h.xnone e
      · intro xv e
        obtain ⟨a, b, c'⟩ := h.xsome xv e
        exact ⟨List.mem_append_left _ a, by rw [hm]; exact b, c'⟩
      · intro hc; simp at hc; rw [hb'] at hc; cases hc


theorem rtl_iter (n : Nat) : ∀ (k i : Nat) (c : List Int) (x : Option Nat), 1 ≤ i → RInvB n i c x →
    ∃ x', RInvB n (i + k) (rtlGo n k i c x) x' := by
  intro k
  induction k with
  | zero => intro i c x _ h; exact ⟨x, by simpa [rtlGo] using h⟩
  | succ k ih =>
    intro i c x hi h
    obtain ⟨c', x', hstep, hinv⟩ := rtl_step n i hi c x h
    rw [hstep k]
    obtain ⟨x'', h''⟩ := ih (i + 1) c' x' (by omega) hinv
    exact ⟨x'', by rw [show i + (k + 1) = i + 1 + k by omega]; exact h''⟩

theorem testBit_log2' (n : Nat) (hn : 1 ≤ n) : n.testBit (Nat.log2 n) = true := by
  have hne : n ≠ 0 := by omega
  rw [Nat.testBit_eq_decide_div_mod_eq]
  have h1 := Nat.log2_self_le hne
  have h2 : n < 2 ^ (Nat.log2 n + 1) := Nat.lt_log2_self
  have hpos : 0 < 2 ^ Nat.log2 n := Nat.pow_pos (by omega)
  have hq : n / 2 ^ Nat.log2 n = 1 := by
    apply Nat.div_eq_of_lt_le
    · simpa using h1
    · rw [Nat.pow_succ] at h2; omega
  simp [hq]

/-- **the right-to-left binary method returns an addition chain ending at n** -/
theorem binary_ok (n : Nat) (hn : 1 ≤ n) : IsChain (rtl n) ∧ (rtl n).getLast? = some (n : Int) := by
  unfold rtl
  -- first iteration by hand (the chain is still empty)
  have hstep0 : ∃ x1, rtlGo n (Nat.log2 n + 1) 0 [] none = rtlGo n (Nat.log2 n) 1 [1] x1 ∧ RInvB n 1 [1] x1 := by
    by_cases hb : n.testBit 0 = true
    · refine ⟨some 1, by simp [rtlGo, hb], ?_⟩
      have hm : n % 2 = 1 := Nat.mod_two_eq_one_iff_testBit_zero.mpr hb
      refine ⟨⟨by simp, rfl, by simp, by simp, ?_⟩, by simp, by simp, (by intro e; cases e), ?_, ?_⟩
      · intro k hk0 hkl; simp at hkl; omega
      · intro xv e; cases e; exact ⟨by simp, by simp [hm], by omega⟩
      · intro _; simp [hm]
    · have hb' : n.testBit 0 = false := by simpa using hb
      refine ⟨none, by simp [rtlGo, hb'], ?_⟩
      have hm : n % 2 = 0 := by
        have h1 : ¬ n % 2 = 1 := fun h => hb (Nat.mod_two_eq_one_iff_testBit_zero.mp h)
        omega
      refine ⟨⟨by simp, rfl, by simp, by simp, ?_⟩, by simp, by simp, (by intro _; simpa using hm), (by intro xv e; cases e), ?_⟩
      · intro k hk0 hkl; simp at hkl; omega
      · intro hc; simp at hc; omega
  obtain ⟨x1, h0, hI1⟩ := hstep0
  rw [h0]
  obtain ⟨x', hI⟩ := rtl_iter n (Nat.log2 n) 1 [1] x1 (Nat.le_refl _) hI1
  refine ⟨hI.chain, ?_⟩
  have hl := hI.last (by
    have : 1 + Nat.log2 n - 1 = Nat.log2 n := by omega
    rw [this]; exact testBit_log2' n hn)
  rw [hl]
  have : n % 2 ^ (1 + Nat.log2 n) = n := by
    apply Nat.mod_eq_of_lt
    rw [Nat.add_comm]; exact Nat.lt_log2_self
  rw [this]

end P
