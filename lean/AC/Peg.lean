namespace P.Peg

inductive Expr where
  | operand (i : Nat)
  | ident (s : List Char)
  | add (x y : Expr)
  | shift (x : Expr) (s : Nat)
  | double (x : Expr)
deriving Repr, DecidableEq, Inhabited

/-- Parser: input, sticky error flag ↦ (result, flag). -/
abbrev P (α : Type) := List Char → Bool → Option (α × List Char) × Bool

@[inline] def pfail : P α := fun _ e => (none, e)
@[inline] def ppure (a : α) : P α := fun s e => (some (a, s), e)
@[inline] def pbind (p : P α) (f : α → P β) : P β := fun s e =>
  match p s e with
  | (none, e') => (none, e')
  | (some (a, s'), e') => f a s' e'
instance : Monad P where pure := ppure; bind := pbind

/-- ordered choice with backtracking of the input (not of the flag) -/
@[inline] def por (p q : P α) : P α := fun s e =>
  match p s e with
  | (some r, e') => (some r, e')
  | (none, e') => q s e'

def isWs (c : Char) : Bool := c = ' ' || c = '\t' || c = '\r'
def isIdStart (c : Char) : Bool := c.isAlpha || c = '_'
def isIdChar (c : Char) : Bool := c.isAlphanum || c = '_'

def ws : P Unit := fun s e => (some ((), s.dropWhile isWs), e)
def lit (l : List Char) : P Unit := fun s e =>
  if l.isPrefixOf s then (some ((), s.drop l.length), e) else (none, e)
def ident : P (List Char) := fun s e =>
  match s with
  | c :: cs => if isIdStart c then (some (c :: cs.takeWhile isIdChar, cs.dropWhile isIdChar), e) else (none, e)
  | [] => (none, e)

def digitsVal (ds : List Char) : Nat := ds.foldl (fun a c => 10 * a + (c.toNat - '0'.toNat)) 0

/-- decimal-only sketch of UintLiteral with the sticky flag for leading-zero/overflow errors -/
def uintLit : P Nat := fun s e =>
  let ds := s.takeWhile Char.isDigit
  if ds.isEmpty then (none, e)
  else
    let v := digitsVal ds
    let bad := (ds.length > 1 && ds.head! = '0') || v ≥ 2^64
    (some (if bad then 0 else v, s.dropWhile Char.isDigit), e || bad)

def operand : P Expr :=
  por (do lit ['1']; pure (Expr.operand 0))
  (por (do lit ['[']; ws; let i ← uintLit; ws; lit [']']; pure (Expr.operand i))
       (do let n ← ident; pure (Expr.ident n)))

def base (rec : P Expr) : P Expr :=
  por (do lit ['(']; ws; let x ← rec; ws; lit [')']; pure x) operand

def shiftOp : P Unit := por (lit "<<".toList) (lit "shl".toList)
def doubleOp : P Unit := por (do lit ['2']; ws; lit ['*']) (lit "dbl".toList)
def addOp : P Unit := por (lit ['+']) (lit "add".toList)

def shiftE (rec : P Expr) : P Expr :=
  por (do ws; let x ← base rec; ws; shiftOp; ws; let s ← uintLit; ws; pure (Expr.shift x s))
  (por (do ws; doubleOp; ws; let x ← base rec; pure (Expr.double x))
       (base rec))

/-- star loop with fuel = remaining input length -/
def addRest (rec : P Expr) : Nat → Expr → P Expr
  | 0, acc => ppure acc
  | n+1, acc => fun s e =>
    match (do ws; addOp; ws; shiftE rec : P Expr) s e with
    | (some (y, s'), e') => addRest rec n (Expr.add acc y) s' e'
    | (none, e') => (some (acc, s), e')

def addE (rec : P Expr) : P Expr := fun s e =>
  (do ws; let x ← shiftE rec; let r ← addRest rec s.length x; ws; pure r : P Expr) s e

def expr : Nat → P Expr
  | 0 => pfail
  | n+1 => addE (expr n)

def prec : Expr → Nat
  | .operand _ => 4 | .ident _ => 4 | .add .. => 1 | .shift .. => 2 | .double .. => 3

def natStr (n : Nat) : List Char := (toString n).toList

/-- fixed printer: child context says what is allowed unparenthesised -/
inductive Ctx | top | addL | addR | unary

def needParen : Ctx → Expr → Bool
  | .top, _ => false
  | .addL, _ => false
  | .addR, .add .. => true
  | .addR, _ => false
  | .unary, .operand _ => false
  | .unary, .ident _ => false
  | .unary, _ => true

def pr : Ctx → Expr → List Char
  | c, e =>
    let body : List Char := match e with
      | .operand 0 => ['1']
      | .operand i => ['['] ++ natStr i ++ [']']
      | .ident s => s
      | .add x y => pr .addL x ++ " + ".toList ++ pr .addR y
      | .shift x s => pr .unary x ++ " << ".toList ++ natStr s
      | .double x => "2*".toList ++ pr .unary x
    if needParen c e then ['('] ++ body ++ [')'] else body

def run (s : String) := (expr (s.length+1) s.toList false)

end P.Peg
