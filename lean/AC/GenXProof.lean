import AC.GenX
import AC.AllocXProof
/-! Lemmas for C06: the listing template output reads back; conversions between the `String`-named
program and the `List Char`-named lines of the listing. -/
namespace AC.GenX
open P.Alloc AC.AllocX P.Listing

theorem renderListingX_eq (g : List Char) (r : List (List Char)) (ls : List Line) :
    renderListingX (g :: r) ls = renderListing (g :: r) ls := by
  have : tmpLineX (g :: r) = tmpLine (g :: r) := by
    simp only [tmpLineX, tmpLine, joinWith]
    show ['t', 'm', 'p', '\t'] ++ _ = ['t', 'm', 'p'] ++ _
    simp
  simp only [renderListingX, renderListing, this]

/-- **the listing, read as documented, gives back the declared temporaries and the instructions**
    (also when no temporary is declared: the `tmp` line is then `tmp` followed by a tab) -/
theorem readListingX_render (tmps : List (List Char)) (ls : List Line)
    (ht : ∀ t ∈ tmps, NameOK t ∧ t ≠ []) (hl : ∀ l ∈ ls, LineOK l) :
    readListing (renderListingX tmps ls) = some (tmps, ls) := by
  cases tmps with
  | cons g r => rw [renderListingX_eq]; exact readListing_render (g :: r) ls ht hl
  | nil =>
    unfold readListing renderListingX
    rw [splitAt_trailing '\n' _ (by simp) (by
      intro f hf
      rcases List.mem_cons.mp hf with rfl | hf
      · decide
      · obtain ⟨l, hlm, rfl⟩ := List.mem_map.mp hf
        exact renderLine_nonl l (hl l hlm))]
    simp only []
    have htmp : readTmp (splitAt '\t' (tmpLineX [])) = some [] := by decide
    rw [htmp, readAll_render ls hl]

/-- a listing line as a named instruction -/
def ofLine (l : Line) : NInst (List Char) :=
  match l.op with
  | .add x y => ⟨l.out, .add x y⟩
  | .dbl x => ⟨l.out, .dbl x⟩
  | .shl x s => ⟨l.out, .shl x s⟩

/-- the naming configuration with names as character lists -/
def cfgL (cfg : Cfg String) : Cfg (List Char) :=
  ⟨cfg.input.toList, cfg.output.toList, fun k => (cfg.temp k).toList⟩

theorem nameX_cfgL (cfg : Cfg String) (ir : List Inst) (i : Nat) :
    nameX (cfgL cfg) ir i = (nameX cfg ir i).toList := by
  unfold nameX
  cases regOf ir i <;> rfl

theorem ofLine_toLine (nm : Nat → String) (inst : Inst) :
    ofLine (toLine (nameInst nm inst)) = nameInst (fun i => (nm i).toList) inst := by
  obtain ⟨o, op⟩ := inst
  cases op <;> rfl

theorem namesDistinct_cfgL (cfg : Cfg String) (hd : NamesDistinct cfg) : NamesDistinct (cfgL cfg) :=
  ⟨fun e => hd.io (String.toList_inj.mp e),
   fun k e => hd.ti k (String.toList_inj.mp e),
   fun k e => hd.to k (String.toList_inj.mp e),
   fun j k e => hd.tt j k (String.toList_inj.mp e)⟩

/-- names usable in the listing format: no tab, no newline; temporaries non-empty -/
structure CfgOK (cfg : Cfg String) : Prop where
  input : NameOK cfg.input.toList
  output : NameOK cfg.output.toList
  temp : ∀ k, NameOK (cfg.temp k).toList ∧ (cfg.temp k).toList ≠ []

theorem nameX_ok (cfg : Cfg String) (hok : CfgOK cfg) (ir : List Inst) (i : Nat) :
    NameOK (nameX cfg ir i).toList := by
  unfold nameX
  cases regOf ir i
  · exact hok.input
  · exact hok.output
  · exact (hok.temp _).1

theorem lineOK_toLine (cfg : Cfg String) (hok : CfgOK cfg) (ir : List Inst) (inst : Inst) :
    LineOK (toLine (nameInst (nameX cfg ir) inst)) := by
  obtain ⟨o, op⟩ := inst
  cases op with
  | add x y => exact ⟨nameX_ok cfg hok ir o, nameX_ok cfg hok ir x, nameX_ok cfg hok ir y⟩
  | dbl x => exact ⟨nameX_ok cfg hok ir o, nameX_ok cfg hok ir x⟩
  | shl x s => exact ⟨nameX_ok cfg hok ir o, nameX_ok cfg hok ir x⟩

/-! ### on well-formed programs every output operand is canonical -/
open AC.PeakLive in
theorem outCanon_wf : ∀ (ir : List Inst) (seen D : List Nat) (last : Nat),
    (∀ s ∈ seen, s ≤ last) → (∀ d ∈ D, d ≤ last) → wfFrom D last ir = true →
    ∀ b ∈ outCanonFrom seen ir, b = true := by
  intro ir
  induction ir with
  | nil => intro seen D last _ _ _ b hb; simp [outCanonFrom] at hb
  | cons a r ih =>
    intro seen D last hs hD h b hb
    simp only [wfFrom, Bool.and_eq_true, decide_eq_true_eq, List.all_eq_true, Bool.or_eq_true,
      beq_iff_eq, List.contains_iff_mem] at h
    obtain ⟨⟨hlt, hin⟩, hrec⟩ := h
    have hinle : ∀ x ∈ a.op.inputs, x ≤ last := by
      intro x hx
      rcases hin x hx with h0 | hd
      · omega
      · exact hD x hd
    simp only [outCanonFrom, List.mem_cons] at hb
    rcases hb with rfl | hb
    · simp only [Bool.not_eq_true', List.contains_eq_mem, List.mem_append, decide_eq_false_iff_not]
      intro hm
      rcases hm with hm | hm
      · have := hinle _ hm; omega
      · have := hs _ hm; omega
    · refine ih (a.out :: (a.op.inputs ++ seen)) (a.out :: D) a.out ?_ ?_ hrec b hb
      · intro s hsm
        rcases List.mem_cons.mp hsm with rfl | hsm
        · exact Nat.le_refl _
        · rcases List.mem_append.mp hsm with hsm | hsm
          · have := hinle _ hsm; omega
          · have := hs _ hsm; omega
      · intro d hd
        rcases List.mem_cons.mp hd with rfl | hd
        · exact Nat.le_refl _
        · have := hD d hd; omega

theorem zip_map_fst_of_all_true {α β : Type} : ∀ (prog : List α) (cs : List Bool) (rest : List β)
    (f : α → β → α), (∀ b ∈ cs, b = true) → prog.length ≤ cs.length → prog.length ≤ rest.length →
    (prog.zip (cs.zip rest)).map (fun (p : α × Bool × β) => if p.2.1 then p.1 else f p.1 p.2.2) = prog := by
  intro prog
  induction prog with
  | nil => intros; rfl
  | cons a r ih =>
    intro cs rest f hc h1 h2
    cases cs with
    | nil => simp at h1
    | cons c cs =>
      cases rest with
      | nil => simp at h2
      | cons x rest =>
        have hct : c = true := hc c (by simp)
        simp only [List.zip_cons_cons, List.map_cons, hct, if_true]
        rw [ih cs rest f (fun b hb => hc b (by simp [hb])) (by simpa using h1) (by simpa using h2)]

theorem outCanonFrom_length : ∀ (ir : List Inst) (seen : List Nat), (outCanonFrom seen ir).length = ir.length := by
  intro ir
  induction ir with
  | nil => intro _; rfl
  | cons a r ih => intro seen; simp [outCanonFrom, ih]

/-- on a well-formed program `fixOutputs` changes nothing: the allocator's names reach every operand -/
theorem fixOutputs_wf (ir : List Inst) (preOut : List String) (prog : List (NInst String))
    (hwf : AC.PeakLive.wfB ir = true) (hlen : preOut.length = ir.length) (hp : prog.length = ir.length) :
    fixOutputs ir preOut prog = prog := by
  unfold fixOutputs
  have hc : ∀ b ∈ outCanon ir, b = true :=
    outCanon_wf ir [] [] 0 (by intro s h; cases h) (by intro s h; cases h) hwf
  have := zip_map_fst_of_all_true prog (outCanon ir) (ir.zip preOut)
    (fun n (q : Inst × String) => { n with out := if q.2 = "" then indexName q.1.out else q.2 }) hc
    (by rw [outCanon, outCanonFrom_length]; omega) (by simp [List.length_zip]; omega)
  exact this

/-! ### accepted programs are well-formed -/
theorem progAdd_ok (p : Array (Nat × Nat)) (i j : Nat) (p' : Array (Nat × Nat)) (out : Nat)
    (h : progAdd p i j = .ok (p', out)) : out = p.size + 1 ∧ p'.size = p.size + 1 := by
  unfold progAdd at h
  split at h
  · cases h
  · split at h
    · cases h
    · simp only [Except.ok.injEq, Prod.mk.injEq] at h
      obtain ⟨h1, h2⟩ := h
      subst h1; subst h2
      simp

theorem progShift_ok : ∀ (s : Nat) (p : Array (Nat × Nat)) (i : Nat) (p' : Array (Nat × Nat)) (out : Nat),
    progShift p i s = .ok (p', out) →
    (s = 0 ∧ out = i ∧ p' = p) ∨ (0 < s ∧ out = p.size + s ∧ p'.size = p.size + s) := by
  intro s
  induction s with
  | zero =>
    intro p i p' out h
    simp only [progShift, Except.ok.injEq, Prod.mk.injEq] at h
    exact Or.inl ⟨rfl, h.2.symm, h.1.symm⟩
  | succ s ih =>
    intro p i p' out h
    simp only [progShift] at h
    cases ha : progAdd p i i with
    | error e => rw [ha] at h; cases h
    | ok r =>
      obtain ⟨p1, n1⟩ := r
      rw [ha] at h
      simp only at h
      obtain ⟨h1, h2⟩ := progAdd_ok p i i p1 n1 ha
      right
      rcases ih p1 n1 p' out h with ⟨hs, ho, hp⟩ | ⟨hs, ho, hp⟩
      · subst hs; subst hp
        exact ⟨by omega, by omega, by omega⟩
      · exact ⟨by omega, by omega, by omega⟩

open AC.PeakLive in
/-- validation (no dangling input, no repeated output) together with a successful `pass.Compile`
    (every output index is the position the unrolled program reaches) gives the well-formedness of
    C05: outputs ≥ 1 and strictly increasing, inputs 0 or earlier outputs -/
theorem compile_wf : ∀ (ir : List Inst) (p : Array (Nat × Nat)) (S D : List Nat) (last : Nat)
    (q : Array (Nat × Nat)), (∀ x, x ∈ S ↔ x = 0 ∨ x ∈ D) → last ≤ p.size →
    danglingFrom S ir = true → uniqueFrom S ir = true → compileFrom p ir = .ok q →
    wfFrom D last ir = true := by
  intro ir
  induction ir with
  | nil => intro _ _ _ _ _ _ _ _ _ _; rfl
  | cons a r ih =>
    intro p S D last q hS hl hd hu hc
    simp only [danglingFrom, Bool.and_eq_true, List.all_eq_true, List.contains_iff_mem] at hd
    simp only [uniqueFrom, Bool.and_eq_true, Bool.not_eq_true', List.contains_eq_mem,
      decide_eq_false_iff_not] at hu
    obtain ⟨hin, hdr⟩ := hd
    obtain ⟨hnew, hur⟩ := hu
    simp only [compileFrom] at hc
    -- the output index and the new program size
    have key : ∃ p', a.out = p'.size ∧ p.size < p'.size ∧ compileFrom p' r = .ok q := by
      cases hop : a.op with
      | add x y =>
        rw [hop] at hc
        simp only at hc
        cases ha : progAdd p x y with
        | error e => rw [ha] at hc; cases hc
        | ok res =>
          obtain ⟨p', out⟩ := res
          rw [ha] at hc
          simp only at hc
          obtain ⟨h1, h2⟩ := progAdd_ok p x y p' out ha
          split at hc
          · cases hc
          · rename_i hne
            exact ⟨p', by simp at hne; omega, by omega, hc⟩
      | dbl x =>
        rw [hop] at hc
        simp only at hc
        cases ha : progAdd p x x with
        | error e => rw [ha] at hc; cases hc
        | ok res =>
          obtain ⟨p', out⟩ := res
          rw [ha] at hc
          simp only at hc
          obtain ⟨h1, h2⟩ := progAdd_ok p x x p' out ha
          split at hc
          · cases hc
          · rename_i hne
            exact ⟨p', by simp at hne; omega, by omega, hc⟩
      | shl x s =>
        rw [hop] at hc
        simp only at hc
        cases ha : progShift p x s with
        | error e => rw [ha] at hc; cases hc
        | ok res =>
          obtain ⟨p', out⟩ := res
          rw [ha] at hc
          simp only at hc
          split at hc
          · cases hc
          · rename_i hne
            have hout : out = a.out := by simpa using hne
            rcases progShift_ok s p x p' out ha with ⟨_, ho, _⟩ | ⟨hs, ho, hp⟩
            · -- shift by zero: the output is the operand, which is already defined
              exfalso
              apply hnew
              have : x ∈ S := hin x (by simp [hop, Op.inputs])
              rw [← hout, ho]; exact this
            · exact ⟨p', by omega, by omega, hc⟩
    obtain ⟨p', ho, hlt, hc'⟩ := key
    simp only [wfFrom, Bool.and_eq_true, decide_eq_true_eq, List.all_eq_true, Bool.or_eq_true,
      beq_iff_eq, List.contains_iff_mem]
    refine ⟨⟨by omega, ?_⟩, ?_⟩
    · intro x hx
      exact (hS x).mp (hin x hx)
    · apply ih p' (a.out :: S) (a.out :: D) a.out q ?_ (by omega) hdr hur hc'
      intro x
      simp only [List.mem_cons, hS x]
      constructor
      · rintro (h | h | h)
        · exact Or.inr (Or.inl h)
        · exact Or.inl h
        · exact Or.inr (Or.inr h)
      · rintro (h | h | h)
        · exact Or.inr (Or.inl h)
        · exact Or.inl h
        · exact Or.inr (Or.inr h)

end AC.GenX
