import AC.Sliding
/-! C09 prototype: FixedWindow and RunLength decompositions. -/
namespace P.Bits

/-- `FixedWindow.Decompose`: windows of `K` bits from the top; `h` bits remain -/
def fixedW (x K : Nat) : Nat → Nat → List Term
  | 0, _ => []
  | _, 0 => []
  | fuel+1, h+1 =>
    let l := h + 1 - K
    let d := x / 2 ^ l % 2 ^ (h + 1 - l)
    if d ≠ 0 then ⟨d, l⟩ :: fixedW x K fuel l else fixedW x K fuel l

theorem fixedW_spec (x K : Nat) (hK : 1 ≤ K) : ∀ (fuel h : Nat), h ≤ fuel →
    value (fixedW x K fuel h) = x % 2 ^ h ∧
    (∀ t ∈ fixedW x K fuel h, 0 < t.d ∧ t.d < 2 ^ K ∧ t.d * 2 ^ t.e < 2 ^ h) ∧
    (fixedW x K fuel h).Pairwise (fun a b => b.d * 2 ^ b.e < 2 ^ a.e) := by
  intro fuel
  induction fuel with
  | zero =>
    intro h hh
    have : h = 0 := by omega
    subst this
    simp [fixedW, value, Nat.mod_one]
  | succ f ih =>
    intro h hh
    cases h with
    | zero => simp [fixedW, value, Nat.mod_one]
    | succ h =>
      unfold fixedW
      simp only []
      generalize hl : h + 1 - K = l
      have hlh : l ≤ h := by omega
      have hw : h + 1 - l ≤ K := by omega
      obtain ⟨ihv, iht, ihp⟩ := ih l (by omega)
      have hsplit : x % 2 ^ (h + 1) = x % 2 ^ l + 2 ^ l * (x / 2 ^ l % 2 ^ (h + 1 - l)) := by
        have : 2 ^ (h + 1) = 2 ^ l * 2 ^ (h + 1 - l) := by rw [← Nat.pow_add]; congr 1; omega
        rw [this, Nat.mod_mul]
      have hdlt : x / 2 ^ l % 2 ^ (h + 1 - l) < 2 ^ (h + 1 - l) := Nat.mod_lt _ (Nat.pow_pos (by omega))
      have hmono : ∀ t ∈ fixedW x K f l, t.d * 2 ^ t.e < 2 ^ (h + 1) := by
        intro t ht
        have := (iht t ht).2.2
        have : 2 ^ l ≤ 2 ^ (h + 1) := Nat.pow_le_pow_right (by omega) (by omega)
        omega
      by_cases hd : x / 2 ^ l % 2 ^ (h + 1 - l) = 0
      · simp only [hd, ne_eq, not_true_eq_false, if_false]
        refine ⟨by rw [ihv, hsplit, hd]; simp, ?_, ihp⟩
        intro t ht
        exact ⟨(iht t ht).1, (iht t ht).2.1, hmono t ht⟩
      · simp only [hd, ne_eq, not_false_eq_true, if_true]
        refine ⟨?_, ?_, ?_⟩
        · simp only [value, List.map_cons, List.sum_cons] at ihv ⊢
          rw [ihv, hsplit, Nat.mul_comm (2 ^ l), Nat.add_comm]
        · intro t ht
          rcases List.mem_cons.mp ht with rfl | ht
          · refine ⟨by show 0 < x / 2 ^ l % 2 ^ (h + 1 - l); omega, ?_, ?_⟩
            · exact Nat.lt_of_lt_of_le hdlt (Nat.pow_le_pow_right (by omega) hw)
            · simp only []
              have : 2 ^ (h + 1) = 2 ^ (h + 1 - l) * 2 ^ l := by rw [← Nat.pow_add]; congr 1; omega
              rw [this]
              exact Nat.mul_lt_mul_of_pos_right hdlt (Nat.pow_pos (by omega))
          · exact ⟨(iht t ht).1, (iht t ht).2.1, hmono t ht⟩
        · apply List.pairwise_cons.mpr
          exact ⟨fun t ht => (iht t ht).2.2, ihp⟩

/-- end of a run of ones starting at bit `s` going down, at most `T` long when `T > 0`:
    returns the number of bits in the run (`i` counts positions still available below) -/
def runDown (x T : Nat) : Nat → Nat → Nat
  | 0, _ => 0
  | ip+1, len => if x.testBit ip && (T == 0 || len < T) then 1 + runDown x T ip (len + 1) else 0

/-- `RunLength.Decompose`; `ip` = number of low positions still to scan -/
def runLen (x T : Nat) : Nat → Nat → List Term
  | 0, _ => []
  | _, 0 => []
  | fuel+1, ip+1 =>
    if x.testBit ip then
      let n := runDown x T (ip + 1) 0
      ⟨2 ^ n - 1, ip + 1 - n⟩ :: runLen x T fuel (ip + 1 - n)
    else runLen x T fuel ip


/-- the bits counted by `runDown` are all set, there is at least one if the top bit is set,
    at most `T` of them when `T > 0`, and never more than available -/
theorem runDown_spec (x T : Nat) : ∀ (ip len : Nat),
    runDown x T ip len ≤ ip ∧ (∀ j, j < runDown x T ip len → x.testBit (ip - 1 - j) = true) ∧
    (0 < T → len + runDown x T ip len ≤ max T len) := by
  intro ip
  induction ip with
  | zero => intro len; simp [runDown]; omega
  | succ ip ih =>
    intro len
    unfold runDown
    by_cases hc : (x.testBit ip && (T == 0 || decide (len < T))) = true
    · simp only [hc, if_true]
      obtain ⟨i1, i2, i3⟩ := ih (len + 1)
      simp only [Bool.and_eq_true, Bool.or_eq_true, beq_iff_eq, decide_eq_true_eq] at hc
      refine ⟨by omega, ?_, ?_⟩
      · intro j hj
        cases j with
        | zero => simpa using hc.1
        | succ j =>
          have := i2 j (by omega)
          have e : ip + 1 - 1 - (j + 1) = ip - 1 - j := by omega
          rw [e]; exact this
      · intro hT
        have := i3 hT
        rcases hc.2 with h0 | hlt
        · omega
        · have hm : max T (len + 1) = T := by omega
          have hm2 : max T len = T := by omega
          omega
    · simp only [hc, Bool.false_eq_true, if_false]
      refine ⟨by omega, by intro j hj; omega, by intro _; omega⟩


theorem mod_all_ones (y n : Nat) (h : ∀ j, j < n → y.testBit j = true) : y % 2 ^ n = 2 ^ n - 1 := by
  apply Nat.eq_of_testBit_eq
  intro i
  rw [Nat.testBit_mod_two_pow, Nat.testBit_two_pow_sub_one]
  by_cases hi : i < n
  · simp [hi, h i hi]
  · simp [hi]

/-- **C09 for run lengths**: exact sum, every term an all-ones run of positive length (at most
    `T` when `T > 0`), non-overlapping with strictly decreasing exponents along the scan -/
theorem runLen_spec (x T : Nat) : ∀ (fuel ip : Nat), ip ≤ fuel →
    value (runLen x T fuel ip) = x % 2 ^ ip ∧
    (∀ t ∈ runLen x T fuel ip, ∃ n, 1 ≤ n ∧ t.d = 2 ^ n - 1 ∧ (0 < T → n ≤ T) ∧ t.d * 2 ^ t.e < 2 ^ ip) ∧
    (runLen x T fuel ip).Pairwise (fun a b => b.d * 2 ^ b.e < 2 ^ a.e) := by
  intro fuel
  induction fuel with
  | zero =>
    intro ip h
    have : ip = 0 := by omega
    subst this
    simp [runLen, value, Nat.mod_one]
  | succ f ih =>
    intro ip h
    cases ip with
    | zero => simp [runLen, value, Nat.mod_one]
    | succ ip =>
      unfold runLen
      by_cases hb : x.testBit ip = true
      · simp only [hb, if_true]
        obtain ⟨r1, r2, r3⟩ := runDown_spec x T (ip + 1) 0
        have hn1 : 1 ≤ runDown x T (ip + 1) 0 := by
          unfold runDown
          have : (x.testBit ip && (T == 0 || decide (0 < T))) = true := by
            simp [hb]; omega
          simp [this]
        generalize hnn : runDown x T (ip + 1) 0 = n at *
        generalize hl : ip + 1 - n = l at *
        obtain ⟨ihv, iht, ihp⟩ := ih l (by omega)
        have hsplit : x % 2 ^ (ip + 1) = x % 2 ^ l + 2 ^ l * (x / 2 ^ l % 2 ^ n) := by
          have : 2 ^ (ip + 1) = 2 ^ l * 2 ^ n := by rw [← Nat.pow_add]; congr 1; omega
          rw [this, Nat.mod_mul]
        have hones : x / 2 ^ l % 2 ^ n = 2 ^ n - 1 := by
          apply mod_all_ones
          intro j hj
          rw [Nat.testBit_div_two_pow]
          have := r2 (n - 1 - j) (by omega)
          have e : ip + 1 - 1 - (n - 1 - j) = j + l := by omega
          rw [e] at this; exact this
        have hpos : 0 < 2 ^ n := Nat.pow_pos (by omega)
        have hlt : (2 ^ n - 1) * 2 ^ l < 2 ^ (ip + 1) := by
          have : 2 ^ (ip + 1) = 2 ^ n * 2 ^ l := by rw [← Nat.pow_add]; congr 1; omega
          rw [this]
          exact Nat.mul_lt_mul_of_pos_right (by omega) (Nat.pow_pos (by omega))
        refine ⟨?_, ?_, ?_⟩
        · simp only [value, List.map_cons, List.sum_cons] at ihv ⊢
          rw [ihv, hsplit, hones, Nat.mul_comm (2 ^ l), Nat.add_comm]
        · intro t ht
          rcases List.mem_cons.mp ht with rfl | ht
          · exact ⟨n, hn1, rfl, by intro hT; have := r3 hT; omega, hlt⟩
          · obtain ⟨m, h1, h2, h3, h4⟩ := iht t ht
            refine ⟨m, h1, h2, h3, ?_⟩
            have : 2 ^ l ≤ 2 ^ (ip + 1) := Nat.pow_le_pow_right (by omega) (by omega)
            omega
        · apply List.pairwise_cons.mpr
          refine ⟨?_, ihp⟩
          intro t ht
          obtain ⟨m, _, _, _, h4⟩ := iht t ht
          exact h4
      · simp only [hb, Bool.false_eq_true, if_false]
        obtain ⟨ihv, iht, ihp⟩ := ih ip (by omega)
        have hmod : x % 2 ^ (ip + 1) = x % 2 ^ ip := by
          rw [mod_succ_of_bit]; simp [hb]
        refine ⟨by rw [ihv, hmod], ?_, ihp⟩
        intro t ht
        obtain ⟨m, h1, h2, h3, h4⟩ := iht t ht
        refine ⟨m, h1, h2, h3, ?_⟩
        have : 2 ^ ip ≤ 2 ^ (ip + 1) := Nat.pow_le_pow_right (by omega) (by omega)
        omega

end P.Bits
