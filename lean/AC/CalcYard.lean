import AC.YardProof
/-! # C13: the shunting yard computes the conventional value — for any value domain

`AC.YardProof` proves `yard = conv` for `Int` values with Lean's total `/`.  Here the same refinement
is carried out for an **arbitrary** value type `V` and an arbitrary `ap : Bop → V → V → V`: the
argument is purely structural (it only uses the pop rule `P.YP.stop`), so it can be instantiated with
`V = Option Int`, where division by zero is `none` and absorbing — no use of `x / 0 = 0`.

Stacks are top-first.  `popFor`, `finish`, `run` are the two-stack machine of `calc.go`
(`yard.operator`, `yard.result`, the token loop); `conv` is the conventional semantics written
structurally: split the token list at the non-`^` operators (each factor is a right-nested tower),
split the factor values at `+ -` (each term is a left fold of `* /`), left-fold the terms. -/
namespace AC.Calc
open P.YP (Bop prec rightAssoc stop isMul isAdd)

section generic
variable {V : Type} (ap : Bop → V → V → V)

/-- `yard.operator`: pop while the pop rule says so, applying the popped operator -/
def popFor (o : Bop) : List V → List Bop → Option (List V × List Bop)
  | vs, [] => some (vs, [])
  | vs, t :: ts =>
    if stop t o then some (vs, t :: ts)
    else match vs with
      | b :: a :: rest => popFor o (ap t a b :: rest) ts
      | _ => none

/-- `yard.result` -/
def finish : List V → List Bop → Option V
  | [v], [] => some v
  | _, [] => none
  | b :: a :: rest, t :: ts => finish (ap t a b :: rest) ts
  | _, _ :: _ => none

def run : List V → List Bop → List (Bop × V) → Option V
  | vs, os, [] => finish ap vs os
  | vs, os, (o, n) :: r =>
    match popFor ap o vs os with
    | none => none
    | some (vs', os') => run (n :: vs') (o :: os') r

def yard (n0 : V) (toks : List (Bop × V)) : Option V := run ap [n0] [] toks

/-! ## conventional semantics -/

/-- exponents of the current factor, then the remaining (non-`^` operator, base, exponents) triples -/
def group : List (Bop × V) → List V × List (Bop × V × List V)
  | [] => ([], [])
  | (o, n) :: r =>
    if o = .pow then (n :: (group r).1, (group r).2) else ([], (o, n, (group r).1) :: (group r).2)

/-- right-associative tower `n ^ (e1 ^ (e2 ^ …))` -/
def towerVal : V → List V → V
  | n, [] => n
  | n, e :: es => ap .pow n (towerVal e es)

/-- multiplicative tail of the current term, then the remaining (additive operator, factor, tail) -/
def grp2 : List (Bop × V) → List (Bop × V) × List (Bop × (V × List (Bop × V)))
  | [] => ([], [])
  | (o, v) :: r =>
    if isMul o then ((o, v) :: (grp2 r).1, (grp2 r).2) else ([], (o, (v, (grp2 r).1)) :: (grp2 r).2)

/-- left fold of `* /` -/
def termVal (v : V) (ms : List (Bop × V)) : V := ms.foldl (fun acc p => ap p.1 acc p.2) v

/-- the factors (tower values) of a token list, keyed by the non-`^` operator in front of them -/
def factors (toks : List (Bop × V)) : List (Bop × V) :=
  (group toks).2.map fun p => (p.1, towerVal ap p.2.1 p.2.2)

/-- **conventional value** of `n0 o1 n1 o2 n2 …`: `^` tightest and right-associative, then `* /`,
    then `+ -`, both left-associative -/
def conv (n0 : V) (toks : List (Bop × V)) : V :=
  let g2 := grp2 (factors ap toks)
  g2.2.foldl (fun acc p => ap p.1 acc (termVal ap p.2.1 p.2.2))
    (termVal ap (towerVal ap n0 (group toks).1) g2.1)

/-! ## refinement proof -/
structure A (V : Type) where
  a : Option (V × Bop)
  m : Option (V × Bop)
  tw : List V      -- pending bases of `^`, innermost first
  cur : V

def A.WF (st : A V) : Prop :=
  (∀ p, st.a = some p → isAdd p.2 = true) ∧ (∀ p, st.m = some p → isMul p.2 = true)

def ovals (x : Option (V × Bop)) : List V := match x with | none => [] | some p => [p.1]
def oops (x : Option (V × Bop)) : List Bop := match x with | none => [] | some p => [p.2]
def oapply (x : Option (V × Bop)) (v : V) : V := match x with | none => v | some p => ap p.2 p.1 v

def A.vs (st : A V) : List V := st.cur :: (st.tw ++ (ovals st.m ++ ovals st.a))
def A.os (st : A V) : List Bop := List.replicate st.tw.length Bop.pow ++ (oops st.m ++ oops st.a)

def collapse (tw : List V) (cur : V) : V := tw.foldl (fun acc p => ap .pow p acc) cur

def convFrom (st : A V) (rest : List (Bop × V)) : V :=
  let f := collapse ap st.tw (towerVal ap st.cur (group rest).1)
  let g2 := grp2 (factors ap rest)
  g2.2.foldl (fun acc p => ap p.1 acc (termVal ap p.2.1 p.2.2))
    (oapply ap st.a (termVal ap (oapply ap st.m f) g2.1))

theorem conv_eq (n0 : V) (toks) : conv ap n0 toks = convFrom ap ⟨none, none, [], n0⟩ toks := rfl

theorem popFor_stop {o t : Bop} (h : stop t o = true) (vs : List V) (ts : List Bop) :
    popFor ap o vs (t :: ts) = some (vs, t :: ts) := by
  unfold popFor; simp [h]

theorem popFor_pop {o t : Bop} (h : stop t o = false) (b a : V) (rest : List V) (ts : List Bop) :
    popFor ap o (b :: a :: rest) (t :: ts) = popFor ap o (ap t a b :: rest) ts := by
  rw [popFor]; simp [h]

theorem popFor_nil (o : Bop) (vs : List V) : popFor ap o vs [] = some (vs, []) := by
  unfold popFor; rfl

/-- popping the pending `^`s -/
theorem popFor_pows (o : Bop) (ho : stop .pow o = false) :
    ∀ (tw : List V) (cur : V) (vs' : List V) (os' : List Bop),
    popFor ap o (cur :: (tw ++ vs')) (List.replicate tw.length Bop.pow ++ os') =
      popFor ap o (collapse ap tw cur :: vs') os' := by
  intro tw
  induction tw with
  | nil => intro cur vs' os'; rfl
  | cons p tw ih =>
    intro cur vs' os'
    show popFor ap o (cur :: p :: (tw ++ vs')) (Bop.pow :: (List.replicate tw.length Bop.pow ++ os')) = _
    rw [popFor_pop ap ho, ih]
    rfl

theorem finish_pows : ∀ (tw : List V) (cur : V) (vs' : List V) (os' : List Bop),
    finish ap (cur :: (tw ++ vs')) (List.replicate tw.length Bop.pow ++ os') =
      finish ap (collapse ap tw cur :: vs') os' := by
  intro tw
  induction tw with
  | nil => intro cur vs' os'; rfl
  | cons p tw ih =>
    intro cur vs' os'
    show finish ap (cur :: p :: (tw ++ vs')) (Bop.pow :: (List.replicate tw.length Bop.pow ++ os')) = _
    rw [finish]
    rw [ih]
    rfl

theorem finish_conc (st : A V) :
    finish ap st.vs st.os = some (oapply ap st.a (oapply ap st.m (collapse ap st.tw st.cur))) := by
  unfold A.vs A.os
  rw [finish_pows]
  rcases st with ⟨a, m, tw, cur⟩
  cases m with
  | none => cases a with
    | none => rfl
    | some p => rfl
  | some q => cases a with
    | none => rfl
    | some p => rfl

theorem popFor_mul (o : Bop) (ho : isMul o = true) (st : A V) (hwf : st.WF) :
    popFor ap o st.vs st.os = some (oapply ap st.m (collapse ap st.tw st.cur) :: ovals st.a, oops st.a) := by
  have hpow : stop .pow o = false := by cases o <;> simp_all [isMul, stop, prec, rightAssoc]
  unfold A.vs A.os
  rw [popFor_pows ap o hpow]
  rcases st with ⟨a, m, tw, cur⟩
  obtain ⟨ha, hm⟩ := hwf
  cases m with
  | none =>
    cases a with
    | none => exact popFor_nil ap _ _
    | some p =>
      have : isAdd p.2 = true := ha p rfl
      have hs : stop p.2 o = true := by
        rcases p with ⟨pv, po⟩; cases po <;> cases o <;> simp_all [isAdd, isMul, stop, prec, rightAssoc]
      exact popFor_stop ap hs _ _
  | some q =>
    have hq : isMul q.2 = true := hm q rfl
    have hs : stop q.2 o = false := by
      rcases q with ⟨qv, qo⟩; cases qo <;> cases o <;> simp_all [isMul, stop, prec, rightAssoc]
    cases a with
    | none =>
      show popFor ap o (collapse ap tw cur :: q.1 :: []) (q.2 :: []) = _
      rw [popFor_pop ap hs]
      exact popFor_nil ap _ _
    | some p =>
      have : isAdd p.2 = true := ha p rfl
      have hs2 : stop p.2 o = true := by
        rcases p with ⟨pv, po⟩; cases po <;> cases o <;> simp_all [isAdd, isMul, stop, prec, rightAssoc]
      show popFor ap o (collapse ap tw cur :: q.1 :: [p.1]) (q.2 :: [p.2]) = _
      rw [popFor_pop ap hs]
      exact popFor_stop ap hs2 _ _

theorem popFor_add (o : Bop) (ho : isAdd o = true) (st : A V) (hwf : st.WF) :
    popFor ap o st.vs st.os = some ([oapply ap st.a (oapply ap st.m (collapse ap st.tw st.cur))], []) := by
  have hpow : stop .pow o = false := by cases o <;> simp_all [isAdd, stop, prec, rightAssoc]
  unfold A.vs A.os
  rw [popFor_pows ap o hpow]
  rcases st with ⟨a, m, tw, cur⟩
  obtain ⟨ha, hm⟩ := hwf
  cases m with
  | none =>
    cases a with
    | none => exact popFor_nil ap _ _
    | some p =>
      have : isAdd p.2 = true := ha p rfl
      have hs : stop p.2 o = false := by
        rcases p with ⟨pv, po⟩; cases po <;> cases o <;> simp_all [isAdd, stop, prec, rightAssoc]
      show popFor ap o (collapse ap tw cur :: [p.1]) [p.2] = _
      rw [popFor_pop ap hs]
      exact popFor_nil ap _ _
  | some q =>
    have hq : isMul q.2 = true := hm q rfl
    have hs : stop q.2 o = false := by
      rcases q with ⟨qv, qo⟩; cases qo <;> cases o <;> simp_all [isMul, isAdd, stop, prec, rightAssoc]
    cases a with
    | none =>
      show popFor ap o (collapse ap tw cur :: q.1 :: []) (q.2 :: []) = _
      rw [popFor_pop ap hs]
      exact popFor_nil ap _ _
    | some p =>
      have : isAdd p.2 = true := ha p rfl
      have hs2 : stop p.2 o = false := by
        rcases p with ⟨pv, po⟩; cases po <;> cases o <;> simp_all [isAdd, stop, prec, rightAssoc]
      show popFor ap o (collapse ap tw cur :: q.1 :: [p.1]) (q.2 :: [p.2]) = _
      rw [popFor_pop ap hs, popFor_pop ap hs2]
      exact popFor_nil ap _ _

theorem convFrom_pow (a m : Option (V × Bop)) (tw : List V) (cur n : V) (r : List (Bop × V)) :
    convFrom ap ⟨a, m, cur :: tw, n⟩ r = convFrom ap ⟨a, m, tw, cur⟩ ((Bop.pow, n) :: r) := rfl

theorem convFrom_mul (o : Bop) (ho : isMul o = true) (hne : o ≠ .pow) (a m : Option (V × Bop))
    (tw : List V) (cur n : V) (r : List (Bop × V)) :
    convFrom ap ⟨a, some (oapply ap m (collapse ap tw cur), o), [], n⟩ r
      = convFrom ap ⟨a, m, tw, cur⟩ ((o, n) :: r) := by
  simp only [convFrom, factors, group, if_neg hne, List.map_cons, grp2, ho, if_true, termVal,
    List.foldl_cons, towerVal, collapse, List.foldl_nil, oapply]

theorem convFrom_add (o : Bop) (hm : isMul o = false) (hne : o ≠ .pow)
    (a m : Option (V × Bop)) (tw : List V) (cur n : V) (r : List (Bop × V)) :
    convFrom ap ⟨some (oapply ap a (oapply ap m (collapse ap tw cur)), o), none, [], n⟩ r
      = convFrom ap ⟨a, m, tw, cur⟩ ((o, n) :: r) := by
  simp only [convFrom, factors, group, if_neg hne, List.map_cons, grp2, hm, Bool.false_eq_true,
    if_false, termVal, List.foldl_cons, towerVal, collapse, List.foldl_nil, oapply]

theorem run_conc : ∀ (rest : List (Bop × V)) (st : A V), st.WF →
    run ap st.vs st.os rest = some (convFrom ap st rest) := by
  intro rest
  induction rest with
  | nil =>
    intro st _
    show finish ap st.vs st.os = _
    rw [finish_conc]
    simp [convFrom, factors, group, grp2, termVal, towerVal]
  | cons tok r ih =>
    intro st hwf
    obtain ⟨o, n⟩ := tok
    rcases st with ⟨a, m, tw, cur⟩
    rw [run]
    by_cases hp : o = .pow
    · subst hp
      -- nothing is popped
      have hpop : popFor ap Bop.pow (A.vs ⟨a, m, tw, cur⟩) (A.os ⟨a, m, tw, cur⟩)
          = some (A.vs ⟨a, m, tw, cur⟩, A.os ⟨a, m, tw, cur⟩) := by
        cases h : A.os ⟨a, m, tw, cur⟩ with
        | nil => rfl
        | cons t ts =>
          have : stop t Bop.pow = true := by cases t <;> rfl
          exact popFor_stop ap this _ _
      rw [hpop]
      simp only []
      have := ih ⟨a, m, cur :: tw, n⟩ hwf
      have hv : A.vs ⟨a, m, cur :: tw, n⟩ = n :: A.vs ⟨a, m, tw, cur⟩ := rfl
      have ho : A.os ⟨a, m, cur :: tw, n⟩ = Bop.pow :: A.os ⟨a, m, tw, cur⟩ := rfl
      rw [hv, ho] at this
      rw [this, convFrom_pow]
    · by_cases hmul : isMul o = true
      · rw [popFor_mul ap o hmul ⟨a, m, tw, cur⟩ hwf]
        simp only []
        have hwf' : A.WF ⟨a, some (oapply ap m (collapse ap tw cur), o), [], n⟩ := by
          refine ⟨hwf.1, ?_⟩
          intro p hp; cases hp; exact hmul
        have := ih ⟨a, some (oapply ap m (collapse ap tw cur), o), [], n⟩ hwf'
        have hv : A.vs ⟨a, some (oapply ap m (collapse ap tw cur), o), [], n⟩
            = n :: oapply ap m (collapse ap tw cur) :: ovals a := rfl
        have ho : A.os ⟨a, some (oapply ap m (collapse ap tw cur), o), [], n⟩ = o :: oops a := rfl
        rw [hv, ho] at this
        rw [this, convFrom_mul ap o hmul hp]
      · have hmul' : isMul o = false := by simpa using hmul
        have hadd : isAdd o = true := by cases o <;> simp_all [isMul, isAdd]
        rw [popFor_add ap o hadd ⟨a, m, tw, cur⟩ hwf]
        simp only []
        have hwf' : A.WF ⟨some (oapply ap a (oapply ap m (collapse ap tw cur)), o), none, [], n⟩ := by
          refine ⟨?_, ?_⟩
          · intro p hp; cases hp; exact hadd
          · intro p hp; cases hp
        have := ih ⟨some (oapply ap a (oapply ap m (collapse ap tw cur)), o), none, [], n⟩ hwf'
        have hv : A.vs ⟨some (oapply ap a (oapply ap m (collapse ap tw cur)), o), none, [], n⟩
            = [n, oapply ap a (oapply ap m (collapse ap tw cur))] := rfl
        have ho : A.os ⟨some (oapply ap a (oapply ap m (collapse ap tw cur)), o), none, [], n⟩ = [o] := rfl
        rw [hv, ho] at this
        rw [this, convFrom_add ap o hmul' hp]

/-- the shunting yard computes the conventional value, for every value domain and every
    interpretation `ap` of the operators -/
theorem yard_eq_conv (n0 : V) (toks : List (Bop × V)) : yard ap n0 toks = some (conv ap n0 toks) := by
  rw [conv_eq]
  exact run_conc ap toks ⟨none, none, [], n0⟩ ⟨(fun p h => nomatch h), (fun p h => nomatch h)⟩

end generic
end AC.Calc
