import AC.DictAlg
/-! The chain algorithms parametrised by the sequence-algorithm runner, so that theorems can speak
    about "every sufficiently large fuel" for the continued-fraction recursion while the driver
    uses a fuel search. -/
namespace P.DA
open P P.Bits

abbrev SeqRun := SeqAlg → List Int → Option (List Int)

def ChainAlg.findWith (sf : SeqRun) : ChainAlg → Nat → List TermP → Except Err (List Int)
  | .binaryRTL, n, _ => .ok (if n = 0 then [] else rtl n)
  | .asChain s, n, _ => match sf s [(n : Int)] with | some c => .ok c | none => .error .seq
  | .dict d s, n, o =>
    let sum := (d.run n).map fun t => (t.d, t.e)
    match sf s (dictionary (d.run n)) with
    | none => .error .seq
    | some c => finish sum (toNats c) o
  | .runs s, n, o =>
    let ts := decompose .runLength n 0 0
    let sum := ts.map fun t => (t.d, t.e)
    let lengths := (dictionary ts).map fun r => (bitLen r.toNat : Int)
    match sf s lengths with
    | none => .error .seq
    | some lc => match runsChainX lc with
      | .error _ => .error .runs
      | .ok c => finish sum (toNats c) o
  | .opt a, n, o => match a.findWith sf n o with
    | .error e => .error e
    | .ok c => .ok (P.OptX.optimize c)

def executeWith (sf : SeqRun) (a : ChainAlg) (n : Nat) (o : List TermP) : Except Err (List Int × List Op) :=
  match a.findWith sf n o with
  | .error e => .error e
  | .ok c => match program c with
    | .error _ => .error .chain
    | .ok p => if c.getLast? == some (n : Int) then .ok (c, p) else .error .target

theorem find_eq_findWith : ∀ (a : ChainAlg) (n : Nat) (o : List TermP), a.find n o = a.findWith SeqAlg.find n o
  | .binaryRTL, _, _ => rfl
  | .asChain _, _, _ => rfl
  | .dict _ _, _, _ => rfl
  | .runs _, _, _ => rfl
  | .opt a, n, o => by
    show (match a.find n o with | .error e => _ | .ok c => _) = (match a.findWith SeqAlg.find n o with | .error e => _ | .ok c => _)
    rw [find_eq_findWith a n o]

theorem execute_eq_executeWith (a : ChainAlg) (n : Nat) (o : List TermP) :
    execute a n o = executeWith SeqAlg.find a n o := by
  unfold execute executeWith
  rw [find_eq_findWith]
  rfl

/-- if one runner's successes are successes of another, so are the chain algorithm's -/
theorem findWith_mono (sf sg : SeqRun) (h : ∀ s T c, sf s T = some c → sg s T = some c) :
    ∀ (a : ChainAlg) (n : Nat) (o : List TermP) (c : List Int), a.findWith sf n o = .ok c → a.findWith sg n o = .ok c
  | .binaryRTL, _, _, _, hc => hc
  | .asChain s, n, _, c, hc => by
    unfold ChainAlg.findWith at hc ⊢
    cases hs : sf s [(n : Int)] with
    | none => rw [hs] at hc; cases hc
    | some c' => rw [hs] at hc; rw [h s _ c' hs]; exact hc
  | .dict d s, n, o, c, hc => by
    unfold ChainAlg.findWith at hc ⊢
    simp only [] at hc ⊢
    cases hs : sf s (dictionary (d.run n)) with
    | none => rw [hs] at hc; cases hc
    | some c' => rw [hs] at hc; rw [h s _ c' hs]; exact hc
  | .runs s, n, o, c, hc => by
    unfold ChainAlg.findWith at hc ⊢
    simp only [] at hc ⊢
    generalize hL : ((dictionary (decompose Method.runLength n 0 0)).map fun r => (bitLen r.toNat : Int)) = L at hc ⊢
    cases hs : sf s L with
    | none => rw [hs] at hc; cases hc
    | some c' => rw [hs] at hc; rw [h s _ c' hs]; exact hc
  | .opt a, n, o, c, hc => by
    unfold ChainAlg.findWith at hc ⊢
    cases ha : a.findWith sf n o with
    | error e => rw [ha] at hc; cases hc
    | ok c' => rw [ha] at hc; rw [findWith_mono sf sg h a n o c' ha]; exact hc

end P.DA
