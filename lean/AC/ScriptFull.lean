import AC.RTFull
import AC.Script
/-! # Script-level round trip over the full model (C07)

`parse (printChain t) = .ok t` for every well-formed tree: the tabwriter layout of
`printChain` is an instance of "name, ≥ 1 blank, `= `, expression, newline" /
"`return`, ≥ 1 blank, expression, newline", and such text parses back through
`Chain <- Assignment* Return _ EOF`.  Port of `AC/Script.lean` to per-line padding. -/
namespace P.PegF
open AC.Gen
open P.Peg (P por ws lit ident pfail ppure uintLitFull isWs isIdStart isIdChar shiftOp doubleOp addOp natStr
  bind_def pure_def por_left por_right lit_ok lit_cons_ok lit_fail_head lit_fail_nil ValidIdent EndTok
  ident_ok NoWsHead ws_id ws_def dropWs endTok_cons GoodHead NoShiftOp NoAddOp
  spaces dropWhile_spaces ws_spaces validIdent_return)

/-- the domain of the round-trip theorem -/
def WFTree (t : Tree) : Prop :=
  ∃ as x, t = as ++ [⟨[], x⟩] ∧ (∀ st ∈ as, ValidIdent st.name ∧ WF true st.e) ∧ WF true x

/-! ### lines with arbitrary padding -/
def lineA (p : Nat) (st : Stmt) : List Char :=
  st.name ++ (spaces (p + 1) ++ ('=' :: ' ' :: (prBody st.e ++ ['\n'])))
def lineR (p : Nat) (x : Expr) : List Char :=
  "return".toList ++ (spaces (p + 1) ++ (prBody x ++ ['\n']))

def printAllF (pa : Stmt → Nat) (pr : Nat) : List Stmt → Expr → List Char
  | [], x => lineR pr x
  | st :: r, x => lineA (pa st) st ++ printAllF pa pr r x

theorem stopNL (rest : List Char) :
    EndTok ('\n' :: rest) ∧ NoShiftOp ('\n' :: rest) ∧ NoBaseStart ('\n' :: rest) ∧ NoAddOp ('\n' :: rest) := by
  refine ⟨endTok_cons (by decide), ?_, ?_, ?_⟩
  · constructor <;> simp [dropWs, List.dropWhile, isWs, List.isPrefixOf]
  · exact noBaseStart_of_head (by decide) ⟨by decide, by decide, by decide, by decide⟩
  · constructor <;> simp [dropWs, List.dropWhile, isWs, List.isPrefixOf]

theorem dropWs_nl (rest : List Char) : dropWs ('\n' :: rest) = '\n' :: rest := by
  simp [dropWs, List.dropWhile, isWs]

/-- an assignment line parses back -/
theorem assignment_ok (fuel pad : Nat) (st : Stmt) (rest : List Char) (e : Bool)
    (hn : ValidIdent st.name) (hx : WF true st.e) (hf : pdepth st.e < fuel) :
    assignment fuel (lineA pad st ++ rest) e = (some (st, rest), e) := by
  obtain ⟨c, cs, hname, hc, hcs⟩ := hn
  unfold assignment lineA
  simp only [bind_def]
  have hshape : st.name ++ (spaces (pad + 1) ++ ('=' :: ' ' :: (prBody st.e ++ ['\n']))) ++ rest
      = st.name ++ (spaces (pad + 1) ++ ('=' :: ' ' :: (prBody st.e ++ '\n' :: rest))) := by simp
  rw [hshape]
  have hnw : NoWsHead (st.name ++ (spaces (pad + 1) ++ ('=' :: ' ' :: (prBody st.e ++ '\n' :: rest)))) := by
    rw [hname]; intro c' t h; simp at h
    cases hw : isWs c' with
    | false => rfl
    | true =>
      rw [← h.1] at hw
      simp [isWs] at hw
      rcases hw with (rfl | rfl) | rfl <;> simp [isIdStart] at hc
  rw [ws_id _ _ hnw]
  simp only []
  rw [ident_ok st.name _ e ⟨c, cs, hname, hc, hcs⟩ (by
    intro c' t h; simp [spaces, List.replicate_succ] at h; rw [← h.1]; decide)]
  simp only []
  rw [ws_spaces _ _ _ (by intro c' t h; cases h; decide)]
  simp only []
  rw [lit_cons_ok]
  simp only []
  have hws : ws (' ' :: (prBody st.e ++ '\n' :: rest)) e = (some ((), prBody st.e ++ '\n' :: rest), e) := by
    have := ws_spaces 1 (prBody st.e ++ '\n' :: rest) e (body_noWs hx _)
    simpa [spaces] using this
  rw [hws]
  simp only []
  obtain ⟨s1, s2, s3, s4⟩ := stopNL rest
  rw [expr_rt fuel st.e hx hf ('\n' :: rest) e s1 s2 s3 s4, dropWs_nl]
  simp only []
  rw [ws_id _ _ (by intro c' t h; cases h; decide)]
  simp only []
  unfold eol
  rw [lit_cons_ok]
  rfl

/-- the assignment rule fails on a return line (so the `*` loop stops there) -/
theorem assignment_fail_ret (fuel pad : Nat) (x : Expr) (rest : List Char) (e : Bool) (hx : WF true x) :
    assignment fuel (lineR pad x ++ rest) e = (none, e) := by
  unfold assignment lineR
  simp only [bind_def]
  have hshape : "return".toList ++ (spaces (pad + 1) ++ (prBody x ++ ['\n'])) ++ rest
      = "return".toList ++ (spaces (pad + 1) ++ (prBody x ++ '\n' :: rest)) := by simp
  rw [hshape]
  rw [ws_id _ _ (by intro c' t h; cases h; decide)]
  simp only []
  rw [ident_ok _ _ e validIdent_return (by
    intro c' t h; simp [spaces, List.replicate_succ] at h; rw [← h.1]; decide)]
  simp only []
  rw [ws_spaces _ _ _ (body_noWs hx _)]
  simp only []
  obtain ⟨c, tl, hb, hg⟩ := body_head hx
  rw [hb]
  have hne : '=' ≠ c := by
    rcases hg with rfl | rfl | rfl | rfl | h
    · decide
    · decide
    · decide
    · decide
    · rintro rfl; simp [isIdStart] at h
  simp only [List.cons_append]
  rw [lit_fail_head _ _ _ _ _ hne]

theorem ret_ok (fuel pad : Nat) (x : Expr) (e : Bool) (hx : WF true x) (hf : pdepth x < fuel) :
    ret fuel (lineR pad x) e = (some (⟨[], x⟩, []), e) := by
  unfold ret lineR
  simp only [bind_def]
  have hshape : "return".toList ++ (spaces (pad + 1) ++ (prBody x ++ ['\n']))
      = "return".toList ++ (' ' :: (spaces pad ++ (prBody x ++ ['\n']))) := by
    simp [spaces, List.replicate_succ]
  rw [hshape]
  rw [ws_id _ _ (by intro c' t h; cases h; decide)]
  simp only []
  have hkw : optU retKw ("return".toList ++ (' ' :: (spaces pad ++ (prBody x ++ ['\n'])))) e
      = (some ((), prBody x ++ ['\n']), e) := by
    unfold optU retKw
    simp only [bind_def]
    rw [lit_ok]
    simp only [ws1]
    have : isWs ' ' = true := by decide
    simp only [this, if_true]
    rw [dropWhile_spaces pad _ (body_noWs hx _)]
  rw [hkw]
  simp only []
  obtain ⟨s1, s2, s3, s4⟩ := stopNL []
  rw [expr_rt fuel x hx hf ['\n'] e s1 s2 s3 s4, dropWs_nl]
  simp only []
  rw [ws_id _ _ (by intro c' t h; cases h; decide)]
  simp only []
  have : optU eol ['\n'] e = (some ((), []), e) := by
    unfold optU eol; rw [lit_cons_ok]
  rw [this]
  rfl

/-- the `Assignment*` loop reads exactly the assignment lines -/
theorem starA_ok (fuel : Nat) (pa : Stmt → Nat) (pr : Nat) :
    ∀ (as : List Stmt) (k : Nat) (acc : List Stmt) (x : Expr) (e : Bool),
    as.length < k → (∀ st ∈ as, ValidIdent st.name ∧ WF true st.e ∧ pdepth st.e < fuel) → WF true x →
    starA fuel k acc (printAllF pa pr as x) e = (some (acc ++ as, lineR pr x), e) := by
  intro as
  induction as with
  | nil =>
    intro k acc x e hk _ hx
    obtain ⟨k', rfl⟩ : ∃ k', k = k' + 1 := ⟨k - 1, by simp at hk; omega⟩
    simp only [starA, printAllF]
    have := assignment_fail_ret fuel pr x [] e hx
    simp only [List.append_nil] at this
    rw [this]
    simp
  | cons st r ih =>
    intro k acc x e hk hall hx
    obtain ⟨k', rfl⟩ : ∃ k', k = k' + 1 := ⟨k - 1, by simp at hk; omega⟩
    obtain ⟨h1, h2, h3⟩ := hall st (by simp)
    simp only [starA, printAllF]
    rw [assignment_ok fuel (pa st) st _ e h1 h2 h3]
    simp only []
    rw [ih k' (acc ++ [st]) x e (by simp at hk; omega) (fun s hs => hall s (List.mem_cons_of_mem _ hs)) hx]
    simp

theorem length_lt_printAllF (pa : Stmt → Nat) (pr : Nat) (as : List Stmt) (x : Expr) :
    as.length < (printAllF pa pr as x).length := by
  induction as with
  | nil =>
    show 0 < ("return".toList ++ (spaces (pr + 1) ++ (prBody x ++ ['\n']))).length
    rw [List.length_append]; exact Nat.lt_of_lt_of_le (by decide : 0 < "return".toList.length) (Nat.le_add_right _ _)
  | cons st r ih =>
    have h1 : 0 < (lineA (pa st) st).length := by
      show 0 < (st.name ++ (spaces (pa st + 1) ++ ('=' :: ' ' :: (prBody st.e ++ ['\n'])))).length
      rw [List.length_append, List.length_append, List.length_cons]; omega
    show (st :: r).length < (lineA (pa st) st ++ printAllF pa pr r x).length
    rw [List.length_append, List.length_cons]
    omega

/-- a whole script — assignments with valid names, then the return statement — printed with
    any padding parses back to itself -/
theorem chain_rt (fuel : Nat) (pa : Stmt → Nat) (pr : Nat) (as : List Stmt) (x : Expr)
    (hall : ∀ st ∈ as, ValidIdent st.name ∧ WF true st.e ∧ pdepth st.e < fuel) (hx : WF true x)
    (hf : pdepth x < fuel) :
    chainP fuel (printAllF pa pr as x) false = (some (as ++ [⟨[], x⟩], []), false) := by
  unfold chainP
  simp only [bind_def]
  rw [starA_ok fuel pa pr as _ [] x false (length_lt_printAllF pa pr as x) hall hx]
  simp only [List.nil_append]
  rw [ret_ok fuel pr x false hx hf]
  simp only []
  rw [ws_def]
  simp only [List.dropWhile]
  simp [eof]

/-! ### the tabwriter layout is an instance of `printAllF` -/

theorem foldl_max_ge_init (cells : List (List Char)) (init : Nat) :
    init ≤ cells.foldl (fun w c => max w (c.length + 1)) init := by
  induction cells generalizing init with
  | nil => exact Nat.le_refl _
  | cons a t ih => exact Nat.le_trans (Nat.le_max_left _ _) (ih _)

theorem foldl_max_ge_mem (cells : List (List Char)) (init : Nat) (c : List Char) (h : c ∈ cells) :
    c.length + 1 ≤ cells.foldl (fun w c => max w (c.length + 1)) init := by
  induction cells generalizing init with
  | nil => cases h
  | cons a t ih =>
    rcases List.mem_cons.1 h with rfl | h
    · exact Nat.le_trans (Nat.le_max_right _ _) (foldl_max_ge_init t _)
    · exact ih _ h

theorem foldl_max_le (cells : List (List Char)) (init k : Nat) (hi : init ≤ k)
    (h : ∀ c ∈ cells, c.length + 1 ≤ k) :
    cells.foldl (fun w c => max w (c.length + 1)) init ≤ k := by
  induction cells generalizing init with
  | nil => exact hi
  | cons a t ih =>
    apply ih
    · exact Nat.max_le.2 ⟨hi, h a (by simp)⟩
    · intro c hc; exact h c (by simp [hc])

theorem colWidth_ge (cells : List (List Char)) (c : List Char) (h : c ∈ cells) :
    c.length + 1 ≤ colWidth cells := foldl_max_ge_mem cells 1 c h
theorem colWidth_pos (cells : List (List Char)) : 1 ≤ colWidth cells := foldl_max_ge_init cells 1
theorem colWidth_le (cells : List (List Char)) (k : Nat) (hk : 1 ≤ k) (h : ∀ c ∈ cells, c.length + 1 ≤ k) :
    colWidth cells ≤ k := foldl_max_le cells 1 k hk h

theorem spaces_add (a b : Nat) : spaces a ++ spaces b = spaces (a + b) := by
  simp [spaces, List.replicate_append_replicate]

theorem printLine_named (w1 w2 : Nat) (st : Stmt) (hne : st.name ≠ []) (h1 : st.name.length + 1 ≤ w1)
    (h2 : w2 = 2) : printLine w1 w2 st = lineA (w1 - st.name.length - 1) st := by
  have hemp : st.name.isEmpty = false := by
    cases hn : st.name with
    | nil => exact absurd hn hne
    | cons a b => rfl
  subst h2
  simp only [printLine, cell1, cell2, hemp, padTo, prAt_lowest, lineA, spaces]
  have : w1 - st.name.length = w1 - st.name.length - 1 + 1 := by omega
  rw [← this]
  simp

theorem printLine_ret (w1 w2 : Nat) (x : Expr) (h1 : 7 ≤ w1) (h2 : 1 ≤ w2) :
    printLine w1 w2 ⟨[], x⟩ = lineR (w1 - 6 + w2 - 1) x := by
  have hlen : "return".toList.length = 6 := by decide
  have hidx : w1 - 6 + w2 - 1 + 1 = (w1 - 6) + w2 := by omega
  simp only [printLine, cell1, cell2, padTo, prAt_lowest, lineR, List.isEmpty_nil, if_true, hlen, hidx,
    spaces, List.length_nil, Nat.sub_zero, List.nil_append, List.append_assoc]
  rw [← List.append_assoc (List.replicate _ _), List.replicate_append_replicate]

theorem flatMap_lines (w1 w2 : Nat) (x : Expr) (h7 : 7 ≤ w1) (hw2 : 1 ≤ w2) :
    ∀ (as : List Stmt), (∀ st ∈ as, st.name ≠ [] ∧ st.name.length + 1 ≤ w1) → (as ≠ [] → w2 = 2) →
    (as ++ [(⟨[], x⟩ : Stmt)]).flatMap (printLine w1 w2)
      = printAllF (fun st => w1 - st.name.length - 1) (w1 - 6 + w2 - 1) as x := by
  intro as
  induction as with
  | nil =>
    intro _ _
    simp only [List.nil_append, List.flatMap_cons, List.flatMap_nil, List.append_nil, printAllF]
    exact printLine_ret w1 w2 x h7 hw2
  | cons st r ih =>
    intro hall h2
    have hw : w2 = 2 := h2 (by simp)
    obtain ⟨hne, hl⟩ := hall st (by simp)
    simp only [List.cons_append, List.flatMap_cons, printAllF]
    rw [printLine_named w1 w2 st hne hl hw, ih (fun s hs => hall s (List.mem_cons_of_mem _ hs)) (fun _ => hw)]

theorem validIdent_ne_nil {s : List Char} (h : ValidIdent s) : s ≠ [] := by
  obtain ⟨c, cs, rfl, _, _⟩ := h
  simp

/-- the printed text of a well-formed tree, as lines with explicit padding -/
theorem printChain_eq (as : List Stmt) (x : Expr) (hall : ∀ st ∈ as, ValidIdent st.name) :
    ∃ pa pr, printChain (as ++ [⟨[], x⟩]) = printAllF pa pr as x := by
  let t : Tree := as ++ [⟨[], x⟩]
  let w1 := colWidth (t.map cell1)
  let w2 := colWidth (t.map cell2)
  refine ⟨fun st => w1 - st.name.length - 1, w1 - 6 + w2 - 1, ?_⟩
  have hret : (⟨[], x⟩ : Stmt) ∈ t := by simp [t]
  have h7 : 7 ≤ w1 := by
    have := colWidth_ge (t.map cell1) "return".toList (List.mem_map.2 ⟨⟨[], x⟩, hret, by simp [cell1]⟩)
    have hlen : "return".toList.length = 6 := by decide
    rw [hlen] at this
    exact this
  have hw2 : 1 ≤ w2 := colWidth_pos _
  apply flatMap_lines w1 w2 x h7 hw2 as
  · intro st hst
    have hne := validIdent_ne_nil (hall st hst)
    refine ⟨hne, ?_⟩
    have hmem : st ∈ t := by simp [t, hst]
    have hc : cell1 st = st.name := by
      cases hn : st.name with
      | nil => exact absurd hn hne
      | cons a b => simp [cell1, hn]
    have := colWidth_ge (t.map cell1) (cell1 st) (List.mem_map.2 ⟨st, hmem, rfl⟩)
    rw [hc] at this
    exact this
  · intro hne
    apply Nat.le_antisymm
    · apply colWidth_le _ 2 (by omega)
      intro c hc
      obtain ⟨st, _, rfl⟩ := List.mem_map.1 hc
      unfold cell2
      split <;> simp
    · cases as with
      | nil => exact absurd rfl hne
      | cons st r =>
        have hne' := validIdent_ne_nil (hall st (by simp))
        have hmem : st ∈ t := by simp [t]
        have hc : cell2 st = ['='] := by
          cases hn : st.name with
          | nil => exact absurd hn hne'
          | cons a b => simp [cell2, hn]
        have := colWidth_ge (t.map cell2) (cell2 st) (List.mem_map.2 ⟨st, hmem, rfl⟩)
        rw [hc] at this
        exact this

theorem body_le_printAllF (pa : Stmt → Nat) (pr : Nat) (as : List Stmt) (x : Expr) :
    (∀ st ∈ as, (prBody st.e).length ≤ (printAllF pa pr as x).length) ∧
    (prBody x).length ≤ (printAllF pa pr as x).length := by
  induction as with
  | nil =>
    refine ⟨fun st h => (by cases h), ?_⟩
    simp only [printAllF, lineR, List.length_append]
    omega
  | cons st r ih =>
    constructor
    · intro s hs
      simp only [printAllF, List.length_append]
      rcases List.mem_cons.1 hs with rfl | hs
      · simp only [lineA, List.length_append, List.length_cons]; omega
      · have := ih.1 s hs; omega
    · simp only [printAllF, List.length_append]
      have := ih.2; omega

/-- **C07 round trip over the full model** -/
theorem roundtrip (t : Tree) (h : WFTree t) : parse (printChain t) = .ok t := by
  obtain ⟨as, x, rfl, hall, hx⟩ := h
  obtain ⟨pa, pr, hp⟩ := printChain_eq as x (fun st hst => (hall st hst).1)
  rw [hp]
  have hlen := body_le_printAllF pa pr as x
  have := chain_rt ((printAllF pa pr as x).length + 1) pa pr as x
    (fun st hst => ⟨(hall st hst).1, (hall st hst).2, by
      have h1 := pdepth_le_length st.e
      have h2 := hlen.1 st hst
      omega⟩) hx (by
      have h1 := pdepth_le_length x
      have h2 := hlen.2
      omega)
  unfold parse
  rw [this]

end P.PegF
