import AC.AllocXProof
/-! # C05 — allocated programs compute the chain, also when the output aliases the input

Model: `AC.AllocX.allocateX` (= `Allocator.Execute` of `acc/pass/alloc.go`: reverse scan with a
LIFO free list, `lastinputread`, the naming loop over the sorted operand indexes with temporaries
numbered in ascending index order) and `AC.AllocX.execX` (= the interpreter of
`acc/eval/interp.go`: create the output register, load the operands — an undefined one is an
error —, write the result; with aliasing the output name denotes the input register).

Well-formedness is the executable check `AC.PeakLive.wfB`, written from the property text: outputs
are ≥ 1 and strictly increasing, every input is element 0 or the output of an earlier instruction.
`chainEnd ir` is the value of the last chain element (the result of the last instruction) when
element 0 is 1; for an input value `v` the registers hold `v` times the chain values. -/
namespace AC.Props.C05
open P.Alloc AC.AllocX AC.PeakLive

/-- For every well-formed non-empty program, every naming configuration with pairwise distinct
input / output / temporary names, both alias modes and every input value `v`: allocation
succeeds; running the allocated program on the register machine from the state in which only the
input register is defined (value `v`) succeeds (no operand is ever undefined) and leaves
`chainEnd ir * v` in the output register (which is the input register in alias mode); no
instruction writes the input name; every operand carries a name — the input name, the output
name or a declared temporary. -/
theorem C05_correct {α : Type} [DecidableEq α] (cfg : Cfg α) (ir : List Inst)
    (hwf : wfB ir = true) (hne : ir ≠ []) (hd : NamesDistinct cfg) (alias : Bool) (v : Int) :
    ∃ prog temps, allocateX cfg ir = .ok (prog, temps) ∧
      (∃ st, execX cfg alias prog (initX cfg v) = .ok st ∧
        getX st (cellX cfg alias cfg.output) = some (chainEnd ir * v)) ∧
      (∀ i ∈ prog, i.out ≠ cfg.input) ∧
      (∀ n ∈ usedNames prog, n = cfg.input ∨ n = cfg.output ∨ n ∈ temps) := by
  have hWF := wf_of_wfB ir hwf hne
  refine ⟨_, _, allocateX_eq cfg ir hne, ?_, ?_, ?_⟩
  · -- the run
    obtain ⟨init, last, rfl⟩ : ∃ init last, ir = init ++ [last] :=
      ⟨ir.dropLast, ir.getLast hne, (List.dropLast_concat_getLast hne).symm⟩
    have hdist : ∀ pre inst suf, init ++ [last] = pre ++ inst :: suf → ∀ j ∈ liveAt suf, j ≠ inst.out →
        cellX cfg alias (nameX cfg (init ++ [last]) j) ≠ cellX cfg alias (nameX cfg (init ++ [last]) inst.out) := by
      intro pre inst suf e j hj hjo
      rw [e]
      exact cellX_live_distinct hd alias pre inst suf (e ▸ hWF.wfs) (e ▸ hWF.outs) j hj hjo
    have h0 : SimX cfg alias v (nameX cfg (init ++ [last])) [] (init ++ [last]) (initX cfg v) := by
      intro i hi
      have : i = 0 := hWF.closed i hi
      subst this
      have hn : nameX cfg (init ++ [last]) 0 = cfg.input := by simp [nameX, regOf, nameOf]
      have hc : cellX cfg alias cfg.input = cfg.input := by
        unfold cellX; split <;> rfl
      rw [hn, hc]
      simp [initX, updX, getX, envV, upd]
    obtain ⟨st1, he1, hs1⟩ := simX_run cfg alias v (nameX cfg (init ++ [last])) (init ++ [last]) hdist
      init [] [last] (initX cfg v) (by simp) h0
    obtain ⟨st2, he2, _, hout⟩ := simX_step cfg alias v (nameX cfg (init ++ [last])) ([] ++ init) last [] st1
      (by intro j hj; simp [liveAt] at hj) hs1
    refine ⟨st2, ?_, ?_⟩
    · rw [List.map_append, execX_append cfg alias _ _ _ _ he1]
      simp only [List.map_cons, List.map_nil, execX, he2]
    · have hz : nameX cfg (init ++ [last]) last.out = cfg.output := by
        simp [nameX, regOf_last init last hWF, nameOf]
      rw [hz] at hout
      rw [hout]
      simp only [List.nil_append]
      rw [envV_linear, chainEnd, lastOut_snoc]
  · -- the input name is never written
    intro i hi
    obtain ⟨inst, hinst, rfl⟩ := List.mem_map.mp hi
    show nameX cfg ir inst.out ≠ cfg.input
    have hpos : 1 ≤ inst.out := strictOuts_pos ir hWF.outs inst.out (by simp [outs]; exact ⟨inst, hinst, rfl⟩)
    have hop : inst.out ∈ operandIdx ir := (mem_operandIdx ir _).mpr ⟨inst, hinst, Or.inr rfl⟩
    intro e
    have : regOf ir inst.out = .x :=
      nameOf_inj hd _ _ _ (regOf_InS ir _ hop) trivial (by simpa [nameX, nameOf] using e)
    exact out_not_input alias ir inst.out (by omega) this
  · -- every operand is named
    intro n hn
    rw [usedNames_map] at hn
    obtain ⟨i, hi, rfl⟩ := List.mem_map.mp hn
    have hS := regOf_InS ir i hi
    unfold nameX
    cases h : regOf ir i with
    | x => exact Or.inl rfl
    | z => exact Or.inr (Or.inl rfl)
    | t w =>
      rw [h] at hS
      refine Or.inr (Or.inr ?_)
      simp only [nameOf, tempsOf, List.mem_map, List.mem_range]
      exact ⟨_, pos_lt_of_mem _ w hS, rfl⟩

/-- The declared temporaries are exactly the names used other than the input and the output name,
and no temporary is declared twice. -/
theorem C05_temporaries_exact {α : Type} (cfg : Cfg α) (ir : List Inst)
    (hd : NamesDistinct cfg) (prog : List (NInst α)) (temps : List α)
    (h : allocateX cfg ir = .ok (prog, temps)) :
    temps.Nodup ∧ ∀ n, n ∈ temps ↔ (n ∈ usedNames prog ∧ n ≠ cfg.input ∧ n ≠ cfg.output) := by
  have hne : ir ≠ [] := by
    intro e; subst e; simp [allocateX] at h
  rw [allocateX_eq cfg ir hne] at h
  injection h with h
  injection h with hp ht
  subst hp; subst ht
  have hA := buildA_nodup (regOf ir) (indexes ir)
  constructor
  · unfold tempsOf
    rw [List.nodup_iff_pairwise_ne, List.pairwise_map]
    have := List.nodup_range (n := (buildA (regOf ir) (indexes ir)).length)
    rw [List.nodup_iff_pairwise_ne] at this
    exact this.imp (fun hab e => hab (hd.tt _ _ e))
  · intro n
    rw [usedNames_map]
    constructor
    · intro hn
      simp only [tempsOf, List.mem_map, List.mem_range] at hn
      obtain ⟨k, hk, rfl⟩ := hn
      refine ⟨?_, hd.ti k, hd.to k⟩
      have hmem : (buildA (regOf ir) (indexes ir))[k] ∈ buildA (regOf ir) (indexes ir) := List.getElem_mem hk
      obtain ⟨i, hi, hr⟩ := buildA_origin _ _ _ hmem
      refine List.mem_map.mpr ⟨i, (mem_indexes ir i).mp hi, ?_⟩
      simp only [nameX, hr, nameOf]
      rw [pos_getElem _ k hk hA]
    · rintro ⟨hn, hni, hno⟩
      obtain ⟨i, hi, rfl⟩ := List.mem_map.mp hn
      have hS := regOf_InS ir i hi
      unfold nameX at hni hno ⊢
      cases h : regOf ir i with
      | x => rw [h] at hni; exact absurd rfl hni
      | z => rw [h] at hno; exact absurd rfl hno
      | t w =>
        rw [h] at hS
        simp only [nameOf, tempsOf, List.mem_map, List.mem_range]
        exact ⟨_, pos_lt_of_mem _ w hS, rfl⟩

/-- the empty program is refused (recent fix in `Allocator.Execute`) -/
theorem C05_empty_refused {α : Type} (cfg : Cfg α) : ∃ e, allocateX cfg [] = .error e := ⟨_, rfl⟩

/-- `t0, t1, …` style names: a prefix followed by the decimal number is injective in the number -/
theorem C05_format_injective (pre : String) (j k : Nat)
    (h : pre ++ toString j = pre ++ toString k) : j = k := by
  have h1 : (pre ++ toString j).toList = (pre ++ toString k).toList := by rw [h]
  simp only [String.toList_append, List.append_cancel_left_eq] at h1
  have h2 : j.repr.toList = k.repr.toList := h1
  rw [Nat.toList_repr, Nat.toList_repr] at h2
  have := congrArg (fun l => Nat.ofDigitChars 10 l 0) h2
  simpa [Nat.ofDigitChars_ten_toDigits] using this

/-- non-vacuity: `1:D(0); 2:A(0,1); 3:A(1,2)` is well-formed, needs one temporary, and the output
    name is reused before the end -/
example : wfB [⟨1, .dbl 0⟩, ⟨2, .add 0 1⟩, ⟨3, .add 1 2⟩] = true := by decide

end AC.Props.C05
