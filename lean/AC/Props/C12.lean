import AC.ExecTrace
import AC.ExecComplete
/-! # C12 — parallel execution equals sequential execution under every schedule

Model: `P.ExecT` (AC/ExecTrace.lean), the labelled transition system of
`exec.Parallel.Execute` for `k` algorithms and concurrency limit `L`: main
`spawning j | waiting w | returned`, channel occupancy `tokens`, worker phases
`idle → spawned → started → running → finished → stored → doneLogged → released`, result slots
(`rs[i] = some i` stands for "slot i holds `Execute(n, aᵢ)`"). `Reach k L s` = there is a finite
execution (any interleaving of main and the workers, any completion order) from `init k` to `s`.
All statements are for every `k`, every `L` and every schedule (induction over executions).

Outside the model (DESIGN §8): that Go's buffered channel implements the token accounting, the Go
scheduler, the memory model and the absence of data races; these are tied by trace validation
(`accepts`, driven by the harness) and by race-detector runs. -/
namespace AC.Props.C12
open P.ExecT

/-- channel occupancy = tokens held by workers that have been spawned and have not yet released +
    tokens re-acquired by main in the closing loop; and it never exceeds the capacity `L` -/
theorem C12_tokens_inv {k L : Nat} {s : St} (h : Reach k L s) :
    s.tokens = nHolding s + mainHeld L s.main ∧ s.tokens ≤ L :=
  ⟨(inv_reach h).tok, (inv_reach h).tok_le⟩

/-- in every reachable state at most `L` workers are between acquiring a token and releasing it;
    in particular at most `L` algorithms are inside `FindChain` -/
theorem C12_limit {k L : Nat} {s : St} (h : Reach k L s) : nHolding s ≤ L ∧ nRunning s ≤ L :=
  ⟨limit_respected h, Nat.le_trans (nRunning_le_nHolding s) (limit_respected h)⟩

/-- once main has returned, every slot `i` holds the result of algorithm `i` and every worker has
    finished and released its token -/
theorem C12_return {k L : Nat} {s : St} (h : Reach k L s) (hr : s.main = .returned) :
    ∀ i, i < k → s.rs[i]? = some (some i) ∧ s.ph[i]? = some .released :=
  return_complete h hr

/-- deadlock freedom: with `L ≥ 1` every reachable state in which main has not returned has an
    enabled step -/
theorem C12_progress {k L : Nat} (hL : 1 ≤ L) {s : St} (h : Reach k L s) (hn : s.main ≠ .returned) :
    ∃ a t, Step k L s a t :=
  progress hL h hn

/-- with `L = 0` and at least one algorithm the initial state is stuck: `Execute` never returns
    (the `-p 0` hang) -/
theorem C12_limit_zero_blocks {k : Nat} (hk : 1 ≤ k) : ¬ ∃ a t, Step k 0 (init k) a t :=
  limit_zero_blocks hk

/-- executions share no result slot: the only step that changes slot `j` is worker `j`'s store,
    and it writes the result of algorithm `j` -/
theorem C12_slots {k L : Nat} {s t : St} {a : Act} (h : Step k L s a t) (j : Nat)
    (hne : t.rs[j]? ≠ s.rs[j]?) : a = .store j ∧ t.rs[j]? = some (some j) :=
  slots_private h j hne

/-- a trace accepted by the (executable) acceptance function is the observable part of an
    execution of the LTS from `init` that ends with main returned — so every theorem above applies
    to the states it passes through -/
theorem C12_accepts_sound {k L : Nat} {tr : List Event} (h : accepts k L tr = none) :
    ∃ as s, Exec k L (init k) as s ∧ as.filterMap obs = tr ∧ s.main = .returned ∧
      ∀ i, i < k → s.rs[i]? = some (some i) := by
  obtain ⟨as, s, hx, ho, hr⟩ := accepts_sound h
  exact ⟨as, s, hx, ho, hr, fun i hi => (return_complete ⟨as, hx⟩ hr i hi).1⟩

/-- on an accepted trace, at every prefix the number of algorithms that have entered `FindChain`
    and not left it is at most `L` -/
theorem C12_accepted_limit {k L : Nat} {tr : List Event} (h : accepts k L tr = none) :
    ∀ p, p <+: tr → nRun p ≤ nFin p + L :=
  accepted_limit h

/-- **the acceptor is complete**: the observable trace of EVERY execution of the LTS (any interleaving of
    main and the workers, any completion order) from `init` that ends with main returned is accepted —
    so a trace recorded from an implementation that behaves like the LTS is never rejected -/
theorem C12_accepts_complete {k L : Nat} {as : List Act} {s : St} (h : Exec k L (init k) as s)
    (hret : s.main = .returned) : accepts k L (as.filterMap obs) = none :=
  accepts_complete h hret

/-- soundness and completeness together: the executable acceptor decides exactly "is the observable
    trace of a complete execution of the model of `exec.Parallel.Execute`" -/
theorem C12_accepts_iff {k L : Nat} (tr : List Event) :
    accepts k L tr = none ↔
      ∃ as s, Exec k L (init k) as s ∧ as.filterMap obs = tr ∧ s.main = .returned :=
  accepts_iff tr

/-- non-vacuity: two algorithms, limit 1 — a concrete accepted trace, hence a reachable returned
    state -/
example : ∃ s, Reach 2 1 s ∧ s.main = .returned ∧ s.rs = [some 0, some 1] := by
  have hacc : accepts 2 1 [.start 0, .run 0, .fin 0, .done 0, .start 1, .run 1, .fin 1, .done 1, .ret]
      = none := by decide
  obtain ⟨as, s, hx, _, hr⟩ := accepts_sound hacc
  have hinv := inv_reach ⟨as, hx⟩
  have h0 := (return_complete ⟨as, hx⟩ hr 0 (by decide)).1
  have h1 := (return_complete ⟨as, hx⟩ hr 1 (by decide)).1
  refine ⟨s, ⟨as, hx⟩, hr, ?_⟩
  have hl := hinv.len_rs
  match hrs : s.rs, hl with
  | [a, b], _ =>
    rw [hrs] at h0 h1
    simp at h0 h1
    rw [h0, h1]

/-- non-vacuity of the interleavings: with limit 2 the two runs may overlap and finish in the
    other order -/
example : accepts 2 2 [.start 0, .start 1, .run 1, .run 0, .fin 1, .done 1, .fin 0, .done 0, .ret]
    = none := by decide

/-- negative self-test of the acceptance function: with limit 1 two overlapping runs are rejected
    (worker 1 cannot have been spawned while worker 0 still holds the only token) -/
example : accepts 2 1 [.start 0, .run 0, .start 1, .run 1, .fin 0, .fin 1, .done 0, .done 1, .ret]
    = some 2 := by decide

/-- negative self-tests: returning before a worker is done, a result missing, a `run` without
    `start`, limit 0 -/
example : accepts 2 2 [.start 0, .start 1, .run 0, .run 1, .fin 0, .done 0, .ret] = some 6 := by decide
example : accepts 2 2 [.start 0, .run 0, .fin 0, .done 0, .ret] = some 4 := by decide
example : accepts 1 1 [.run 0] = some 0 := by decide
example : accepts 1 0 [.start 0] = some 0 := by decide
example : accepts 1 1 [.start 0, .run 0, .fin 0, .done 0] = some 4 := by decide

end AC.Props.C12
