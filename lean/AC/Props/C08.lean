import AC.SeqAlg
import AC.HeurTie
/-! # C08 — addition-sequence algorithms return a valid chain containing every target

Model: `P.SeqAlg.find` — `heuristic.Algorithm.FindSequence` (Bos–Coster loop over `Suggest` of
Halving / DeltaLargest / Approximation / UseFirst) and `contfrac.Algorithm.FindSequence`
(`chain`/`minchain` with the seven strategies). Targets are lists of integers in any order, with
or without repeats, 1 and 2. -/
namespace AC.Props.C08
open P

/-- heuristic compositions containing a total heuristic: always succeed with a valid chain ⊇ targets -/
theorem C08_heuristic_total (h : Heur) (ht : h.isTotal = true) (T : List Int) (hT : ∀ x ∈ T, 1 ≤ x) :
    ∃ c, (SeqAlg.heuristic h).find T = some c ∧ IsChain c ∧ ∀ x ∈ T, x ∈ c :=
  findSequence_total h.suggest h.sound (h.total ht) T hT _ (Nat.le_refl _)

/-- any heuristic (also a partial one used alone): may fail, never returns a bad chain -/
theorem C08_heuristic_partial (h : Heur) (T c : List Int) (hT : ∀ x ∈ T, 1 ≤ x)
    (hc : (SeqAlg.heuristic h).find T = some c) : IsChain c ∧ ∀ x ∈ T, x ∈ c :=
  findSequence_ok h.suggest h.sound _ T c hT hc

/-- continued fractions, every strategy: whatever the executable model returns is a valid chain ⊇ targets -/
theorem C08_contfrac_ok (s : Strategy) (T c : List Int) (hne : T ≠ []) (hT : ∀ x ∈ T, 1 ≤ x)
    (hc : (SeqAlg.contfrac s).find T = some c) : IsChain c ∧ ∀ x ∈ T, x ∈ c := by
  obtain ⟨f, hf⟩ := cfSearch_some s _ c _ _ hc
  exact contfrac_ok s f T c hne hT hf

/-- continued fractions, every strategy, termination: the recursion of `chain`/`minchain` returns
    for some fuel (every strategy proposes `2 ≤ k < n`), with a valid chain ⊇ targets; by `C08_fuel_mono`
    every larger fuel returns the same chain -/
theorem C08_contfrac_complete (s : Strategy) (T : List Int) (hne : T ≠ []) (hT : ∀ x ∈ T, 1 ≤ x) :
    ∃ f c, chain s f (T.mergeSort (fun a b => a ≤ b)) = some c ∧ IsChain c ∧ ∀ x ∈ T, x ∈ c :=
  contfrac_complete s T hne hT

theorem C08_fuel_mono (s : Strategy) (f k : Nat) (ns c : List Int) (h : chain s f ns = some c) :
    chain s (f + k) ns = some c := chain_mono_add s f k ns c h

/-- every strategy proposes only `2 ≤ k < n` and at least one `k` (what makes the recursion terminate) -/
theorem C08_strategy_range (s : Strategy) : StratOK s := stratOK_all s

/-- non-vacuity -/
example : (Heur.useFirst [.halving, .deltaLargest]).isTotal = true := by decide

/-! ## `Halving.Suggest` and `DeltaLargest.Suggest` as TRANSLATED from heuristic.go

`AC/Gen/ProgramFns.lean` is regenerated from the Go source on every run (harness/cmd/extract/gotr.go);
`AC/HeurTie.lean` proves the translated functions equal to the models the theorems above are about. -/

/-- the translated `Halving.Suggest`, on a non-empty protosequence with a positive last element and a
    non-negative target: never panics and returns the model's suggestion (`[]` = nil = no suggestion) -/
theorem C08_src_halving (f : List Int) (t : Int) (hf : f ≠ []) (hnext : 0 < f.getLastD 0) (ht : 0 ≤ t) :
    AC.Gen.Program.heuristicHalvingSuggest f t = some ((suggestHalving f t).getD []) :=
  AC.HeurTie.halving_tie f t hf hnext ht

/-- the translated `Approximation.Suggest` on a sorted protosequence returns the model's suggestion (the
    two-pointer scan; never panics, never out of loop fuel) -/
theorem C08_src_approximation (f : List Int) (t : Int) (hs : f.Pairwise (· ≤ ·)) :
    AC.Gen.Program.heuristicApproximationSuggest f t = suggestApprox f t :=
  AC.HeurTie.approx_tie f t hs

/-- all seven translated strategies of contfrac.go (`dyadic`, `fermat`, `total`: loops on a fuel counter, never
    exhausted; `sqrt` through the primitive `bSqrt`) propose exactly the
    model's k (every non-negative n) -/
theorem C08_src_strategies (n : Int) (hn : 0 ≤ n) :
    AC.Gen.Program.contfracBinaryStrategyK n = some (Strategy.K .binary n) ∧
    AC.Gen.Program.contfracCoBinaryStrategyK n = some (Strategy.K .coBinary n) ∧
    AC.Gen.Program.contfracDichotomicStrategyK n = some (Strategy.K .dichotomic n) ∧
    AC.Gen.Program.contfracDyadicStrategyK n = some (Strategy.K .dyadic n) ∧
    AC.Gen.Program.contfracFermatStrategyK n = some (Strategy.K .fermat n) ∧
    AC.Gen.Program.contfracTotalStrategyK n = some (Strategy.K .total n) ∧
    AC.Gen.Program.contfracSqrtStrategyK n = some (Strategy.K .sqrt n) :=
  ⟨AC.HeurTie.binaryK_tie n, AC.HeurTie.coBinaryK_tie n hn, AC.HeurTie.dichotomicK_tie n hn,
    AC.HeurTie.dyadicK_tie n hn, AC.HeurTie.fermatK_tie n hn, AC.HeurTie.totalK_tie n, AC.HeurTie.sqrtK_tie n hn⟩

/-- the translated `DeltaLargest.Suggest` panics exactly when the target does not exceed the last
    element and otherwise suggests the difference -/
theorem C08_src_deltaLargest (f : List Int) (t l : Int) (hl : f.getLast? = some l) :
    AC.Gen.Program.heuristicDeltaLargestSuggest f t = if t - l ≤ 0 then none else some [t - l] :=
  AC.HeurTie.deltaLargest_tie f t l hl

end AC.Props.C08
