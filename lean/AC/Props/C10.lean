import AC.OptProof
import AC.OptTie
/-! # C10 — chain optimisation only removes elements and keeps the chain valid

Model: `P.OptX.optimize` (alg/opt/opt.go, index based, with the conservative re-counting of
singleton lists and the in-place filtering of `pruneuses`). -/
namespace AC.Props.C10
open P P.OptX

/-- for every valid addition chain, in any element order: the result is a valid addition chain, a
    subsequence of the input, keeps the first element 1 and the same last element -/
theorem C10_optimize (c : Chain) (hc : IsChain c) :
    IsChain (optimize c) ∧ (optimize c).Sublist c ∧ (optimize c).head? = some 1 ∧
    (optimize c).getLast? = c.getLast? := optimize_ok c hc

/-- hence never longer than the input -/
theorem C10_not_longer (c : Chain) (hc : IsChain c) : (optimize c).length ≤ c.length :=
  (optimize_ok c hc).2.1.length_le

/-- the loop invariant behind it: every list of alternatives stays a duplicate-free subset of the
    original `Ops`, non-removed positions keep at least one alternative avoiding every removed
    position, singleton lists have positively counted operands, only interior positions are removed -/
theorem C10_invariant (c : Chain) (hc : IsChain c) :
    Inv c (((List.range (c.length - 1)).filter (0 < ·)).foldl (step c.length) (initSt c)) := by
  apply fold_inv c hc.2.2.2.1 _ _ (init_inv c hc)
  intro k hk
  simp at hk
  omega

/-- in a duplicate-free chain at most one op of a position uses a given index -/
theorem C10_uses_unique (c : Chain) (hnd : c.Nodup) (l : Nat) (hl : l < c.length) (k : Nat) (o o' : Op)
    (ho : o ∈ P.ops c l) (ho' : o' ∈ P.ops c l) (hu : uses o k = true) (hu' : uses o' k = true) : o = o' :=
  ops_uses_unique c hnd l hl k o o' ho ho' hu hu'

/-- non-vacuity: a valid non-ascending redundant chain -/
example : IsChain [1,2,3,4,5] := (isChainB_iff _).1 (by decide)

/-! ## `opt.Optimize` as TRANSLATED from opt.go

`AC/Gen/ProgramFns.lean` is regenerated from alg/opt/opt.go on every run (harness/cmd/extract/gotr.go);
`AC/OptTie.lean` proves the translated function equal to the model (`optimize_tie`: every chain, no panic,
nil error), loop by loop. The property, stated over the translated Go function itself: -/

/-- the translated `Optimize` on a valid chain returns, without error, a valid chain that is a
    subsequence of the input, starts at 1, ends at the same value and is not longer -/
theorem C10_src_optimize (c : Chain) (hc : IsChain c) :
    ∃ o, AC.Gen.Program.optOptimize c = some (o, none) ∧ IsChain o ∧ o.Sublist c ∧ o.head? = some 1 ∧
      o.getLast? = c.getLast? ∧ o.length ≤ c.length :=
  ⟨optimize c, AC.OptTie.optimize_tie c, (C10_optimize c hc).1, (C10_optimize c hc).2.1,
    (C10_optimize c hc).2.2.1, (C10_optimize c hc).2.2.2, C10_not_longer c hc⟩

/-- on ANY sequence (valid chain or not) the translated `Optimize` neither panics nor reports an error -/
theorem C10_src_total (c : Chain) : ∃ o, AC.Gen.Program.optOptimize c = some (o, none) :=
  ⟨_, AC.OptTie.optimize_tie c⟩

end AC.Props.C10
