import AC.OptProof
/-! # C10 — chain optimisation only removes elements and keeps the chain valid

Model: `P.OptX.optimize` (alg/opt/opt.go, index based, with the conservative re-counting of
singleton lists and the in-place filtering of `pruneuses`). -/
namespace AC.Props.C10
open P P.OptX

/-- for every valid addition chain, in any element order: the result is a valid addition chain, a
    subsequence of the input, keeps the first element 1 and the same last element -/
theorem C10_optimize (c : Chain) (hc : IsChain c) :
    IsChain (optimize c) ∧ (optimize c).Sublist c ∧ (optimize c).head? = some 1 ∧
    (optimize c).getLast? = c.getLast? := optimize_ok c hc

/-- hence never longer than the input -/
theorem C10_not_longer (c : Chain) (hc : IsChain c) : (optimize c).length ≤ c.length :=
  (optimize_ok c hc).2.1.length_le

/-- the loop invariant behind it: every list of alternatives stays a duplicate-free subset of the
    original `Ops`, non-removed positions keep at least one alternative avoiding every removed
    position, singleton lists have positively counted operands, only interior positions are removed -/
theorem C10_invariant (c : Chain) (hc : IsChain c) :
    Inv c (((List.range (c.length - 1)).filter (0 < ·)).foldl (step c.length) (initSt c)) := by
  apply fold_inv c hc.2.2.2.1 _ _ (init_inv c hc)
  intro k hk
  simp at hk
  omega

/-- in a duplicate-free chain at most one op of a position uses a given index -/
theorem C10_uses_unique (c : Chain) (hnd : c.Nodup) (l : Nat) (hl : l < c.length) (k : Nat) (o o' : Op)
    (ho : o ∈ P.ops c l) (ho' : o' ∈ P.ops c l) (hu : uses o k = true) (hu' : uses o' k = true) : o = o' :=
  ops_uses_unique c hnd l hl k o o' ho ho' hu hu'

/-- non-vacuity: a valid non-ascending redundant chain -/
example : IsChain [1,2,3,4,5] := (isChainB_iff _).1 (by decide)

end AC.Props.C10
