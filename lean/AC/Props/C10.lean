import AC.OptX
import AC.Opt
/-! # C10 — chain optimisation only removes elements and keeps the chain valid

Model: `P.OptX.optimize` (alg/opt/opt.go, index based, with the conservative re-counting of
singleton lists and the in-place filtering of `pruneuses`). -/
namespace AC.Props.C10
open P P.OptX

/-- full statement of the property over the executable model -/
def C10_Statement : Prop :=
  ∀ c : Chain, IsChain c →
    IsChain (optimize c) ∧ (optimize c).Sublist c ∧ (optimize c).head? = some 1 ∧
    (optimize c).getLast? = c.getLast?

/-- the result is a subsequence of the input, hence never longer (any input) -/
theorem C10_sublist (c : Chain) : (optimize c).Sublist c ∧ (optimize c).length ≤ c.length := by
  have h : (optimize c).Sublist c := by
    unfold optimize
    simp only []
    have h1 := (List.filter_sublist (l := c.zipIdx)
      (p := fun p => !(List.foldl (step c.length) (initSt c)
        (List.filter (fun x => decide (0 < x)) (List.range (c.length - 1)))).remove.contains p.2)).map (·.1)
    have h2 : c.zipIdx.map (·.1) = c := by simp [List.zipIdx_map_fst] 
    rw [h2] at h1
    exact h1
  exact ⟨h, h.length_le⟩

/-- the combinatorial core (proved at the level of alternatives valued by chain elements): after
    any run of the candidate loop, with the counters of `Optimize` (including its over-counting),
    every element that was not removed is still the sum of two elements that were not removed -/
theorem C10_core_alternatives (touched : Int → P.Opt.Node → Bool) (cands : List Int) (st : P.Opt.OS)
    (h : P.Opt.SInv st)
    (hun : ∀ (k : Int) (nodes : List P.Opt.Node), ∀ nd ∈ nodes,
      touched k (P.Opt.prune k nd) = false → P.Opt.prune k nd = nd) :
    let fin := cands.foldl (P.Opt.optStep touched) st
    ∀ nd ∈ fin.nodes, nd.val ∉ fin.removed → ∃ a ∈ nd.alts, a.1 ∉ fin.removed ∧ a.2 ∉ fin.removed :=
  P.Opt.opt_core touched cands st h hun

/-- non-vacuity: a redundant chain loses an element -/
example : isChainB [1,2,3,4,5] = true := by decide

end AC.Props.C10
