import AC.BuildXProof
/-! # C16 — names in built scripts are unique, legal and faithful

All theorems are about the concrete executable builder model `P.BuildX.buildX` (acc/build.go with the
naming passes `NameByteValues = NameBinaryValues(8, "_%b")`, `NameXRuns = NameBinaryRuns("x%d")` and the
fallback `i%d` of `builder.name`), for every IR program that compiles to a program `p` whose chain
`evaluate p` has pairwise distinct values and that contains no shift by zero (`Decompile` produces no
such shift; `C16_of_program` instantiates the theorems with `Decompile p`).

"The element a statement denotes" is taken from the direct semantics of scripts: `dRun [] [] s`
returns the final name table, which binds every statement's name to the chain index its
expression produced. -/
namespace AC.Props.C16
open P P.Sem P.BuildX P.Naming

/-- No two statements define the same name (the final, unnamed statement included). -/
theorem C16_names_distinct (ir : IR) (p : Prog) (hs : ∀ inst ∈ ir, ∀ x s, inst.op = .shl x s → 1 ≤ s)
    (hc : cAll [] ir = some p) (hnd : (evaluate p).Nodup) (s : Script) (hb : buildX ir = .ok s) :
    (s.map (·.name)).Nodup ∧ (s.dropLast.map (·.name)).Nodup := by
  obtain ⟨s', env', hb', hrun, _, _, _⟩ := buildX_facts ir p hs hc hnd
  rw [hb] at hb'; cases hb'
  have h := (dRun_fresh s [] [] _ hrun).1
  exact ⟨h, List.Nodup.sublist (List.Sublist.map _ (List.dropLast_sublist s)) h⟩

/-- Exactly the final statement is unnamed: the script is non-empty, its last statement has the
    empty name and every other statement has a non-empty name. -/
theorem C16_final_unnamed (ir : IR) (p : Prog) (hs : ∀ inst ∈ ir, ∀ x s, inst.op = .shl x s → 1 ≤ s)
    (hc : cAll [] ir = some p) (hnd : (evaluate p).Nodup) (s : Script) (hb : buildX ir = .ok s) :
    s ≠ [] ∧ (∃ e, s.getLast? = some ⟨"", e⟩) ∧ ∀ st ∈ s.dropLast, st.name ≠ "" := by
  obtain ⟨s', env', hb', _, hne, hlast, hn⟩ := buildX_facts ir p hs hc hnd
  rw [hb] at hb'; cases hb'
  refine ⟨hne, hlast, ?_⟩
  intro st hst
  obtain ⟨k, hk, _, _⟩ := hn st hst
  rw [hk]; exact nameS_ne_empty _ _

/-- Every name is a legal identifier `[a-zA-Z_][a-zA-Z0-9_]*`. -/
theorem C16_names_legal (ir : IR) (p : Prog) (hs : ∀ inst ∈ ir, ∀ x s, inst.op = .shl x s → 1 ≤ s)
    (hc : cAll [] ir = some p) (hnd : (evaluate p).Nodup) (s : Script) (hb : buildX ir = .ok s) :
    ∀ st ∈ s.dropLast, ∃ c cs, st.name.toList = c :: cs ∧ isIdStart c = true ∧ ∀ x ∈ cs, isIdChar x = true := by
  obtain ⟨s', env', hb', _, _, _, hn⟩ := buildX_facts ir p hs hc hnd
  rw [hb] at hb'; cases hb'
  intro st hst
  obtain ⟨k, hk, _, _⟩ := hn st hst
  obtain ⟨c, cs, h1, h2, h3⟩ := nameL_legal (evaluate p) k
  exact ⟨c, cs, by rw [hk]; simp [nameS, h1], h2, h3⟩

/-- A generated name describes its value: the script evaluates (`dRun`), every named statement is
    bound to a chain index `k` of the chain of `p`, and if its name is `_b` then element `k` has the
    value with binary digits `b`; if it is `xN` then element `k` is `2^N - 1`; if it is `iN` then
    `k = N`. (`Nat.ofDigitChars base ds 0` reads a digit string.) -/
theorem C16_faithful (ir : IR) (p : Prog) (hs : ∀ inst ∈ ir, ∀ x s, inst.op = .shl x s → 1 ≤ s)
    (hc : cAll [] ir = some p) (hnd : (evaluate p).Nodup) (s : Script) (hb : buildX ir = .ok s) :
    ∃ env, dRun [] [] s = some (p.map norm, env) ∧
      ∀ st ∈ s.dropLast, ∃ k, lookup env st.name = some k ∧ k < (evaluate p).length ∧
        (∀ ds, st.name.toList = '_' :: ds → ((Nat.ofDigitChars 2 ds 0 : Nat) : Int) = at' (evaluate p) k) ∧
        (∀ ds, st.name.toList = 'x' :: ds →
            at' (evaluate p) k = ((2 ^ Nat.ofDigitChars 10 ds 0 - 1 : Nat) : Int)) ∧
        (∀ ds, st.name.toList = 'i' :: ds → Nat.ofDigitChars 10 ds 0 = k) := by
  obtain ⟨s', env', hb', hrun, _, _, hn⟩ := buildX_facts ir p hs hc hnd
  rw [hb] at hb'; cases hb'
  refine ⟨env', hrun, ?_⟩
  intro st hst
  obtain ⟨k, hk, hl, hle⟩ := hn st hst
  have hlen : k < (evaluate p).length := by rw [evaluate_length]; omega
  obtain ⟨f1, f2, f3⟩ := nameL_faithful (evaluate p) (evaluate_nonneg p) k hlen
  have htl : st.name.toList = nameL (evaluate p) k := by rw [hk]; simp [nameS]
  refine ⟨k, hl, hlen, ?_, ?_, ?_⟩
  · intro ds hd; exact f1 ds (by rw [← htl, hd])
  · intro ds hd; exact f2 ds (by rw [← htl, hd])
  · intro ds hd; exact f3 ds (by rw [← htl, hd])

/-- the four clauses for the script built from any valid chain program (in-range operands, pairwise
    distinct values): `Build (Decompile p)` succeeds and its names are distinct, the last one empty,
    the others legal and faithful -/
theorem C16_of_program (p : Prog) (h : InRange p 0) (hnd : (evaluate p).Nodup) :
    ∃ s, buildX (decompile p) = .ok s ∧ (s.map (·.name)).Nodup ∧
      (∃ e, s.getLast? = some ⟨"", e⟩) ∧
      (∀ st ∈ s.dropLast, ∃ c cs, st.name.toList = c :: cs ∧ isIdStart c = true ∧ ∀ x ∈ cs, isIdChar x = true) ∧
      ∃ env, dRun [] [] s = some (p.map norm, env) ∧
        ∀ st ∈ s.dropLast, ∃ k, lookup env st.name = some k ∧ k < (evaluate p).length ∧
          (∀ ds, st.name.toList = '_' :: ds → ((Nat.ofDigitChars 2 ds 0 : Nat) : Int) = at' (evaluate p) k) ∧
          (∀ ds, st.name.toList = 'x' :: ds →
              at' (evaluate p) k = ((2 ^ Nat.ofDigitChars 10 ds 0 - 1 : Nat) : Int)) ∧
          (∀ ds, st.name.toList = 'i' :: ds → Nat.ofDigitChars 10 ds 0 = k) := by
  have hs := decompileFrom_shl_pos p p.length p 0
  have hc := compile_decompile p h
  obtain ⟨s, _, hb, _, _, _, _⟩ := buildX_facts (decompile p) p hs hc hnd
  exact ⟨s, hb, (C16_names_distinct _ p hs hc hnd s hb).1, (C16_final_unnamed _ p hs hc hnd s hb).2.1,
    C16_names_legal _ p hs hc hnd s hb, C16_faithful _ p hs hc hnd s hb⟩

/-- The constants the model hard-wires (8 bits, `_%b`, `x%d`, `i%d`) are the ones in the Go source:
    `AC.Gen.*` is regenerated from acc/pass/naming.go and acc/build.go on every check. -/
theorem C16_naming_constants : AC.Gen.byteBits = 8 ∧ AC.Gen.byteFmt = "_%b" ∧ AC.Gen.xRunFmt = "x%d" ∧
    AC.Gen.indexFmt = "i%d" := naming_constants

/-- non-vacuity: a program whose script has three differently named statements -/
example : (match buildX (decompile [(0,0),(1,0),(2,2),(3,3),(4,4),(5,2)]) with
    | .ok s => s.map (·.name) | .error _ => []) = ["_10", "_11", "_11000", ""] := by decide

end AC.Props.C16
