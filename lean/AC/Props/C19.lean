import AC.HelpersX
import AC.BigintTie
import AC.BigintsTie
/-! # C19 — multi-precision helpers agree with their mathematical definitions

Models (the functions the correspondence run compares with internal/bigint, internal/bigints,
internal/bigvector): `P.HX.maskI`, `P.HX.extractI`, `P.HX.isPow2`, `P.HX.pow2UpTo`, `P.HX.bitsSet`,
`P.HX.minMax`, `P.HX.uint64s`, `P.HX.bytesLE`, `P.HX.hex`, `P.HX.binary`, `P.HX.sort`, `P.HX.index`,
`P.HX.contains`, `P.Helpers.containsSorted`, `P.uniq`, `P.insertSortedUnique`, `P.mergeUnique`,
`P.HX.vadd`, `P.HX.vlsh`. "Arguments unmodified" is not expressible on pure functions; it is observed by
the harness on every case (deep copy before, compare after). -/
namespace AC.Props.C19
open P P.Bits P.Helpers P.HX

/-- Mask(l,h) for `l ≤ h` is a natural number whose set bits are exactly the positions `l ≤ i < h` -/
theorem C19_mask_testBit (l h : Nat) (hlh : l ≤ h) :
    ∃ m : Nat, maskI l h = (m : Int) ∧ ∀ i, m.testBit i = true ↔ l ≤ i ∧ i < h := by
  refine ⟨mask l h, maskI_eq l h hlh, fun i => ?_⟩
  rw [mask_testBit l h i hlh]
  simp

/-- Ones(n) = Mask(0,n) = 2^n − 1 -/
theorem C19_ones (n : Nat) : maskI 0 n = (((2 ^ n - 1 : Nat)) : Int) := by
  rw [maskI_eq 0 n (Nat.zero_le _)]
  have := ones_eq n
  unfold ones at this
  rw [this]

/-- Extract(x,l,h) for `x ≥ 0`, `l ≤ h` is `⌊x / 2^l⌋ mod 2^(h−l)` -/
theorem C19_extract_eq (x l h : Nat) (hlh : l ≤ h) :
    extractI (x : Int) l h = ((x / 2 ^ l % 2 ^ (h - l) : Nat) : Int) := by
  rw [extractI_eq x l h hlh, extract_eq x l h hlh]

/-- IsPow2 is true exactly on the powers of two (any integer argument, negative ones included) -/
theorem C19_isPow2_iff (x : Int) : isPow2 x = true ↔ ∃ k : Nat, x = (2 : Int) ^ k := isPow2_iff x

/-- Pow2UpTo(x) for `x ≥ 1` is exactly `[2^0, …, 2^k]` where `2^k ≤ x < 2^(k+1)` -/
theorem C19_pow2UpTo_spec (x : Nat) (hx : 1 ≤ x) :
    ∃ k, pow2UpTo (x : Int) = (List.range (k + 1)).map (2 ^ ·) ∧ 2 ^ k ≤ x ∧ x < 2 ^ (k + 1) :=
  pow2UpTo_spec x hx

/-- Pow2UpTo of a non-positive argument is empty (no power of two is ≤ x) -/
theorem C19_pow2UpTo_nonpos (x : Int) (h : x ≤ 0) : pow2UpTo x = [] := pow2UpTo_nonpos x h

/-- Pow2UpTo is strictly ascending, and contains exactly the powers of two that are ≤ x -/
theorem C19_pow2UpTo_mem (x : Nat) :
    (pow2UpTo (x : Int)).Pairwise (· < ·) ∧ ∀ p, p ∈ pow2UpTo (x : Int) ↔ ∃ j, p = 2 ^ j ∧ p ≤ x := by
  by_cases hx : 1 ≤ x
  · obtain ⟨k, hl, h1, h2⟩ := pow2UpTo_spec x hx
    rw [hl]
    constructor
    · rw [List.pairwise_map]
      exact List.pairwise_lt_range.imp (fun h => Nat.pow_lt_pow_right (by omega) h)
    · intro p
      simp only [List.mem_map, List.mem_range]
      constructor
      · rintro ⟨j, hj, rfl⟩
        exact ⟨j, rfl, Nat.le_trans (Nat.pow_le_pow_right (by omega) (by omega)) h1⟩
      · rintro ⟨j, rfl, hle⟩
        refine ⟨j, ?_, rfl⟩
        apply Classical.byContradiction
        intro hc
        have : 2 ^ (k + 1) ≤ 2 ^ j := Nat.pow_le_pow_right (by omega) (by omega)
        omega
  · have h0 : x = 0 := by omega
    subst h0
    rw [pow2UpTo_nonpos _ (by simp)]
    refine ⟨List.Pairwise.nil, fun p => ?_⟩
    simp only [List.not_mem_nil, false_iff]
    rintro ⟨j, rfl, hle⟩
    have := Nat.pow_pos (n := j) (show 0 < 2 by omega)
    omega

/-- BitsSet(x) lists, in strictly ascending order, exactly the positions of the set bits of x -/
theorem C19_bitsSet_spec (x : Nat) :
    (bitsSet x).Pairwise (· < ·) ∧ ∀ i, i ∈ bitsSet x ↔ x.testBit i = true :=
  ⟨pairwise_bitsSet x, mem_bitsSet x⟩

/-- MinMax returns (min, max) -/
theorem C19_minMax (x y : Int) : (minMax x y).1 = min x y ∧ (minMax x y).2 = max x y := minMax_spec x y

/-- Uint64s(x), x ≥ 0: little-endian limbs below 2^64 that re-sum to x, top limb non-zero -/
theorem C19_uint64s (x : Nat) :
    ∃ ws, uint64s (x : Int) = some ws ∧ valueLE (2 ^ 64) ws = x ∧ (∀ w ∈ ws, w < 2 ^ 64) ∧
      (∀ l, ws.getLast? = some l → l ≠ 0) := by
  refine ⟨digitsLE (2 ^ 64) (by decide) x, ?_, digitsLE_spec (2 ^ 64) (by decide) x⟩
  unfold uint64s
  have : ¬ (x : Int) < 0 := by omega
  simp [this]

/-- BytesLittleEndian(x): little-endian bytes that re-sum to |x|, top byte non-zero -/
theorem C19_bytesLE (x : Int) :
    valueLE 256 (bytesLE x) = x.natAbs ∧ (∀ w ∈ bytesLE x, w < 256) ∧
      (∀ l, (bytesLE x).getLast? = some l → l ≠ 0) :=
  digitsLE_spec 256 (by decide) x.natAbs

/-- Hex on a well-formed string (after deleting underscores: a non-empty sequence of hex digits, either case):
    succeeds with the positional value of the digits -/
theorem C19_hex_spec (s : List Char) (ds : List Nat) (hne : ds ≠ [])
    (h : (s.filter (· != '_')).map digitVal = ds.map some) (hb : ∀ d ∈ ds, d < 16) :
    hex s = some ((valBE 16 ds : Nat) : Int) := setString_digits 16 _ ds hne h hb

/-- Binary on a well-formed string: succeeds with the positional value of the digits -/
theorem C19_binary_spec (s : List Char) (ds : List Nat) (hne : ds ≠ [])
    (h : (s.filter (· != '_')).map digitVal = ds.map some) (hb : ∀ d ∈ ds, d < 2) :
    binary s = some ((valBE 2 ds : Nat) : Int) := setString_digits 2 _ ds hne h hb

/-- the positional value is the Horner evaluation -/
theorem C19_valBE_horner (b : Nat) (ds : List Nat) : valBE b ds = ds.foldl (fun a d => a * b + d) 0 := by
  have key : ∀ (ds : List Nat) (acc : Nat), ds.foldl (fun a d => a * b + d) acc = acc * b ^ ds.length + valBE b ds := by
    intro ds
    induction ds with
    | nil => intro acc; simp [valBE]
    | cons d r ih =>
      intro acc
      simp only [List.foldl_cons, ih, valBE, List.length_cons, Nat.pow_succ]
      rw [Nat.add_mul, Nat.mul_assoc, Nat.mul_comm b, Nat.add_assoc]
  rw [key]; simp

/-- signs: `+digits` parses to the value, `-digits` to its negation (base 16 or 2, any explicit base) -/
theorem C19_parse_signed (b : Nat) (s : List Char) (ds : List Nat) (hne : ds ≠ [])
    (h : s.map digitVal = ds.map some) (hb : ∀ d ∈ ds, d < b) :
    setString b ('+' :: s) = some ((valBE b ds : Nat) : Int) ∧
    setString b ('-' :: s) = some (-((valBE b ds : Nat) : Int)) :=
  ⟨setString_plus b s ds hne h hb, setString_minus b s ds hne h hb⟩

/-- parsing succeeds only on an optional sign followed by at least one digit, every digit below the base -/
theorem C19_parse_some (b : Nat) (s : List Char) (v : Int) (h : setString b s = some v) :
    ∃ (body : List Char) (ds : List Nat), (s = body ∨ s = '+' :: body ∨ s = '-' :: body) ∧ ds ≠ [] ∧
      body.map digitVal = ds.map some ∧ (∀ d ∈ ds, d < b) := setString_some b s v h

/-- Sort returns the sorted permutation -/
theorem C19_sort (xs : List Int) : (sort xs).Perm xs ∧ (sort xs).Pairwise (· ≤ ·) := sort_spec xs

/-- Contains ↔ membership -/
theorem C19_contains_iff (n : Int) (xs : List Int) : HX.contains n xs = true ↔ n ∈ xs := contains_iff n xs

/-- Index is −1 when absent, otherwise the position of the first occurrence -/
theorem C19_index_spec (n : Int) (xs : List Int) :
    (n ∉ xs → index n xs = -1) ∧
    (n ∈ xs → ∃ k, k < xs.length ∧ index n xs = (k : Int) ∧ xs[k]? = some n ∧ ∀ j, j < k → xs[j]? ≠ some n) := by
  obtain ⟨h1, h2⟩ := indexFrom_spec n xs 0
  refine ⟨h1, fun hm => ?_⟩
  obtain ⟨k, a, b, c, d⟩ := h2 hm
  exact ⟨k, a, by unfold index; rw [b]; simp, c, d⟩

/-- ContainsSorted (binary search) ↔ membership, on sorted input -/
theorem C19_containsSorted_iff (n : Int) (xs : List Int) (hs : xs.Pairwise (· ≤ ·)) :
    containsSorted n xs = true ↔ n ∈ xs := containsSorted_iff n xs hs

/-- Unique on sorted input: strictly ascending, same members -/
theorem C19_unique_sorted (xs : List Int) (hs : xs.Pairwise (· ≤ ·)) :
    (uniq xs).Pairwise (· < ·) ∧ ∀ a, a ∈ uniq xs ↔ a ∈ xs := ⟨pairwise_uniq xs hs, mem_uniq xs⟩

/-- Unique on any input removes exactly the consecutive duplicates: no two neighbours of the output are equal,
    and the input is the output with each element repeated one or more times -/
theorem C19_unique_general (xs : List Int) :
    NoAdj (uniq xs) ∧ ∃ cs : List Nat, cs.length = (uniq xs).length ∧ (∀ c ∈ cs, 1 ≤ c) ∧
      xs = expand cs (uniq xs) := ⟨uniq_noAdj xs, uniq_expand xs⟩

/-- MergeUnique of sorted distinct lists: sorted distinct, members = union -/
theorem C19_mergeUnique (xs ys : List Int) (hx : xs.Pairwise (· < ·)) (hy : ys.Pairwise (· < ·)) :
    (mergeUnique xs ys).Pairwise (· < ·) ∧ ∀ a, a ∈ mergeUnique xs ys ↔ a ∈ xs ∨ a ∈ ys :=
  ⟨pairwise_mergeUnique xs ys hx hy, mem_mergeUnique xs ys⟩

/-- InsertSortedUnique into a sorted distinct list: sorted distinct, members = old members plus x -/
theorem C19_insertSortedUnique (xs : List Int) (x : Int) (hx : xs.Pairwise (· < ·)) :
    (insertSortedUnique xs x).Pairwise (· < ·) ∧ ∀ a, a ∈ insertSortedUnique xs x ↔ a = x ∨ a ∈ xs := by
  unfold insertSortedUnique
  refine ⟨pairwise_mergeUnique [x] xs (by simp) hx, fun a => ?_⟩
  rw [mem_mergeUnique]; simp

/-- vector Add on equal lengths: same length, element-wise sums -/
theorem C19_vadd (u v : List Int) (hl : u.length = v.length) :
    ∃ w : List Int, vadd u v = some w ∧ w.length = u.length ∧
      ∀ (i : Nat) (a b : Int), u[i]? = some a → v[i]? = some b → w[i]? = some (a + b) := by
  refine ⟨List.zipWith (· + ·) u v, by simp [vadd, hl], by simp [hl], ?_⟩
  intro i a b ha hb
  simp [List.getElem?_zipWith, ha, hb]

/-- vector Lsh: same length, every element multiplied by 2^s -/
theorem C19_vlsh (v : List Int) (s : Nat) :
    (vlsh v s).length = v.length ∧ ∀ (i : Nat) (a : Int), v[i]? = some a → (vlsh v s)[i]? = some (a * (2 : Int) ^ s) := by
  refine ⟨by simp [vlsh], fun i a ha => ?_⟩
  simp [vlsh, ha]

/-- non-vacuity -/
example : hex "f_F".toList = some 255 ∧ hex "_".toList = none ∧ extractI 0b110100 2 5 = 0b101 ∧
    uniq [1, 1, 2, 1] = [1, 2, 1] ∧ index 3 [5, 3, 3] = 1 ∧ isPow2 8 = true ∧ bitsSet 10 = [1, 3] := by decide
example : pow2UpTo 5 = [1, 2, 4] := by simp [pow2UpTo, pow2Loop]
example : mergeUnique [1, 3] [2, 3] = [1, 2, 3] := by simp [mergeUnique]

/-! ## the same statements about the functions AS TRANSLATED FROM THE CURRENT SOURCE

`AC.Gen.Bigint.*` is regenerated from internal/bigint/bigint.go on every run by the translator
`harness/cmd/extract/c19.go`; `AC/BigintTie.lean` proves the translated terms equal to the models. -/

/-- `Mask(l,h)` of the source, `l ≤ h`: exactly the bits `l ≤ i < h` are set -/
theorem C19_src_mask_testBit (l h : Nat) (hlh : l ≤ h) :
    ∃ m : Nat, AC.Gen.Bigint.mask l h = (m : Int) ∧ ∀ i, m.testBit i = true ↔ l ≤ i ∧ i < h := by
  rw [AC.BigintTie.mask_eq]; exact C19_mask_testBit l h hlh

/-- `Ones(n)` of the source is `2^n − 1` -/
theorem C19_src_ones (n : Nat) : AC.Gen.Bigint.ones n = (((2 ^ n - 1 : Nat)) : Int) := by
  rw [AC.BigintTie.ones_eq]; exact C19_ones n

/-- `Extract(x,l,h)` of the source, `x ≥ 0`, `l ≤ h`: `⌊x / 2^l⌋ mod 2^(h−l)` -/
theorem C19_src_extract (x l h : Nat) (hlh : l ≤ h) :
    AC.Gen.Bigint.extract (x : Int) l h = ((x / 2 ^ l % 2 ^ (h - l) : Nat) : Int) := by
  rw [AC.BigintTie.extract_eq]; exact C19_extract_eq x l h hlh

/-- `IsPow2` of the source is true exactly on the powers of two -/
theorem C19_src_isPow2_iff (x : Int) : AC.Gen.Bigint.isPow2 x = true ↔ ∃ k : Nat, x = (2 : Int) ^ k := by
  rw [AC.BigintTie.isPow2_eq]; exact C19_isPow2_iff x

/-- `MinMax` of the source returns the minimum and the maximum -/
theorem C19_src_minMax (x y : Int) :
    (AC.Gen.Bigint.minMax x y).1 = min x y ∧ (AC.Gen.Bigint.minMax x y).2 = max x y := by
  rw [AC.BigintTie.minMax_eq]; exact P.HX.minMax_spec x y

/-- `Equal`, `EqualInt64`, `IsZero`, `IsNonZero`, `Clone`, `Pow2` of the source -/
theorem C19_src_small (x y : Int) (e : Nat) :
    (AC.Gen.Bigint.equal x y = true ↔ x = y) ∧ (AC.Gen.Bigint.equalInt64 x y = true ↔ x = y) ∧
    (AC.Gen.Bigint.isZero x = true ↔ x = 0) ∧ (AC.Gen.Bigint.isNonZero x = true ↔ x ≠ 0) ∧
    AC.Gen.Bigint.clone x = x ∧ AC.Gen.Bigint.pow2 e = (2 : Int) ^ e :=
  ⟨AC.BigintTie.equal_iff x y, AC.BigintTie.equalInt64_iff x y, AC.BigintTie.isZero_iff x,
   AC.BigintTie.isNonZero_iff x, AC.BigintTie.clone_eq x, AC.BigintTie.pow2_eq e⟩

/-! ## internal/bigints helpers as translated (harness/cmd/extract/gotr.go, `AC/BigintsTie.lean`) -/
section SrcLists
open AC.Gen.Program

/-- translated `MergeUnique` of sorted distinct lists: never panics, never out of loop fuel; the result
    is sorted distinct and its members are the union -/
theorem C19_src_mergeUnique (xs ys : List Int) (hx : xs.Pairwise (· < ·)) (hy : ys.Pairwise (· < ·)) :
    ∃ r, bigintsMergeUnique xs ys = some r ∧ r.Pairwise (· < ·) ∧ ∀ a, a ∈ r ↔ a ∈ xs ∨ a ∈ ys :=
  ⟨_, AC.BigintsTie.mergeUnique_tie xs ys, C19_mergeUnique xs ys hx hy⟩

/-- translated `InsertSortedUnique` -/
theorem C19_src_insertSortedUnique (xs : List Int) (x : Int) (hx : xs.Pairwise (· < ·)) :
    ∃ r, bigintsInsertSortedUnique xs x = some r ∧ r.Pairwise (· < ·) ∧ ∀ a, a ∈ r ↔ a = x ∨ a ∈ xs :=
  ⟨_, AC.BigintsTie.insertSortedUnique_tie xs x, C19_insertSortedUnique xs x hx⟩

/-- translated `Unique`: on sorted input strictly ascending with the same members; on any input exactly
    the consecutive duplicates are removed -/
theorem C19_src_unique (xs : List Int) :
    ∃ r, bigintsUnique xs = some r ∧ (∀ a, a ∈ r ↔ a ∈ xs) ∧ NoAdj r ∧
      (xs.Pairwise (· ≤ ·) → r.Pairwise (· < ·)) :=
  ⟨_, AC.BigintsTie.unique_tie xs, mem_uniq xs, (C19_unique_general xs).1, fun hs => pairwise_uniq xs hs⟩

/-- translated `BitsSet` on a non-negative integer: no panic; strictly ascending; exactly the set bits -/
theorem C19_src_bitsSet (x : Nat) :
    ∃ r : List Nat, bigintBitsSet (x : Int) = some (r.map Int.ofNat) ∧ r.Pairwise (· < ·) ∧
      ∀ i, i ∈ r ↔ x.testBit i = true :=
  ⟨_, AC.BigintsTie.bitsSet_tie x, C19_bitsSet_spec x⟩

/-- translated `Pow2UpTo`: never panics, never out of loop fuel; empty for `x ≤ 0`, otherwise
    `1, 2, …, 2^k` with `2^k ≤ x < 2^(k+1)` -/
theorem C19_src_pow2UpTo (x : Int) :
    ∃ r : List Nat, bigintPow2UpTo x = some (r.map Int.ofNat) ∧ (x ≤ 0 → r = []) ∧
      (∀ n : Nat, x = (n : Int) → 1 ≤ n → ∃ k, r = (List.range (k + 1)).map (2 ^ ·) ∧ 2 ^ k ≤ n ∧ n < 2 ^ (k + 1)) := by
  refine ⟨_, AC.BigintsTie.pow2UpTo_tie x, C19_pow2UpTo_nonpos x, ?_⟩
  rintro n rfl hn
  exact C19_pow2UpTo_spec n hn

/-- translated `Contains` / `Index` -/
theorem C19_src_contains (n : Int) (xs : List Int) :
    bigintsContains n xs = some (decide (n ∈ xs)) := by
  rw [AC.BigintsTie.contains_tie]; congr 1; simp

theorem ne_before_idxOf (n : Int) : ∀ (xs : List Int) (j : Nat), j < xs.idxOf n → xs[j]? ≠ some n := by
  intro xs
  induction xs with
  | nil => intro j h; simp at h
  | cons x xs ih =>
    intro j h
    rw [List.idxOf_cons] at h
    by_cases hx : x = n
    · simp [hx] at h
    · have hb : (x == n) = false := by simp [hx]
      rw [hb] at h
      cases j with
      | zero => simp [hx]
      | succ j => simp only [List.getElem?_cons_succ]; exact ih j (by simpa using h)

theorem C19_src_index (n : Int) (xs : List Int) :
    ∃ r, bigintsIndex n xs = some r ∧ (n ∉ xs → r = -1) ∧
      (n ∈ xs → ∃ k, k < xs.length ∧ r = (k : Int) ∧ xs[k]? = some n ∧ ∀ j, j < k → xs[j]? ≠ some n) := by
  refine ⟨_, AC.BigintsTie.index_tie n xs, fun h => by simp [h], fun h => ?_⟩
  refine ⟨xs.idxOf n, List.idxOf_lt_length_of_mem h, by simp [h], ?_, ?_⟩
  · simp [List.getElem?_eq_getElem (List.idxOf_lt_length_of_mem h)]
  · exact fun j hj => ne_before_idxOf n xs j hj
end SrcLists

end AC.Props.C19
