import AC.ParseImage
/-! # C07 — printing any syntax tree and parsing it back is the identity

Model: `P.PegF.parse` (char-level model of the whole `acc.peg` grammar with pigeon's semantics,
`AC/PegFull.lean`) and `P.PegF.printChain` (`printer.go` + `text/tabwriter`, `AC/PrinterX.lean`,
precedences from the generated `AC/Gen/AstPrec.lean`); both are validated against the real
`parse.String` / `printer.String` by the correspondence run.

`WFTree t` (domain of the round trip): `t = as ++ [⟨"", x⟩]` — at least one statement, the final
one unnamed — every name in `as` is an identifier (`[a-zA-Z_][a-zA-Z0-9_]*`), and every
expression satisfies `WF true`: identifiers are identifiers; an identifier that is *not*
directly the operand of a shift or a double is not `dbl` followed by `1`, a letter or `_`
(`SafeIdent`, F10); operand indices satisfy `0 ≤ i < 2^63` (F8); shift counts are `< 2^64`. -/
namespace AC.Props.C07
open P.PegF
open AC.Gen

/-- **round trip**: for every well-formed tree, however nested, the printed text parses back to
    the identical tree (so the printer never emits text the parser rejects) -/
theorem C07_roundtrip (t : Tree) (h : WFTree t) : parse (printChain t) = .ok t := roundtrip t h

/-- **every tree the parser returns is well-formed**, provided no operand index wrapped to a
    negative number (the single condition the parser does not establish — F8) -/
theorem C07_parse_image_wf (s : List Char) (t : Tree) (h : parse s = .ok t) (hn : NonNegTree t) :
    WFTree t := parse_image_wf h hn

/-- for every source text that parses (without a wrapped index), printing the tree yields text
    that parses to the identical tree -/
theorem C07_fmt_fixed (s : List Char) (t : Tree) (h : parse s = .ok t) (hn : NonNegTree t) :
    parse (printChain t) = .ok t := roundtrip t (parse_image_wf h hn)

/-- formatting preserves what the script parses to — hence the chain it evaluates to, including
    the order of intermediate values, which is a function of the tree -/
theorem C07_fmt_preserves_tree (s : List Char) (t : Tree) (h : parse s = .ok t) (hn : NonNegTree t) :
    parse (printChain t) = parse s := by rw [h]; exact roundtrip t (parse_image_wf h hn)

/-- `fmt` = parse, then print -/
def fmt (s : List Char) : Except Unit (List Char) :=
  match parse s with
  | .ok t => .ok (printChain t)
  | .error _ => .error ()

/-- formatting is idempotent, and its output is never rejected -/
theorem C07_fmt_idempotent (s u : List Char) (t : Tree) (h : parse s = .ok t) (hn : NonNegTree t)
    (hu : fmt s = .ok u) : fmt u = .ok u := by
  unfold fmt at hu
  rw [h] at hu
  injection hu with hu
  subst hu
  unfold fmt
  rw [roundtrip t (parse_image_wf h hn)]

/-- expression level, with the sticky error flag: the printed text of a well-formed expression
    followed by anything that cannot continue an expression parses back to the expression, the
    rest loses only leading blanks, and no action error is recorded -/
theorem C07_expr_roundtrip (n : Nat) (t : Expr) (ht : WF true t) (hn : pdepth t < n) (r : List Char) (e : Bool)
    (h1 : P.Peg.EndTok r) (h2 : P.Peg.NoShiftOp r) (h3 : NoBaseStart r) (h4 : P.Peg.NoAddOp r) :
    expr n (prBody t ++ r) e = (some (t, P.Peg.dropWs r), e) := expr_rt n t ht hn r e h1 h2 h3 h4

/-- the decidable check used by the driver is exactly `WFTree` -/
theorem C07_wfTreeB_iff (t : Tree) : wfTreeB t = true ↔ WFTree t := wfTreeB_iff t

/-- where the printer parenthesises, over the precedence table regenerated from `ast.go`:
    never at statement level or inside parentheses (so `printer.expr` terminates), never the left
    operand of `+`, the right operand of `+` iff it is an addition, the operand of a shift or a
    double iff it is an operator -/
theorem C07_printer_positions (x : Expr) :
    decide (precOf x < AstPrec.lowestPrec) = false ∧
    decide (precOf x < AstPrec.add) = false ∧
    decide (precOf x < AstPrec.add + 1) = isAdd x ∧
    decide (precOf x < AstPrec.highestPrec) = !isAtom x :=
  ⟨prec_ge_lowest x, prec_addX x, prec_addY x, prec_unary x⟩

theorem ok_of_toOption {x : Except Unit Tree} {t : Tree} (h : x.toOption = some t) : x = .ok t := by
  cases x with
  | error _ => simp [Except.toOption] at h
  | ok v => simp [Except.toOption] at h; rw [h]

set_option maxRecDepth 8000 in
/-- F8: the hypothesis `NonNegTree` cannot be dropped — `[18446744073709551615]` parses to
    `Operand(-1)`, which is not well-formed and prints as `return  [-1]` -/
theorem C07_F8_hypothesis_needed :
    parse "[18446744073709551615]".toList = .ok [⟨[], .operand (-1)⟩] ∧
    ¬ WFTree [⟨[], .operand (-1)⟩] ∧
    printChain [⟨[], .operand (-1)⟩] = "return  [-1]\n".toList := by
  refine ⟨ok_of_toOption (by decide), ?_, by decide⟩
  rw [← wfTreeB_iff]
  decide

set_option maxRecDepth 8000 in
/-- F10: the stand-alone-identifier condition cannot be dropped — the tree `return dblx`
    violates only `SafeIdent`, and its printed text parses to the different tree `2*x` -/
theorem C07_F10_condition_needed :
    f10Only [⟨[], .ident "dblx".toList⟩] = true ∧
    parse (printChain [⟨[], .ident "dblx".toList⟩]) = .ok [⟨[], .double (.ident ['x'])⟩] :=
  ⟨by decide, ok_of_toOption (by decide)⟩

/-- non-vacuity: a two-statement tree with a statement named `dbl`, the identifier `dblx` under
    a shift, a right-nested addition and an operator under a double is well-formed -/
example : WFTree [⟨"dbl".toList, .shift (.ident "dblx".toList) 3⟩,
    ⟨[], .add (.ident ['a']) (.add (.double (.shift (.operand 0) 2)) (.operand 7))⟩] := by
  rw [← wfTreeB_iff]; decide

end AC.Props.C07
