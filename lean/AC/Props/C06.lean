import AC.GenXProof
import AC.GenFmtProof
import AC.Props.C05
/-! # C06 — generated listings, run literally, compute the script's chain or are refused

Model (`AC.GenX`): `prepareX` = `gen.PrepareData` after translation — the passes of the list
**extracted from `gen.go`** (`AC.Gen.genPasses`) applied in order: `pass.Validate`
(`CheckDanglingInputs`), the allocator (`AC.AllocX`), `pass.Eval`; the renderers of the builtin
templates; `P.Listing.readListing` is the documented reading of the listing format (`tmp` line,
then `add` / `double` / `shift` lines, tab-separated). -/
namespace AC.Props.C06
open P.Alloc AC.AllocX AC.GenX AC.PeakLive P.Listing

/-- the extracted pass list runs the dangling-input check before the allocator, and evaluates -/
def passesOK (l : List String) : Bool :=
  l.idxOf "pass.Validate" < l.idxOf "cfg.Allocator" && l.contains "cfg.Allocator" &&
    l.contains "pass.Func(pass.Eval)"

/-- `gen.PrepareData` (pass list as extracted from the source) validates before it allocates. On the
    tree before the fix the list was `[cfg.Allocator, pass.Func(pass.Eval)]` and this is false. -/
theorem C06_passes_ok : passesOK AC.Gen.genPasses = true := by decide

/-- A program that reads a value no instruction outputs (e.g. an intermediate of a shift) is
    refused with an error: never compiled at all, hence never silently miscompiled. -/
theorem C06_dangling_refused (cfg : Cfg String) (ir : List Inst) (occ : List (Nat × String))
    (preOut : List String) (h : danglingFrom [0] ir = false) :
    ∃ e, prepareX cfg ir occ preOut = .error e := by
  simp [prepareX, AC.Gen.genPasses, runPasses, applyPass, h]

/-- A program in which an instruction outputs index 0 or an index that is already defined (the
    shape a shift by zero produces) is refused with an error (fix of finding F9). -/
theorem C06_duplicate_output_refused (cfg : Cfg String) (ir : List Inst) (occ : List (Nat × String))
    (preOut : List String) (h : uniqueFrom [0] ir = false) :
    ∃ e, prepareX cfg ir occ preOut = .error e := by
  cases hd : danglingFrom [0] ir <;> simp [prepareX, AC.Gen.genPasses, runPasses, applyPass, h, hd]

/-- A program without instructions is refused. -/
theorem C06_empty_refused (cfg : Cfg String) (occ : List (Nat × String)) (preOut : List String) :
    ∃ e, prepareX cfg [] occ preOut = .error e := by
  simp [prepareX, AC.Gen.genPasses, runPasses, applyPass, danglingFrom, uniqueFrom, allocateN]

/-- What acceptance means: the dangling check passed, the allocator produced the program and the
    temporaries, and chain / ops are the unrolled program and its evaluation. -/
theorem C06_accepted_shape (cfg : Cfg String) (ir : List Inst) (occ : List (Nat × String))
    (preOut : List String) (d : Data) (h : prepareX cfg ir occ preOut = .ok d) :
    validateB ir = true ∧
    (∃ prog temps, allocateN cfg ir occ = .ok (prog, temps) ∧ d.prog = fixOutputs ir preOut prog ∧ d.temps = temps) ∧
    (∃ ops, compileX ir = .ok ops ∧ d.ops = ops ∧ d.chain = evaluateX ops) := by
  simp only [prepareX, AC.Gen.genPasses, runPasses, applyPass] at h
  cases hv1 : danglingFrom [0] ir with
  | false => simp [hv1] at h
  | true =>
  cases hv2 : uniqueFrom [0] ir with
  | false => simp [hv1, hv2] at h
  | true =>
    simp only [hv1, hv2, Bool.not_true, Bool.false_eq_true, if_false, if_true] at h
    cases ha : allocateN cfg ir occ with
    | error e => simp [ha] at h
    | ok pt =>
      obtain ⟨prog, temps⟩ := pt
      simp only [ha] at h
      cases hc : compileX ir with
      | error e => simp [hc] at h
      | ok ops =>
        simp [hc] at h
        subst h
        exact ⟨by simp [validateB, hv1, hv2], ⟨prog, temps, rfl, rfl, rfl⟩, ⟨ops, rfl, rfl, rfl⟩⟩

/-- **Accepted programs are well-formed**: what the extracted pass list guarantees — no dangling
    input, no repeated output (`pass.Validate`), every output index equal to the position the
    unrolled program reaches (`pass.Eval`) — is exactly the well-formedness C05 needs: outputs ≥ 1
    and strictly increasing, inputs 0 or earlier outputs; and there is at least one instruction. -/
theorem C06_accepted_wf (cfg : Cfg String) (ir : List Inst) (occ : List (Nat × String))
    (preOut : List String) (d : Data) (h : prepareX cfg ir occ preOut = .ok d) :
    wfB ir = true ∧ ir ≠ [] := by
  obtain ⟨hv, ⟨prog, temps, ha, _, _⟩, ⟨ops, hc, _, _⟩⟩ := C06_accepted_shape cfg ir occ preOut d h
  simp only [validateB, Bool.and_eq_true] at hv
  constructor
  · unfold compileX at hc
    cases hcf : compileFrom #[] ir with
    | error e => rw [hcf] at hc; cases hc
    | ok q =>
      exact compile_wf ir #[] [0] [] 0 q (by intro x; simp) (by simp) hv.1 hv.2 hcf
  · intro e; subst e; simp [allocateN] at ha

/-- **The listing reads back**: the text the `listing` template produces for declared temporaries
    `tmps` and instruction lines `ls`, read as documented, is exactly `(tmps, ls)` — for names
    without tab / newline and non-empty temporaries (`x`, `z`, `tN` are such). -/
theorem C06_listing_readback (tmps : List (List Char)) (ls : List Line)
    (ht : ∀ t ∈ tmps, NameOK t ∧ t ≠ []) (hl : ∀ l ∈ ls, LineOK l) :
    readListing (renderListingX tmps ls) = some (tmps, ls) := readListingX_render tmps ls ht hl

/-- **The listing, run literally, computes the chain** (composition with C05): for a well-formed
    non-empty program and distinct listing-safe names, the allocator succeeds; the listing text of
    its result reads back to the declared temporaries and the instruction lines; running those
    lines on the register machine from `{input ↦ v}` succeeds in both alias modes and leaves
    `chainEnd ir * v` in the output register; every register the lines mention is the input, the
    output or a declared temporary. -/
theorem C06_listing_correct (cfg : Cfg String) (ir : List Inst)
    (hwf : wfB ir = true) (hne : ir ≠ []) (hd : NamesDistinct cfg) (hok : CfgOK cfg)
    (alias : Bool) (v : Int) :
    ∃ prog temps, allocateX cfg ir = .ok (prog, temps) ∧
      ∃ lines, readListing (renderListingX (temps.map String.toList) (prog.map toLine))
          = some (temps.map String.toList, lines) ∧
        (∃ st, execX (cfgL cfg) alias (lines.map ofLine) (initX (cfgL cfg) v) = .ok st ∧
          getX st (cellX (cfgL cfg) alias (cfgL cfg).output) = some (chainEnd ir * v)) ∧
        (∀ n ∈ usedNames (lines.map ofLine),
          n = (cfgL cfg).input ∨ n = (cfgL cfg).output ∨ n ∈ temps.map String.toList) := by
  obtain ⟨progL, tempsL, hL, hrun, _, hnamed⟩ :=
    AC.Props.C05.C05_correct (cfgL cfg) ir hwf hne (namesDistinct_cfgL cfg hd) alias v
  rw [allocateX_eq (cfgL cfg) ir hne] at hL
  injection hL with hL
  injection hL with hp ht
  refine ⟨_, _, allocateX_eq cfg ir hne, (ir.map (nameInst (nameX cfg ir))).map toLine, ?_, ?_, ?_⟩
  · apply readListingX_render
    · intro t htm
      simp only [tempsOf, List.map_map, List.mem_map, List.mem_range] at htm
      obtain ⟨k, _, rfl⟩ := htm
      exact hok.temp k
    · intro l hlm
      simp only [List.map_map, List.mem_map] at hlm
      obtain ⟨inst, _, rfl⟩ := hlm
      exact lineOK_toLine cfg hok ir inst
  all_goals
    have hlines : ((ir.map (nameInst (nameX cfg ir))).map toLine).map ofLine = progL := by
      rw [← hp]
      simp only [List.map_map]
      apply List.map_congr_left
      intro inst _
      simp only [Function.comp]
      rw [ofLine_toLine]
      congr 1
      funext i
      exact (nameX_cfgL cfg ir i).symm
    have htemps : (tempsOf cfg (buildA (regOf ir) (indexes ir))).map String.toList = tempsL := by
      rw [← ht]; simp [tempsOf, cfgL]
    rw [hlines]
  · exact hrun
  · rw [htemps]; exact hnamed

/-- For an accepted, well-formed program the model's listing is the rendering of the allocator's
    result (the output-operand quirk `fixOutputs` is the identity there). -/
theorem C06_prepare_listing (cfg : Cfg String) (ir : List Inst) (occ : List (Nat × String))
    (preOut : List String) (d : Data) (h : prepareX cfg ir occ preOut = .ok d)
    (hwf : wfB ir = true) (hlen : preOut.length = ir.length) :
    ∃ prog temps, allocateX cfg ir = .ok (prog, temps) ∧
      listingOf d = String.ofList (renderListingX (temps.map String.toList) (prog.map toLine)) := by
  obtain ⟨_, ⟨prog, temps, ha, hp, ht⟩, _⟩ := C06_accepted_shape cfg ir occ preOut d h
  have hne : ir ≠ [] := by
    intro e; subst e; simp [allocateN] at ha
  have hx : allocateX cfg ir = .ok (prog, temps) := by
    unfold allocateN at ha
    have : ir.isEmpty = false := by cases ir <;> simp_all
    simp only [this] at ha
    by_cases hc : nameConflict occ = true
    · simp [hc] at ha
    · simpa [hc] using ha
  refine ⟨prog, temps, hx, ?_⟩
  rw [allocateX_eq cfg ir hne] at hx
  injection hx with hx
  injection hx with hprog _
  have hlenp : prog.length = ir.length := by rw [← hprog]; simp
  unfold listingOf
  rw [hp, ht, fixOutputs_wf ir preOut prog hwf hlen hlenp]

/-- **End to end for the `listing` template**: whenever the model of `gen.PrepareData` accepts a
    program (with distinct, listing-safe names), the listing text it produces reads back, as
    documented, to the declared temporaries and instruction lines; those lines, run literally on
    the register machine from `{input ↦ v}`, succeed in both alias modes and leave `chainEnd ir * v`
    in the output register, mentioning only the input, the output and declared temporaries. -/
theorem C06_accepted_listing_correct (cfg : Cfg String) (ir : List Inst) (occ : List (Nat × String))
    (preOut : List String) (d : Data) (h : prepareX cfg ir occ preOut = .ok d)
    (hlen : preOut.length = ir.length) (hd : NamesDistinct cfg) (hok : CfgOK cfg)
    (alias : Bool) (v : Int) :
    ∃ tmps lines, readListing (listingOf d).toList = some (tmps, lines) ∧
      tmps = d.temps.map String.toList ∧
      (∃ st, execX (cfgL cfg) alias (lines.map ofLine) (initX (cfgL cfg) v) = .ok st ∧
        getX st (cellX (cfgL cfg) alias (cfgL cfg).output) = some (chainEnd ir * v)) ∧
      (∀ n ∈ usedNames (lines.map ofLine), n = (cfgL cfg).input ∨ n = (cfgL cfg).output ∨ n ∈ tmps) := by
  obtain ⟨hwf, hne⟩ := C06_accepted_wf cfg ir occ preOut d h
  obtain ⟨prog, temps, hx, hl⟩ := C06_prepare_listing cfg ir occ preOut d h hwf hlen
  obtain ⟨prog', temps', hx', lines, hr, hrun, hnm⟩ := C06_listing_correct cfg ir hwf hne hd hok alias v
  rw [hx] at hx'
  injection hx' with hx'
  injection hx' with hp ht
  subst hp; subst ht
  obtain ⟨_, ⟨prog2, temps2, ha, _, ht2⟩, _⟩ := C06_accepted_shape cfg ir occ preOut d h
  have htemps : d.temps = temps := by
    rw [ht2]
    unfold allocateN at ha
    have : ir.isEmpty = false := by cases ir <;> simp_all
    simp only [this] at ha
    by_cases hc : nameConflict occ = true
    · simp [hc] at ha
    · have ha' : allocateX cfg ir = .ok (prog2, temps2) := by simpa [hc] using ha
      rw [hx] at ha'
      injection ha' with ha'
      injection ha' with _ h2
      exact h2.symm
  refine ⟨temps.map String.toList, lines, ?_, by rw [htemps], hrun, hnm⟩
  rw [hl, String.toList_ofList]
  exact hr

/-- **The `chain` output lists exactly the evaluated chain**: read line by line in the documented
    format `%3d: %#x` it gives positions 1, 2, … paired with the chain values. -/
theorem C06_chain_readback (c : List Nat) : readChain (renderChain c) = some (enumChain 0 c) :=
  readChain_render c 0

/-- **The `ops` output lists exactly the operations**: read in the documented format
    `[%3d] %4d+%-4d %#x` it gives, for operation `n`, its operands `I`, `J` and chain element `n+1`. -/
theorem C06_ops_readback (ops : List (Nat × Nat)) (c : List Nat) :
    readOps (renderOps ops c) = some (enumOps 0 ops c.tail) := readOps_render ops c.tail 0

/-- **The `script` output re-loads to the same chain**, relative to the printer round trip of C07:
    the template prints the parsed script `t` (`format .Script` = `printer.String`); loading is
    `parse` followed by a function `eval` of the tree (translate + evaluate). If parsing the
    printed form of a parsed tree gives the tree back (`AC.Props.C07.C07_fmt_preserves_tree`), the
    output loads to the chain of the script. -/
theorem C06_script_reloads {Tree : Type} (parse : List Char → Option Tree) (print : Tree → List Char)
    (eval : Tree → Option (List Nat))
    (hC07 : ∀ s t, parse s = some t → parse (print t) = some t)
    (s : List Char) (t : Tree) (c : List Nat) (hp : parse s = some t) (he : eval t = some c) :
    (parse (print t)).bind eval = some c := by
  rw [hC07 s t hp]; exact he

/-- the pass list of the tree before the F3 fix does not satisfy `passesOK` -/
example : passesOK ["cfg.Allocator", "pass.Func(pass.Eval)"] = false := by decide

/-- the shift-by-zero shape `1:D(0); 1:S(1,0)` is refused by the unique-output check, `2:A(0,3)`
    (reading an index nobody outputs) by the dangling check -/
example : uniqueFrom [0] [⟨1, .dbl 0⟩, ⟨1, .shl 1 0⟩] = false ∧ danglingFrom [0] [⟨3, .shl 0 3⟩, ⟨4, .add 2 3⟩] = false := by
  decide

/-- non-vacuity: a listing with one temporary -/
example : readListing (renderListingX ["t0".toList]
    [⟨"t0".toList, .dbl "x".toList⟩, ⟨"z".toList, .add "x".toList "t0".toList⟩]) =
    some (["t0".toList], [⟨"t0".toList, .dbl "x".toList⟩, ⟨"z".toList, .add "x".toList "t0".toList⟩]) := by
  decide

end AC.Props.C06
