import AC.CalcProof
import AC.Gen.CalcOps
/-! # C13 — target expressions evaluate by the standard rules of integer arithmetic

Model (`AC/CalcModel.lean`, checked against `internal/calc/calc.go` by the correspondence run):
`AC.Calc.eval : List Char → Outcome`, `Outcome = ok v | err | divzero` (`divzero` is the error
"division by zero" that `yard.apply` returns when a `divisor` operator meets a zero second operand,
raised when the division is applied — Lean's `x / 0 = 0` is never used; `err` is any other error);
`yardE` is the same two-stack machine on a token list.

Spec: `convO n0 toks : Option Int` — the conventional value of `n0 o₁ n₁ o₂ n₂ …`, written structurally
(`AC/CalcYard.lean`, `conv`): split at the non-`^` operators (every factor is a right-nested tower),
split the factors at `+ -` (every term is a left fold of `* /`), left-fold the terms; `/` is `Int.ediv`,
a non-positive exponent gives 1, and the result is `none` iff one of the divisions so performed has
divisor 0.  `render pad n0 toks` is any rendering: each literal decimal (no superfluous leading zero),
`0x…` or `0b…`, with optional minus (`Lit`), `pad i` blanks before the i-th token and at the end. -/
namespace AC.Props.C13
open AC.Calc
open P.YP (Bop stop opOfChar charOfOp sp)

/-! ## the generated operator table -/

/-- the pop rule of `yard.operator`, applied to two entries (char, precedence, rightassociative, apply,
    divisor) of the table extracted from calc.go: stop popping at `t` for incoming `o` iff
    `t.precedence < o.precedence || (t.precedence == o.precedence && o.associativity != leftassociative)` -/
def genericStop (t o : Char × Nat × Bool × String × Bool) : Bool := t.2.1 < o.2.1 || (t.2.1 == o.2.1 && o.2.2.1)

/-- the `big.Int` method the model applies for each operator -/
def tagOf : Bop → String | .pow => "Exp" | .mul => "Mul" | .div => "Div" | .add => "Add" | .sub => "Sub"

/-- the extracted table has exactly the five operators of the model, each applies the `big.Int` method
    the model applies and is marked `divisor` exactly when the model checks the divisor, and for every pair of entries the pop rule computed from the table's precedences
    and associativities is the pop decision `P.YP.stop` hard-wired in the proved yard -/
def tableOK (tbl : List (Char × Nat × Bool × String × Bool)) : Bool :=
  tbl.length == 5 &&
  (tbl.all fun t => match opOfChar t.1 with
     | none => false
     | some bt => t.2.2.2.1 == tagOf bt && t.2.2.2.2 == isDivisor bt &&
        tbl.all fun o => match opOfChar o.1 with
          | none => false
          | some bo => genericStop t o == stop bt bo)
  && [Bop.pow, .mul, .div, .add, .sub].all (fun b => tbl.any fun t => t.1 == charOfOp b)

/-- **the operator table of calc.go (regenerated on every check) induces the proved pop rule.**
    A changed precedence, associativity, operator character, apply function or divisor mark breaks
    this proof. -/
theorem C13_popTable_ok : tableOK AC.Gen.calcOps = true := by decide

/-! ## well-formed expressions -/

/-- **the yard computes the conventional value**: on every token list the two-stack machine of calc.go
    returns `ok v` when the conventional evaluation yields `v`, and the division-by-zero error exactly
    when the conventional evaluation divides by zero. It never returns another error. -/
theorem C13_yard_eq_conv (n0 : Int) (toks : List (Bop × Int)) :
    yardE n0 toks = match convO n0 toks with | some v => .ok v | none => Outcome.divzero := by
  rw [yardE_eq_conv]; cases convO n0 toks <;> rfl

/-- the same for an arbitrary value domain and interpretation of the operators: the agreement of the
    yard with the conventional grouping is purely structural (it uses only the pop rule) -/
theorem C13_yard_eq_conv_generic {V : Type} (ap : Bop → V → V → V) (n0 : V) (toks : List (Bop × V)) :
    yard ap n0 toks = some (conv ap n0 toks) := yard_eq_conv ap n0 toks

/-- **character level**: `Eval` applied to any rendering of a token list — canonical decimal, `0x` and
    `0b` literals with optional minus, any blanks — returns the conventional value of the literal values
    when no division by zero occurs (and the division-by-zero error otherwise) -/
theorem C13_eval_render (pad : Nat → Nat) (n0 : Lit) (toks : List (Bop × Lit)) :
    eval (render pad n0 toks)
      = match convO n0.val (tokVals toks) with | some v => .ok v | none => Outcome.divzero := by
  rw [eval_render]; cases convO n0.val (tokVals toks) <;> rfl

/-- the property's first sentence, literally: no division by zero ⇒ the value by the usual rules -/
theorem C13_eval_value (pad : Nat → Nat) (n0 : Lit) (toks : List (Bop × Lit)) (v : Int)
    (h : convO n0.val (tokVals toks) = some v) : eval (render pad n0 toks) = .ok v := by
  rw [C13_eval_render, h]

/-- the scanner reads back every literal of the property's grammar, whatever non-hex-digit follows -/
theorem C13_number_ok (l : Lit) (r : List Char) (hr : Sep r) : number (l.text ++ r) = some (l.val, r) :=
  number_ok l r hr

/-! ## malformed expressions -/

/-- the Go `error` outcomes: "division by zero" or any other error -/
def IsError (o : Outcome) : Prop := o = .err ∨ o = Outcome.divzero

theorem isError_of_not_ok {o : Outcome} (h : ∀ v, o ≠ .ok v) : IsError o := by
  cases o with
  | ok v => exact absurd rfl (h v)
  | err => exact Or.inl rfl
  | halt e => cases e; exact Or.inr rfl

/-- **malformed ⇒ error.** A value is returned only for `blanks lit (blanks op blanks lit)* blanks`
    (`Shape true`), where `lit` is whatever the scanner accepts: on every other input — missing operand,
    missing operator, bad literal, stray character — `Eval` returns an error -/
theorem C13_malformed (s : List Char) (h : ¬ Shape true s) : IsError (eval s) :=
  isError_of_not_ok fun v hv => h (eval_ok_shape s v hv)

/-- empty input or only blanks: error -/
theorem C13_malformed_empty (k : Nat) : eval (sp k) = .err := by
  unfold eval evalWith
  have : (sp k).length + 1 = 1 + k := by simp [sp]; omega
  rw [this]
  have := evalLoop_skip applyE k 1 true [] [] []
  simp only [List.append_nil] at this
  rw [this]
  rfl

/-- a non-blank character at the first operand position at which no literal starts (a leading
    operator other than minus, a stray character, a bad literal): error -/
theorem C13_malformed_leading (k : Nat) (c : Char) (r : List Char) (hc : c ≠ ' ')
    (hn : number (c :: r) = none) : eval (sp k ++ c :: r) = .err := by
  unfold eval evalWith
  have : (sp k ++ c :: r).length + 1 = (r.length + 2) + k := by simp [sp]; omega
  rw [this, evalLoop_skip]
  simp [evalLoop, hc, hn]

/-- a trailing operator after a well-formed expression: error -/
theorem C13_malformed_trailing_operator (pad : Nat → Nat) (n0 : Lit) (toks : List (Bop × Lit)) (o : Bop)
    (k : Nat) : IsError (eval (render pad n0 toks ++ charOfOp o :: sp k)) :=
  C13_malformed _ fun h => not_shape_true_blanks k (shape_render_op pad n0 toks o _ h)

/-- an operator that is not followed by a literal (double operator, bad literal, stray character at an
    operand position): error -/
theorem C13_malformed_missing_operand (pad : Nat → Nat) (n0 : Lit) (toks : List (Bop × Lit)) (o : Bop)
    (k : Nat) (c : Char) (r : List Char) (hc : c ≠ ' ') (hn : number (c :: r) = none) :
    IsError (eval (render pad n0 toks ++ charOfOp o :: (sp k ++ c :: r))) :=
  C13_malformed _ fun h => not_shape_operand hc hn k (shape_render_op pad n0 toks o _ h)

/-- a stray character where an operator is expected: error -/
theorem C13_malformed_stray (pad : Nat → Nat) (n0 : Lit) (toks : List (Bop × Lit)) (c : Char) (r : List Char)
    (hc : c ≠ ' ') (ho : opOfChar c = none) (hx : isHex c = false ∧ c ≠ 'x') :
    IsError (eval (render pad n0 toks ++ c :: r)) :=
  C13_malformed _ fun h =>
    not_shape_operator hc ho 0 (shape_render pad n0 toks _ (fun c' t' e => by cases e; exact hx) h)

/-- two operands in a row (the second one without a minus sign, which would be read as the
    subtraction operator): error -/
theorem C13_malformed_two_operands (pad : Nat → Nat) (n0 : Lit) (toks : List (Bop × Lit)) (l : Lit)
    (hl : l.neg = false) (r : List Char) : IsError (eval (render pad n0 toks ++ ' ' :: (l.text ++ r))) := by
  refine C13_malformed _ fun h => ?_
  have h1 := shape_render pad n0 toks _
    (fun c' t' e => by cases e; exact sep_char_blank_or_op (Or.inl rfl)) h
  have h2 := h1.unblank
  obtain ⟨d, t, hb, hd⟩ := l.body_head
  have ht : l.text = d :: t := by unfold Lit.text; rw [hl]; exact hb
  rw [ht] at h2
  have hne : d ≠ ' ' := by intro e; rw [e] at hd; exact absurd hd (by decide)
  have hop : opOfChar d = none := by
    cases ho : opOfChar d with
    | none => rfl
    | some o =>
      have : d = charOfOp o := by
        unfold opOfChar at ho; split at ho <;> first | (cases ho; rfl) | cases ho
      rw [this] at hd; cases o <;> exact absurd hd (by decide)
  exact not_shape_operator hne hop 0 h2

/-! ### when the scanner fails -/

/-- no literal starts at a character that is neither `-` nor a decimal digit -/
theorem C13_number_none_nondigit (c : Char) (r : List Char) (hm : c ≠ '-') (hd : c.isDigit = false) :
    number (c :: r) = none := by
  rw [number_of_not_minus _ (fun t e => hm (by cases e; rfl))]
  have h0 : c ≠ '0' := by intro e; rw [e] at hd; exact absurd hd (by decide)
  have h0' : ('0' == c) = false := by simp; exact fun e => h0 e.symm
  simp [numberBody, List.isPrefixOf, h0', unprefixed, List.takeWhile, hd]

/-- a minus sign that is not followed by a digit (`-`, `- 1`, `--1`) is not a literal -/
theorem C13_number_none_minus (r : List Char) (hr : ∀ d t, r = d :: t → d.isDigit = false) :
    number ('-' :: r) = none := by
  show numberBody true r = none
  cases r with
  | nil => rfl
  | cons d t =>
    have hd := hr d t rfl
    have h0 : d ≠ '0' := by intro e; rw [e] at hd; exact absurd hd (by decide)
    have h0' : ('0' == d) = false := by simp; exact fun e => h0 e.symm
    simp [numberBody, List.isPrefixOf, h0', unprefixed, List.takeWhile, hd]

/-- `0x` / `0b` without a digit of the class (this includes upper-case hex digits) is not a literal -/
theorem C13_number_none_prefix (neg : Bool) (r : List Char) :
    (r.takeWhile isHex = [] → numberBody neg ('0' :: 'x' :: r) = none) ∧
    (r.takeWhile isBin = [] → numberBody neg ('0' :: 'b' :: r) = none) := by
  constructor
  · intro h; simp [numberBody, List.isPrefixOf, prefixed, h]
  · intro h; simp [numberBody, List.isPrefixOf, prefixed, h]

/-! ## non-vacuity -/

/-- the spec on concrete inputs: precedence, associativity, Euclidean division, negative exponent,
    division by zero -/
example : convO 1 [(.add, 2), (.mul, 3), (.pow, 2), (.pow, 2), (.sub, 4), (.div, 3)] = some 162
    ∧ convO 2 [(.pow, 3), (.pow, 2)] = some 512 ∧ convO 2 [(.pow, 3), (.mul, 2)] = some 16
    ∧ convO 2 [(.mul, 3), (.pow, 2)] = some 18 ∧ convO 100 [(.div, 7), (.div, 2)] = some 7
    ∧ convO (-7) [(.div, 2)] = some (-4) ∧ convO 7 [(.div, -2)] = some (-3)
    ∧ convO 2 [(.pow, -1)] = some 1 ∧ convO 1 [(.add, 1), (.div, 0)] = none := by decide

/-- the model on concrete inputs, including the base-0 quirks outside the property (`017` is octal) -/
example : eval "1 + 2*0x3^0b10^2 - 4/3".toList = .ok 162 ∧ eval "017".toList = .ok 15
    ∧ eval "08".toList = .err ∧ eval "1/0".toList = Outcome.divzero ∧ eval "1 2".toList = .err
    ∧ eval "-2^2".toList = .ok 4 := by decide

/-- a quirk of calc.go kept by the model: `yard.result` applies a trailing operator to the two operands
    below it before the operand count is checked, so the malformed input `1+0/` — which contains no
    complete division — is reported as "division by zero" rather than "too few operands" (before the
    fix F4 this was a panic). It is an error either way, which is all the property asks; this is why
    the malformed theorems say `IsError` and not `= .err`. -/
theorem C13_trailing_operator_divzero : eval "1+0/".toList = Outcome.divzero := by decide

end AC.Props.C13
