import AC.AllocBoundX
/-! # C17 — no more temporaries than simultaneously live values

Model: `AC.AllocX.allocateX` / `P.Alloc.run` (the reverse scan of `alloc.go`); `nVars ir` is the
final `allocation.n`. Independent notions written from the property text (`AC.PeakLive`):
`wfB` (well-formed), `allUsedB` (every computed value other than the last is read by some
instruction), `peakLive` (the maximum, over all program points, of the number of chain values
that exist at the point and are still needed at or after it — the final result counts as
needed). -/
namespace AC.Props.C17
open P.Alloc AC.AllocX AC.PeakLive

/-- For every well-formed non-empty program without dead values, in every naming configuration:
the number of declared temporaries is at most the number of variables of the allocation, which is
at most the peak number of simultaneously live chain values. (`allUsedB` is necessary: a dead
result takes a variable transiently.) -/
theorem C17_bound {α : Type} (cfg : Cfg α) (ir : List Inst)
    (hwf : wfB ir = true) (hne : ir ≠ []) (hu : allUsedB ir = true)
    (prog : List (NInst α)) (temps : List α) (h : allocateX cfg ir = .ok (prog, temps)) :
    temps.length ≤ nVars ir ∧ nVars ir ≤ peakLive ir := by
  have hWF := wf_of_wfB ir hwf hne
  rw [allocateX_eq cfg ir hne] at h
  injection h with h
  injection h with _ ht
  subst ht
  constructor
  · simp only [tempsOf, List.length_map, List.length_range]
    exact tmap_length_le ir
  · exact run_n_le (peakLive ir) ir hWF.wfs (fun pre inst suf e => distinctLE_peak ir hWF hu pre inst suf e)

/-- Storage of a dead value is always reused before a new variable is introduced: the allocation
creates a new variable only when the free list is empty, i.e. (by the allocator invariant
`P.Alloc.Inv.cover`) when every existing variable is held by a value that is still live. -/
theorem C17_reuse_first (s : St) (i : Nat) (h : (s.allocate i).n ≠ s.n) :
    s.avail = [] ∧ s.var i = none ∧ (s.allocate i).n = s.n + 1 := by
  unfold St.allocate at h ⊢
  cases hv : s.var i with
  | some v => simp [hv] at h
  | none =>
    cases hg : s.avail.getLast? with
    | some w => simp [hv, hg] at h
    | none => exact ⟨by simpa using hg, rfl, rfl⟩

/-- the free list is used LIFO: a freed variable is the next one handed out -/
theorem C17_freed_is_next (s : St) (v i : Nat) (hi : s.var i = none) :
    ((s.free v).allocate i).var i = some v ∧ ((s.free v).allocate i).n = s.n := by
  have hv : (s.free v).var i = none := hi
  unfold St.allocate
  simp only [hv]
  have : (s.free v).avail.getLast? = some v := by simp [St.free]
  simp [this, St.free]

/-- non-vacuity: `1:D(0); 2:A(0,1); 3:A(1,2)` has no dead value and peak liveness 2 -/
example : allUsedB [⟨1, .dbl 0⟩, ⟨2, .add 0 1⟩, ⟨3, .add 1 2⟩] = true ∧
    peakLive [⟨1, .dbl 0⟩, ⟨2, .add 0 1⟩, ⟨3, .add 1 2⟩] = 2 := by decide

end AC.Props.C17
