import AC.DecompProof
import AC.Guards
import AC.DecompTie
/-! # C09 — dictionary decompositions represent the target exactly and without overlap

Model: `P.Bits.decompose` (the four `Decompose` methods of alg/dict/dict.go followed by
`SortByExponent`), `P.Bits.dictionary`. `Below a b` says `a.d·2^a.e < 2^b.e`: `a`'s bit range ends
below `b`'s exponent; a list that is `Pairwise Below` has strictly increasing exponents and pairwise
disjoint bit ranges. -/
namespace AC.Props.C09
open P P.Bits

private theorem x_lt (x : Nat) : x < 2 ^ (Nat.log2 x + 1) := Nat.lt_log2_self

private theorem sep_of_rev {l : List Term} (h : l.Pairwise (fun a b => b.d * 2 ^ b.e < 2 ^ a.e)) :
    l.Pairwise Sep := h.imp (fun h => Or.inr h)

/-- common conclusion: after sorting, exact sum, every term below every later one -/
private theorem finish (l : List Term) (x : Nat) (hv : value l = x) (hpos : ∀ t ∈ l, 0 < t.d)
    (hsep : l.Pairwise Sep) : value (sortByE l) = x ∧ (sortByE l).Pairwise Below :=
  ⟨by rw [value_perm (sortByE_perm l), hv], sortByE_below l hpos hsep⟩

/-- fixed window: exact, non-overlapping, at most `K` bits -/
theorem C09_fixed (x K T : Nat) (hK : 1 ≤ K) :
    value (decompose .fixed x K T) = x ∧ (decompose .fixed x K T).Pairwise Below ∧
    ∀ t ∈ decompose .fixed x K T, 0 < t.d ∧ t.d < 2 ^ K := by
  obtain ⟨h1, h2, h3⟩ := fixedW_spec x K hK (Nat.log2 x + 1) (Nat.log2 x + 1) (Nat.le_refl _)
  rw [Nat.mod_eq_of_lt (x_lt x)] at h1
  obtain ⟨a, b⟩ := finish _ x h1 (fun t ht => (h2 t ht).1) (sep_of_rev h3)
  exact ⟨a, b, fun t ht => ⟨(h2 t ((sortByE_perm _).subset ht)).1, (h2 t ((sortByE_perm _).subset ht)).2.1⟩⟩

/-- sliding window: exact, non-overlapping, odd, at most `K` bits -/
theorem C09_sliding (x K T : Nat) (hK : 1 ≤ K) :
    value (decompose .sliding x K T) = x ∧ (decompose .sliding x K T).Pairwise Below ∧
    ∀ t ∈ decompose .sliding x K T, 0 < t.d ∧ t.d % 2 = 1 ∧ t.d < 2 ^ K := by
  obtain ⟨h1, h2, h3⟩ := sliding_spec x K hK (Nat.log2 x + 1) (Nat.log2 x + 1) (Nat.le_refl _)
  rw [Nat.mod_eq_of_lt (x_lt x)] at h1
  obtain ⟨a, b⟩ := finish _ x h1 (fun t ht => (h2 t ht).2.2.2) (sep_of_rev h3)
  refine ⟨a, b, fun t ht => ?_⟩
  have := h2 t ((sortByE_perm _).subset ht)
  exact ⟨this.2.2.2, this.1, this.2.1⟩

/-- run length: exact, non-overlapping, all-ones of length at most `T` when `T > 0` -/
theorem C09_runLength (x K T : Nat) :
    value (decompose .runLength x K T) = x ∧ (decompose .runLength x K T).Pairwise Below ∧
    ∀ t ∈ decompose .runLength x K T, ∃ n, 1 ≤ n ∧ t.d = 2 ^ n - 1 ∧ (0 < T → n ≤ T) := by
  obtain ⟨h1, h2, h3⟩ := runLen_spec x T (Nat.log2 x + 1) (Nat.log2 x + 1) (Nat.le_refl _)
  rw [Nat.mod_eq_of_lt (x_lt x)] at h1
  have hpos : ∀ t ∈ runLen x T (Nat.log2 x + 1) (Nat.log2 x + 1), 0 < t.d := by
    intro t ht
    obtain ⟨n, hn, hd, _⟩ := h2 t ht
    have : 2 ^ 1 ≤ 2 ^ n := Nat.pow_le_pow_right (by omega) hn
    omega
  obtain ⟨a, b⟩ := finish _ x h1 hpos (sep_of_rev h3)
  refine ⟨a, b, fun t ht => ?_⟩
  obtain ⟨n, hn, hd, hT, _⟩ := h2 t ((sortByE_perm _).subset ht)
  exact ⟨n, hn, hd, hT⟩

/-- hybrid: exact, non-overlapping, odd, and either at most `K` bits or an all-ones run longer
    than `K` (and at most `T` when `T > 0`) -/
theorem C09_hybrid (x K T : Nat) (hK : 1 ≤ K) :
    value (decompose .hybrid x K T) = x ∧ (decompose .hybrid x K T).Pairwise Below ∧
    ∀ t ∈ decompose .hybrid x K T, 0 < t.d ∧ t.d % 2 = 1 ∧
      (t.d < 2 ^ K ∨ ∃ n, K < n ∧ t.d = 2 ^ n - 1 ∧ (0 < T → n ≤ T)) := by
  obtain ⟨h1, h2⟩ := hybrid_spec x K T hK
  have hposall : ∀ t ∈ hybrid x K T, 0 < t.d := fun t ht => by have := (h2 t ht).1; omega
  -- separation of the raw term list
  have hsep : (hybrid x K T).Pairwise Sep := by
    unfold hybrid
    simp only []
    generalize hL : Nat.log2 x + 1 = L
    have hxL : x < 2 ^ L := by rw [← hL]; exact x_lt x
    obtain ⟨_, r2, r3⟩ := hyRuns_spec x K T L L (Nat.le_refl _)
    have hy : x - value (hyRuns x K T L L) = yLow x K T L L := by
      unfold yLow; rw [Nat.mod_eq_of_lt hxL]
    obtain ⟨_, _, s3⟩ := sliding_spec (x - value (hyRuns x K T L L)) K hK L L (Nat.le_refl _)
    rw [List.pairwise_append]
    refine ⟨sep_of_rev r3, sep_of_rev s3, ?_⟩
    intro r hr s hs
    obtain ⟨n, hnK, hn, _, _⟩ := r2 r hr
    have hd := hybrid_disjoint x K T hK
    simp only [hL] at hd
    rw [hy] at hs
    obtain ⟨w, hw, hcase⟩ := hd r hr n hn hnK s hs
    have hrlt : r.d * 2 ^ r.e < 2 ^ (r.e + n) := by
      rw [hn, Nat.pow_add, Nat.mul_comm]
      have := Nat.pow_pos (n := n) (show 0 < 2 by omega)
      have := Nat.pow_pos (n := r.e) (show 0 < 2 by omega)
      exact Nat.mul_lt_mul_of_pos_left (by omega) this
    have hslt : s.d * 2 ^ s.e < 2 ^ (s.e + w) := by
      rw [Nat.pow_add, Nat.mul_comm]
      exact Nat.mul_lt_mul_of_pos_left hw (Nat.pow_pos (by omega))
    rcases hcase with h | h
    · left; exact Nat.lt_of_lt_of_le hrlt (Nat.pow_le_pow_right (by omega) h)
    · right; exact Nat.lt_of_lt_of_le hslt (Nat.pow_le_pow_right (by omega) h)
  obtain ⟨a, b⟩ := finish _ x h1 hposall hsep
  refine ⟨a, b, fun t ht => ?_⟩
  have hm := (sortByE_perm _).subset ht
  exact ⟨hposall t hm, (h2 t hm).1, (h2 t hm).2⟩

/-- `Pairwise Below` with positive `d` means: exponents strictly increasing -/
theorem C09_exponents_increasing (s : List Term) (hpos : ∀ t ∈ s, 0 < t.d) (h : s.Pairwise Below) :
    s.Pairwise (fun a b => a.e < b.e) := by
  induction h with
  | nil => exact List.Pairwise.nil
  | cons hx _ ih =>
    exact List.Pairwise.cons (fun b hb => below_exp_lt (hpos _ List.mem_cons_self) (hx b hb))
      (ih (fun t ht => hpos t (List.mem_cons_of_mem _ ht)))

/-- the derived dictionary is the strictly sorted list of the distinct `d` -/
theorem C09_dictionary (s : List Term) :
    (dictionary s).Pairwise (· < ·) ∧ ∀ a, a ∈ dictionary s ↔ ∃ t ∈ s, (t.d : Int) = a := by
  unfold dictionary
  refine ⟨pairwise_sortUniq _, fun a => ?_⟩
  rw [mem_sortUniq]
  simp

/-- a decomposition of `x ≥ 1` is never empty (what `dictsumchain` indexes) -/
theorem C09_nonempty (m : Method) (x K T : Nat) (hx : 1 ≤ x) (hK : 1 ≤ K) : decompose m x K T ≠ [] := by
  have hv : value (decompose m x K T) = x := by
    cases m
    · exact (C09_fixed x K T hK).1
    · exact (C09_sliding x K T hK).1
    · exact (C09_runLength x K T).1
    · exact (C09_hybrid x K T hK).1
  exact nonempty_of_value _ x hx hv

/-- non-vacuity: a hybrid decomposition with a long run and a window -/
example : decompose .hybrid 0b1111101 2 0 = [⟨1, 0⟩, ⟨31, 2⟩] := by decide

/-! ## `FixedWindow.Decompose` as TRANSLATED from dict.go

`AC/Gen/ProgramFns.lean` is regenerated from alg/dict/dict.go on every run (harness/cmd/extract/gotr.go);
`AC/DecompTie.lean` proves the translated function equal to the model (`fixedWindow_tie`; the loop
`for h > 0 {…}` on a fuel counter that is never exhausted, `Sum.SortByExponent` as the primitive sort). -/

/-- the translated `FixedWindow{K}.Decompose(x)`, `x ≥ 1`, `K ≥ 1`: never panics, and its terms are exact
    (they sum to `x`), pairwise non-overlapping in increasing exponent order, with `0 < d < 2^K` -/
theorem C09_src_fixed (x K : Nat) (hx : 1 ≤ x) (hK : 1 ≤ K) :
    ∃ s : List Term, AC.Gen.Program.dictFixedWindowDecompose K (x : Int) = some (AC.DecompTie.toGTs s) ∧
      value s = x ∧ s.Pairwise Below ∧ ∀ t ∈ s, 0 < t.d ∧ t.d < 2 ^ K :=
  ⟨_, AC.DecompTie.fixedWindow_tie x K hx hK, C09_fixed x K 0 hK⟩

/-- the translated `Sum.Int` on any sum of natural terms: never panics and returns Σ d·2^e, the `value`
    all the exactness theorems of this file are stated over -/
theorem C09_src_sumInt (s : List Term) :
    AC.Gen.Program.dictSumInt (AC.DecompTie.toGTs s) = some ((value s : Nat) : Int) :=
  AC.DecompTie.sumInt_tie s

/-- the translated `Sum.Dictionary` on any sum: never panics and returns the strictly ascending list of
    exactly the `d` that occur -/
theorem C09_src_dictionary (s : List Term) :
    ∃ d : List Int, AC.Gen.Program.dictSumDictionary (AC.DecompTie.toGTs s) = some d ∧
      d.Pairwise (· < ·) ∧ ∀ a, a ∈ d ↔ ∃ t ∈ s, (t.d : Int) = a :=
  ⟨_, AC.DecompTie.dictionary_tie s, C09_dictionary s⟩

/-- the two translated functions composed, as `TestDecomposersRandom` composes them in Go:
    `FixedWindow{K}.Decompose(x).Int()` is `x` for every `x ≥ 1`, `K ≥ 1` -/
theorem C09_src_fixed_sum (x K : Nat) (hx : 1 ≤ x) (hK : 1 ≤ K) :
    (AC.Gen.Program.dictFixedWindowDecompose K (x : Int)).bind AC.Gen.Program.dictSumInt = some (x : Int) := by
  rw [AC.DecompTie.fixedWindow_tie x K hx hK, Option.bind_some, AC.DecompTie.sumInt_tie,
    (C09_fixed x K 0 hK).1]

end AC.Props.C09
