import AC.BuildXProof
/-! # C04 — the script printed for a chain loads back to exactly that chain

Models (all executable, compared with the Go code by the correspondence run):
`P.BuildX.decompileX` (acc/decompile.go), `P.BuildX.buildX` (acc/build.go with `pass.ReadCounts`,
`pass.NameByteValues`, `pass.NameXRuns`, the builder's inlining rule, the complexity limit 5, the
clearing of the last name and the `return 1` case), `P.BuildX.danglingOK` (`pass.CheckDanglingInputs`),
`P.Sem.cAll` (`pass.Compile`), `P.evaluate` (`Program.Evaluate`).
Specification side: `P.Sem.dStmts` — the direct semantics of a script (statements in order, operands
left to right, names bound to the element their statement produced; C03 proves that translating to
IR and compiling refines it, `P.Sem.load_eq_denote`).

`P.Sem.norm (i, j) = (min i j, max i j)` is "the operands of an addition sorted". -/
namespace AC.Props.C04
open P P.Sem P.BuildX

/-- The intermediate instruction form produced by `Decompile` expands back (`pass.Compile`, including
    the bounds checks and the output-index cross-check) to exactly the original operations, for every
    program whose operands are in range; and `Decompile` itself does not panic on such a program. -/
theorem C04_compile_decompile (p : Prog) (h : InRange p 0) :
    decompileX p = .ok (decompile p) ∧ cAll [] (decompile p) = some p :=
  ⟨decompileX_ok p h, compile_decompile p h⟩

/-- The decompiled program never reads a value that no instruction produces: `CheckDanglingInputs`
    succeeds, i.e. every input of every instruction is index 0 or the output of an earlier instruction. -/
theorem C04_decompile_no_dangling (p : Prog) (h : InRange p 0) :
    danglingOK (decompile p) = true ∧
    ∀ (n : Nat) (inst : Inst), (decompile p)[n]? = some inst → ∀ x ∈ inputs inst.op,
      x = 0 ∨ ∃ (m : Nat) (e : Inst), m < n ∧ (decompile p)[m]? = some e ∧ e.out = x := by
  have h1 := decompile_noDangling p h
  refine ⟨h1, ?_⟩
  intro n inst hn x hx
  rcases (danglingFrom_iff (decompile p) [0]).mp h1 n inst hn x hx with h | h
  · left; simpa using h
  · exact Or.inr h

/-- `Build`, with the concrete names (`_<binary>` for values of at most 8 bits, `x<n>` for `2^n-1`,
    `i<index>` otherwise), the concrete inlining rule (unnamed ∧ read once ∧ read by the next
    instruction ∧ fewer than 5 operators so far), the cleared last name and the `return 1` case:
    for every IR program that compiles to `p`, has no shift by zero and whose chain values are
    pairwise distinct, `Build` succeeds (no compile error, the assertion in `builder.add` is not
    reached) and the script denotes exactly `p` with the operands of each addition sorted.
    (A shift by zero is never produced by `Decompile`; with one, the claim is false, for the model and
    for the Go code alike: `9: S(0,9); 9: S(9,0); 10: A(9,9)` compiles to ten doublings, and `Build`
    yields `i9 = 1 << 9; i9 = i9 << 0; return i9 + i9`, two statements named `i9`, which does not load.) -/
theorem C04_build_denotes (ir : IR) (p : Prog) (hs : ∀ inst ∈ ir, ∀ x s, inst.op = .shl x s → 1 ≤ s)
    (hc : cAll [] ir = some p) (hnd : (evaluate p).Nodup) :
    ∃ s, buildX ir = .ok s ∧ dStmts [] [] s = some (p.map norm) := by
  obtain ⟨s, env', hb, hrun, _, _, _⟩ := buildX_facts ir p hs hc hnd
  refine ⟨s, hb, ?_⟩
  rw [← dRun_dStmts, hrun]; rfl

/-- **Round trip at the level of scripts**: for every program with in-range operands and pairwise
    distinct chain values — including the empty program, whose chain is `[1]` — decompiling and
    building succeeds and the script denotes the original program with the operands of each addition
    sorted; the denoted program evaluates to the identical chain. -/
theorem C04_roundtrip_core (p : Prog) (h : InRange p 0) (hnd : (evaluate p).Nodup) :
    ∃ ir s, decompileX p = .ok ir ∧ buildX ir = .ok s ∧ dStmts [] [] s = some (p.map norm) ∧
      evaluate (p.map norm) = evaluate p := by
  obtain ⟨s, hb, hd⟩ := C04_build_denotes (decompile p) p (decompileFrom_shl_pos p _ _ _)
    (compile_decompile p h) hnd
  exact ⟨decompile p, s, decompileX_ok p h, hb, hd, evaluate_map_norm p⟩

/-- The same through the IR pipeline of `LoadString` after parsing (`Translate` then `pass.Compile`),
    using C03's refinement `load_eq_denote`. -/
theorem C04_roundtrip_translate (p : Prog) (h : InRange p 0) (hnd : (evaluate p).Nodup) :
    ∃ ir s, decompileX p = .ok ir ∧ buildX ir = .ok s ∧
      (match tStmts [] 1 s with | none => none | some ir' => cAll [] ir') = some (p.map norm) := by
  obtain ⟨ir, s, h1, h2, h3, _⟩ := C04_roundtrip_core p h hnd
  exact ⟨ir, s, h1, h2, (load_eq_denote s).trans h3⟩

/-- Full text-level statement (OPEN): with `print` the printer model of C07 and `load` the loader model
    of C03 (`parse` followed by the direct semantics), the printed script loads without error to the
    program with sorted addition operands, hence to the identical chain. It follows from
    `C04_roundtrip_core` once C07 (`parse (print s) = some s` for the scripts `buildX` produces) and
    C03 (`load = parse >>= denote`) are available over the final parser model, see `C04_text_of`. -/
def C04_text_Statement (print : Script → List Char) (load : List Char → Option Prog) : Prop :=
  ∀ p : Prog, InRange p 0 → (evaluate p).Nodup →
    ∃ ir s, decompileX p = .ok ir ∧ buildX ir = .ok s ∧ load (print s) = some (p.map norm)

/-- the composition: any printer/parser pair that round-trips on built scripts gives the text-level
    statement for `load := parse >>= denote` -/
theorem C04_text_of (print : Script → List Char) (parse : List Char → Option Script)
    (h07 : ∀ ir s, buildX ir = .ok s → parse (print s) = some s) :
    C04_text_Statement print (fun t => (parse t).bind (dStmts [] [])) := by
  intro p h hnd
  obtain ⟨ir, s, h1, h2, h3, _⟩ := C04_roundtrip_core p h hnd
  exact ⟨ir, s, h1, h2, by simp [h07 ir s h2, h3]⟩

/-- The constants the model hard-wires (8 bits, `_%b`, `x%d`, `i%d`) are the ones in the Go source:
    `AC.Gen.*` is regenerated from acc/pass/naming.go and acc/build.go on every check. -/
theorem C04_naming_constants : AC.Gen.byteBits = 8 ∧ AC.Gen.byteFmt = "_%b" ∧ AC.Gen.xRunFmt = "x%d" ∧
    AC.Gen.indexFmt = "i%d" := naming_constants

/-- non-vacuity: the empty program (target 1) gives `return 1`; a program with a doubling run, a
    swapped addition and a re-used value -/
example : buildX [] = .ok [⟨"", .operand 0⟩] ∧ dStmts [] [] [⟨"", .operand 0⟩] = some [] := ⟨rfl, rfl⟩
example : InRange [(0,0),(1,0),(2,2),(3,3),(4,4),(5,2)] 0 := by simp [InRange]
example : (match buildX (decompile [(0,0),(1,0),(2,2),(3,3),(4,4),(5,2)]) with
    | .ok s => s.map (·.name) | .error _ => []) = ["_10", "_11", "_11000", ""] := by decide

end AC.Props.C04
