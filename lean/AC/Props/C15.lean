import AC.Props.C09
import AC.Props.C12
import AC.HeurSound
import AC.BuildX
import AC.CalcTotal
/-! # C15 — every input ends in a result or a diagnostic

The models return explicit outcomes and Lean accepts their recursion, so *termination with an
outcome* of a model is its type.  What has to be shown per entry point is that the outcome is never
a panic / a blocked state: one **guard lemma** per partial operation of the Go code (index
expression, slice expression, explicit `panic(…)`, division, channel creation), as listed by the
extractor's partial-operation inventory (`expect/panic_sites.txt`).  This file restates the guard
lemmas that exist, each naming the Go site it guards.  Outside the model (DESIGN §8): stack
exhaustion, out-of-memory, shifts by astronomically large literals, the scheduler. -/
namespace AC.Props.C15
open P

/-- guards `sum[len(sum)-1]` in `dictsumchain`-style code of alg/dict/dict.go (`Algorithm.FindChain`
    indexes the last term of the decomposition): the decomposition of a target `x ≥ 1` by any of the
    four decomposers (window `K ≥ 1`) is never empty.  (`x = 0` — the former `search 0` panic F5 —
    is excluded by search.go's `n.Sign() <= 0` check.) -/
theorem C15_decompose_nonempty (m : Bits.Method) (x K T : Nat) (hx : 1 ≤ x) (hK : 1 ≤ K) :
    Bits.decompose m x K T ≠ [] :=
  AC.Props.C09.C09_nonempty m x K T hx hK

/-- guards `f[n-1]` and `panic("delta must be a positive integer")` in
    `heuristic.DeltaLargest.Suggest` (alg/heuristic/heuristic.go): for a protosequence as maintained by
    the Bos–Coster loop (contains 1 and 2, ascending, every element below the target) the sequence is
    non-empty and `target − largest` is positive -/
theorem C15_delta_positive (f : List Int) (t : Int) (h : ProtoOK f t) :
    f ≠ [] ∧ 0 < t - f.getLastD 0 := by
  have hne := protoOK_ne_nil h
  have hm := getLastD_mem f hne
  have := h.top _ hm
  exact ⟨hne, by omega⟩

/-- guards `b.prog.Statements[len-1]` at the end of `builder.process` (acc/build.go; the F1 panic
    before the fix): the statement list after `finish` is never empty, so a successful `Build`
    returns at least one statement (`return 1` for an empty program) -/
theorem C15_build_nonempty (ir : BuildX.IR) (s : BuildX.Script) (h : BuildX.buildX ir = .ok s) : s ≠ [] := by
  have hf : ∀ l : List P.Sem.Stmt, BuildX.finish l ≠ [] := by
    intro l
    cases l with
    | nil => simp [BuildX.finish]
    | cons a r => simp [BuildX.finish]
  unfold BuildX.buildX at h
  split at h
  · cases h
  · split at h
    · cases h
    · injection h with h; subst h; exact hf _

/-- guards `big.Int.Div` in `yard.apply` (internal/calc/calc.go; the F4 panic before the fix) and
    the stack pops of `yard.operator`/`yard.result`: the model of `calc.Eval` returns a value, an
    error or the error "division by zero" for *every* string, and the latter only when the machine
    applied a division to a zero divisor -/
theorem C15_calc_total (s : List Char) :
    ((∃ v, AC.Calc.eval s = .ok v) ∨ AC.Calc.eval s = .err ∨ AC.Calc.eval s = AC.Calc.Outcome.divzero) ∧
    (AC.Calc.eval s = AC.Calc.Outcome.divzero →
      ∃ x y : Int, y = 0 ∧ AC.Calc.applyE .div x y = .error .divzero) :=
  AC.Calc.eval_total s

/-- any halt of the calc machine, run with any operator-application function, comes from an
    application that refused its operands (no other partial step exists in the machine) -/
theorem C15_calc_halt_source {ε : Type} (ap : P.YP.Bop → Int → Int → Except ε Int) (s : List Char) (e : ε)
    (h : AC.Calc.evalWith ap s = .halt e) : ∃ t a b, ap t a b = .error e :=
  AC.Calc.evalWith_halt ap s e h

/-- why `search` must reject `-p < 1` (F6): with concurrency limit 0 and at least one algorithm,
    `exec.Parallel.Execute` cannot take a single step — main blocks on `sem <- token{}` forever -/
theorem C15_exec_limit_zero_blocks {k : Nat} (hk : 1 ≤ k) :
    ¬ ∃ a t, P.ExecT.Step k 0 (P.ExecT.init k) a t :=
  AC.Props.C12.C12_limit_zero_blocks hk

/-- and with a limit `L ≥ 1` the executor is deadlock-free: `-p N` for every `N ≥ 1` returns -/
theorem C15_exec_progress {k L : Nat} (hL : 1 ≤ L) {s : P.ExecT.St} (h : P.ExecT.Reach k L s)
    (hn : s.main ≠ .returned) : ∃ a t, P.ExecT.Step k L s a t :=
  AC.Props.C12.C12_progress hL h hn

/-- guards the window extraction of the sliding-window and run-length decomposers: for `x ≥ 1` the
    scan from the top bit emits at least one term -/
theorem C15_sliding_nonempty (x K : Nat) (hx : 1 ≤ x) :
    Bits.sliding x K (Nat.log2 x + 2) (Nat.log2 x + 1) ≠ [] := Bits.sliding_nonempty x K hx

/-- outcome classes of an entry point -/
inductive Out | ok | err | panic | blocked
deriving Repr, DecidableEq

/-- the entry points of the property: outcome class on a source / expression text; `search` also
    takes the `-p` value -/
structure Entries where
  calcEval : List Char → Out
  parse : List Char → Out
  translate : List Char → Out
  eval : List Char → Out
  build : List Char → Out
  format : List Char → Out
  prepareData : List Char → Out
  generate : List Char → Out
  search : Int → List Char → Out

/-- FULL STATEMENT (open): for the concrete outcome-class functions `E` of the addchain models
    (calc: `AC.Calc.eval` — proved, `C15_calc_total`; parse/translate/eval: PegFull + SemX; build:
    `buildX`; format: PrinterX; prepareData/generate: allocator + listing models; search: the
    composition of `SearchX.search` with the executor LTS), no input leads to `panic` or `blocked`.
    Open: one guard lemma per site of `expect/panic_sites.txt` that is not restated above. -/
def C15_total_Statement (E : Entries) : Prop :=
  (∀ s, E.calcEval s ≠ .panic ∧ E.calcEval s ≠ .blocked) ∧
  (∀ s, E.parse s ≠ .panic ∧ E.parse s ≠ .blocked) ∧
  (∀ s, E.translate s ≠ .panic ∧ E.translate s ≠ .blocked) ∧
  (∀ s, E.eval s ≠ .panic ∧ E.eval s ≠ .blocked) ∧
  (∀ s, E.build s ≠ .panic ∧ E.build s ≠ .blocked) ∧
  (∀ s, E.format s ≠ .panic ∧ E.format s ≠ .blocked) ∧
  (∀ s, E.prepareData s ≠ .panic ∧ E.prepareData s ≠ .blocked) ∧
  (∀ s, E.generate s ≠ .panic ∧ E.generate s ≠ .blocked) ∧
  (∀ p s, E.search p s ≠ .panic ∧ E.search p s ≠ .blocked)

/-- outcome class of the calc model -/
def calcOut (s : List Char) : Out :=
  match AC.Calc.eval s with
  | .ok _ => .ok
  | _ => .err

/-- the calc clause of the full statement holds for the calc model -/
theorem C15_calc_clause (s : List Char) : calcOut s ≠ .panic ∧ calcOut s ≠ .blocked := by
  unfold calcOut
  split <;> exact ⟨by decide, by decide⟩

/-- non-vacuity: a division by zero and a trailing operator over a zero operand are diagnosed, not
    crashed on; a well-formed expression is evaluated -/
example : AC.Calc.eval "1/0".toList = AC.Calc.Outcome.divzero ∧ AC.Calc.eval "7*".toList = .err ∧
    AC.Calc.eval "2^5-1".toList = .ok 31 := by decide

end AC.Props.C15
