import AC.SemXSpec
import AC.SemXText
/-! # C03 — loading a script yields the chain defined by grammar and semantics

Model (`AC/SemX.lean`): `translate` (acc/translate.go: 64-bit counter, name table, operand swap, shift
output index `n-1+int(S)`), `compile` (pass.Compile over addchain.Program: `boundscheck`, `Shift(i,0)`
unchecked, output-index cross-check), `evaluate`, `load` = their composition (= `acc.LoadString` after
parsing). Spec: `denote` — the direct big-step semantics (statements in order, operands left to right,
state = the chain so far). The parser model is `P.PegF.parse` (`AC/PegFull.lean`, property C07's side);
`loadText` composes it with `load`.

`Expr.operand i` is `[i]` (`1` is `[0]`), `St.has a` says element `a` has been computed, `St.val a` is
its value. -/
namespace AC.Props.C03
open P.SemX

/-- a tree describing fewer than 2^63 chain elements (a Go slice cannot hold more; the translator's
    `int` counter cannot overflow on such a tree) -/
def Small (t : Tree) : Prop := (weightS t : Int) + 1 < 9223372036854775808

/-- **Refinement.** For every tree, translate → compile → evaluate yields exactly what the direct
    semantics yields (same chain, same op list) and is an error exactly when the direct semantics
    rejects. -/
theorem C03_load_eq_denote (t : Tree) (h : Small t) : (load t).toOption = denote t :=
  load_eq_denote t h

/-- the load succeeds with chain and op list `st` iff the direct semantics yields `st` -/
theorem C03_load_ok_iff (t : Tree) (h : Small t) (st : St) : load t = .ok st ↔ denote t = some st := by
  rw [← C03_load_eq_denote t h]
  cases load t with
  | error e => simp [Except.toOption]
  | ok s => simp [Except.toOption]

/-- the load fails iff the direct semantics rejects -/
theorem C03_load_error_iff (t : Tree) (h : Small t) : (∃ e, load t = .error e) ↔ denote t = none := by
  rw [← C03_load_eq_denote t h]
  cases load t with
  | error e => simp [Except.toOption]
  | ok s => simp [Except.toOption]

/-! ## `denote` read as the property text -/

/-- `[i]` (and `1` = `[0]`) denotes element `i`; evaluating it appends nothing and checks nothing -/
theorem C03_denote_spec_index (st : St) (env : Env) (i : Int) :
    dExpr st env (.operand i) = some (st, i) := rfl

/-- `1` denotes the first element, whose value is 1, in every state the semantics reaches -/
theorem C03_denote_spec_one (t : Tree) (st : St) (h : denote t = some st) :
    st.val 0 = 1 ∧ ∀ env, dExpr st env (.operand 0) = some (st, 0) := by
  obtain ⟨l, hl⟩ := dStmts_prefix t St.init st [] h
  refine ⟨?_, fun _ => rfl⟩
  simp [St.val, hl, St.init]

/-- a name denotes the element bound to it -/
theorem C03_denote_spec_ident (st : St) (env : Env) (s : String) (x : Int) (h : lookup env s = some x) :
    dExpr st env (.ident s) = some (st, x) := by
  simp [dExpr, h]

/-- an addition evaluates its operands left to right and appends exactly one element, the sum of the
    two operand elements; its result is the index of that new element -/
theorem C03_denote_spec_add (st st1 st2 : St) (env : Env) (x y : Expr) (a b : Int)
    (hx : dExpr st env x = some (st1, a)) (hy : dExpr st1 env y = some (st2, b))
    (ha : st2.has a) (hb : st2.has b) :
    ∃ ops', dExpr st env (.add x y) =
      some (⟨st2.chain ++ [st2.val a + st2.val b], ops'⟩, (st2.chain.length : Int)) := by
  refine ⟨st2.ops ++ [((min a b).toNat, (max a b).toNat)], ?_⟩
  simp only [dExpr, hx, hy]
  exact step_ok st2 a b ha hb

/-- a doubling appends exactly one element, twice its operand element -/
theorem C03_denote_spec_double (st st1 : St) (env : Env) (x : Expr) (a : Int)
    (hx : dExpr st env x = some (st1, a)) (ha : st1.has a) :
    ∃ ops', dExpr st env (.double x) =
      some (⟨st1.chain ++ [st1.val a + st1.val a], ops'⟩, (st1.chain.length : Int)) := by
  refine ⟨st1.ops ++ [((min a a).toNat, (max a a).toNat)], ?_⟩
  simp only [dExpr, hx]
  exact step_ok st1 a a ha ha

/-- a shift by `s ≥ 1` appends exactly `s` successive doublings `2v, 4v, …, 2^s v` of its operand
    element `v`; its result is the index of the last of them -/
theorem C03_denote_spec_shift (st st1 : St) (env : Env) (x : Expr) (s : Nat) (a : Int) (hs : 1 ≤ s)
    (hx : dExpr st env x = some (st1, a)) (ha : st1.has a) :
    ∃ ops', dExpr st env (.shift x s) =
      some (⟨st1.chain ++ (List.range s).map (fun k => 2 ^ (k+1) * st1.val a), ops'⟩,
            (st1.chain.length : Int) + s - 1) := by
  obtain ⟨s', rfl⟩ : ∃ s', s = s' + 1 := ⟨s - 1, by omega⟩
  obtain ⟨ops', h⟩ := doubles_spec s' st1 a ha
  refine ⟨ops', ?_⟩
  simp only [dExpr, hx]
  rw [if_neg (by omega), h]
  congr 2
  omega

/-- statements are evaluated in order; a statement binds its name to the element its expression
    produced (the return statement binds the empty name) … -/
theorem C03_denote_spec_stmt (st st' : St) (env : Env) (name : String) (e : Expr) (x : Int)
    (r : List Stmt) (he : dExpr st env e = some (st', x)) (hn : lookup env name = none) :
    dStmts st env (⟨name, e⟩ :: r) = dStmts st' ((name, x) :: env) r := by
  simp [dStmts, he, hn]

/-- … and in the rest of the script that name denotes exactly that element, while every other name
    keeps its meaning -/
theorem C03_denote_spec_name (env : Env) (name : String) (x : Int) :
    lookup ((name, x) :: env) name = some x ∧
    ∀ other, name ≠ other → lookup ((name, x) :: env) other = lookup env other :=
  ⟨lookup_cons_self env name x, fun other h => lookup_cons_ne env name other x h⟩

/-! ## rejections -/

/-- a use of an undefined name is rejected -/
theorem C03_rejects_undefined (st : St) (env : Env) (s : String) (h : lookup env s = none) :
    dExpr st env (.ident s) = none := by
  simp [dExpr, h]

/-- a redefinition is rejected -/
theorem C03_rejects_redefinition (st : St) (env : Env) (name : String) (e : Expr) (r : List Stmt)
    (v : Int) (h : lookup env name = some v) : dStmts st env (⟨name, e⟩ :: r) = none := by
  simp only [dStmts, h]
  cases dExpr st env e with
  | none => rfl
  | some r => rfl

/-- an addition, doubling or shift (by `s ≥ 1`) applied to an element index that has not been computed
    at the time of the operation is rejected -/
theorem C03_rejects_index (st st1 st2 : St) (env : Env) (x y : Expr) (a b : Int) (s : Nat) :
    (dExpr st env x = some (st1, a) → dExpr st1 env y = some (st2, b) → (¬ st2.has a ∨ ¬ st2.has b) →
      dExpr st env (.add x y) = none) ∧
    (dExpr st env x = some (st1, a) → ¬ st1.has a → dExpr st env (.double x) = none) ∧
    (dExpr st env x = some (st1, a) → ¬ st1.has a → 1 ≤ s → dExpr st env (.shift x s) = none) := by
  refine ⟨?_, ?_, ?_⟩
  · intro hx hy h
    simp only [dExpr, hx, hy]
    exact step_none st2 a b h
  · intro hx h
    simp only [dExpr, hx]
    exact step_none st1 a a (Or.inl h)
  · intro hx h hs
    obtain ⟨s', rfl⟩ : ∃ s', s = s' + 1 := ⟨s - 1, by omega⟩
    simp only [dExpr, hx]
    rw [if_neg (by omega)]
    exact doubles_none s' st1 a h

/-- a rejected sub-expression rejects the expression, a rejected statement rejects the script -/
theorem C03_rejects_propagates (st : St) (env : Env) (x y : Expr) (s : Nat) (name : String)
    (r : List Stmt) (h : dExpr st env x = none) :
    dExpr st env (.add x y) = none ∧ dExpr st env (.double x) = none ∧
    dExpr st env (.shift x s) = none ∧ dStmts st env (⟨name, x⟩ :: r) = none ∧
    (∀ st1 a, dExpr st env y = some (st1, a) → dExpr st1 env x = none →
      dExpr st env (.add y x) = none) := by
  refine ⟨by simp [dExpr, h], by simp [dExpr, h], by simp [dExpr, h], by simp [dStmts, h], ?_⟩
  intro st1 a hy hx
  simp [dExpr, hy, hx]

/-- **Rejection.** Whatever the direct semantics rejects (undefined name, redefinition, operation on
    an index not yet computed, …) makes the load fail with an error: no chain is produced. -/
theorem C03_rejects (t : Tree) (h : Small t) (hd : denote t = none) : ∃ e, load t = .error e :=
  (C03_load_error_iff t h).2 hd

/-! ## the shift-by-0 quirk (outside the property text, which speaks of `s ≥ 1`) -/

/-- `x << 0` appends nothing and is accepted iff `x` is the most recent element of the chain
    (`Program.Shift(i, 0)` returns `i` unchecked; `pass.Compile`'s cross-check `out != Output.Index`
    then compares `i` with `n - 1`) -/
theorem C03_shift_zero (st : St) (env : Env) (x : Expr) :
    dExpr st env (.shift x 0) =
      match dExpr st env x with
      | none => none
      | some (st1, a) => if a = (st1.chain.length : Int) - 1 then some (st1, a) else none := by
  simp only [dExpr]
  cases dExpr st env x with
  | none => rfl
  | some r => rfl

/-- instances on the pipeline itself: `return 1 << 0` loads to the chain `[1]`;
    `a = 1 + 1 / b = 1 + 1 / return a << 0` fails the cross-check; `return [1] << 0` too -/
theorem C03_shift_zero_load :
    load [⟨"", .shift (.operand 0) 0⟩] = .ok ⟨[1], []⟩ ∧
    load [⟨"a", .add (.operand 0) (.operand 0)⟩, ⟨"b", .add (.operand 0) (.operand 0)⟩,
          ⟨"", .shift (.ident "a") 0⟩] = .error .outputindex ∧
    load [⟨"", .shift (.operand 1) 0⟩] = .error .outputindex := by
  refine ⟨by rfl, by rfl, by rfl⟩

/-- the cross-check of `pass.Compile` never fires on translator output unless the script contains a
    shift by 0 -/
theorem C03_crosscheck_only_shift_zero (t : Tree) (h : Small t)
    (he : load t = .error .outputindex) : (t.any fun s => hasShift0 s.e) = true := by
  unfold load translate compile at he
  cases ht : tStmts [] 1 t with
  | error e =>
    rw [ht] at he; simp only [] at he
    -- translation errors are `undefined` / `redefine`
    exfalso
    cases he
    -- the translator never reports `outputindex`
    have key : ∀ (ss : List Stmt) (env : Env) (n : Int), tStmts env n ss ≠ .error .outputindex := by
      have kE : ∀ (e : Expr) (env : Env) (n : Int), tExpr env n e ≠ .error .outputindex := by
        intro e
        induction e with
        | operand i => intro env n h; simp [tExpr] at h
        | ident s =>
          intro env n h
          simp only [tExpr] at h
          cases hl : lookup env s with
          | none => rw [hl] at h; cases h
          | some v => rw [hl] at h; cases h
        | add x y ihx ihy =>
          intro env n h
          simp only [tExpr] at h
          cases hx : tExpr env n x with
          | error e1 => rw [hx] at h; simp only [] at h; cases h; exact ihx env n hx
          | ok r1 =>
            obtain ⟨d1, n1, a⟩ := r1
            rw [hx] at h; simp only [] at h
            cases hy : tExpr env n1 y with
            | error e2 => rw [hy] at h; simp only [] at h; cases h; exact ihy env n1 hy
            | ok r2 => rw [hy] at h; cases h
        | double x ihx =>
          intro env n h
          simp only [tExpr] at h
          cases hx : tExpr env n x with
          | error e1 => rw [hx] at h; simp only [] at h; cases h; exact ihx env n hx
          | ok r1 => rw [hx] at h; cases h
        | shift x s ihx =>
          intro env n h
          simp only [tExpr] at h
          cases hx : tExpr env n x with
          | error e1 => rw [hx] at h; simp only [] at h; cases h; exact ihx env n hx
          | ok r1 => rw [hx] at h; cases h
      intro ss
      induction ss with
      | nil => intro env n h; simp [tStmts] at h
      | cons st r ih =>
        intro env n h
        simp only [tStmts] at h
        cases hx : tExpr env n st.e with
        | error e1 => rw [hx] at h; simp only [] at h; cases h; exact kE _ env n hx
        | ok r1 =>
          obtain ⟨Δ, n', x⟩ := r1
          rw [hx] at h; simp only [] at h
          cases hl : lookup env st.name with
          | some v => rw [hl] at h; cases h
          | none =>
            rw [hl] at h; simp only [] at h
            cases hr : tStmts ((st.name, x) :: env) n' r with
            | error e2 => rw [hr] at h; simp only [] at h; cases h; exact ih _ _ hr
            | ok ir => rw [hr] at h; cases h
    exact key t [] 1 ht
  | ok ir =>
    rw [ht] at he; simp only [] at he
    cases hc : cAll [] ir with
    | error e =>
      rw [hc] at he; simp only [] at he
      cases he
      exact stmts_crosscheck t [] 1 [] rfl (by unfold Small at h; unfold B63; omega) ir ht hc
    | ok p => rw [hc] at he; cases he

/-! ## text level -/

/-- **Composition with the parser model.** If the text parses to tree `t` then loading the text yields
    exactly what the direct semantics assigns to `t`; a text outside the grammar is rejected. -/
theorem C03_load_text (s : List Char) (t : P.PegF.Tree) (hp : P.PegF.parse s = .ok t)
    (h : Small (ofPegTree t)) : (loadText s).toOption = denote (ofPegTree t) := by
  unfold loadText
  rw [hp]
  simp only []
  rw [← C03_load_eq_denote _ h]
  cases load (ofPegTree t) with
  | error e => rfl
  | ok st => rfl

theorem C03_load_text_reject (s : List Char) (hp : P.PegF.parse s = .error ()) :
    loadText s = .error .parse := by
  unfold loadText
  rw [hp]

/-- OPEN (shared with C07): the parser model computes exactly the tree the published grammar assigns.
    `Renders` is to be the inductive, nondeterministic printer of the grammar `acc.peg` (every operator
    spelling, literal base, `[ \t\r]*` whitespace, redundant parentheses, optional `return`, optional
    final newline, with the PEG's follow restrictions as side conditions); the statement is soundness and
    completeness of `P.PegF.parse` with respect to it, which together with `C03_load_text` gives the
    property at text level. -/
def C03_text_Statement (Renders : P.PegF.Tree → List Char → Prop) : Prop :=
  (∀ t s, Renders t s → P.PegF.parse s = .ok t) ∧
  (∀ s t, P.PegF.parse s = .ok t → Renders t s) ∧
  (∀ s t, Renders t s → Small (ofPegTree t) → (loadText s).toOption = denote (ofPegTree t)) ∧
  (∀ s, (¬ ∃ t, Renders t s) → loadText s = .error .parse)

/-- OPEN: without the size bound — a tree with a shift amount `≥ 2^63` or more than `2^63` elements
    either fails on its first bounds check or does not terminate in the implementation; the model's
    `wrap64` arithmetic mirrors the translator but no theorem covers it. -/
def C03_unbounded_Statement : Prop :=
  ∀ t : Tree, (∀ st, load t = .ok st → denote t = some st)

/-- non-vacuity: `a = 1 << 3 / b = a / return b + [2] + (2 * 1)`: nesting, an alias, an index operand
    into the middle of a shift; the model load and the direct semantics give the same chain. -/
example :
    let t : Tree := [⟨"a", .shift (.operand 0) 3⟩, ⟨"b", .ident "a"⟩,
      ⟨"", .add (.add (.ident "b") (.operand 2)) (.double (.operand 0))⟩]
    load t = .ok ⟨[1, 2, 4, 8, 12, 2, 14], [(0,0), (1,1), (2,2), (2,3), (0,0), (4,5)]⟩ ∧
    denote t = some ⟨[1, 2, 4, 8, 12, 2, 14], [(0,0), (1,1), (2,2), (2,3), (0,0), (4,5)]⟩ := by
  refine ⟨by rfl, by rfl⟩

end AC.Props.C03
