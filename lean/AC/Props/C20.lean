import AC.MetavarsXFile
/-! # C20 — release metadata round trip (internal/metavars)

Model (`AC.MetavarsX`, over bytes): `quote` = `strconv.Quote` (`%q`) with the `IsPrint` table as an oracle,
`unquote` = `strconv.Unquote` on double-quoted literals, `writeModel` = the bytes `metavars.Write` produces
*after* `format.Source`, `readModel` = `metavars.Read` on that shape, `get/addS/setS` = `File.Get/Add/Set`.

What is a theorem here: quoting is undone by unquoting for **every** byte string and every `IsPrint`; the model
reader gives back every well-formed file from the model writer; the ordered-map laws. What is *not* a theorem:
that `go/format` and `go/parser` behave as `writeModel`/`readModel` (tied by exact-output correspondence on every
generated case) and that the written text is a gofmt fixed point (observed on every case) — see
`C20_gofmt_fixed_point_Statement`. -/
namespace AC.Props.C20
open P.MetaX

/-- `Unquote(Quote(s)) = s` for all byte strings — valid UTF-8 or not, including quotes, backslashes, newlines,
    NUL, surrogate and overlong encodings — and for any printable-rune table. -/
theorem C20_unquote_quote (isPrint : Nat → Bool) (bytes : List Nat) (h : ∀ b ∈ bytes, b < 256) :
    unquote (quote isPrint bytes) = some bytes := unquote_quote isPrint bytes h

/-- the unquoting loop consumes exactly the quoted literal: whatever text follows the closing quote is left over
    (this is what makes one spec per line readable whatever the value contains) -/
theorem C20_unquote_stops_at_closing_quote (isPrint : Nat → Bool) (bytes t : List Nat) (h : ∀ b ∈ bytes, b < 256) :
    ∃ body, quote isPrint bytes = 0x22 :: (body ++ [0x22]) ∧
      unqR (body.length + 1) (body ++ 0x22 :: t) = some (bytes, t) :=
  ⟨bodyF isPrint bytes.length bytes, rfl,
    unqR_bodyF isPrint bytes.length bytes (Nat.le_refl _) h _ t (Nat.lt_succ_self _)⟩

/-- reading back what was written gives the same package name and the same properties (names, docs, values) in
    the same order, for every file in the property's domain: package and property names are ASCII identifiers
    other than keywords, docs are printable ASCII without trailing blank and not a `+build` line (empty = none),
    values are arbitrary byte strings. -/
theorem C20_read_write (isPrint : Nat → Bool) (f : BFile) (h : WFFile f) :
    readModel (writeModel isPrint f) = some f :=
  readModel_writeModel isPrint f (wfFile_shape f h)

/-- the same under the weaker shape conditions the model reader actually needs: names are non-empty runs of
    identifier bytes (bytes ≥ 0x80 allowed), docs contain no newline -/
theorem C20_read_write_shape (isPrint : Nat → Bool) (f : BFile) (h : ShapeFile f) :
    readModel (writeModel isPrint f) = some f := readModel_writeModel isPrint f h

/-- alignment sections partition the properties in order, and every name fits its section's column
    (so the padding before `=` is `width + 1 - len ≥ 1` blanks) -/
theorem C20_sections (l : List BProp) :
    (sections l).flatten = l ∧ (annot l).map (·.2) = l ∧ ∀ wp ∈ annot l, runeCount wp.2.name ≤ wp.1 :=
  ⟨sections_flatten l, annot_snd l, annot_width l⟩

/-- adding a new name succeeds, appends at the end, is then found, and disturbs no other lookup -/
theorem C20_get_add (f : List BProp) (p : BProp) (h : get f p.name = none) :
    addS f p = (true, f ++ [p]) ∧ get (addS f p).2 p.name = some p.value ∧
      ∀ n, n ≠ p.name → get (addS f p).2 n = get f n := by
  have e : addS f p = (true, f ++ [p]) := by unfold addS; rw [add_new f p h]
  rw [e]
  exact ⟨rfl, get_add_same f p h, fun n hn => get_add_other f p n hn⟩

/-- adding an existing name is an error and changes nothing -/
theorem C20_add_existing_err_unchanged (f : List BProp) (p : BProp) (h : get f p.name ≠ none) :
    addS f p = (false, f) := by
  obtain ⟨e, he⟩ := add_existing f p h
  unfold addS; rw [he]

/-- setting an unknown name is an error and changes nothing -/
theorem C20_set_unknown_err_unchanged (f : List BProp) (n v : List Nat) (h : get f n = none) :
    setS f n v = (false, f) := by
  unfold setS; rw [set_unknown f n v h]

/-- setting a known name succeeds; it is then found with the new value, other lookups are unchanged -/
theorem C20_set_get (f : List BProp) (n v : List Nat) (h : get f n ≠ none) :
    (setS f n v).1 = true ∧ get (setS f n v).2 n = some v ∧ ∀ m, m ≠ n → get (setS f n v).2 m = get f m := by
  obtain ⟨f', hf⟩ := set_known f n v h
  have := set_get f n v f' hf
  unfold setS; rw [hf]
  exact ⟨rfl, this.1, this.2.1⟩

/-- order preservation: `Set` keeps names and docs position by position; `Add` only ever appends -/
theorem C20_order_preserved (f : List BProp) :
    (∀ n v, (setS f n v).2.map (·.name) = f.map (·.name) ∧ (setS f n v).2.map (·.doc) = f.map (·.doc)) ∧
    (∀ p, (addS f p).2 = f ∨ (addS f p).2 = f ++ [p]) := by
  constructor
  · intro n v
    unfold setS
    cases hs : set f n v with
    | none => exact ⟨rfl, rfl⟩
    | some f' => have := set_get f n v f' hs; exact ⟨this.2.2.1, this.2.2.2⟩
  · intro p
    unfold addS add
    cases f.find? (·.name == p.name) with
    | none => exact Or.inr rfl
    | some _ => exact Or.inl rfl

/-- OPEN (outside the model): the bytes written by the real `Write` are a fixed point of `format.Source`, and the
    real `go/format`, `go/parser` agree with `writeModel` / `readModel`. Here `fmtSource` stands for
    `format.Source` and `implWrite` for `metavars.Write`; nothing in Lean constrains them, so this is a
    statement, not a theorem. The harness observes both facts on every generated case. -/
def C20_gofmt_fixed_point_Statement (fmtSource : List Nat → Option (List Nat))
    (implWrite : BFile → Option (List Nat)) (isPrint : Nat → Bool) : Prop :=
  ∀ f, WFFile f → implWrite f = some (writeModel isPrint f) ∧
    fmtSource (writeModel isPrint f) = some (writeModel isPrint f)

/-- non-vacuity: a well-formed file with a doc-induced alignment section, an invalid UTF-8 value and an escape;
    written, read back, and the literal unquoted -/
example :
    let f : BFile := { pkg := bytesOf "meta", props :=
      [⟨bytesOf "a", [], [0x78, 0x0A, 0xFF]⟩, ⟨bytesOf "bbb", [], bytesOf "\"\\"⟩, ⟨bytesOf "cc", bytesOf "doc c", [0xC3, 0xA9]⟩] }
    wfFile f = true ∧
    writeModel (fun r => r == 0xE9) f =
      bytesOf "package meta\n\nvar (\n\ta   = \"x\\n\\xff\"\n\tbbb = \"\\\"\\\\\"\n\t// doc c\n\tcc = \"" ++ [0xC3, 0xA9] ++ bytesOf "\"\n)\n" ∧
    readModel (writeModel (fun r => r == 0xE9) f) = some f := by
  decide

end AC.Props.C20
