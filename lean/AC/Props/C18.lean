import AC.ProgramX
/-! # C18 — program builders reject bad operands; program analyses match their definitions

Model: `P.PX` (AC/ProgramX.lean): `padd/pdouble/pshift` (`Program.Add/Double/Shift` with Go `int`
operands as `Int`), `step/runCalls/build` (call sequences), `count`, `evaluateX`, `readCounts`,
`dependencies` (`none` = the Go code would panic on an index out of range), `productX`, `plusX`.
`InRange p`: op number `k` only reads positions `≤ k`. `Reach p j k`: reflexive-transitive closure of
"`j` is an operand of position `k`". `uses i o`: `o.I = i ∨ o.J = i` (a doubling counts once because
the operations, not the operand slots, are counted).

"Leaves the program unchanged" on error: the builders are modelled in state-passing form for
`Shift` (which could in principle fail half-way), so "unchanged" is a theorem there; `Add`/`Double`
return before the append. "Without modifying their arguments" (Product/Plus) is not expressible in
a functional model; it is observed by the harness on every case. -/
namespace AC.Props.C18
open P P.Prim P.PX

/-- `Add(i,j)` fails exactly when an operand is negative or larger than the program length
    (the chain has `len+1` elements, so `len` itself is a valid operand) -/
theorem C18_add_err (p : List Op) (i j : Int) :
    (∃ e, padd p i j = .error e) ↔ (i < 0 ∨ i > (p.length : Int) ∨ j < 0 ∨ j > (p.length : Int)) := by
  constructor
  · rintro ⟨e, he⟩
    by_cases h : (0 ≤ i ∧ i ≤ (p.length : Int)) ∧ (0 ≤ j ∧ j ≤ (p.length : Int))
    · rw [padd_ok p i j h.1 h.2] at he; cases he
    · omega
  · intro h
    exact padd_err p i j (by omega)

/-- an accepted `Add(i,j)` appends exactly the op `(i,j)` and returns the new length, which is the
    index of the new last chain element -/
theorem C18_add_ok (p : List Op) (i j : Int) (hi0 : 0 ≤ i) (hi : i ≤ (p.length : Int))
    (hj0 : 0 ≤ j) (hj : j ≤ (p.length : Int)) :
    padd p i j = .ok (p ++ [(i.toNat, j.toNat)], p.length + 1) :=
  padd_ok p i j ⟨hi0, hi⟩ ⟨hj0, hj⟩

/-- `Double(i)`: error iff out of range, otherwise appends `(i,i)` and returns the new length -/
theorem C18_double (p : List Op) (i : Int) :
    ((∃ e, pdouble p i = .error e) ↔ (i < 0 ∨ i > (p.length : Int))) ∧
    (0 ≤ i → i ≤ (p.length : Int) → pdouble p i = .ok (p ++ [(i.toNat, i.toNat)], p.length + 1)) := by
  refine ⟨?_, fun h0 h1 => padd_ok p i i ⟨h0, h1⟩ ⟨h0, h1⟩⟩
  unfold pdouble
  rw [C18_add_err]
  omega

/-- the ops appended by a shift: `(i,i)` then doublings of the respective newest element -/
theorem C18_shiftOps (n i s : Nat) :
    shiftOps n i (s + 1) = (i, i) :: (List.range s).map (fun t => (n + 1 + t, n + 1 + t)) := by
  have key : ∀ (s m : Nat), shiftOps m m s = (List.range s).map (fun t => (m + t, m + t)) := by
    intro s
    induction s with
    | zero => intro m; rfl
    | succ s ih =>
      intro m
      rw [List.range_succ_eq_map]
      simp only [shiftOps, ih, List.map_cons, List.map_map, Nat.add_zero]
      congr 1
      apply List.map_congr_left
      intro t _
      simp only [Function.comp]
      congr 1 <;> omega
  simp only [shiftOps, key]

/-- an accepted `Shift(i,s)` with `s ≥ 1` appends exactly `s` doublings (`C18_shiftOps`) and
    returns `len + s`, the index of the new last element -/
theorem C18_shift_ok (p : List Op) (i : Int) (s : Nat) (hs : 1 ≤ s) (hi0 : 0 ≤ i)
    (hi : i ≤ (p.length : Int)) :
    pshift p i s = (p ++ shiftOps p.length i.toNat s, .ok ((p.length + s : Nat) : Int)) ∧
    (shiftOps p.length i.toNat s).length = s :=
  ⟨pshift_ok s p i hs hi0 hi, shiftOps_length s _ _⟩

/-- `Shift(i,s)` with `s ≥ 1` fails exactly when `i` is out of range, and then the program is
    unchanged (only the first doubling can fail) -/
theorem C18_shift_err (p : List Op) (i : Int) (s : Nat) (hs : 1 ≤ s) :
    ((∃ e, (pshift p i s).2 = .error e) ↔ (i < 0 ∨ i > (p.length : Int))) ∧
    (∀ e, (pshift p i s).2 = .error e → (pshift p i s).1 = p) := by
  obtain ⟨s, rfl⟩ : ∃ s', s = s' + 1 := ⟨s - 1, by omega⟩
  by_cases h : 0 ≤ i ∧ i ≤ (p.length : Int)
  · rw [pshift_ok (s + 1) p i (by omega) h.1 h.2]
    refine ⟨⟨?_, by omega⟩, ?_⟩
    · rintro ⟨e, he⟩; cases he
    · intro e he; cases he
  · obtain ⟨e, he⟩ := pshift_err s p i h
    rw [he]
    exact ⟨⟨fun _ => by omega, fun _ => ⟨e, rfl⟩⟩, fun _ _ => rfl⟩

/-- `Shift(i,0)` returns `i` unchecked and appends nothing (documented Go behaviour; outside the
    property, which speaks of shifts by at least one) -/
theorem C18_shift_zero (p : List Op) (i : Int) : pshift p i 0 = (p, .ok i) := rfl

/-- whatever the call, a failing call leaves the program unchanged, and every call only appends -/
theorem C18_step_unchanged_or_appends (p : List Op) (c : Call) :
    (∀ e, (step p c).2 = .error e → (step p c).1 = p) ∧ ∃ q, (step p c).1 = p ++ q := by
  cases c with
  | add i j =>
    simp only [step]
    by_cases hr : (0 ≤ i ∧ i ≤ (p.length : Int)) ∧ (0 ≤ j ∧ j ≤ (p.length : Int))
    · rw [padd_ok p i j hr.1 hr.2]
      exact ⟨fun e he => (by cases he), ⟨_, rfl⟩⟩
    · obtain ⟨e, he⟩ := padd_err p i j hr
      rw [he]; exact ⟨fun _ _ => rfl, ⟨[], by simp⟩⟩
  | double i =>
    simp only [step, pdouble]
    by_cases hr : (0 ≤ i ∧ i ≤ (p.length : Int))
    · rw [padd_ok p i i hr hr]
      exact ⟨fun e he => (by cases he), ⟨_, rfl⟩⟩
    · obtain ⟨e, he⟩ := padd_err p i i (fun hh => hr hh.1)
      rw [he]; exact ⟨fun _ _ => rfl, ⟨[], by simp⟩⟩
  | shift i s =>
    simp only [step]
    cases s with
    | zero => exact ⟨fun _ _ => rfl, ⟨[], by simp [pshift]⟩⟩
    | succ s =>
      refine ⟨(C18_shift_err p i (s + 1) (by omega)).2, ?_⟩
      by_cases hr : (0 ≤ i ∧ i ≤ (p.length : Int))
      · rw [pshift_ok (s + 1) p i (by omega) hr.1 hr.2]; exact ⟨_, rfl⟩
      · obtain ⟨e, he⟩ := pshift_err s p i hr
        rw [he]; exact ⟨[], by simp⟩

/-- every program built by any call sequence from the empty program (or from any in-range
    program) is in range: each op reads only elements that existed when it was appended -/
theorem C18_built_inRange (cs : List Call) (p : List Op) (hp : InRange p) : InRange (build p cs) :=
  build_inRange cs p hp

theorem C18_built_inRange_nil (cs : List Call) : InRange (build [] cs) :=
  build_inRange cs [] inRange_nil

theorem at'_append_left (c d : Chain) (k : Nat) (h : k < c.length) : at' (c ++ d) k = at' c k := by
  simp [at', List.getD_eq_getElem?_getD, List.getElem?_append_left h]

/-- an in-range program evaluates without failure to a chain one longer than the program that
    starts at 1 and in which element `k+1` is the sum of the two operands of op `k` -/
theorem C18_evaluate (p : List Op) (hp : InRange p) :
    ∃ c, evaluateX p = some c ∧ c.length = p.length + 1 ∧ at' c 0 = 1 ∧
      ∀ k (h : k < p.length), at' c (k + 1) = at' c p[k].1 + at' c p[k].2 := by
  refine ⟨evaluate p, evaluateX_eq p hp, evaluate_length p, ?_, ?_⟩
  · induction p using snocInd with
    | nil => rfl
    | append_singleton p o ih =>
      rw [evaluate_append, at'_append_left _ _ _ (by rw [evaluate_length]; omega)]
      exact ih (inRange_init p o hp).1
  · induction p using snocInd with
    | nil => intro k h; simp at h
    | append_singleton p o ih =>
      obtain ⟨hp', h1, h2⟩ := inRange_init p o hp
      intro k hk
      have hl := evaluate_length p
      rw [evaluate_append]
      simp at hk
      by_cases hkl : k < p.length
      · have hb := hp' k hkl
        rw [List.getElem_append_left hkl, at'_append_left _ _ _ (by omega),
          at'_append_left _ _ _ (by omega), at'_append_left _ _ _ (by omega)]
        exact ih hp' k hkl
      · have : k = p.length := by omega
        subst this
        have e : (p ++ [o])[p.length]'(by simp) = o := by simp
        rw [e, at'_append_left _ _ o.1 (by omega), at'_append_left _ _ o.2 (by omega)]
        simp [at', List.getD_eq_getElem?_getD, ← hl]

/-- every builder-built program evaluates without failure to a chain one longer than itself -/
theorem C18_evaluate_built (cs : List Call) :
    ∃ c, evaluateX (build [] cs) = some c ∧ c.length = (build [] cs).length + 1 := by
  obtain ⟨c, h1, h2, _⟩ := C18_evaluate _ (C18_built_inRange_nil cs)
  exact ⟨c, h1, h2⟩

/-- doubles + adds = program length; doubles are exactly the ops with equal operands -/
theorem C18_count_sum (p : List Op) :
    (count p).1 + (count p).2 = p.length ∧
    count p = (p.countP (fun o => o.1 == o.2), p.countP (fun o => !(o.1 == o.2))) :=
  ⟨count_sum p, count_eq p⟩

/-- read counts: defined (no panic) whenever all operands are at most the program length, of
    length `len+1`, and entry `i` is the number of operations that use element `i`
    (a doubling `(i,i)` is one operation, so it counts once) -/
theorem C18_readCounts_spec (p : List Op) (hp : ∀ o ∈ p, o.1 ≤ p.length ∧ o.2 ≤ p.length) :
    ∃ r, readCounts p = some r ∧ r.length = p.length + 1 ∧
      ∀ i, r.getD i 0 = p.countP (uses i) :=
  readCounts_ok p hp

/-- in particular for every in-range (hence every builder-built) program -/
theorem C18_readCounts_inRange (p : List Op) (hp : InRange p) :
    ∃ r, readCounts p = some r ∧ r.length = p.length + 1 ∧
      ∀ i, r.getD i 0 = p.countP (uses i) :=
  readCounts_ok p (inRange_mem_le p hp)

/-- dependency bitsets of an in-range program: defined, one per chain position, and bit `j` of
    bitset `k` is set exactly when `j` reaches `k` in the reflexive-transitive closure of the
    operand relation -/
theorem C18_deps_spec (p : List Op) (hp : InRange p) :
    ∃ ds, dependencies p = some ds ∧ ds.length = p.length + 1 ∧
      ∀ k, k ≤ p.length → ∀ j, ((ds.getD k 0).testBit j = true ↔ Reach p j k) := by
  have hd := deps_exact p ((inRange_iff_inRangeP p).1 hp)
  refine ⟨depsL p, dependencies_eq p hp, depsL_length p, fun k hk j => ?_⟩
  exact ⟨reach_of_bit p _ hd k k (Nat.le_refl _) hk j, fun h => bit_of_reach p _ hd j k h hk⟩

/-- product of two valid ascending chains: no panic, a valid ascending chain that extends `a`
    and ends at the product of the end values -/
theorem C18_product_ok (a b : Chain) (ha : IsChain a) (haa : a.Pairwise (· < ·))
    (hb : IsChain b) (hba : b.Pairwise (· < ·)) :
    ∃ c, productX a b = some c ∧ IsChain c ∧ c.Pairwise (· < ·) ∧
      c.getLastD 0 = a.getLastD 0 * b.getLastD 0 ∧ a <+: c := by
  have ga := goodC_of_isChain a ha haa
  have gb := goodC_of_isChain b hb hba
  obtain ⟨g, hl, _⟩ := product_good a b ga gb
  refine ⟨product a b, ?_, g.isChain, g.asc, hl, ⟨_, rfl⟩⟩
  unfold productX
  have h1 : a.isEmpty = false := List.isEmpty_eq_false_iff.2 ha.1
  have h2 : b.isEmpty = false := List.isEmpty_eq_false_iff.2 hb.1
  simp [h1, h2]

/-- plus of a valid ascending chain and one of its members: no panic, a valid ascending chain
    `a ++ [end + x]` -/
theorem C18_plus_ok (a : Chain) (x : Int) (ha : IsChain a) (haa : a.Pairwise (· < ·)) (hx : x ∈ a) :
    ∃ c, plusX a x = some c ∧ IsChain c ∧ c.Pairwise (· < ·) ∧
      c.getLastD 0 = a.getLastD 0 + x ∧ c = a ++ [a.getLastD 0 + x] := by
  have ga := goodC_of_isChain a ha haa
  obtain ⟨g, hl, _⟩ := plus_good a x ga hx
  refine ⟨plus a x, ?_, g.isChain, g.asc, hl, ?_⟩
  · unfold plusX
    have h1 : a.isEmpty = false := List.isEmpty_eq_false_iff.2 ha.1
    simp [h1]
  · unfold plus
    rw [getLastD_default a ga.ne_nil 1 0]

/-- non-vacuity: an accepted add, a rejected add (program unchanged), a shift by two, a rejected
    double -/
example : runCalls [] [.add 0 0, .add 2 0, .shift 1 2, .double (-1)] =
    ([(0,0),(1,1),(2,2)],
     [(.ok 1, [(0,0)]), (.error (.outOfBounds 2), [(0,0)]), (.ok 3, [(0,0),(1,1),(2,2)]),
      (.error (.negative (-1)), [(0,0),(1,1),(2,2)])]) := by rfl

end AC.Props.C18
