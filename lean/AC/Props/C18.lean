import AC.ProgramX
import AC.ProgramTie
import AC.ChainTie
/-! # C18 — program builders reject bad operands; program analyses match their definitions

Model: `P.PX` (AC/ProgramX.lean): `padd/pdouble/pshift` (`Program.Add/Double/Shift` with Go `int`
operands as `Int`), `step/runCalls/build` (call sequences), `count`, `evaluateX`, `readCounts`,
`dependencies` (`none` = the Go code would panic on an index out of range), `productX`, `plusX`.
`InRange p`: op number `k` only reads positions `≤ k`. `Reach p j k`: reflexive-transitive closure of
"`j` is an operand of position `k`". `uses i o`: `o.I = i ∨ o.J = i` (a doubling counts once because
the operations, not the operand slots, are counted).

"Leaves the program unchanged" on error: the builders are modelled in state-passing form for
`Shift` (which could in principle fail half-way), so "unchanged" is a theorem there; `Add`/`Double`
return before the append. "Without modifying their arguments" (Product/Plus) is not expressible in
a functional model; it is observed by the harness on every case. -/
namespace AC.Props.C18
open P P.Prim P.PX

/-- `Add(i,j)` fails exactly when an operand is negative or larger than the program length
    (the chain has `len+1` elements, so `len` itself is a valid operand) -/
theorem C18_add_err (p : List Op) (i j : Int) :
    (∃ e, padd p i j = .error e) ↔ (i < 0 ∨ i > (p.length : Int) ∨ j < 0 ∨ j > (p.length : Int)) := by
  constructor
  · rintro ⟨e, he⟩
    by_cases h : (0 ≤ i ∧ i ≤ (p.length : Int)) ∧ (0 ≤ j ∧ j ≤ (p.length : Int))
    · rw [padd_ok p i j h.1 h.2] at he; cases he
    · omega
  · intro h
    exact padd_err p i j (by omega)

/-- an accepted `Add(i,j)` appends exactly the op `(i,j)` and returns the new length, which is the
    index of the new last chain element -/
theorem C18_add_ok (p : List Op) (i j : Int) (hi0 : 0 ≤ i) (hi : i ≤ (p.length : Int))
    (hj0 : 0 ≤ j) (hj : j ≤ (p.length : Int)) :
    padd p i j = .ok (p ++ [(i.toNat, j.toNat)], p.length + 1) :=
  padd_ok p i j ⟨hi0, hi⟩ ⟨hj0, hj⟩

/-- `Double(i)`: error iff out of range, otherwise appends `(i,i)` and returns the new length -/
theorem C18_double (p : List Op) (i : Int) :
    ((∃ e, pdouble p i = .error e) ↔ (i < 0 ∨ i > (p.length : Int))) ∧
    (0 ≤ i → i ≤ (p.length : Int) → pdouble p i = .ok (p ++ [(i.toNat, i.toNat)], p.length + 1)) := by
  refine ⟨?_, fun h0 h1 => padd_ok p i i ⟨h0, h1⟩ ⟨h0, h1⟩⟩
  unfold pdouble
  rw [C18_add_err]
  omega

/-- the ops appended by a shift: `(i,i)` then doublings of the respective newest element -/
theorem C18_shiftOps (n i s : Nat) :
    shiftOps n i (s + 1) = (i, i) :: (List.range s).map (fun t => (n + 1 + t, n + 1 + t)) := by
  have key : ∀ (s m : Nat), shiftOps m m s = (List.range s).map (fun t => (m + t, m + t)) := by
    intro s
    induction s with
    | zero => intro m; rfl
    | succ s ih =>
      intro m
      rw [List.range_succ_eq_map]
      simp only [shiftOps, ih, List.map_cons, List.map_map, Nat.add_zero]
      congr 1
      apply List.map_congr_left
      intro t _
      simp only [Function.comp]
      congr 1 <;> omega
  simp only [shiftOps, key]

/-- an accepted `Shift(i,s)` with `s ≥ 1` appends exactly `s` doublings (`C18_shiftOps`) and
    returns `len + s`, the index of the new last element -/
theorem C18_shift_ok (p : List Op) (i : Int) (s : Nat) (hs : 1 ≤ s) (hi0 : 0 ≤ i)
    (hi : i ≤ (p.length : Int)) :
    pshift p i s = (p ++ shiftOps p.length i.toNat s, .ok ((p.length + s : Nat) : Int)) ∧
    (shiftOps p.length i.toNat s).length = s :=
  ⟨pshift_ok s p i hs hi0 hi, shiftOps_length s _ _⟩

/-- `Shift(i,s)` with `s ≥ 1` fails exactly when `i` is out of range, and then the program is
    unchanged (only the first doubling can fail) -/
theorem C18_shift_err (p : List Op) (i : Int) (s : Nat) (hs : 1 ≤ s) :
    ((∃ e, (pshift p i s).2 = .error e) ↔ (i < 0 ∨ i > (p.length : Int))) ∧
    (∀ e, (pshift p i s).2 = .error e → (pshift p i s).1 = p) := by
  obtain ⟨s, rfl⟩ : ∃ s', s = s' + 1 := ⟨s - 1, by omega⟩
  by_cases h : 0 ≤ i ∧ i ≤ (p.length : Int)
  · rw [pshift_ok (s + 1) p i (by omega) h.1 h.2]
    refine ⟨⟨?_, by omega⟩, ?_⟩
    · rintro ⟨e, he⟩; cases he
    · intro e he; cases he
  · obtain ⟨e, he⟩ := pshift_err s p i h
    rw [he]
    exact ⟨⟨fun _ => by omega, fun _ => ⟨e, rfl⟩⟩, fun _ _ => rfl⟩

/-- `Shift(i,0)` returns `i` unchecked and appends nothing (documented Go behaviour; outside the
    property, which speaks of shifts by at least one) -/
theorem C18_shift_zero (p : List Op) (i : Int) : pshift p i 0 = (p, .ok i) := rfl

/-- whatever the call, a failing call leaves the program unchanged, and every call only appends -/
theorem C18_step_unchanged_or_appends (p : List Op) (c : Call) :
    (∀ e, (step p c).2 = .error e → (step p c).1 = p) ∧ ∃ q, (step p c).1 = p ++ q := by
  cases c with
  | add i j =>
    simp only [step]
    by_cases hr : (0 ≤ i ∧ i ≤ (p.length : Int)) ∧ (0 ≤ j ∧ j ≤ (p.length : Int))
    · rw [padd_ok p i j hr.1 hr.2]
      exact ⟨fun e he => (by cases he), ⟨_, rfl⟩⟩
    · obtain ⟨e, he⟩ := padd_err p i j hr
      rw [he]; exact ⟨fun _ _ => rfl, ⟨[], by simp⟩⟩
  | double i =>
    simp only [step, pdouble]
    by_cases hr : (0 ≤ i ∧ i ≤ (p.length : Int))
    · rw [padd_ok p i i hr hr]
      exact ⟨fun e he => (by cases he), ⟨_, rfl⟩⟩
    · obtain ⟨e, he⟩ := padd_err p i i (fun hh => hr hh.1)
      rw [he]; exact ⟨fun _ _ => rfl, ⟨[], by simp⟩⟩
  | shift i s =>
    simp only [step]
    cases s with
    | zero => exact ⟨fun _ _ => rfl, ⟨[], by simp [pshift]⟩⟩
    | succ s =>
      refine ⟨(C18_shift_err p i (s + 1) (by omega)).2, ?_⟩
      by_cases hr : (0 ≤ i ∧ i ≤ (p.length : Int))
      · rw [pshift_ok (s + 1) p i (by omega) hr.1 hr.2]; exact ⟨_, rfl⟩
      · obtain ⟨e, he⟩ := pshift_err s p i hr
        rw [he]; exact ⟨[], by simp⟩

/-- every program built by any call sequence from the empty program (or from any in-range
    program) is in range: each op reads only elements that existed when it was appended -/
theorem C18_built_inRange (cs : List Call) (p : List Op) (hp : InRange p) : InRange (build p cs) :=
  build_inRange cs p hp

theorem C18_built_inRange_nil (cs : List Call) : InRange (build [] cs) :=
  build_inRange cs [] inRange_nil

theorem at'_append_left (c d : Chain) (k : Nat) (h : k < c.length) : at' (c ++ d) k = at' c k := by
  simp [at', List.getD_eq_getElem?_getD, List.getElem?_append_left h]

/-- an in-range program evaluates without failure to a chain one longer than the program that
    starts at 1 and in which element `k+1` is the sum of the two operands of op `k` -/
theorem C18_evaluate (p : List Op) (hp : InRange p) :
    ∃ c, evaluateX p = some c ∧ c.length = p.length + 1 ∧ at' c 0 = 1 ∧
      ∀ k (h : k < p.length), at' c (k + 1) = at' c p[k].1 + at' c p[k].2 := by
  refine ⟨evaluate p, evaluateX_eq p hp, evaluate_length p, ?_, ?_⟩
  · induction p using snocInd with
    | nil => rfl
    | append_singleton p o ih =>
      rw [evaluate_append, at'_append_left _ _ _ (by rw [evaluate_length]; omega)]
      exact ih (inRange_init p o hp).1
  · induction p using snocInd with
    | nil => intro k h; simp at h
    | append_singleton p o ih =>
      obtain ⟨hp', h1, h2⟩ := inRange_init p o hp
      intro k hk
      have hl := evaluate_length p
      rw [evaluate_append]
      simp at hk
      by_cases hkl : k < p.length
      · have hb := hp' k hkl
        rw [List.getElem_append_left hkl, at'_append_left _ _ _ (by omega),
          at'_append_left _ _ _ (by omega), at'_append_left _ _ _ (by omega)]
        exact ih hp' k hkl
      · have : k = p.length := by omega
        subst this
        have e : (p ++ [o])[p.length]'(by simp) = o := by simp
        rw [e, at'_append_left _ _ o.1 (by omega), at'_append_left _ _ o.2 (by omega)]
        simp [at', List.getD_eq_getElem?_getD, ← hl]

/-- every builder-built program evaluates without failure to a chain one longer than itself -/
theorem C18_evaluate_built (cs : List Call) :
    ∃ c, evaluateX (build [] cs) = some c ∧ c.length = (build [] cs).length + 1 := by
  obtain ⟨c, h1, h2, _⟩ := C18_evaluate _ (C18_built_inRange_nil cs)
  exact ⟨c, h1, h2⟩

/-- doubles + adds = program length; doubles are exactly the ops with equal operands -/
theorem C18_count_sum (p : List Op) :
    (count p).1 + (count p).2 = p.length ∧
    count p = (p.countP (fun o => o.1 == o.2), p.countP (fun o => !(o.1 == o.2))) :=
  ⟨count_sum p, count_eq p⟩

/-- read counts: defined (no panic) whenever all operands are at most the program length, of
    length `len+1`, and entry `i` is the number of operations that use element `i`
    (a doubling `(i,i)` is one operation, so it counts once) -/
theorem C18_readCounts_spec (p : List Op) (hp : ∀ o ∈ p, o.1 ≤ p.length ∧ o.2 ≤ p.length) :
    ∃ r, readCounts p = some r ∧ r.length = p.length + 1 ∧
      ∀ i, r.getD i 0 = p.countP (uses i) :=
  readCounts_ok p hp

/-- in particular for every in-range (hence every builder-built) program -/
theorem C18_readCounts_inRange (p : List Op) (hp : InRange p) :
    ∃ r, readCounts p = some r ∧ r.length = p.length + 1 ∧
      ∀ i, r.getD i 0 = p.countP (uses i) :=
  readCounts_ok p (inRange_mem_le p hp)

/-- dependency bitsets of an in-range program: defined, one per chain position, and bit `j` of
    bitset `k` is set exactly when `j` reaches `k` in the reflexive-transitive closure of the
    operand relation -/
theorem C18_deps_spec (p : List Op) (hp : InRange p) :
    ∃ ds, dependencies p = some ds ∧ ds.length = p.length + 1 ∧
      ∀ k, k ≤ p.length → ∀ j, ((ds.getD k 0).testBit j = true ↔ Reach p j k) := by
  have hd := deps_exact p ((inRange_iff_inRangeP p).1 hp)
  refine ⟨depsL p, dependencies_eq p hp, depsL_length p, fun k hk j => ?_⟩
  exact ⟨reach_of_bit p _ hd k k (Nat.le_refl _) hk j, fun h => bit_of_reach p _ hd j k h hk⟩

/-- product of two valid ascending chains: no panic, a valid ascending chain that extends `a`
    and ends at the product of the end values -/
theorem C18_product_ok (a b : Chain) (ha : IsChain a) (haa : a.Pairwise (· < ·))
    (hb : IsChain b) (hba : b.Pairwise (· < ·)) :
    ∃ c, productX a b = some c ∧ IsChain c ∧ c.Pairwise (· < ·) ∧
      c.getLastD 0 = a.getLastD 0 * b.getLastD 0 ∧ a <+: c := by
  have ga := goodC_of_isChain a ha haa
  have gb := goodC_of_isChain b hb hba
  obtain ⟨g, hl, _⟩ := product_good a b ga gb
  refine ⟨product a b, ?_, g.isChain, g.asc, hl, ⟨_, rfl⟩⟩
  unfold productX
  have h1 : a.isEmpty = false := List.isEmpty_eq_false_iff.2 ha.1
  have h2 : b.isEmpty = false := List.isEmpty_eq_false_iff.2 hb.1
  simp [h1, h2]

/-- plus of a valid ascending chain and one of its members: no panic, a valid ascending chain
    `a ++ [end + x]` -/
theorem C18_plus_ok (a : Chain) (x : Int) (ha : IsChain a) (haa : a.Pairwise (· < ·)) (hx : x ∈ a) :
    ∃ c, plusX a x = some c ∧ IsChain c ∧ c.Pairwise (· < ·) ∧
      c.getLastD 0 = a.getLastD 0 + x ∧ c = a ++ [a.getLastD 0 + x] := by
  have ga := goodC_of_isChain a ha haa
  obtain ⟨g, hl, _⟩ := plus_good a x ga hx
  refine ⟨plus a x, ?_, g.isChain, g.asc, hl, ?_⟩
  · unfold plusX
    have h1 : a.isEmpty = false := List.isEmpty_eq_false_iff.2 ha.1
    simp [h1]
  · unfold plus
    rw [getLastD_default a ga.ne_nil 1 0]

/-- non-vacuity: an accepted add, a rejected add (program unchanged), a shift by two, a rejected
    double -/
example : runCalls [] [.add 0 0, .add 2 0, .shift 1 2, .double (-1)] =
    ([(0,0),(1,1),(2,2)],
     [(.ok 1, [(0,0)]), (.error (.outOfBounds 2), [(0,0)]), (.ok 3, [(0,0),(1,1),(2,2)]),
      (.error (.negative (-1)), [(0,0),(1,1),(2,2)])]) := by rfl

/-! ## The same statements over the functions TRANSLATED from program.go

`AC/Gen/ProgramFns.lean` is regenerated from the Go source on every run (translator:
harness/cmd/extract/gotr.go); `AC/ProgramTie.lean` proves each translated function equal to the model
function used above. The theorems below restate the property over the translated functions
themselves (`toGs` embeds a program with natural operands; `none` would be a Go panic). -/
section Src
open AC.Gen.Program AC.GoPrim AC.ProgramTie

/-- one builder call through the translated builders: receiver afterwards, returned index, error -/
def srcStep (g : List GOp) : Call → Option (List GOp × Int × Option GoErr)
  | .add i j => programAdd g i j
  | .double i => programDouble g i
  | .shift i s => programShift g i s

/-- a call sequence through the translated builders (errors are returned to the caller and the
    sequence goes on, as in the harness); `none` = some call panicked -/
def srcBuild (g : List GOp) : List Call → Option (List GOp)
  | [] => some g
  | c :: cs => (srcStep g c).bind fun r => srcBuild r.1 cs

/-- the translated `Add` never panics; it returns an error exactly for an operand that is negative
    or larger than the program length and then leaves the receiver unchanged; otherwise it appends
    the op and returns the new length -/
theorem C18_src_add (p : List Op) (i j : Int) :
    ∃ r, programAdd (toGs p) i j = some r ∧
      (r.2.2.isSome ↔ (i < 0 ∨ i > (p.length : Int) ∨ j < 0 ∨ j > (p.length : Int))) ∧
      (r.2.2.isSome → r.1 = toGs p) ∧
      (r.2.2 = none → r.1 = toGs p ++ [⟨i, j⟩] ∧ r.2.1 = (p.length : Int) + 1) := by
  refine ⟨_, add_tie p i j, ?_⟩
  by_cases h : (0 ≤ i ∧ i ≤ (p.length : Int)) ∧ (0 ≤ j ∧ j ≤ (p.length : Int))
  · rw [padd_ok p i j h.1 h.2]
    refine ⟨by simp [addOut]; omega, by simp [addOut], fun _ => ?_⟩
    simp [addOut, toG, Int.toNat_of_nonneg h.1.1, Int.toNat_of_nonneg h.2.1]
  · obtain ⟨e, he⟩ := padd_err p i j h
    rw [he]
    refine ⟨by simp [addOut]; omega, by simp [addOut], by simp [addOut]⟩

/-- the translated `Shift` by at least one never panics, fails exactly for an out-of-range operand
    leaving the receiver unchanged, and otherwise appends `s` operations and returns `len + s` -/
theorem C18_src_shift (p : List Op) (i : Int) (s : Nat) (hs : 1 ≤ s) :
    ∃ r, programShift (toGs p) i s = some r ∧
      (r.2.2.isSome ↔ (i < 0 ∨ i > (p.length : Int))) ∧
      (r.2.2.isSome → r.1 = toGs p) ∧
      (r.2.2 = none → r.1 = toGs (p ++ shiftOps p.length i.toNat s) ∧ r.1.length = p.length + s ∧
        r.2.1 = ((p.length + s : Nat) : Int)) := by
  refine ⟨_, shift_tie p i s, ?_⟩
  by_cases h : 0 ≤ i ∧ i ≤ (p.length : Int)
  · rw [pshift_ok s p i hs h.1 h.2]
    refine ⟨by simp [shiftOut]; omega, by simp [shiftOut], fun _ => ?_⟩
    simp [shiftOut, shiftOps_length]
  · obtain ⟨s, rfl⟩ : ∃ s', s = s' + 1 := ⟨s - 1, by omega⟩
    obtain ⟨e, he⟩ := pshift_err s p i h
    rw [he]
    refine ⟨by simp [shiftOut]; omega, by simp [shiftOut], by simp [shiftOut]⟩

theorem srcStep_tie (p : List Op) (c : Call) :
    ∃ r, srcStep (toGs p) c = some r ∧ r.1 = toGs (step p c).1 := by
  cases c with
  | add i j =>
    refine ⟨_, add_tie p i j, ?_⟩
    simp only [step]
    cases padd p i j with
    | ok r => rfl
    | error e => rfl
  | double i =>
    refine ⟨_, double_tie p i, ?_⟩
    simp only [step]
    cases pdouble p i with
    | ok r => rfl
    | error e => rfl
  | shift i s =>
    refine ⟨_, shift_tie p i s, ?_⟩
    simp only [step, shiftOut]
    cases (pshift p i s).2 <;> rfl

/-- any call sequence through the translated builders never panics and leaves the program the
    model's `build` leaves -/
theorem C18_src_build : ∀ (cs : List Call) (p : List Op),
    srcBuild (toGs p) cs = some (toGs (build p cs)) := by
  intro cs
  induction cs with
  | nil => intro p; rfl
  | cons c cs ih =>
    intro p
    obtain ⟨r, hr, hr1⟩ := srcStep_tie p c
    simp only [srcBuild, hr, Option.bind, hr1, ih]
    simp [build, runCalls]

/-- every program built through the translated builders evaluates (translated `Evaluate`) without
    a panic to a chain one longer than the program, and the translated `Count` returns a number of
    doubles and of adds whose sum is the program length -/
theorem C18_src_evaluate_built (cs : List Call) :
    ∃ g c d a, srcBuild [] cs = some g ∧ programEvaluate g = some c ∧
      c.length = g.length + 1 ∧ programCount g = some (d, a) ∧ d + a = (g.length : Int) := by
  obtain ⟨c, h1, h2⟩ := C18_evaluate_built cs
  refine ⟨_, c, _, _, C18_src_build cs [], ?_, ?_, count_tie _, ?_⟩
  · rw [evaluate_tie]; exact h1
  · simpa using h2
  · have := (C18_count_sum (build [] cs)).1
    simp only [toGs_length, Int.ofNat_eq_natCast]
    omega

/-- translated `ReadCounts` of an in-range program: no panic, entry `i` is the number of operations
    that use element `i` -/
theorem C18_src_readCounts (p : List Op) (hp : InRange p) :
    ∃ r : List Nat, programReadCounts (toGs p) = some (ints r) ∧ r.length = p.length + 1 ∧
      ∀ i, r.getD i 0 = p.countP (uses i) := by
  obtain ⟨r, h1, h2, h3⟩ := C18_readCounts_inRange p hp
  exact ⟨r, by rw [readCounts_tie, h1]; rfl, h2, h3⟩

/-- translated `Dependencies` of an in-range program: no panic, bit `j` of bitset `k` is set exactly
    when `j` reaches `k` in the reflexive-transitive closure of the operand relation -/
theorem C18_src_deps (p : List Op) (hp : InRange p) :
    ∃ ds : List Nat, programDependencies (toGs p) = some (ints ds) ∧ ds.length = p.length + 1 ∧
      ∀ k, k ≤ p.length → ∀ j, ((ds.getD k 0).testBit j = true ↔ Reach p j k) := by
  obtain ⟨ds, h1, h2, h3⟩ := C18_deps_spec p hp
  exact ⟨ds, by rw [dependencies_tie, h1]; rfl, h2, h3⟩

/-- translated `Product` on valid ascending chains: no panic, a valid ascending chain extending `a`
    that ends at the product of the end values -/
theorem C18_src_product (a b : Chain) (ha : IsChain a) (haa : a.Pairwise (· < ·))
    (hb : IsChain b) (hba : b.Pairwise (· < ·)) :
    ∃ c, fnProduct a b = some c ∧ IsChain c ∧ c.Pairwise (· < ·) ∧
      c.getLastD 0 = a.getLastD 0 * b.getLastD 0 ∧ a <+: c := by
  rw [AC.ChainTie.product_tie]; exact C18_product_ok a b ha haa hb hba

/-- translated `Plus` on a valid ascending chain and one of its members -/
theorem C18_src_plus (a : Chain) (x : Int) (ha : IsChain a) (haa : a.Pairwise (· < ·)) (hx : x ∈ a) :
    ∃ c, fnPlus a x = some c ∧ IsChain c ∧ c.Pairwise (· < ·) ∧
      c.getLastD 0 = a.getLastD 0 + x ∧ c = a ++ [a.getLastD 0 + x] := by
  rw [AC.ChainTie.plus_tie]; exact C18_plus_ok a x ha haa hx

/-- non-vacuity: the translated builders on a concrete sequence (accepted add, rejected add,
    shift by two, rejected double) and the translated analyses of the result -/
example : srcBuild [] [.add 0 0, .add 2 0, .shift 1 2, .double (-1)] =
    some [⟨0, 0⟩, ⟨1, 1⟩, ⟨2, 2⟩] := by decide
example : programAdd [⟨0, 0⟩] 2 0 = some ([⟨0, 0⟩], 0, some ("index %d out of bounds", [2])) := by decide
example : programEvaluate [⟨0, 0⟩, ⟨1, 0⟩, ⟨2, 2⟩] = some [1, 2, 3, 6] := by decide
example : programReadCounts [⟨0, 0⟩, ⟨1, 0⟩, ⟨2, 2⟩] = some [2, 1, 1, 0] := by decide
example : programDependencies [⟨0, 0⟩, ⟨1, 0⟩, ⟨2, 2⟩] = some [1, 3, 7, 15] := by decide
example : programEvaluate [⟨1, 0⟩] = none := by decide
end Src

end AC.Props.C18
