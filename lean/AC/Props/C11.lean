import AC.RunsProof
import AC.RunsTie
/-! # C11 — a chain of run lengths becomes a valid chain of the runs themselves

Model: `P.runsChainX` (alg/dict/runs.go `RunsChain`): `Chain.Program`, `MinMax` by value, the
`IsUint64` refusal, the shift-extension loop with the map `s`, `Ones(la+lb)`. -/
namespace AC.Props.C11
open P

/-- for every valid chain of run lengths (any element order) below a machine word: the derived
    chain is a valid addition chain containing `2^l − 1` for every length `l` of the input -/
theorem C11_runsChain (lc : Chain) (hc : IsChain lc) (hsmall : ∀ l ∈ lc, l < 2 ^ 64) :
    ∃ c, runsChainX lc = .ok c ∧ IsChain c ∧ ∀ l ∈ lc, onesI l.toNat ∈ c :=
  runsChainX_ok lc hc hsmall

/-- core: from `{1}`, after any sequence of length additions `(la, lb)` each over lengths already
    reached and producing a new length, the state of `RunsChain` (chain + largest shift per length,
    including the inner shift-extension loop) is an addition chain containing `2^l − 1` for every
    length reached -/
theorem C11_runs_ok (steps : List (Nat × Nat)) (hv : ValidSteps [1] steps) :
    let st := runSteps ⟨[1], fun _ => 0⟩ steps
    IsChain st.c ∧ ∀ l ∈ lensAfter [1] steps, onesI l ∈ st.c := runs_ok steps hv

/-- lengths too large for a machine word are refused, invalid chains are refused -/
theorem C11_refuse (lc : Chain) (p : List Op) (hp : program lc = .ok p)
    (h : ∃ o ∈ p, ¬ (0 ≤ at' lc o.1 ∧ at' lc o.1 < 2 ^ 64) ∨ ¬ (0 ≤ at' lc o.2 ∧ at' lc o.2 < 2 ^ 64)) :
    runsChainX lc = .error .tooLarge := by
  unfold runsChainX
  rw [hp]
  simp only []
  obtain ⟨o, ho, hbad⟩ := h
  have : (p.all fun o => isUint64 (at' lc o.1) && isUint64 (at' lc o.2)) = false := by
    rw [List.all_eq_false]
    refine ⟨o, ho, ?_⟩
    unfold isUint64
    rcases hbad with hb | hb
    · simp only [Bool.and_eq_true, decide_eq_true_eq]; intro h; exact hb h.1
    · simp only [Bool.and_eq_true, decide_eq_true_eq]; intro h; exact hb h.2
  rw [this]; rfl

theorem C11_refuse_invalid (lc : Chain) (h : ¬ IsChain lc) : runsChainX lc = .error .invalid := by
  unfold runsChainX
  cases hp : program lc with
  | error e => rfl
  | ok p => exact absurd ((validate_iff lc).1 ⟨p, hp⟩) h

/-- non-vacuity: a non-ascending lengths chain -/
example : ValidSteps [1] [(1,1),(2,2),(1,2)] := by simp [ValidSteps]

/-! ## `dict.RunsChain` as TRANSLATED from runs.go

`AC/Gen/ProgramFns.lean` is regenerated from alg/dict/runs.go on every run (harness/cmd/extract/gotr.go);
`AC/RunsTie.lean` proves the translated function equal to the model (`runsChain_tie`: every input, no
panic; `Chain.Program` through `program_tie`, the shift map as a function, the `for ; s[lb] < la; s[lb]++`
loop as `extend`). The property over the translated Go function itself: -/

/-- the translated `RunsChain` on a valid lengths chain with machine-word values returns, without error, a
    valid addition chain containing `2^l − 1` for every length `l` of the input -/
theorem C11_src_runsChain (lc : Chain) (hc : IsChain lc) (hsmall : ∀ l ∈ lc, l < 2 ^ 64) :
    ∃ c, AC.Gen.Program.dictRunsChain lc = some (c, none) ∧ IsChain c ∧ ∀ l ∈ lc, onesI l.toNat ∈ c := by
  obtain ⟨c, h1, h2, h3⟩ := C11_runsChain lc hc hsmall
  obtain ⟨r, hr, hm⟩ := AC.RunsTie.runsChain_tie lc
  rw [h1] at hm
  exact ⟨c, by rw [hr, hm], h2, h3⟩

/-- a sequence that is not an addition chain is refused by the translated `RunsChain` (nil chain, an error) -/
theorem C11_src_refuse_invalid (lc : Chain) (h : ¬ IsChain lc) :
    ∃ r, AC.Gen.Program.dictRunsChain lc = some r ∧ r.1 = [] ∧ r.2.isSome = true := by
  obtain ⟨r, hr, hm⟩ := AC.RunsTie.runsChain_tie lc
  rw [C11_refuse_invalid lc h] at hm
  exact ⟨r, hr, hm⟩

end AC.Props.C11
