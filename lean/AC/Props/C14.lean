import AC.SearchX
/-! # C14 — the search command's report is self-consistent, minimal and reproducible

Model: `P.SearchX` — `argminFirst`/`minCost` (the selection loop of cmd/addchain/search.go: strict
`<` starting from +∞, so the first index attaining the minimum wins), `costOf` (the weighted
`Program.Count`, integer weights) and `search` over abstract parts.  Proved here: the selection
lemma, the cost/count lemma and the composition *conditional on* the parts' obligations
(`PartsOK`: C01 for the algorithms, C04/C07/C03 for emit/load).  Outside the model: float64 cost
arithmetic, processes, the scheduler (DESIGN §8) — these are covered by the harness only. -/
namespace AC.Props.C14
open P P.SearchX

/-- the selection loop returns the *first* index attaining the minimum cost, and reports that
    minimum: the index is in range, no result is cheaper, every earlier result is strictly more
    expensive -/
theorem C14_argmin_first (costs : List Int) (hne : costs ≠ []) :
    ∃ i, argminFirst costs = some i ∧ ∃ hi : i < costs.length,
      minCost costs = some costs[i] ∧ (∀ c ∈ costs, costs[i] ≤ c) ∧
      ∀ j (hj : j < i), costs[i] < costs[j] :=
  argminFirst_spec costs hne

/-- the reported minimum is one of the computed costs and a lower bound of all of them
    (the scratch lemma `scan_min`, restated on `minCost`) -/
theorem C14_min_is_cost (c0 : Int) (rest : List Int) :
    ∃ m, minCost (c0 :: rest) = some m ∧ (∀ c ∈ c0 :: rest, m ≤ c) ∧ m ∈ c0 :: rest :=
  P.Argmin.scan_min c0 rest

/-- the cost of a program is `D·doublings + A·additions`, where a doubling is an operation with
    equal operands, an addition any other operation, and the two counts add up to the number of
    operations (`Program.Count`) -/
theorem C14_cost_count (A D : Int) (p : List Op) :
    costOf A D p = D * (p.countP (fun o => o.1 == o.2) : Nat) + A * (p.countP (fun o => !(o.1 == o.2)) : Nat) ∧
    p.countP (fun o => o.1 == o.2) + p.countP (fun o => !(o.1 == o.2)) = p.length := by
  have h := PX.count_eq p
  have hs := PX.count_sum p
  rw [h] at hs
  refine ⟨?_, hs⟩
  unfold costOf
  rw [h]

/-- with unit weights the cost is the length of the chain minus one -/
theorem C14_cost_unit (p : List Op) : costOf 1 1 p = p.length := by
  unfold costOf
  have := PX.count_sum p
  omega

/-- composition, conditional on the parts' obligations: a successful search prints a script that
    loads to a chain ending in the value of the expression (which is ≥ 1), reports exactly the
    weighted operation count of that script, and no algorithm result is cheaper -/
theorem C14_search_composed_partial (Q : Parts) (ok : PartsOK Q) : SearchSpec Q := search_spec Q ok

/-- FULL STATEMENT (open): the conclusion of C14 — `search e = ok (txt, cost)` implies that `txt`
    loads to a chain ending in ⟦e⟧ ≥ 1, `cost` is the weighted operation count of the loaded program
    and no algorithm result is cheaper — for the *concrete* addchain parts `Q`: `algs` = the 200
    models of `ensemble.Ensemble()` wrapped in `opt` (C01, C10), `emit` = printer ∘ `buildX` ∘
    `decompileX` (C04, C07), `load` = eval ∘ translate ∘ parse (C03); `calc.Eval` is already the
    concrete `AC.Calc.eval` (C13).  Open: it follows from `C14_search_composed_partial` once
    `PartsOK` is discharged for these parts by C01, C04, C07, C03; the acceptance of the script by
    `fmt`, `fmt -b` and (for n ≥ 2) `gen` is C07/C04/C06 applied to the emitted text. -/
def C14_search_Statement (Q : Parts) : Prop := SearchSpec Q

/-- non-vacuity: the first of two equal minima is chosen, and costs weigh doublings and additions -/
example : argminFirst [7, 5, 9, 5] = some 1 ∧ minCost [7, 5, 9, 5] = some 5 ∧
    costOf 3 2 [(0, 0), (0, 1), (2, 2)] = 2 * 2 + 3 * 1 := by decide

end AC.Props.C14
