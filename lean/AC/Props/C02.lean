import AC.ChainX
import AC.ChainTie
/-! # C02 — chain validation accepts exactly the addition chains and lists exactly their ops

Model: `P.isAscending`, `P.ops` (two-pointer and quadratic paths), `P.program`, `P.validate`,
`P.produces`, `P.superset`, `P.evaluate` (chain.go, program.go). Spec: `P.IsChain`. -/
namespace AC.Props.C02
open P

/-- validation succeeds iff the sequence is an addition chain -/
theorem C02_validate_iff (c : Chain) : validate c = true ↔ IsChain c := validate_eq_true_iff c

/-- 'produces n' adds exactly `last = n` -/
theorem C02_produces_iff (c : Chain) (t : Int) :
    produces c t = true ↔ IsChain c ∧ c.getLast? = some t := by
  unfold produces
  simp [validate_eq_true_iff]

/-- 'superset of targets' adds exactly that every target is present -/
theorem C02_superset_iff (c : Chain) (ts : List Int) :
    superset c ts = true ↔ IsChain c ∧ ∀ t ∈ ts, t ∈ c := by
  unfold superset
  simp [validate_eq_true_iff]

/-- 'ascending' holds exactly for strictly increasing sequences beginning with 1 -/
theorem C02_isAscending_iff (c : Chain) :
    isAscending c = true ↔ c.head? = some 1 ∧ c.Pairwise (· < ·) := by
  cases c with
  | nil => simp [isAscending]
  | cons x xs =>
    have key : ∀ (ys : List Int) (p : Int), isAscending.go p ys = true ↔ (p :: ys).Pairwise (· < ·) := by
      intro ys
      induction ys with
      | nil => intro p; simp [isAscending.go]
      | cons y ys ih =>
        intro p
        simp only [isAscending.go, Bool.and_eq_true, decide_eq_true_eq, ih y, List.pairwise_cons]
        constructor
        · rintro ⟨h1, h2, h3⟩
          refine ⟨?_, h2, h3⟩
          intro a ha
          rcases List.mem_cons.1 ha with rfl | ha
          · exact h1
          · exact Int.lt_trans h1 (h2 a ha)
        · rintro ⟨h1, h2, h3⟩
          exact ⟨h1 y (List.mem_cons_self), h2, h3⟩
    simp only [isAscending, Bool.and_eq_true, beq_iff_eq, List.head?_cons, Option.some.injEq, key]

/-- the listed operations at position `k` are exactly the pairs `i ≤ j < k` summing to element `k`,
    in lexicographic order, whatever the order of the elements (both code paths) -/
theorem C02_ops_mem (c : Chain) (k i j : Nat) (hk : k < c.length) :
    (i, j) ∈ ops c k ↔ i ≤ j ∧ j < k ∧ at' c i + at' c j = at' c k := mem_ops c k i j hk

theorem C02_ops_eq_spec (c : Chain) (k : Nat) (hk : k < c.length) : ops c k = opsSpec c k :=
  ops_eq_spec c k hk

theorem C02_ops_sorted (c : Chain) (k : Nat) : (opsSpec c k).Pairwise lexLt := quadOps_sorted c k

/-- the program derived from a valid chain evaluates back to that chain, one op per non-initial element -/
theorem C02_program_evaluate (c : Chain) (p : List Op) (h : program c = .ok p) :
    evaluate p = c ∧ p.length + 1 = c.length := by
  have h1 := program_evaluate c p h
  refine ⟨h1, ?_⟩
  have key : ∀ (q : List Op) (c0 : Chain),
      (q.foldl (fun c o => c ++ [at' c o.1 + at' c o.2]) c0).length = c0.length + q.length := by
    intro q
    induction q with
    | nil => intro c0; simp
    | cons o r ih => intro c0; simp only [List.foldl_cons, List.length_cons]; rw [ih]; simp; omega
  have : (evaluate p).length = p.length + 1 := by
    unfold evaluate; rw [key]; simp; omega
  rw [h1] at this; omega

/-- non-vacuity: a valid non-ascending chain with a position having two ops -/
example : IsChain [1,2,4,3,5] ∧ ops [1,2,4,3,5] 4 = [(0,2),(1,3)] :=
  ⟨(isChainB_iff _).1 (by decide), by rw [ops_eq_spec _ _ (by decide)]; decide⟩

/-! ## `Chain.Ops` and `Chain.IsAscending` as TRANSLATED from chain.go

`AC/Gen/ProgramFns.lean` is regenerated from chain.go on every run (harness/cmd/extract/gotr.go);
`AC/ChainTie.lean` proves the translated functions equal to the model. The operation-listing clause of
the property, stated over the translated Go function itself: -/
section Src
open AC.Gen.Program AC.GoPrim AC.ProgramTie

/-- the translated `Chain.Ops(k)` never panics and never runs out of loop fuel for `k < len(c)`, and
    returns exactly the pairs `i ≤ j < k` with `c[i] + c[j] = c[k]` in lexicographic order, whether
    the two-pointer path or the quadratic path is taken -/
theorem C02_src_ops (c : Chain) (k : Nat) (hk : k < c.length) :
    chainOps c (k : Int) = some (toGs (opsSpec c k)) ∧
    (∀ i j, (i, j) ∈ opsSpec c k ↔ i ≤ j ∧ j < k ∧ at' c i + at' c j = at' c k) ∧
    (opsSpec c k).Pairwise lexLt := by
  refine ⟨by rw [AC.ChainTie.ops_tie c k hk, ops_eq_spec c k hk], fun i j => ?_, quadOps_sorted c k⟩
  rw [← ops_eq_spec c k hk]; exact mem_ops c k i j hk

/-- the translated `Chain.IsAscending` never panics and decides "starts at 1 and strictly increasing" -/
theorem C02_src_isAscending (c : Chain) :
    ∃ b, chainIsAscending c = some b ∧ (b = true ↔ (c.head? = some 1 ∧ c.Pairwise (· < ·))) :=
  ⟨_, AC.ChainTie.isAscending_tie c, C02_isAscending_iff c⟩

/-- the translated `Chain.Validate` never panics and returns a nil error exactly for the sequences that
    are addition chains in the property's sense -/
theorem C02_src_validate (c : Chain) :
    ∃ e, chainValidate c = some e ∧ (e = none ↔ IsChain c) := by
  obtain ⟨e, h1, h2⟩ := AC.ChainTie.validate_tie c
  exact ⟨e, h1, h2.trans (validate_eq_true_iff c)⟩

/-- the translated `Chain.Produces(t)`: nil error exactly for chains ending at `t` -/
theorem C02_src_produces (c : Chain) (t : Int) :
    ∃ e, chainProduces c t = some e ∧ (e = none ↔ (IsChain c ∧ c.getLast? = some t)) := by
  obtain ⟨e, h1, h2⟩ := AC.ChainTie.produces_tie c t
  exact ⟨e, h1, h2.trans (C02_produces_iff c t)⟩

/-- the translated `Chain.Superset(ts)`: nil error exactly for chains containing every target -/
theorem C02_src_superset (c : Chain) (ts : List Int) :
    ∃ e, chainSuperset c ts = some e ∧ (e = none ↔ (IsChain c ∧ ∀ t ∈ ts, t ∈ c)) := by
  obtain ⟨e, h1, h2⟩ := AC.ChainTie.superset_tie c ts
  exact ⟨e, h1, h2.trans (C02_superset_iff c ts)⟩

/-- the translated `Chain.Program` of a valid chain returns a program (of the model's shape) that
    evaluates back to the chain -/
theorem C02_src_program (c : Chain) (hc : IsChain c) :
    ∃ p, chainProgram c = some (toGs p, none) ∧ evaluate p = c := by
  obtain ⟨r, hr, hm⟩ := AC.ChainTie.program_tie c
  have hv := (validate_eq_true_iff c).2 hc
  unfold validate at hv
  cases hp : program c with
  | ok p =>
    rw [hp] at hm
    exact ⟨p, by rw [hr, hm], (C02_program_evaluate c p hp).1⟩
  | error e => rw [hp] at hv; simp at hv

example : chainOps [1, 2, 4, 3, 5] 4 = some [⟨0, 2⟩, ⟨1, 3⟩] := by decide
example : chainOps [1, 2, 3, 4, 5] 4 = some [⟨0, 3⟩, ⟨1, 2⟩] := by decide
end Src

end AC.Props.C02
