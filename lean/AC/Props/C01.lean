import AC.DictAlg
import AC.Assemble
import AC.Props.C08
import AC.Props.C09
import AC.SeqLast
import AC.OptProof
import AC.Gen.Ensemble
import AC.C01Total
import AC.DictSumTie
import AC.BinaryTie
import AC.DecompTie
/-! # C01 — every search algorithm returns a genuine addition chain ending at the target

Model: `P.DA.execute` (`exec.Execute` over `binary.RightToLeft`, `alg.AsChainAlgorithm`,
`dict.Algorithm`, `dict.RunsAlgorithm`, `opt.Algorithm`). The order produced by the unstable
`sort.Slice` inside `primitive` is an oracle argument; theorems quantify over every admissible one. -/
namespace AC.Props.C01
open P P.DA

/-- **totality ("reports no error")**: for every well-formed configuration (window sizes ≥ 1,
    heuristic compositions containing a total heuristic, any nesting of the optimisation wrapper)
    and every target `n ≥ 1` whose bit length fits a machine word (the documented input-size range;
    only the runs algorithm needs it), for all sufficiently large fuel of the continued-fraction
    recursion and EVERY sort oracle: `Execute` returns a valid addition chain ending at `n` with one
    op per non-initial element that re-evaluates to it — or the oracle was not an admissible result
    of sorting the rebuilt sum by exponent (which the driver checks on the real order) -/
theorem C01_total (a : ChainAlg) (hw : a.wf = true) (n : Nat) (hn : 1 ≤ n) (hsz : Nat.log2 n + 1 < 2 ^ 64) :
    ∃ F, ∀ f, F ≤ f → ∀ o,
      (∃ c p, executeWith (SeqAlg.findF f) a n o = .ok (c, p) ∧ IsChain c ∧ c.getLast? = some (n : Int) ∧
        p.length + 1 = c.length ∧ evaluate p = c) ∨
      executeWith (SeqAlg.findF f) a n o = .error .oracle :=
  executeWith_total a hw n hn hsz

/-- the driver's executable model (fuel search for continued fractions) agrees with the
    fuel-indexed model of `C01_total`: a result it returns is the result for every large fuel -/
theorem C01_driver_agrees (a : ChainAlg) (n : Nat) (o : List TermP) (x : List Int × List Op)
    (h : execute a n o = .ok x) : ∃ f0, ∀ f, f0 ≤ f → executeWith (SeqAlg.findF f) a n o = .ok x :=
  executeWith_of_execute a n o x h

/-- every member of the default ensemble satisfies the hypotheses of `C01_total` -/
theorem C01_ensemble_total (n : Nat) (hn : 1 ≤ n) (hsz : Nat.log2 n + 1 < 2 ^ 64) :
    ∀ a ∈ AC.Gen.ensembleConfigs, ∃ F, ∀ f, F ≤ f → ∀ o,
      (∃ c p, executeWith (SeqAlg.findF f) a n o = .ok (c, p) ∧ IsChain c ∧ c.getLast? = some (n : Int) ∧
        p.length + 1 = c.length ∧ evaluate p = c) ∨
      executeWith (SeqAlg.findF f) a n o = .error .oracle := by
  have h : AC.Gen.ensembleConfigs.all (fun a => a.wf) = true := by decide +kernel
  exact fun a ha => executeWith_total a ((List.all_eq_true.1 h) a ha) n hn hsz

/-- `primitive` over the executable list model: succeeds on every valid chain containing the
    dictionary terms, keeps the sum's value, and yields a sum-closed pruned sub-chain containing 1 -/
theorem C01_primitivePre_ok (sum : List TermP) (c : List Nat) (hc : IsChain (c.map Int.ofNat))
    (hlen : 2 ≤ sum.length) (hmem : ∀ t ∈ sum, t.1 ∈ c) :
    ∃ pre pruned, primitivePre sum c = some (pre, pruned) ∧ valueP pre = valueP sum ∧
      (∀ t ∈ pre, t.1 ∈ pruned) ∧ 1 ∈ pruned ∧ (∀ x ∈ pruned, x ∈ c) ∧
      (∀ x ∈ pruned, x = 1 ∨ ∃ a ∈ pruned, ∃ b ∈ pruned, a + b = x) :=
  primitivePre_ok sum c hc hlen hmem

/-- whatever `execute` returns is a valid chain ending at the target, with one op per non-initial
    element, re-evaluating to the chain — for EVERY configuration, target and oracle
    (`Execute` validates through `Chain.Program` and compares the end) -/
theorem C01_execute_sound (a : ChainAlg) (n : Nat) (o : List TermP) (c : List Int) (p : List Op)
    (h : execute a n o = .ok (c, p)) :
    IsChain c ∧ c.getLast? = some (n : Int) ∧ p.length + 1 = c.length ∧ evaluate p = c := by
  unfold execute at h
  split at h
  · cases h
  · rename_i c' hc
    split at h
    · cases h
    · rename_i p' hp
      split at h
      · rename_i hl
        cases h
        have hv : IsChain c := (validate_iff c).1 ⟨p, hp⟩
        have he := program_evaluate c p hp
        refine ⟨hv, by simpa using hl, ?_, he⟩
        have key : ∀ (q : List Op) (c0 : Chain),
            (q.foldl (fun c o => c ++ [at' c o.1 + at' c o.2]) c0).length = c0.length + q.length := by
          intro q
          induction q with
          | nil => intro c0; simp
          | cons o r ih => intro c0; simp only [List.foldl_cons, List.length_cons]; rw [ih]; simp; omega
        have : (evaluate p).length = p.length + 1 := by unfold evaluate; rw [key]; simp; omega
        rw [he] at this; omega
      · cases h

/-- binary right-to-left: a valid chain ending at `n`, for every `n ≥ 1` -/
theorem C01_binary (n : Nat) (hn : 1 ≤ n) : IsChain (rtl n) ∧ (rtl n).getLast? = some (n : Int) :=
  binary_ok n hn

/-- sequence algorithm used as a chain algorithm: total configurations succeed with a valid chain
    containing (hence, being ascending with the target as maximum — see `C01_asChain_last`) the target -/
theorem C01_asChain_heuristic (h : Heur) (ht : h.isTotal = true) (n : Nat) (hn : 1 ≤ n) :
    ∃ c, (SeqAlg.heuristic h).find [(n : Int)] = some c ∧ IsChain c ∧ (n : Int) ∈ c := by
  obtain ⟨c, h1, h2, h3⟩ := AC.Props.C08.C08_heuristic_total h ht [(n : Int)]
    (by intro x hx; simp at hx; omega)
  exact ⟨c, h1, h2, h3 _ (by simp)⟩

/-- `primitive`: the rebuilt sum has the same value, every dictionary entry of it is in the pruned
    chain, the pruned chain contains 1 and is closed under its own operations (function-vector model;
    the pigeonhole shows the primitive set is non-empty) -/
theorem C01_primitive_ok (cv : Nat → Nat) (p terms : List (Nat × Nat)) (he : P.Prim.EvalsTo cv p 0)
    (h0 : cv 0 = 1) (ht : 2 ≤ terms.length) (hti : ∀ t ∈ terms, t.1 ≤ p.length) :
    let n := p.length + 1
    let fl := P.Prim.flag p terms
    let out := P.Prim.outTerms n cv (P.Prim.vTot (P.Prim.vcL fl p) terms)
    let pruned := ((List.range n).filter fl).map cv
    P.Prim.valueT out = (terms.map (fun t => cv t.1 * 2 ^ t.2)).sum ∧
    (∀ t ∈ out, t.1 ∈ pruned) ∧
    (1 ∈ pruned) ∧ (∀ x ∈ pruned, x = 1 ∨ ∃ a ∈ pruned, ∃ b ∈ pruned, a + b = x) :=
  P.Prim.primitive_ok cv p terms he h0 ht hti

/-- `dictsumchain`: every emitted element is the double of its predecessor or predecessor + a
    dictionary entry, and the last one is `cur·2^E + Σ Dᵢ·2^Eᵢ` when exponents do not increase -/
theorem C01_dictsum (ts : List (Nat × Nat)) (cur E : Nat) (h : P.DictSum.Desc E ts) :
    (∀ y ∈ P.DictSum.go cur E ts, ∃ x, (x = cur ∨ x ∈ P.DictSum.go cur E ts) ∧
        (y = x + x ∨ ∃ t ∈ ts, y = x + t.1)) ∧
    P.DictSum.lastOr (P.DictSum.go cur E ts) cur = cur * 2 ^ E + P.DictSum.value ts :=
  P.DictSum.go_spec ts cur E h

/-- final assembly step of the dictionary / runs algorithms: sort + unique of a sum-closed pruned
    chain and the `dictsumchain` elements is an addition chain ending at `n` -/
theorem C01_assemble (pruned dc : List Int) (n cur0 : Int)
    (hp1 : (1 : Int) ∈ pruned) (hppos : ∀ x ∈ pruned, 1 ≤ x)
    (hpcl : ∀ x ∈ pruned, x = 1 ∨ ∃ a ∈ pruned, ∃ b ∈ pruned, a + b = x)
    (hcur : cur0 ∈ pruned)
    (hdcl : ∀ y ∈ dc, ∃ x, (x = cur0 ∨ x ∈ dc) ∧ (y = x + x ∨ ∃ d ∈ pruned, y = x + d))
    (hdpos : ∀ y ∈ dc, 1 ≤ y) (hle : ∀ x ∈ pruned ++ dc, x ≤ n) (hn : n ∈ pruned ++ dc) :
    IsChain (sortUniq (pruned ++ dc)) ∧ (sortUniq (pruned ++ dc)).getLast? = some n :=
  dict_assemble pruned dc n cur0 hp1 hppos hpcl hcur hdcl hdpos hle hn

/-- `Execute` succeeds as soon as `FindChain` returns a valid chain ending at the target -/
theorem C01_execute_of_find (a : ChainAlg) (n : Nat) (o : List TermP) (c : List Int)
    (hf : a.find n o = .ok c) (hc : IsChain c) (hl : c.getLast? = some (n : Int)) :
    ∃ p, execute a n o = .ok (c, p) := by
  obtain ⟨p, hp⟩ := (validate_iff c).2 hc
  refine ⟨p, ?_⟩
  unfold execute
  rw [hf]; simp only []; rw [hp]; simp only []
  simp [hl]

/-- totality, binary method: no error for any `n ≥ 1` -/
theorem C01_total_binary (n : Nat) (hn : 1 ≤ n) (o : List TermP) :
    ∃ c p, execute .binaryRTL n o = .ok (c, p) := by
  obtain ⟨h1, h2⟩ := binary_ok n hn
  have hf : ChainAlg.binaryRTL.find n o = .ok (rtl n) := by
    unfold ChainAlg.find; simp; omega
  obtain ⟨p, hp⟩ := C01_execute_of_find _ n o _ hf h1 h2
  exact ⟨_, p, hp⟩

/-- totality, heuristic compositions containing a total heuristic used as chain algorithms -/
theorem C01_total_heuristic (h : Heur) (ht : h.isTotal = true) (n : Nat) (hn : 1 ≤ n) (o : List TermP) :
    ∃ c p, execute (.asChain (.heuristic h)) n o = .ok (c, p) := by
  obtain ⟨c, h1, h2, h3⟩ := heuristic_asChain h ht n hn
  have hf : (ChainAlg.asChain (.heuristic h)).find n o = .ok c := by
    unfold ChainAlg.find; rw [h1]
  obtain ⟨p, hp⟩ := C01_execute_of_find _ n o _ hf h2 h3
  exact ⟨_, p, hp⟩

/-- totality lifts through the optimisation wrapper (uses C10) -/
theorem C01_total_opt (a : ChainAlg) (n : Nat) (o : List TermP) (c : List Int) (p : List Op)
    (h : execute a n o = .ok (c, p)) : ∃ p', execute (.opt a) n o = .ok (P.OptX.optimize c, p') := by
  obtain ⟨hc, hl, _, _⟩ := C01_execute_sound a n o c p h
  have hf : a.find n o = .ok c := by
    unfold execute at h
    split at h
    · cases h
    · rename_i c' hc'
      split at h
      · cases h
      · split at h
        · cases h; exact hc'
        · cases h
  obtain ⟨h1, _, _, h4⟩ := P.OptX.optimize_ok c hc
  have hf' : (ChainAlg.opt a).find n o = .ok (P.OptX.optimize c) := by
    show (match a.find n o with
      | Except.error e => (Except.error e : Except Err (List Int))
      | Except.ok c => Except.ok (P.OptX.optimize c)) = _
    rw [hf]
  exact C01_execute_of_find _ n o _ hf' h1 (by rw [h4, hl])

/-- every member of the default ensemble (list regenerated from `ensemble.Ensemble()` of the working
    tree on every run) is a well-formed configuration: window sizes at least 1 and every heuristic
    composition contains a total heuristic -/
theorem C01_ensemble_wf : ∀ a ∈ AC.Gen.ensembleConfigs, a.wf = true := by
  have h : AC.Gen.ensembleConfigs.all (fun a => a.wf) = true := by decide +kernel
  exact fun a ha => (List.all_eq_true.1 h) a ha

/-- non-vacuity: a dictionary algorithm with the optimisation wrapper is well-formed -/
example : (ChainAlg.opt (.dict (.sliding 4) (.heuristic (.useFirst [.halving, .deltaLargest])))).wf = true := by decide

/-- **source-level**: `dictsumchain` as TRANSLATED from the current dict.go, on a sum `L ++ [b]` of natural
    terms whose exponents do not increase from the top term `b` down: it never panics, every emitted
    element is the double of its predecessor or its predecessor plus a dictionary entry of the sum, and
    the last one is the value of the whole sum -/
theorem C01_src_dictsum (L : List (Nat × Nat)) (b : Nat × Nat) (h : P.DictSum.Desc b.2 L.reverse) :
    ∃ dc : List Nat, AC.Gen.Program.dictdictsumchain (AC.DictSumTie.G (L ++ [b])) = some (AC.DictSumTie.I dc) ∧
      (∀ y ∈ dc, ∃ x, (x = b.1 ∨ x ∈ dc) ∧ (y = x + x ∨ ∃ t ∈ L.reverse, y = x + t.1)) ∧
      P.DictSum.lastOr dc b.1 = b.1 * 2 ^ b.2 + P.DictSum.value L.reverse := by
  refine ⟨P.DictSum.go b.1 b.2 L.reverse, ?_, C01_dictsum L.reverse b.1 b.2 h⟩
  rw [AC.DictSumTie.dictsumchain_tie (L ++ [b]) (by simp)]
  simp [P.DictSum.dictsumchain]

/-- the translated `dictsumchain` never panics on a non-empty sum of natural terms (any order) -/
theorem C01_src_dictsum_total (l : List (Nat × Nat)) (hne : l ≠ []) :
    AC.Gen.Program.dictdictsumchain (AC.DictSumTie.G l) =
      some (AC.DictSumTie.I (dictSumChain l)) := by
  rw [AC.DictSumTie.dictsumchain_tie l hne]; rfl

/-- the pair form of a decomposition term -/
def pairOf (t : P.Bits.Term) : Nat × Nat := (t.d, t.e)

theorem G_pairs (s : List P.Bits.Term) : AC.DictSumTie.G (s.map pairOf) = AC.DecompTie.toGTs s := by
  simp [AC.DictSumTie.G, AC.DecompTie.toGTs, AC.DictSumTie.toG, AC.DecompTie.toGT, pairOf]

theorem value_pairs (s : List P.Bits.Term) : P.DictSum.value (s.map pairOf) = P.Bits.value s := by
  simp [P.DictSum.value, P.Bits.value, pairOf, List.map_map, Function.comp_def]

theorem dsvalue_append (a b : List (Nat × Nat)) :
    P.DictSum.value (a ++ b) = P.DictSum.value a + P.DictSum.value b := by
  simp [P.DictSum.value]

theorem dsvalue_reverse (a : List (Nat × Nat)) : P.DictSum.value a.reverse = P.DictSum.value a := by
  induction a with
  | nil => rfl
  | cons x r ih =>
    rw [List.reverse_cons, dsvalue_append, ih]
    simp [P.DictSum.value]; omega

/-- **source-level, two translated functions composed**: on a sum `S ++ [b]` whose exponents do not
    increase from the top term down, the chain the translated `dictsumchain` emits ends at exactly the
    integer the translated `Sum.Int` computes for that sum (or, when nothing is emitted, the top
    dictionary entry already is that integer) — "the last element is exactly n" given C09's `Sum.Int() = n` -/
theorem C01_src_dictsum_ends_at_sumInt (S : List P.Bits.Term) (b : P.Bits.Term)
    (h : P.DictSum.Desc b.e (S.map pairOf).reverse) :
    ∃ dc : List Nat, ∃ v : Nat,
      AC.Gen.Program.dictdictsumchain (AC.DecompTie.toGTs (S ++ [b])) = some (AC.DictSumTie.I dc) ∧
      AC.Gen.Program.dictSumInt (AC.DecompTie.toGTs (S ++ [b])) = some (v : Int) ∧
      P.DictSum.lastOr dc b.d = v := by
  obtain ⟨dc, h1, _, h3⟩ := C01_src_dictsum (S.map pairOf) (pairOf b) h
  refine ⟨dc, P.Bits.value (S ++ [b]), ?_, AC.DecompTie.sumInt_tie _, ?_⟩
  · rw [← G_pairs]; simpa using h1
  · have : (pairOf b).1 = b.d := rfl
    have h2 : (pairOf b).2 = b.e := rfl
    rw [this, h2, dsvalue_reverse, value_pairs] at h3
    rw [h3]
    simp [P.Bits.value]; omega

/-- non-vacuity: the sum 1·2^0 + 3·2^2 + 1·2^5 meets the hypothesis -/
example : P.DictSum.Desc (⟨1, 5⟩ : P.Bits.Term).e (([⟨1, 0⟩, ⟨3, 2⟩] : List P.Bits.Term).map pairOf).reverse := by
  simp [P.DictSum.Desc, pairOf]

/-- **source-level**: `binary.RightToLeft.FindChain` as TRANSLATED from the current binary.go (the nil-able
    pointer `x` as an `Option`, the loop on a fuel counter with its condition re-checked): for every
    `n ≥ 1` it does not panic, does not run out of fuel, returns a nil error and a valid chain ending at `n` -/
theorem C01_src_binary (n : Nat) (hn : 1 ≤ n) :
    ∃ c, AC.Gen.Program.binaryRightToLeftFindChain (n : Int) = some (c, AC.GoPrim.goNil) ∧
      IsChain c ∧ c.getLast? = some (n : Int) :=
  ⟨rtl n, AC.BinaryTie.rtl_tie n hn, C01_binary n hn⟩

end AC.Props.C01
