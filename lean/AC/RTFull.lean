import AC.PrinterX
/-! # Expression-level round trip for the full grammar (C07)

`expr fuel (prBody t ++ rest) = (t, dropWs rest)` for the model of the whole grammar
(`AC/PegFull.lean`: hex / octal / decimal literals, `Operand` payload with the `uint → int`
wrap) and the model of the fixed printer (`AC/PrinterX.lean`, precedences from
`AC/Gen/AstPrec.lean`).  Port of `AC/RT.lean` (decimal-only prototype) with the exact
stand-alone-identifier condition of F10. -/
namespace P.PegF
open AC.Gen
open P.Peg (P por ws lit ident pfail ppure uintLitFull isWs isIdStart isIdChar shiftOp doubleOp addOp natStr
  bind_def pure_def por_left por_right lit_ok lit_cons_ok lit_fail_head lit_fail_nil ValidIdent EndTok
  takeWhile_append_of_all ident_ok NoWsHead ws_id ws_def natStr_eq isDigit_isIdChar dropWs
  lit_fail_of_not_prefix endTok_cons digit_not_ws dropWs_idem prefix_append_endTok natStr_noWs bind_assoc'
  GoodHead goodHead_not_ws NoShiftOp NoAddOp shiftOp_fail shiftOp_ok doubleOp_fail addOp_fail uintLitFull_ok
  noShiftOp_plus dropWs_plus)

/-! ### printer normal form (this is where the generated precedence table is used) -/
def isAtom : Expr → Bool | .operand _ => true | .ident _ => true | _ => false
def isAdd : Expr → Bool | .add .. => true | _ => false

/-- nothing is parenthesised at `LowestPrec` (otherwise `printer.expr` would not terminate) -/
theorem prec_ge_lowest (x : Expr) : decide (precOf x < AstPrec.lowestPrec) = false := by cases x <;> rfl
/-- left operand of `+`: never parenthesised -/
theorem prec_addX (x : Expr) : decide (precOf x < AstPrec.add) = false := by cases x <;> rfl
/-- right operand of `+`: parenthesised iff it is an addition -/
theorem prec_addY (y : Expr) : decide (precOf y < AstPrec.add + 1) = isAdd y := by cases y <;> rfl
/-- operand of shift / double: parenthesised iff it is an operator -/
theorem prec_unary (x : Expr) : decide (precOf x < AstPrec.highestPrec) = !isAtom x := by cases x <;> rfl

def wrapU (x : Expr) : List Char := if isAtom x then prBody x else '(' :: (prBody x ++ [')'])
def wrapR (y : Expr) : List Char := if isAdd y then '(' :: (prBody y ++ [')']) else prBody y

theorem prAt_lowest (x : Expr) : prAt x AstPrec.lowestPrec = prBody x := by
  simp [prAt, prec_ge_lowest, paren]

theorem body_add (x y) : prBody (.add x y) = prBody x ++ (" + ".toList ++ wrapR y) := by
  simp only [prBody, prec_addX, prec_addY, paren, wrapR]
  cases isAdd y <;> simp
theorem body_shift (x s) : prBody (.shift x s) = wrapU x ++ (" << ".toList ++ natStr s) := by
  simp only [prBody, prec_unary, paren, wrapU]
  cases isAtom x <;> simp
theorem body_double (x) : prBody (.double x) = '2' :: '*' :: wrapU x := by
  simp only [prBody, prec_unary, paren, wrapU]
  cases isAtom x <;> simp

theorem intStr_ofNat (n : Nat) : intStr (n : Int) = natStr n := rfl

theorem body_operand_zero : prBody (.operand 0) = ['1'] := by simp [prBody]
theorem body_operand_succ (k : Nat) :
    prBody (.operand ((k + 1 : Nat) : Int)) = '[' :: (natStr (k + 1) ++ [']']) := by
  have : ¬ (((k + 1 : Nat) : Int) = 0) := by omega
  simp only [prBody, this, if_false, intStr_ofNat]

theorem wrapInt_small (n : Nat) (h : n < 2 ^ 63) : wrapInt n = (n : Int) := by simp [wrapInt, h]

/-! ### well-formed trees and follow conditions -/

/-- not (`dbl` followed by `1`, a letter or `_`) -/
def SafeIdent (s : List Char) : Prop :=
  ∀ c t, s = 'd' :: 'b' :: 'l' :: c :: t → c ≠ '1' ∧ isIdStart c = false

/-- `WF sa t`: `sa` says that `t` is printed in `ShiftExpr` position (anywhere except directly
    under a shift or a double), where an identifier must satisfy `SafeIdent` (F10). -/
inductive WF : Bool → Expr → Prop
  | operand (b i) : 0 ≤ i → i < 2 ^ 63 → WF b (.operand i)
  | ident (b s) : ValidIdent s → (b = true → SafeIdent s) → WF b (.ident s)
  | add (b x y) : WF true x → WF true y → WF b (.add x y)
  | shift (b x s) : WF false x → s < 2 ^ 64 → WF b (.shift x s)
  | double (b x) : WF false x → WF b (.double x)

theorem WF.weaken {b : Bool} {x : Expr} (h : WF b x) : WF false x := by
  cases h with
  | operand _ i h1 h2 => exact .operand _ i h1 h2
  | ident _ s h1 _ => exact .ident _ s h1 (fun h => by cases h)
  | add _ x y h1 h2 => exact .add _ x y h1 h2
  | shift _ x s h1 h2 => exact .shift _ x s h1 h2
  | double _ x h1 => exact .double _ x h1

theorem WF.strengthen {b : Bool} {x : Expr} (ha : isAtom x = false) (h : WF b x) : WF true x := by
  cases h with
  | operand _ i h1 h2 => simp [isAtom] at ha
  | ident _ s h1 _ => simp [isAtom] at ha
  | add _ x y h1 h2 => exact .add _ x y h1 h2
  | shift _ x s h1 h2 => exact .shift _ x s h1 h2
  | double _ x h1 => exact .double _ x h1

/-- after blanks the rest does not start a base expression (so a stand-alone `dbl` is not the
    doubling keyword) -/
def NoBaseStart (r : List Char) : Prop :=
  ∀ c t, dropWs r = c :: t → c ≠ '(' ∧ c ≠ '[' ∧ c ≠ '1' ∧ isIdStart c = false

/-- what the recursive call must satisfy on a sub-expression (inside parentheses) -/
def RecOK (rec : P Expr) (x : Expr) : Prop :=
  ∀ r e, rec (prBody x ++ ')' :: r) e = (some (x, ')' :: r), e)

/-! ### operands -/
theorem one_fail (c : Char) (r : List Char) (e : Bool) (h : c ≠ '1') : one (c :: r) e = (none, e) := by
  unfold one
  simp only [bind_def]
  rw [lit_fail_head _ _ _ _ _ (Ne.symm h)]
theorem one_fail_nil (e : Bool) : one [] e = (none, e) := by
  unfold one
  simp only [bind_def]
  rw [lit_fail_nil]
theorem index_fail (c : Char) (r : List Char) (e : Bool) (h : c ≠ '[') : index (c :: r) e = (none, e) := by
  unfold index
  simp only [bind_def]
  rw [lit_fail_head _ _ _ _ _ (Ne.symm h)]
theorem index_fail_nil (e : Bool) : index [] e = (none, e) := by
  unfold index
  simp only [bind_def]
  rw [lit_fail_nil]

theorem operand_one (r : List Char) (e : Bool) : operand ('1' :: r) e = (some (Expr.operand 0, r), e) := by
  unfold operand
  apply por_left
  unfold one
  simp only [bind_def]
  rw [lit_cons_ok]
  rfl

theorem operand_index (i : Nat) (r : List Char) (e : Bool) (hi : i + 1 < 2 ^ 63) :
    operand ('[' :: (natStr (i+1) ++ ']' :: r)) e = (some (Expr.operand ((i + 1 : Nat) : Int), r), e) := by
  unfold operand
  rw [por_right (one_fail '[' _ e (by decide))]
  apply por_left
  unfold index
  simp only [bind_def]
  rw [lit_cons_ok]
  simp only []
  rw [ws_id _ _ (natStr_noWs (i+1) _)]
  simp only []
  have h64 : i + 1 < 2 ^ 64 := Nat.lt_trans hi (by decide)
  rw [uintLitFull_ok (i+1) (']' :: r) e h64 (endTok_cons (by decide))]
  simp only []
  rw [ws_id _ _ (by intro c t h; cases h; decide)]
  simp only []
  rw [lit_cons_ok]
  simp only [pure_def, wrapInt_small _ hi]

theorem operand_ident (s r : List Char) (e : Bool) (hs : ValidIdent s) (hr : EndTok r) :
    operand (s ++ r) e = (some (Expr.ident s, r), e) := by
  obtain ⟨c, cs, rfl, hc, hcs⟩ := hs
  have h1 : c ≠ '1' := by rintro rfl; simp [isIdStart] at hc
  have hb : c ≠ '[' := by rintro rfl; simp [isIdStart] at hc
  have hid := ident_ok (c :: cs) r e ⟨c, cs, rfl, hc, hcs⟩ hr
  unfold operand
  rw [List.cons_append, por_right (one_fail c _ e h1), por_right (index_fail c _ e hb)]
  unfold identE
  rw [← List.cons_append]
  simp only [bind_def, hid, pure_def]

/-! ### heads of printed text -/
theorem wrapU_atom {x : Expr} (h : isAtom x = true) : wrapU x = prBody x := by simp [wrapU, h]
theorem wrapU_paren {x : Expr} (h : isAtom x = false) (r : List Char) :
    wrapU x ++ r = '(' :: (prBody x ++ ')' :: r) := by simp [wrapU, h]
theorem wrapR_nonadd {y : Expr} (h : isAdd y = false) : wrapR y = prBody y := by simp [wrapR, h]
theorem wrapR_paren {y : Expr} (h : isAdd y = true) (r : List Char) :
    wrapR y ++ r = '(' :: (prBody y ++ ')' :: r) := by simp [wrapR, h]

/-- an index in range is a natural number -/
theorem idx_cases {i : Int} (h0 : 0 ≤ i) (h1 : i < 2 ^ 63) :
    i = 0 ∨ ∃ k : Nat, i = ((k + 1 : Nat) : Int) ∧ k + 1 < 2 ^ 63 := by
  by_cases hz : i = 0
  · exact Or.inl hz
  · right
    refine ⟨i.toNat - 1, ?_, ?_⟩ <;> omega

theorem body_head : ∀ {b : Bool} {t : Expr}, WF b t → ∃ c tl, prBody t = c :: tl ∧ GoodHead c := by
  intro b t h
  induction h with
  | operand b i h0 h1 =>
    rcases idx_cases h0 h1 with rfl | ⟨k, rfl, _⟩
    · exact ⟨'1', [], body_operand_zero, Or.inl rfl⟩
    · exact ⟨'[', natStr (k+1) ++ [']'], body_operand_succ k, Or.inr (Or.inl rfl)⟩
  | ident b s hv hs =>
    obtain ⟨c, cs, rfl, hc, _⟩ := hv
    exact ⟨c, cs, rfl, Or.inr (Or.inr (Or.inr (Or.inr hc)))⟩
  | add b x y hx hy ihx ihy =>
    obtain ⟨c, tl, h, hg⟩ := ihx
    exact ⟨c, tl ++ (" + ".toList ++ wrapR y), by rw [body_add, h]; rfl, hg⟩
  | shift b x s hx hs ih =>
    obtain ⟨c, tl, h, hg⟩ := ih
    rw [body_shift]
    cases ha : isAtom x with
    | true => exact ⟨c, tl ++ (" << ".toList ++ natStr s), by rw [wrapU_atom ha, h]; rfl, hg⟩
    | false => exact ⟨'(', _, wrapU_paren ha _, Or.inr (Or.inr (Or.inr (Or.inl rfl)))⟩
  | double b x hx ih => exact ⟨'2', _, by rw [body_double], Or.inr (Or.inr (Or.inl rfl))⟩

theorem body_noWs {b : Bool} {t : Expr} (h : WF b t) (r : List Char) : NoWsHead (prBody t ++ r) := by
  obtain ⟨c, tl, hb, hg⟩ := body_head h
  intro c' t' h'
  rw [hb] at h'
  cases h'
  exact goodHead_not_ws hg

/-! ### paren depth -/
def pdepth : Expr → Nat
  | .operand _ => 0
  | .ident _ => 0
  | .add x y => max (pdepth x) (if isAdd y then pdepth y + 1 else pdepth y)
  | .shift x _ => if isAtom x then 0 else pdepth x + 1
  | .double x => if isAtom x then 0 else pdepth x + 1

/-! ### BaseExpr -/
theorem base_def (rec : P Expr) : base rec = por (parenP rec) operand := rfl

theorem paren_ok (rec : P Expr) (x : Expr) (r : List Char) (e : Bool) {b : Bool} (hx : WF b x) (h : RecOK rec x) :
    parenP rec ('(' :: (prBody x ++ ')' :: r)) e = (some (x, r), e) := by
  unfold parenP
  simp only [bind_def]
  rw [lit_cons_ok]
  simp only []
  rw [ws_id _ _ (body_noWs hx _)]
  simp only []
  rw [h r e]
  simp only []
  rw [ws_id _ _ (by intro c t h; cases h; decide)]
  simp only []
  rw [lit_cons_ok]
  rfl

theorem paren_fail (rec : P Expr) (c : Char) (rest : List Char) (e : Bool) (h : c ≠ '(') :
    parenP rec (c :: rest) e = (none, e) := by
  unfold parenP
  simp only [bind_def]
  rw [lit_fail_head _ _ _ _ _ (Ne.symm h)]

theorem paren_fail_nil (rec : P Expr) (e : Bool) : parenP rec [] e = (none, e) := by
  unfold parenP
  simp only [bind_def]
  rw [lit_fail_nil]

/-- a base expression cannot start with anything but `(`, `[`, `1`, a letter or `_` -/
theorem base_fail (rec : P Expr) (s : List Char) (e : Bool)
    (h : ∀ c t, s = c :: t → c ≠ '(' ∧ c ≠ '[' ∧ c ≠ '1' ∧ isIdStart c = false) :
    base rec s e = (none, e) := by
  rw [base_def]
  cases s with
  | nil =>
    rw [por_right (paren_fail_nil rec e)]
    unfold operand
    rw [por_right (one_fail_nil e), por_right (index_fail_nil e)]
    simp [identE, ident]
  | cons c t =>
    obtain ⟨h1, h2, h3, h4⟩ := h c t rfl
    rw [por_right (paren_fail rec c t e h1)]
    unfold operand
    rw [por_right (one_fail c t e h3), por_right (index_fail c t e h2)]
    simp [identE, ident, h4]

theorem base_rt (rec : P Expr) (x : Expr) (r : List Char) (e : Bool) (hx : WF false x) (hr : EndTok r)
    (hrec : isAtom x = false → RecOK rec x) :
    base rec (wrapU x ++ r) e = (some (x, r), e) := by
  rw [base_def]
  cases ha : isAtom x with
  | false =>
    rw [wrapU_paren ha]
    exact por_left (paren_ok rec x r e hx (hrec ha))
  | true =>
    rw [wrapU_atom ha]
    cases hx with
    | operand _ i h0 h1 =>
      rcases idx_cases h0 h1 with rfl | ⟨k, rfl, hk⟩
      · rw [body_operand_zero]
        show por _ _ ('1' :: r) e = _
        rw [por_right (paren_fail rec '1' r e (by decide))]
        exact operand_one r e
      · have : prBody (Expr.operand ((k + 1 : Nat) : Int)) ++ r = '[' :: (natStr (k+1) ++ ']' :: r) := by
          rw [body_operand_succ]; simp
        rw [this, por_right (paren_fail rec '[' _ e (by decide))]
        exact operand_index k r e hk
    | ident _ s hv hs =>
      obtain ⟨c, cs, rfl, hc, hcs⟩ := hv
      have hne : c ≠ '(' := by rintro rfl; simp [isIdStart] at hc
      show por _ _ (c :: (cs ++ r)) e = _
      rw [por_right (paren_fail rec c _ e hne)]
      exact operand_ident (c :: cs) r e ⟨c, cs, rfl, hc, hcs⟩ hr
    | add _ a b => simp [isAtom] at ha
    | shift _ a k => simp [isAtom] at ha
    | double _ a => simp [isAtom] at ha

/-! ### ShiftExpr -/
theorem shiftE_def (rec : P Expr) : shiftE rec = por (shiftAlt1 rec) (por (shiftAlt2 rec) (base rec)) := rfl

theorem wrap_noWs {b : Bool} {x : Expr} (hx : WF b x) (r : List Char) : NoWsHead (wrapU x ++ r) := by
  cases ha : isAtom x with
  | true => rw [wrapU_atom ha]; exact body_noWs hx r
  | false => rw [wrapU_paren ha]; intro c t h; cases h; decide

/-- alternative 1 fails after a base expression that is not followed by a shift operator -/
theorem alt1_fail_base (rec : P Expr) (x : Expr) (r : List Char) (e : Bool) (hx : WF false x)
    (hr : EndTok r) (hns : NoShiftOp r) (hrec : isAtom x = false → RecOK rec x) :
    shiftAlt1 rec (wrapU x ++ r) e = (none, e) := by
  unfold shiftAlt1
  simp only [bind_def]
  rw [ws_id _ _ (wrap_noWs hx r)]
  simp only []
  rw [base_rt rec x r e hx hr hrec]
  simp only []
  rw [ws_def]
  simp only []
  rw [show List.dropWhile isWs r = dropWs r from rfl, shiftOp_fail r e hns]

theorem doubleOp_dbl (rest : List Char) (e : Bool) :
    doubleOp ('d' :: 'b' :: 'l' :: rest) e = (some ((), rest), e) := by
  unfold doubleOp
  rw [por_right (e' := e)]
  · exact lit_ok "dbl".toList rest e
  · simp only [bind_def]
    rw [lit_fail_head _ _ _ _ _ (by decide)]

theorem idChar_not_ws (c : Char) (h : isIdChar c = true) : isWs c = false := by
  cases hw : isWs c with
  | false => rfl
  | true =>
    simp [isWs] at hw
    rcases hw with (rfl | rfl) | rfl <;> simp [isIdChar] at h

/-- alternative 2 (doubling) fails on the text of an atom or a parenthesised expression in
    stand-alone position; for an identifier this is where `SafeIdent` and the follow condition
    `NoBaseStart` are needed (F10) -/
theorem alt2_fail_base (rec : P Expr) (x : Expr) (r : List Char) (e : Bool) (hx : WF true x) (hr : EndTok r)
    (hnb : NoBaseStart r) :
    shiftAlt2 rec (wrapU x ++ r) e = (none, e) := by
  unfold shiftAlt2
  simp only [bind_def]
  rw [ws_id _ _ (wrap_noWs hx r)]
  simp only []
  cases ha : isAtom x with
  | false =>
    rw [wrapU_paren ha, doubleOp_fail '(' _ e (by decide) (by simp [List.isPrefixOf])]
  | true =>
    rw [wrapU_atom ha]
    cases hx with
    | operand _ i h0 h1 =>
      rcases idx_cases h0 h1 with rfl | ⟨k, rfl, hk⟩
      · have : prBody (Expr.operand 0) ++ r = '1' :: r := by rw [body_operand_zero]; rfl
        rw [this, doubleOp_fail '1' _ e (by decide) (by simp [List.isPrefixOf])]
      · have : prBody (Expr.operand ((k + 1 : Nat) : Int)) ++ r = '[' :: (natStr (k+1) ++ ']' :: r) := by
          rw [body_operand_succ]; simp
        rw [this, doubleOp_fail '[' _ e (by decide) (by simp [List.isPrefixOf])]
    | ident _ s hv hs =>
      have hsafe := hs rfl
      obtain ⟨c, cs, rfl, hc, hcs⟩ := hv
      have h2 : c ≠ '2' := by rintro rfl; simp [isIdStart] at hc
      have hb : prBody (Expr.ident (c :: cs)) ++ r = c :: (cs ++ r) := rfl
      rw [hb]
      by_cases hp : "dbl".toList.isPrefixOf (c :: (cs ++ r)) = true
      · -- the text starts with `dbl`: the keyword is read, then no base expression follows
        have hp' := prefix_append_endTok "dbl".toList (c :: cs) r (by decide) hr hp
        have hdbl : "dbl".toList = ['d', 'b', 'l'] := by decide
        rw [hdbl] at hp'
        have hshape : ∃ t, c :: cs = 'd' :: 'b' :: 'l' :: t := by
          match cs, hp' with
          | c2 :: c3 :: t, hp' =>
            simp only [List.isPrefixOf, Bool.and_eq_true, beq_iff_eq] at hp'
            obtain ⟨h1, h2', h3, _⟩ := hp'
            exact ⟨t, by rw [← h1, ← h2', ← h3]⟩
          | [], hp' => simp [List.isPrefixOf] at hp'
          | [_], hp' => simp [List.isPrefixOf] at hp'
        obtain ⟨t, ht⟩ := hshape
        have hct : c :: (cs ++ r) = 'd' :: 'b' :: 'l' :: (t ++ r) := by
          rw [← List.cons_append, ht]; rfl
        rw [hct, doubleOp_dbl]
        simp only []
        rw [ws_def]
        simp only []
        have hfail : ∀ c' t', List.dropWhile isWs (t ++ r) = c' :: t' →
            c' ≠ '(' ∧ c' ≠ '[' ∧ c' ≠ '1' ∧ isIdStart c' = false := by
          cases t with
          | nil => intro c' t' h; exact hnb c' t' h
          | cons a t1 =>
            have hmem : a ∈ cs := by
              have : cs = 'b' :: 'l' :: a :: t1 := (List.cons.inj ht).2
              rw [this]; simp
            have hida : isIdChar a = true := hcs a hmem
            have hnw : isWs a = false := idChar_not_ws a hida
            intro c' t' h
            simp only [List.cons_append, List.dropWhile, hnw] at h
            injection h with h1 _
            subst h1
            obtain ⟨hs1, hs2⟩ := hsafe a t1 ht
            refine ⟨?_, ?_, hs1, hs2⟩
            · rintro rfl; simp [isIdChar] at hida
            · rintro rfl; simp [isIdChar] at hida
        rw [base_fail rec _ e hfail]
      · rw [doubleOp_fail c _ e h2 hp]
    | add _ a b => simp [isAtom] at ha
    | shift _ a k => simp [isAtom] at ha
    | double _ a => simp [isAtom] at ha

theorem base_fail_two (rec : P Expr) (rest : List Char) (e : Bool) : base rec ('2' :: rest) e = (none, e) := by
  apply base_fail
  intro c t h
  cases h
  refine ⟨by decide, by decide, by decide, by decide⟩

theorem alt1_fail_double (rec : P Expr) (rest : List Char) (e : Bool) :
    shiftAlt1 rec ('2' :: rest) e = (none, e) := by
  unfold shiftAlt1
  simp only [bind_def]
  rw [ws_id _ _ (by intro c t h; cases h; decide)]
  simp only []
  rw [base_fail_two]

theorem alt2_ok_double (rec : P Expr) (x : Expr) (r : List Char) (e : Bool) (hx : WF false x) (hr : EndTok r)
    (hrec : isAtom x = false → RecOK rec x) :
    shiftAlt2 rec ('2' :: '*' :: (wrapU x ++ r)) e = (some (Expr.double x, r), e) := by
  unfold shiftAlt2
  simp only [bind_def]
  rw [ws_id _ _ (by intro c t h; cases h; decide)]
  simp only []
  have hd : doubleOp ('2' :: '*' :: (wrapU x ++ r)) e = (some ((), wrapU x ++ r), e) := by
    unfold doubleOp
    apply por_left
    simp only [bind_def]
    rw [lit_cons_ok]
    simp only []
    rw [ws_id _ _ (by intro c t h; cases h; decide)]
    simp only []
    rw [lit_cons_ok]
  rw [hd]
  simp only []
  rw [ws_id _ _ (wrap_noWs hx r)]
  simp only []
  rw [base_rt rec x r e hx hr hrec]
  rfl

theorem alt1_ok_shift (rec : P Expr) (x : Expr) (k : Nat) (r : List Char) (e : Bool) (hx : WF false x)
    (hk : k < 2^64) (hr : EndTok r) (hrec : isAtom x = false → RecOK rec x) :
    shiftAlt1 rec (wrapU x ++ (' ' :: '<' :: '<' :: ' ' :: (natStr k ++ r))) e
      = (some (Expr.shift x k, dropWs r), e) := by
  unfold shiftAlt1
  simp only [bind_def]
  rw [ws_id _ _ (wrap_noWs hx _)]
  simp only []
  rw [base_rt rec x _ e hx (endTok_cons (by decide)) hrec]
  simp only []
  have hws1 : ws (' ' :: '<' :: '<' :: ' ' :: (natStr k ++ r)) e = (some ((), '<' :: '<' :: ' ' :: (natStr k ++ r)), e) := by
    simp [ws, isWs]
  rw [hws1]
  simp only []
  rw [shiftOp_ok]
  simp only []
  have hws2 : ws (' ' :: (natStr k ++ r)) e = (some ((), natStr k ++ r), e) := by
    rw [ws_def]
    have : List.dropWhile isWs (' ' :: (natStr k ++ r)) = List.dropWhile isWs (natStr k ++ r) := by
      simp [List.dropWhile, isWs]
    rw [this]
    exact ws_id _ e (natStr_noWs k r)
  rw [hws2]
  simp only []
  rw [uintLitFull_ok k r e hk hr]
  rfl

/-- Round trip at ShiftExpr level. The remaining input may lose leading blanks. -/
theorem shiftE_rt (rec : P Expr) (t : Expr) (r : List Char) (e : Bool) (ht : WF true t)
    (hr : EndTok r) (hns : NoShiftOp r) (hnb : NoBaseStart r)
    (hrec : ∀ x, WF true x → pdepth x < (if isAdd t then pdepth t + 1 else pdepth t) → RecOK rec x) :
    ∃ r', shiftE rec (wrapR t ++ r) e = (some (t, r'), e) ∧ dropWs r' = dropWs r := by
  rw [shiftE_def]
  cases t with
  | operand i =>
    have hw : wrapR (Expr.operand i) = wrapU (Expr.operand i) := by simp [wrapR, wrapU, isAdd, isAtom]
    refine ⟨r, ?_, rfl⟩
    rw [hw, por_right (alt1_fail_base rec _ r e ht.weaken hr hns (by simp [isAtom])),
      por_right (alt2_fail_base rec _ r e ht hr hnb)]
    exact base_rt rec _ r e ht.weaken hr (by simp [isAtom])
  | ident s =>
    have hw : wrapR (Expr.ident s) = wrapU (Expr.ident s) := by simp [wrapR, wrapU, isAdd, isAtom]
    refine ⟨r, ?_, rfl⟩
    rw [hw, por_right (alt1_fail_base rec _ r e ht.weaken hr hns (by simp [isAtom])),
      por_right (alt2_fail_base rec _ r e ht hr hnb)]
    exact base_rt rec _ r e ht.weaken hr (by simp [isAtom])
  | add a b =>
    have hw : wrapR (Expr.add a b) = wrapU (Expr.add a b) := by simp [wrapR, wrapU, isAdd, isAtom]
    have hro : RecOK rec (Expr.add a b) := hrec _ ht (by simp [isAdd])
    refine ⟨r, ?_, rfl⟩
    rw [hw, por_right (alt1_fail_base rec _ r e ht.weaken hr hns (fun _ => hro)),
      por_right (alt2_fail_base rec _ r e ht hr hnb)]
    exact base_rt rec _ r e ht.weaken hr (fun _ => hro)
  | double x =>
    cases ht with
    | double _ _ hx =>
    have hsub : isAtom x = false → RecOK rec x := by
      intro ha
      apply hrec x (hx.strengthen ha)
      simp [isAdd, pdepth, ha]
    refine ⟨r, ?_, rfl⟩
    have hw : wrapR (Expr.double x) ++ r = '2' :: '*' :: (wrapU x ++ r) := by
      simp [wrapR, isAdd, body_double]
    rw [hw, por_right (alt1_fail_double rec _ e)]
    exact por_left (alt2_ok_double rec x r e hx hr hsub)
  | shift x k =>
    cases ht with
    | shift _ _ _ hx hk =>
    have hsub : isAtom x = false → RecOK rec x := by
      intro ha
      apply hrec x (hx.strengthen ha)
      simp [isAdd, pdepth, ha]
    refine ⟨dropWs r, ?_, ?_⟩
    · have hw : wrapR (Expr.shift x k) ++ r = wrapU x ++ (' ' :: '<' :: '<' :: ' ' :: (natStr k ++ r)) := by
        simp [wrapR, isAdd, body_shift]
      rw [hw]
      exact por_left (alt1_ok_shift rec x k r e hx hk hr hsub)
    · exact dropWs_idem r

/-! ### AddExpr -/
theorem addRest_succ (rec : P Expr) (n : Nat) (acc : Expr) (s : List Char) (e : Bool) :
    addRest rec (n+1) acc s e = match addStep rec s e with
      | (some (y, s'), e') => addRest rec n (Expr.add acc y) s' e'
      | (none, e') => (some (acc, s), e') := rfl

theorem addRest_stop (rec : P Expr) (n : Nat) (acc : Expr) (r : List Char) (e : Bool) (h : NoAddOp r) :
    addRest rec n acc r e = (some (acc, r), e) := by
  cases n with
  | zero => rfl
  | succ n =>
    rw [addRest_succ]
    have : addStep rec r e = (none, e) := by
      unfold addStep
      simp only [bind_def]
      rw [ws_def]
      simp only []
      rw [show List.dropWhile isWs r = dropWs r from rfl, addOp_fail r e h]
    rw [this]

def nadds : Expr → Nat
  | .add x _ => nadds x + 1
  | _ => 0

/-- one turn of the loop on `… + y` (leading blanks of the input are irrelevant) -/
theorem addRest_step (rec : P Expr) (n : Nat) (acc y : Expr) (s r : List Char) (e : Bool)
    (hs : dropWs s = '+' :: ' ' :: (wrapR y ++ r)) (hy : WF true y) (hr : EndTok r) (hns : NoShiftOp r)
    (hnb : NoBaseStart r)
    (hrec : ∀ x, WF true x → pdepth x < (if isAdd y then pdepth y + 1 else pdepth y) → RecOK rec x) :
    ∃ r', addRest rec (n+1) acc s e = addRest rec n (Expr.add acc y) r' e ∧ dropWs r' = dropWs r := by
  obtain ⟨r', h1, h2⟩ := shiftE_rt rec y r e hy hr hns hnb hrec
  refine ⟨r', ?_, h2⟩
  rw [addRest_succ]
  have : addStep rec s e = (some (y, r'), e) := by
    unfold addStep
    simp only [bind_def]
    rw [ws_def]
    simp only []
    rw [show List.dropWhile isWs s = dropWs s from rfl, hs]
    have ha : addOp ('+' :: ' ' :: (wrapR y ++ r)) e = (some ((), ' ' :: (wrapR y ++ r)), e) := by
      unfold addOp
      apply por_left
      exact lit_cons_ok '+' _ e
    rw [ha]
    simp only []
    have hw : ws (' ' :: (wrapR y ++ r)) e = (some ((), wrapR y ++ r), e) := by
      rw [ws_def]
      have : List.dropWhile isWs (' ' :: (wrapR y ++ r)) = List.dropWhile isWs (wrapR y ++ r) := by
        simp [List.dropWhile, isWs]
      rw [this]
      apply ws_id
      cases hay : isAdd y with
      | true => rw [wrapR_paren hay]; intro c t h; cases h; decide
      | false => rw [wrapR_nonadd hay]; exact body_noWs hy r
    rw [hw]
    simp only []
    exact h1
  rw [this]

theorem noBaseStart_plus (rest : List Char) : NoBaseStart (' ' :: '+' :: rest) := by
  intro c t h
  rw [dropWs_plus] at h
  cases h
  refine ⟨by decide, by decide, by decide, by decide⟩

theorem noBaseStart_of_head {c : Char} {rest : List Char} (hw : isWs c = false)
    (h : c ≠ '(' ∧ c ≠ '[' ∧ c ≠ '1' ∧ isIdStart c = false) : NoBaseStart (c :: rest) := by
  intro c' t h'
  simp only [dropWs, List.dropWhile, hw] at h'
  cases h'
  exact h

theorem noBaseStart_nil : NoBaseStart [] := by
  intro c t h; simp [dropWs] at h

/-- the left spine: after reading the text of `t`, the loop holds `t` as accumulator -/
theorem spine (rec : P Expr) : ∀ (t : Expr) (k : Nat) (r : List Char) (e : Bool), WF true t → nadds t ≤ k →
    EndTok r → NoShiftOp r → NoBaseStart r →
    (∀ x, WF true x → pdepth x < pdepth t → RecOK rec x) →
    ∃ r', (do let x ← shiftE rec; addRest rec k x : P Expr) (prBody t ++ r) e
        = addRest rec (k - nadds t) t r' e ∧ dropWs r' = dropWs r := by
  intro t
  induction t with
  | add x y ihx _ =>
    intro k r e ht hk hr hns hnb hrec
    cases ht with
    | add _ _ _ hx hy =>
    have hk' : nadds x + 1 ≤ k := hk
    have hbody : prBody (Expr.add x y) ++ r = prBody x ++ (' ' :: '+' :: ' ' :: (wrapR y ++ r)) := by
      rw [body_add]; simp
    rw [hbody]
    obtain ⟨r1, h1, h2⟩ := ihx k (' ' :: '+' :: ' ' :: (wrapR y ++ r)) e hx (by omega)
      (endTok_cons (by decide)) (noShiftOp_plus _) (noBaseStart_plus _)
      (fun z hz hd => hrec z hz (by simp only [pdepth]; omega))
    rw [h1]
    have hd : dropWs r1 = '+' :: ' ' :: (wrapR y ++ r) := by rw [h2, dropWs_plus]
    have hkk : k - nadds x = (k - nadds x - 1) + 1 := by omega
    rw [hkk]
    obtain ⟨r2, h3, h4⟩ := addRest_step rec (k - nadds x - 1) x y r1 r e hd hy hr hns hnb
      (fun z hz hdz => hrec z hz (by
        simp only [pdepth]
        split at hdz <;> rename_i hay <;> simp [hay] <;> omega))
    refine ⟨r2, ?_, h4⟩
    rw [h3]
    show _ = addRest rec (k - (nadds x + 1)) _ _ _
    rw [show k - nadds x - 1 = k - (nadds x + 1) by omega]
  | operand i =>
    intro k r e ht hk hr hns hnb hrec
    obtain ⟨r', h1, h2⟩ := shiftE_rt rec (Expr.operand i) r e ht hr hns hnb
      (fun z hz hd => hrec z hz (by simpa [isAdd] using hd))
    refine ⟨r', ?_, h2⟩
    have : wrapR (Expr.operand i) = prBody (Expr.operand i) := wrapR_nonadd rfl
    rw [this] at h1
    simp only [bind_def, h1, nadds, Nat.sub_zero]
  | ident s =>
    intro k r e ht hk hr hns hnb hrec
    obtain ⟨r', h1, h2⟩ := shiftE_rt rec (Expr.ident s) r e ht hr hns hnb
      (fun z hz hd => hrec z hz (by simpa [isAdd] using hd))
    refine ⟨r', ?_, h2⟩
    have : wrapR (Expr.ident s) = prBody (Expr.ident s) := wrapR_nonadd rfl
    rw [this] at h1
    simp only [bind_def, h1, nadds, Nat.sub_zero]
  | shift x s _ =>
    intro k r e ht hk hr hns hnb hrec
    obtain ⟨r', h1, h2⟩ := shiftE_rt rec (Expr.shift x s) r e ht hr hns hnb
      (fun z hz hd => hrec z hz (by simpa [isAdd] using hd))
    refine ⟨r', ?_, h2⟩
    have : wrapR (Expr.shift x s) = prBody (Expr.shift x s) := wrapR_nonadd rfl
    rw [this] at h1
    simp only [bind_def, h1, nadds, Nat.sub_zero]
  | double x _ =>
    intro k r e ht hk hr hns hnb hrec
    obtain ⟨r', h1, h2⟩ := shiftE_rt rec (Expr.double x) r e ht hr hns hnb
      (fun z hz hd => hrec z hz (by simpa [isAdd] using hd))
    refine ⟨r', ?_, h2⟩
    have : wrapR (Expr.double x) = prBody (Expr.double x) := wrapR_nonadd rfl
    rw [this] at h1
    simp only [bind_def, h1, nadds, Nat.sub_zero]

/-! ### Expr: the round-trip theorem -/
theorem nadds_le_length : ∀ (t : Expr), nadds t ≤ (prBody t).length := by
  intro t
  induction t with
  | add x y ih _ => rw [body_add]; simp [nadds]; omega
  | _ => simp [nadds]

theorem noAddOp_of_dropWs {r r' : List Char} (h : dropWs r' = dropWs r) (hr : NoAddOp r) : NoAddOp r' := by
  unfold NoAddOp at *; rw [h]; exact hr

theorem addE_eq (rec : P Expr) (s : List Char) (e : Bool) :
    addE rec s e = (ws >>= fun _ => ((shiftE rec >>= fun x => addRest rec s.length x) >>= fun r =>
      (ws >>= fun _ => (pure r : P Expr)))) s e := by
  unfold addE
  simp only [bind_def]
  rcases ws s e with ⟨_ | ⟨a, s'⟩, e'⟩
  · rfl
  · simp only []
    rcases shiftE rec s' e' with ⟨_ | ⟨x, s''⟩, e''⟩ <;> rfl

/-- **expression-level round trip** over the full grammar: the printed text of a well-formed
    tree, followed by anything that cannot continue an expression, parses back to the tree,
    and the sticky error flag is untouched -/
theorem expr_rt : ∀ (n : Nat) (t : Expr), WF true t → pdepth t < n → ∀ (r : List Char) (e : Bool),
    EndTok r → NoShiftOp r → NoBaseStart r → NoAddOp r →
    expr n (prBody t ++ r) e = (some (t, dropWs r), e) := by
  intro n
  induction n with
  | zero => intro t _ h; omega
  | succ n ih =>
    intro t ht hd r e hr hns hnb hna
    have hrec : ∀ x, WF true x → pdepth x < pdepth t → RecOK (expr n) x := by
      intro x hx hdx r' e'
      have := ih x hx (by omega) (')' :: r') e' (endTok_cons (by decide))
        (by constructor <;> simp [dropWs, List.dropWhile, isWs, List.isPrefixOf])
        (noBaseStart_of_head (by decide) ⟨by decide, by decide, by decide, by decide⟩)
        (by constructor <;> simp [dropWs, List.dropWhile, isWs, List.isPrefixOf])
      rw [this]
      simp [dropWs, List.dropWhile, isWs]
    show addE (expr n) (prBody t ++ r) e = _
    rw [addE_eq]
    obtain ⟨r', h1, h2⟩ := spine (expr n) t (prBody t ++ r).length r e ht
      (by have := nadds_le_length t; simp; omega) hr hns hnb hrec
    rw [addRest_stop _ _ _ _ _ (noAddOp_of_dropWs h2 hna)] at h1
    rw [bind_def, ws_id _ _ (body_noWs ht r)]
    simp only []
    rw [bind_def, h1]
    simp only [bind_def, ws_def, pure_def]
    rw [show List.dropWhile isWs r' = dropWs r' from rfl, h2]

/-- the parenthesis depth is bounded by the length of the printed text -/
theorem pdepth_le_length : ∀ (t : Expr), pdepth t ≤ (prBody t).length := by
  intro t
  induction t with
  | operand i => simp [pdepth]
  | ident s => simp [pdepth]
  | add x y ihx ihy =>
    rw [body_add]
    simp only [pdepth, wrapR, List.length_append]
    cases isAdd y <;> simp <;> omega
  | shift x s ih =>
    rw [body_shift]
    simp only [pdepth, wrapU, List.length_append]
    cases isAtom x <;> simp <;> omega
  | double x ih =>
    rw [body_double]
    simp only [pdepth, wrapU, List.length_cons]
    cases isAtom x <;> simp <;> omega

end P.PegF
