import AC.Halving
/-! C08 (continued-fraction half) prototype: model of contfrac.go on positive integers. -/
namespace P

inductive Strategy | binary | coBinary | dichotomic | sqrt | total | dyadic | fermat
deriving Repr, DecidableEq

def dyadicK : Nat → Int → List Int
  | 0, _ => []
  | f+1, k => if k > 1 then k :: dyadicK f (k / 2) else []
def fermatK : Nat → Int → Nat → List Int
  | 0, _, _ => []
  | f+1, k, s => if k > 1 then k :: fermatK f (k / (2 : Int) ^ s) (2 * s) else []

def Strategy.K : Strategy → Int → List Int
  | .binary, n => [n / 2]
  | .coBinary, n => [(if n % 2 = 1 then n + 1 else n) / 2]
  | .dichotomic, n => [n / (2 : Int) ^ (bitLenN n.toNat / 2)]
  | .sqrt, n => [Int.ofNat (Nat.sqrt n.toNat)]
  | .total, n => List.map (fun (i : Nat) => Int.ofNat i + 2) (List.range (n.toNat - 2))
  | .dyadic, n => dyadicK (bitLenN n.toNat) (n / 2)
  | .fermat, n => fermatK (bitLenN n.toNat) (n / 2) 1

def isPow2 (n : Int) : Bool := decide (0 < n) && n == 2 ^ (bitLenN n.toNat - 1)
def pow2UpTo (n : Int) : List Int := (List.range (bitLenN n.toNat)).map (fun e => (2 : Int) ^ e)

def product (a b : List Int) : List Int := a ++ (b.drop 1).map (a.getLastD 1 * ·)
def plus (a : List Int) (x : Int) : List Int := a ++ [a.getLastD 1 + x]

def better (best : Option (List Int)) (c : List Int) : Option (List Int) :=
  match best with
  | none => some c
  | some m => if c.length < m.length then some c else some m

mutual
/-- `none` = out of fuel, or the Go code would not terminate (`k` outside `[2, n)`) or would
    return a nil chain (empty `K`) -/
def minchain (s : Strategy) : Nat → Int → Option (List Int)
  | 0, _ => none
  | f+1, n =>
    if isPow2 n then some (pow2UpTo n)
    else if n = 3 then some [1, 2, 3]
    else minLoop s f n (s.K n) none
def minLoop (s : Strategy) : Nat → Int → List Int → Option (List Int) → Option (List Int)
  | 0, _, _, _ => none
  | _+1, _, [], best => best
  | f+1, n, k :: ks, best =>
    if 2 ≤ k ∧ k < n then
      match chain s f [k, n] with
      | none => none
      | some c => minLoop s f n ks (better best c)
    else none
def chain (s : Strategy) : Nat → List Int → Option (List Int)
  | 0, _ => none
  | f+1, ns =>
    let n := ns.getLastD 0
    let rest := ns.dropLast
    if rest = [] ∨ rest.getLastD 0 ≤ 1 then minchain s f n
    else
      let m := rest.getLastD 0
      let q := n / m
      let r := n % m
      match minchain s f q with
      | none => none
      | some cq =>
        if r = 0 then (chain s f rest).map (product · cq)
        else (chain s f (insertSortedUnique rest r)).map (fun c => plus (product c cq) r)
end

end P
