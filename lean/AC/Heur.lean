import AC.Merge
/-! C08 (heuristic half) prototype: the Bos–Coster loop is correct for every sound heuristic. -/
namespace P

abbrev Suggest := List Int → Int → Option (List Int)

/-- protosequence facts a heuristic may rely on -/
structure ProtoOK (f : List Int) (t : Int) : Prop where
  asc : f.Pairwise (· < ·)
  pos : ∀ x ∈ f, 1 ≤ x
  one : (1 : Int) ∈ f
  two : (2 : Int) ∈ f
  top : ∀ x ∈ f, x < t

/-- what every heuristic must deliver: sorted distinct insertions below the target, after which
    the target is a sum of two protosequence members -/
def Sound (sg : Suggest) : Prop :=
  ∀ f t ins, ProtoOK f t → sg f t = some ins →
    ins.Pairwise (· < ·) ∧ (∀ x ∈ ins, 1 ≤ x ∧ x < t) ∧
    ∃ a, (a ∈ f ∨ a ∈ ins) ∧ ∃ b, (b ∈ f ∨ b ∈ ins) ∧ a + b = t

def loop (sg : Suggest) : Nat → List Int → List Int → Option (List Int)
  | 0, _, _ => none
  | fuel+1, proto, c =>
    if proto.length ≤ 2 then some c
    else
      let t := proto.getLastD 0
      let proto' := proto.dropLast
      match sg proto' t with
      | none => none
      | some ins => loop sg fuel (mergeUnique proto' ins) (insertSortedUnique c t)

def findSequence (sg : Suggest) (fuel : Nat) (targets : List Int) : Option (List Int) :=
  if targets = [1] then some [1]
  else (loop sg fuel (sortUniq ([1, 2] ++ targets)) []).map (mergeUnique [1, 2])

structure LoopInv (T proto c : List Int) : Prop where
  pasc : proto.Pairwise (· < ·)
  ppos : ∀ x ∈ proto, 1 ≤ x
  one : (1 : Int) ∈ proto
  two : (2 : Int) ∈ proto
  casc : c.Pairwise (· < ·)
  above : ∀ x ∈ c, ∀ y ∈ proto, y < x
  closed : ∀ x ∈ c, ∃ a, (a ∈ proto ∨ a ∈ c) ∧ ∃ b, (b ∈ proto ∨ b ∈ c) ∧ a + b = x
  targets : ∀ x ∈ T, x ∈ proto ∨ x ∈ c

theorem getLastD_mem (l : List Int) (h : l ≠ []) : l.getLastD 0 ∈ l := by
  cases l with
  | nil => exact absurd rfl h
  | cons a r => simp [List.getLastD]

theorem dropLast_concat_getLastD (l : List Int) (h : l ≠ []) : l = l.dropLast ++ [l.getLastD 0] := by
  cases l with
  | nil => exact absurd rfl h
  | cons a r =>
    have := List.dropLast_concat_getLast (l := a :: r) (by simp)
    simp only [List.getLastD]
    exact this.symm

theorem pairwise_split_last (l : List Int) (h : l.Pairwise (· < ·)) (hne : l ≠ []) :
    l.dropLast.Pairwise (· < ·) ∧ ∀ x ∈ l.dropLast, x < l.getLastD 0 := by
  have hs := dropLast_concat_getLastD l hne
  rw [hs] at h
  have := List.pairwise_append.mp h
  exact ⟨this.1, fun x hx => this.2.2 x hx _ (by simp)⟩


theorem loop_step_inv (sg : Suggest) (hs : Sound sg) (T proto c ins : List Int)
    (hI : LoopInv T proto c) (hlen : 2 < proto.length)
    (hsg : sg proto.dropLast (proto.getLastD 0) = some ins) :
    LoopInv T (mergeUnique proto.dropLast ins) (insertSortedUnique c (proto.getLastD 0)) := by
  have hne : proto ≠ [] := by intro h; simp [h] at hlen
  obtain ⟨hdasc, hdtop⟩ := pairwise_split_last proto hI.pasc hne
  have hsplit := dropLast_concat_getLastD proto hne
  have htmem : proto.getLastD 0 ∈ proto := getLastD_mem proto hne
  -- abbreviations
  generalize ht : proto.getLastD 0 = t at *
  generalize hp' : proto.dropLast = p' at *
  have hmem : ∀ x, x ∈ proto ↔ x ∈ p' ∨ x = t := by
    intro x; rw [hsplit]; simp
  -- 1 and 2 are not the maximum
  have h1p : (1 : Int) ∈ p' := by
    rcases (hmem 1).1 hI.one with h | h
    · exact h
    · exfalso
      -- all elements ≤ 1 and ≥ 1 and distinct: length ≤ 1
      have : (2 : Int) ∈ p' ∨ (2 : Int) = t := (hmem 2).1 hI.two
      rcases this with h2 | h2
      · have := hdtop 2 h2; omega
      · omega
  have h2p : (2 : Int) ∈ p' := by
    rcases (hmem 2).1 hI.two with h | h
    · exact h
    · exfalso
      -- then every element of p' is 1, so p' = [1] and proto has length 2
      have hall : ∀ x ∈ p', x = 1 := by
        intro x hx
        have := hdtop x hx
        have := hI.ppos x ((hmem x).2 (Or.inl hx))
        omega
      have hlen' : p'.length ≤ 1 := by
        cases hp : p' with
        | nil => simp
        | cons a r =>
          cases r with
          | nil => simp
          | cons b r' =>
            rw [hp] at hall hdasc
            have ha := hall a (by simp)
            have hb := hall b (by simp)
            have := (List.pairwise_cons.mp hdasc).1 b (by simp)
            omega
      have : proto.length = p'.length + 1 := by rw [hsplit]; simp
      omega
  have hpok : ProtoOK p' t :=
    ⟨hdasc, fun x hx => hI.ppos x ((hmem x).2 (Or.inl hx)), h1p, h2p, hdtop⟩
  obtain ⟨hiasc, hibound, a, ha, b, hb, hab⟩ := hs p' t ins hpok hsg
  have hcabove : ∀ x ∈ c, t < x := fun x hx => hI.above x hx t htmem
  refine ⟨pairwise_mergeUnique _ _ hdasc hiasc, ?_, ?_, ?_, ?_, ?_, ?_, ?_⟩
  · intro x hx
    rcases (mem_mergeUnique _ _ _).1 hx with h | h
    · exact hpok.pos x h
    · exact (hibound x h).1
  · exact (mem_mergeUnique _ _ _).2 (Or.inl h1p)
  · exact (mem_mergeUnique _ _ _).2 (Or.inl h2p)
  · unfold insertSortedUnique
    exact pairwise_mergeUnique _ _ (by simp) hI.casc
  · intro x hx y hy
    unfold insertSortedUnique at hx
    have hy' : y < t := by
      rcases (mem_mergeUnique _ _ _).1 hy with h | h
      · exact hdtop y h
      · exact (hibound y h).2
    rcases (mem_mergeUnique _ _ _).1 hx with h | h
    · simp at h; omega
    · have := hcabove x h; omega
  · intro x hx
    unfold insertSortedUnique at hx ⊢
    have lift : ∀ z, (z ∈ proto ∨ z ∈ c) → (z ∈ mergeUnique p' ins ∨ z ∈ mergeUnique [t] c) := by
      intro z hz
      rcases hz with hz | hz
      · rcases (hmem z).1 hz with h | h
        · exact Or.inl ((mem_mergeUnique _ _ _).2 (Or.inl h))
        · exact Or.inr ((mem_mergeUnique _ _ _).2 (Or.inl (by simp [h])))
      · exact Or.inr ((mem_mergeUnique _ _ _).2 (Or.inr hz))
    rcases (mem_mergeUnique _ _ _).1 hx with h | h
    · simp at h; subst h
      refine ⟨a, Or.inl ((mem_mergeUnique _ _ _).2 ha), b, Or.inl ((mem_mergeUnique _ _ _).2 hb), hab⟩
    · obtain ⟨a', ha', b', hb', hab'⟩ := hI.closed x h
      exact ⟨a', lift a' ha', b', lift b' hb', hab'⟩
  · intro x hx
    unfold insertSortedUnique
    rcases hI.targets x hx with h | h
    · rcases (hmem x).1 h with h' | h'
      · exact Or.inl ((mem_mergeUnique _ _ _).2 (Or.inl h'))
      · exact Or.inr ((mem_mergeUnique _ _ _).2 (Or.inl (by simp [h'])))
    · exact Or.inr ((mem_mergeUnique _ _ _).2 (Or.inr h))

theorem loop_inv (sg : Suggest) (hs : Sound sg) (T : List Int) :
    ∀ (fuel : Nat) (proto c r : List Int), LoopInv T proto c → loop sg fuel proto c = some r →
    ∃ proto', LoopInv T proto' r ∧ proto'.length ≤ 2 := by
  intro fuel
  induction fuel with
  | zero => intro proto c r _ h; simp [loop] at h
  | succ fuel ih =>
    intro proto c r hI h
    rw [loop] at h
    split at h
    · rename_i hlen
      cases h
      exact ⟨proto, hI, hlen⟩
    · rename_i hlen
      simp only [] at h
      split at h
      · cases h
      · rename_i ins hsg
        exact ih _ _ r (loop_step_inv sg hs T proto c ins hI (by omega) hsg) h


theorem two_elems (l : List Int) (hlen : l.length ≤ 2) (hnd : l.Pairwise (· < ·))
    (h1 : (1 : Int) ∈ l) (h2 : (2 : Int) ∈ l) : ∀ y ∈ l, y = 1 ∨ y = 2 := by
  intro y hy
  match l, hlen with
  | [], _ => simp at hy
  | [a], _ =>
    simp at h1 h2; omega
  | [a, b], _ =>
    simp at h1 h2 hy
    have := (List.pairwise_cons.mp hnd).1 b (by simp)
    omega

theorem mergeUnique_head_one (r : List Int) (h : ∀ x ∈ r, 1 < x) : (mergeUnique [1, 2] r).head? = some 1 := by
  cases r with
  | nil => simp [mergeUnique]
  | cons x r' =>
    have := h x (by simp)
    rw [mergeUnique]
    simp [this]

/-- **C08 for heuristics (partial correctness for any sound heuristic)** -/
theorem findSequence_ok (sg : Suggest) (hs : Sound sg) (fuel : Nat) (T c : List Int)
    (hT : ∀ x ∈ T, 1 ≤ x) (h : findSequence sg fuel T = some c) :
    IsChain c ∧ ∀ x ∈ T, x ∈ c := by
  unfold findSequence at h
  split at h
  · rename_i hT1
    cases h
    subst hT1
    refine ⟨⟨by simp, rfl, by simp, by simp, ?_⟩, by simp⟩
    intro k hk0 hkl; simp at hkl; omega
  · cases hl : loop sg fuel (sortUniq ([1, 2] ++ T)) [] with
    | none => rw [hl] at h; cases h
    | some r =>
      rw [hl] at h; simp at h; subst h
      have hI0 : LoopInv T (sortUniq ([1, 2] ++ T)) [] := by
        refine ⟨pairwise_sortUniq _, ?_, ?_, ?_, by simp, by simp, by simp, ?_⟩
        · intro x hx
          rw [mem_sortUniq] at hx
          simp at hx
          rcases hx with rfl | rfl | hx
          · omega
          · omega
          · exact hT x hx
        · rw [mem_sortUniq]; simp
        · rw [mem_sortUniq]; simp
        · intro x hx; left; rw [mem_sortUniq]; simp [hx]
      obtain ⟨p', hI, hlen⟩ := loop_inv sg hs T fuel _ _ r hI0 hl
      have hp12 := two_elems p' hlen hI.pasc hI.one hI.two
      have hr1 : ∀ x ∈ r, 2 < x := fun x hx => hI.above x hx 2 hI.two
      have hmemf : ∀ z, (z ∈ p' ∨ z ∈ r) → z ∈ mergeUnique [1, 2] r := by
        intro z hz
        rcases hz with hz | hz
        · rcases hp12 z hz with rfl | rfl
          · exact (mem_mergeUnique _ _ _).2 (Or.inl (by simp))
          · exact (mem_mergeUnique _ _ _).2 (Or.inl (by simp))
        · exact (mem_mergeUnique _ _ _).2 (Or.inr hz)
      constructor
      · apply chain_of_closed
        · exact pairwise_mergeUnique _ _ (by simp) hI.casc
        · intro x hx
          rcases (mem_mergeUnique _ _ _).1 hx with h | h
          · simp at h; omega
          · have := hr1 x h; omega
        · exact mergeUnique_head_one r (fun x hx => by have := hr1 x hx; omega)
        · intro x hx
          rcases (mem_mergeUnique _ _ _).1 hx with h | h
          · simp at h
            rcases h with rfl | rfl
            · left; rfl
            · right
              exact ⟨1, (mem_mergeUnique _ _ _).2 (Or.inl (by simp)), 1, (mem_mergeUnique _ _ _).2 (Or.inl (by simp)), by omega⟩
          · right
            obtain ⟨a, ha, b, hb, hab⟩ := hI.closed x h
            exact ⟨a, hmemf a ha, b, hmemf b hb, hab⟩
      · intro x hx
        exact hmemf x (hI.targets x hx)

end P
