import AC.ProgramTie
import AC.BigintTie
import AC.BigintsTie
/-! # The translated `Chain.IsAscending` / `Chain.Ops` / `Chain.End` equal the hand-written model

`chainOps`, `chainIsAscending`, `chainEnd` of `AC/Gen/ProgramFns.lean` are regenerated from chain.go on
every run.  `Chain.Ops` is the function every validation theorem (C02, and through it C01, C08, C10,
C11) rests on: the model `P.ops` (two-pointer scan on an ascending prefix, quadratic scan otherwise)
is proved equal to the specification `opsSpec` in `AC/OpsEq.lean`; here the translated Go function is
proved equal to the model, for every chain and every position `k < len(c)`. -/
namespace AC.ChainTie
open AC.Gen.Program AC.GoPrim AC.BigPrim AC.ProgramTie P

theorem bCmp_nonneg (a b : Int) : (decide (bCmp a b ≥ 0)) = !(decide (a < b)) := by
  unfold bCmp
  by_cases h : a < b
  · simp [h]
  · by_cases h2 : a = b <;> simp [h, h2]

theorem bCmp_eq_zero (a b : Int) : (bCmp a b == 0) = decide (a = b) := by
  unfold bCmp
  by_cases h : a < b
  · have : a ≠ b := by omega
    simp [h, this]
  · by_cases h2 : a = b <;> simp [h, h2]

theorem bCmp_le_zero (a b : Int) : (decide (bCmp a b ≤ 0)) = decide (a ≤ b) := by
  unfold bCmp
  by_cases h : a < b
  · have : a ≤ b := by omega
    simp [h, this]
  · by_cases h2 : a = b
    · simp [h2]
    · have : ¬ a ≤ b := by omega
      simp [h, h2, this]

theorem idx_sub_one (c : Chain) (i : Nat) (h : 1 ≤ i) : idx c ((i : Int) - 1) = idx c ((i - 1 : Nat) : Int) := by
  congr 1; omega

theorem isAscending_loop_tie (c : Chain) : ∀ (n i : Nat), 1 ≤ i → i + n = c.length →
    chainIsAscending_loop1 n (i : Int) c = some (isAscending.go (at' c (i - 1)) (c.drop i)) := by
  intro n
  induction n with
  | zero =>
    intro i _ hl
    have : c.drop i = [] := by simp; omega
    simp [chainIsAscending_loop1, this, isAscending.go]
  | succ n ih =>
    intro i h1 hl
    have hi : i < c.length := by omega
    have hd : c.drop i = at' c i :: c.drop (i + 1) := by
      rw [List.drop_eq_getElem_cons hi]; simp [at', hi]
    have := ih (i + 1) (by omega) (by omega)
    simp only [chainIsAscending_loop1, idx_sub_one c i h1, idx_at' c (i - 1) (by omega),
      idx_at' c i hi, bind, Option.bind, bCmp_nonneg, hd, isAscending.go]
    by_cases hlt : at' c (i - 1) < at' c i
    · simp only [hlt, decide_true, Bool.not_true, Bool.true_and]
      simpa using this
    · simp [hlt]

theorem isAscending_tie (c : Chain) : chainIsAscending c = some (isAscending c) := by
  unfold chainIsAscending
  cases c with
  | nil => simp [len, isAscending]
  | cons x xs =>
    have h0 : idx (x :: xs) 0 = some x := by simp [idx]
    have hlen : (len (x :: xs) == 0) = false := by simp [len]; omega
    have hloop := isAscending_loop_tie (x :: xs) xs.length 1 (by omega) (by simp; omega)
    simp only [hlen, h0, bind, Option.bind, pure, isAscending]
    by_cases hx : x = 1
    · have : AC.Gen.Bigint.equalInt64 x 1 = true := (AC.BigintTie.equalInt64_iff x 1).2 hx
      simp only [this, Bool.not_true]
      have hl : Int.toNat (len (x :: xs) - 1) = xs.length := by simp [len]
      simp only [hl]
      simp [hx] at hloop ⊢
      simpa [at'] using hloop
    · have : AC.Gen.Bigint.equalInt64 x 1 = false := by
        cases h : AC.Gen.Bigint.equalInt64 x 1
        · rfl
        · exact absurd ((AC.BigintTie.equalInt64_iff x 1).1 h) hx
      simp [this, hx]

theorem twoPtr_loop_tie (c : Chain) (k : Nat) (hk : k < c.length) :
    ∀ (fuel l rp : Nat) (ops : List Op) (s : Int), rp ≤ fuel + l → rp ≤ k →
    chainOps_loop1 fuel c (k : Int) (toGs ops) s (l : Int) ((rp : Int) - 1) =
      some (toGs (ops ++ twoPtr c (at' c k) l rp)) := by
  intro fuel
  induction fuel with
  | zero =>
    intro l rp ops s hf _
    have hc : ¬ ((l : Int) ≤ (rp : Int) - 1) := by omega
    have ht : twoPtr c (at' c k) l rp = [] := by
      cases rp with
      | zero => simp [twoPtr]
      | succ rp => unfold twoPtr; simp; omega
    simp [chainOps_loop1, hc, ht]
  | succ fuel ih =>
    intro l rp ops s hf hrk
    by_cases hc : (l : Int) ≤ (rp : Int) - 1
    · obtain ⟨rp', rfl⟩ : ∃ rp', rp = rp' + 1 := ⟨rp - 1, by omega⟩
      have hl : l ≤ rp' := by omega
      have hr : ((rp' + 1 : Nat) : Int) - 1 = (rp' : Int) := by omega
      have e1 : idx c (l : Int) = some (at' c l) := idx_at' c l (by omega)
      have e2 : idx c (rp' : Int) = some (at' c rp') := idx_at' c rp' (by omega)
      have e3 : idx c (k : Int) = some (at' c k) := idx_at' c k hk
      have hcI : (l : Int) ≤ (rp' : Int) := by omega
      rw [hr]
      unfold twoPtr
      simp only [chainOps_loop1, hcI, e1, e2, e3, decide_true, if_true, bind, Option.bind, bAdd, hl,
        dite_true, pure]
      by_cases hs : at' c l + at' c rp' = at' c k
      · have hb : bCmp (at' c k) (at' c k) = 0 := by simp [bCmp]
        have := ih (l + 1) (rp' + 1) (ops ++ [(l, rp')]) (at' c k) (by omega) hrk
        rw [hr] at this
        push_cast at this
        simp only [hs, hb]
        simpa [toG] using this
      · by_cases hlt : at' c l + at' c rp' < at' c k
        · have hb : bCmp (at' c l + at' c rp') (at' c k) = -1 := by simp [bCmp, hlt]
          have := ih (l + 1) (rp' + 1) ops (at' c l + at' c rp') (by omega) hrk
          rw [hr] at this
          push_cast at this
          simp only [hb, hs, hlt, if_false, if_true]
          simpa using this
        · have hb : bCmp (at' c l + at' c rp') (at' c k) = 1 := by simp [bCmp, hlt, hs]
          have := ih l rp' ops (at' c l + at' c rp') (by omega) (by omega)
          simp only [hb, hs, hlt, if_false]
          simpa using this
    · have ht : twoPtr c (at' c k) l rp = [] := by
        cases rp with
        | zero => simp [twoPtr]
        | succ rp => unfold twoPtr; simp; omega
      simp [chainOps_loop1, hc, ht]

/-- the pairs the inner loop of the quadratic scan adds for a fixed `i`, scanning `j = lo, lo+1, ..` -/
def rowFrom (c : Chain) (k i lo n : Nat) : List Op :=
  ((List.range' lo n).filter (fun j => at' c i + at' c j == at' c k)).map (fun j => (i, j))

theorem quad_inner_tie (c : Chain) (k : Nat) (hk : k < c.length) (i : Nat) :
    ∀ (n j : Nat) (ops : List Op) (s : Int), i ≤ j → j + n = k →
    ∃ s', chainOps_loop3 n (j : Int) c (k : Int) (toGs ops) s (i : Int) =
      some (toGs (ops ++ rowFrom c k i j n), s') := by
  intro n
  induction n with
  | zero => intro j ops s _ _; exact ⟨s, by simp [chainOps_loop3, rowFrom]⟩
  | succ n ih =>
    intro j ops s hij hjk
    have e1 : idx c (i : Int) = some (at' c i) := idx_at' c i (by omega)
    have e2 : idx c (j : Int) = some (at' c j) := idx_at' c j (by omega)
    have e3 : idx c (k : Int) = some (at' c k) := idx_at' c k hk
    simp only [chainOps_loop3, e1, e2, e3, bind, Option.bind, bAdd, bCmp_eq_zero, rowFrom,
      List.range'_succ, List.filter_cons]
    by_cases hs : at' c i + at' c j = at' c k
    · obtain ⟨s', h'⟩ := ih (j + 1) (ops ++ [(i, j)]) (at' c i + at' c j) (by omega) (by omega)
      refine ⟨s', ?_⟩
      push_cast at h'
      simp only [hs, decide_true, if_true, beq_self_eq_true, List.map_cons]
      rw [hs] at h'
      simpa [toG, rowFrom] using h'
    · obtain ⟨s', h'⟩ := ih (j + 1) ops (at' c i + at' c j) (by omega) (by omega)
      refine ⟨s', ?_⟩
      push_cast at h'
      have hb : (at' c i + at' c j == at' c k) = false := by simp [hs]
      simp only [hs, decide_false, hb]
      simpa [rowFrom] using h'

theorem quad_outer_tie (c : Chain) (k : Nat) (hk : k < c.length) :
    ∀ (n i : Nat) (ops : List Op) (s : Int), i + n = k →
    chainOps_loop2 n (i : Int) c (k : Int) (toGs ops) s =
      some (toGs (ops ++ (List.range' i n).flatMap (fun i' => rowFrom c k i' i' (k - i')))) := by
  intro n
  induction n with
  | zero => intro i ops s _; simp [chainOps_loop2]
  | succ n ih =>
    intro i ops s hik
    have hn : Int.toNat ((k : Int) - (i : Int)) = k - i := by omega
    obtain ⟨s', h'⟩ := quad_inner_tie c k hk i (k - i) i ops s (Nat.le_refl _) (by omega)
    have := ih (i + 1) (ops ++ rowFrom c k i i (k - i)) s' (by omega)
    push_cast at this
    simp only [chainOps_loop2, hn, h', bind, Option.bind, List.range'_succ, List.flatMap_cons]
    simpa using this

theorem filter_range_ge (k i : Nat) (hi : i ≤ k) (P : Nat → Bool) :
    (List.range k).filter (fun j => decide (i ≤ j) && P j) = (List.range' i (k - i)).filter P := by
  have hsplit : List.range k = List.range' 0 i ++ List.range' i (k - i) := by
    rw [List.range_eq_range']
    have := List.range'_append (s := 0) (m := i) (n := k - i) (step := 1)
    simp only [Nat.zero_add, Nat.one_mul] at this
    rw [this]; congr 1; omega
  rw [hsplit, List.filter_append]
  have h1 : (List.range' 0 i).filter (fun j => decide (i ≤ j) && P j) = [] := by
    rw [List.filter_eq_nil_iff]
    intro j hj
    simp only [List.mem_range'_1] at hj
    have : ¬ i ≤ j := by omega
    simp [this]
  rw [h1, List.nil_append]
  apply List.filter_congr
  intro j hj
  simp only [List.mem_range'_1] at hj
  have : i ≤ j := by omega
  simp [this]

theorem flatMap_congr' {α β} (f g : α → List β) : ∀ (l : List α), (∀ a ∈ l, f a = g a) →
    l.flatMap f = l.flatMap g := by
  intro l
  induction l with
  | nil => intro _; rfl
  | cons a l ih =>
    intro h
    simp only [List.flatMap_cons]
    rw [h a (by simp), ih (fun b hb => h b (by simp [hb]))]

theorem quadOps_rows (c : Chain) (k : Nat) :
    quadOps c k = (List.range' 0 k).flatMap (fun i => rowFrom c k i i (k - i)) := by
  unfold quadOps rowFrom
  rw [List.range_eq_range']
  apply flatMap_congr'
  intro i hi
  simp only [List.mem_range'_1] at hi
  rw [← List.range_eq_range', filter_range_ge k i (by omega)]

/-- **`Chain.Ops` as translated from chain.go equals the model**, for every chain and every position
    inside it (never a panic, never out of fuel) -/
theorem ops_tie (c : Chain) (k : Nat) (hk : k < c.length) :
    chainOps c (k : Int) = some (toGs (ops c k)) := by
  unfold chainOps ops
  have hsl : sliceTo c (k : Int) = some (c.take k) := by
    have : ¬ ((k : Int) < 0) := by omega
    simp [sliceTo, this]; omega
  simp only [hsl, isAscending_tie, bind, Option.bind, bNewInt]
  by_cases ha : isAscending (c.take k) = true
  · have hf : Int.toNat (((k : Int) - 1 - 0) + 1) = k := by omega
    have := twoPtr_loop_tie c k hk k 0 k [] 0 (by omega) (Nat.le_refl _)
    simp only [ha, if_true, hf]
    simpa using this
  · have hn : Int.toNat ((k : Int) - 0) = k := by omega
    have := quad_outer_tie c k hk k 0 [] 0 (by omega)
    simp only [ha, hn]
    rw [quadOps_rows]
    simpa using this

theorem end_tie (c : Chain) : chainEnd c = c.getLast? := by
  unfold chainEnd
  cases hc : c.length with
  | zero =>
    have : c = [] := List.eq_nil_of_length_eq_zero hc
    subst this; simp [idx, len]
  | succ n =>
    have h1 : len c - 1 = ((n : Nat) : Int) := by simp [len, hc]
    simp only [h1, idx_nat]
    rw [List.getLast?_eq_getElem?, hc]
    simp

/-! ### `Chain.Op`, `Chain.Program`, `Chain.Validate`, `Chain.Produces` -/

/-- the format string of each validation error -/
def errFmt : VErr → String
  | .empty => "chain empty"
  | .notOne => "chain must start with 1"
  | .zero => "chain contains zero"
  | .dup => "chain contains duplicate: %v at positions %d and %d"
  | .noOp _ => "position %d is not the sum of previous entries"

/-- a result of the translated `Program` that reports the error `e` (and returns a nil program) -/
def IsErr (e : VErr) (r : List GOp × Option GoErr) : Prop :=
  r.1 = [] ∧ ∃ args, r.2 = some (errFmt e, args)

theorem op_tie (c : Chain) (k : Nat) (hk : k < c.length) :
    chainOp c (k : Int) = some (match (ops c k).head? with
      | some o => (toG o, none)
      | none => (⟨0, 0⟩, some ("position %d is not the sum of previous entries", [(k : Int)]))) := by
  unfold chainOp
  rw [ops_tie c k hk]
  cases h : ops c k with
  | nil => simp [len, goErr]
  | cons o os =>
    have hne : ¬ (len (toG o :: toGs os) = 0) := by simp [len]; omega
    simp [hne, idx, goNil]

theorem dup_inner_tie (c : Chain) (i : Nat) (hi : i < c.length) :
    ∀ (n j : Nat), j + n = c.length →
    (((c.drop j).contains (at' c i) = true ∧
        ∃ args, chainProgram_loop2 n (j : Int) c (i : Int) = some (Sum.inl ([], some (errFmt .dup, args)))) ∨
     ((c.drop j).contains (at' c i) = false ∧
        chainProgram_loop2 n (j : Int) c (i : Int) = some (Sum.inr ()))) := by
  intro n
  induction n with
  | zero =>
    intro j hj
    have : c.drop j = [] := by simp; omega
    right; simp [this, chainProgram_loop2]
  | succ n ih =>
    intro j hj
    have hjl : j < c.length := by omega
    have hd : c.drop j = at' c j :: c.drop (j + 1) := by
      rw [List.drop_eq_getElem_cons hjl]; simp [at', hjl]
    have e1 : idx c (i : Int) = some (at' c i) := idx_at' c i hi
    have e2 : idx c (j : Int) = some (at' c j) := idx_at' c j hjl
    simp only [chainProgram_loop2, e1, e2, bind, Option.bind, AC.BigintTie.equal_eq, hd, List.contains_cons]
    by_cases heq : at' c i = at' c j
    · left
      refine ⟨by simp [heq], ⟨[at' c j, (i : Int), (j : Int)], ?_⟩⟩
      simp [heq, goErr, errFmt]
    · have := ih (j + 1) (by omega)
      push_cast at this
      have hb : (at' c i == at' c j) = false := by simp [heq]
      simp only [heq, decide_false, hb, Bool.false_or]
      simpa using this

/-- what the translated `Program` returns for an outcome of the model's operation collection -/
def collectOut (p : List Op) : Except VErr (List Op) → List GOp × Option GoErr
  | .ok q => (toGs (p ++ q), none)
  | .error (.noOp m) => ([], some (errFmt (.noOp m), [(m : Int)]))
  | .error _ => ([], none)

theorem collect_loop_tie (c : Chain) : ∀ (n k : Nat) (p : List Op), 1 ≤ k → k + n = c.length →
    chainProgram_loop3 n (k : Int) c (toGs p) =
      some (collectOut p (collect ((List.range' k n).map (fun k' => (ops c k').head?)) k)) := by
  intro n
  induction n with
  | zero => intro k p _ _; simp [chainProgram_loop3, collect, collectOut, goNil]
  | succ n ih =>
    intro k p hk1 hkl
    have hk : k < c.length := by omega
    simp only [chainProgram_loop3, op_tie c k hk, bind, Option.bind, List.range'_succ, List.map_cons]
    cases ho : (ops c k).head? with
    | none => simp [collect, collectOut, errFmt]
    | some o =>
      have := ih (k + 1) (p ++ [o]) (by omega) (by omega)
      push_cast at this
      simp only [Option.isSome_none, Bool.false_eq_true, if_false, collect]
      have hrw : toGs p ++ [toG o] = toGs (p ++ [o]) := by simp
      rw [hrw, this]
      cases collect ((List.range' (k + 1) n).map (fun k' => (ops c k').head?)) (k + 1) with
      | ok q => simp [collectOut]
      | error e => cases e <;> simp [collectOut]

theorem firstOps_eq (c : Chain) :
    firstOps c = (List.range' 1 (c.length - 1)).map (fun k' => (ops c k').head?) := by
  unfold firstOps
  rw [List.range'_eq_map_range, List.map_map]
  apply List.map_congr_left
  intro a _
  simp [Nat.add_comm]

theorem dup_outer_tie (c : Chain) : ∀ (n i : Nat), i + n = c.length →
    ((hasDup (c.drop i) = true ∧ ∃ r, chainProgram_loop1 n (i : Int) c = some r ∧ IsErr .dup r) ∨
     (hasDup (c.drop i) = false ∧
        chainProgram_loop1 n (i : Int) c = chainProgram_loop3 (c.length - 1) 1 c [])) := by
  intro n
  induction n with
  | zero =>
    intro i hi
    have : c.drop i = [] := by simp; omega
    right
    refine ⟨by simp [this, hasDup], ?_⟩
    have hl : Int.toNat (len c - 1) = c.length - 1 := by simp [len]
    simp [chainProgram_loop1, hl]
  | succ n ih =>
    intro i hi
    have hil : i < c.length := by omega
    have hd : c.drop i = at' c i :: c.drop (i + 1) := by
      rw [List.drop_eq_getElem_cons hil]; simp [at', hil]
    have hn : Int.toNat (len c - ((i : Int) + 1)) = c.length - (i + 1) := by simp [len]; omega
    have hin := dup_inner_tie c i hil (c.length - (i + 1)) (i + 1) (by omega)
    push_cast at hin
    simp only [chainProgram_loop1, hn, bind, Option.bind, hd, hasDup]
    rcases hin with ⟨hc, args, hr⟩ | ⟨hc, hr⟩
    · left
      have hm : at' c i ∈ c.drop (i + 1) := by simpa using hc
      refine ⟨by simp [hm], ([], some (errFmt .dup, args)), ?_, ⟨rfl, args, rfl⟩⟩
      rw [hr]; rfl
    · rw [hr]
      have := ih (i + 1) (by omega)
      push_cast at this
      simp only [hc, Bool.false_or]
      simpa using this

theorem collect_error_noOp : ∀ (l : List (Option Op)) (k : Nat) (e : VErr), collect l k = .error e →
    ∃ m, e = .noOp m := by
  intro l
  induction l with
  | nil => intro k e h; simp [collect] at h
  | cons a l ih =>
    intro k e h
    cases a with
    | none => simp only [collect] at h; cases h; exact ⟨k, rfl⟩
    | some o =>
      simp only [collect] at h
      cases hc : collect l (k + 1) with
      | ok p => rw [hc] at h; cases h
      | error e' => rw [hc] at h; cases h; exact ih (k + 1) _ hc

/-- **`Chain.Program` as translated from chain.go equals the model**: it never panics; on a valid
    chain it returns the model's program and a nil error, otherwise a nil program and the error
    the model reports (identified by its format string) -/
theorem program_tie (c : Chain) : ∃ r, chainProgram c = some r ∧
    (match program c with
     | .ok p => r = (toGs p, none)
     | .error e => IsErr e r) := by
  cases c with
  | nil =>
    have hp : program [] = .error .empty := by simp [program]
    rw [hp]
    exact ⟨([], some (errFmt .empty, [])), by simp [chainProgram, len, goErr, errFmt], rfl, [], rfl⟩
  | cons x xs =>
    have hlen : (len (x :: xs) == 0) = false := by simp [len]; omega
    have h0 : idx (x :: xs) 0 = some x := by simp [idx]
    have hcmp : (bCmp x (bNewInt 1) != 0) = (at' (x :: xs) 0 != 1) := by
      have := bCmp_eq_zero x 1
      simp only [bne, bNewInt, this, at', List.getD_cons_zero]
      by_cases hx : x = 1 <;> simp [hx]
    have hz : bigintsContains AC.Gen.Bigint.zero (x :: xs) = some ((x :: xs).contains 0) :=
      AC.BigintsTie.contains_tie _ _
    have hN : Int.toNat (len (x :: xs) - 0) = (x :: xs).length := by simp [len]
    unfold chainProgram
    simp only [hlen, h0, hcmp, hz, hN, bind, Option.bind, Bool.false_eq_true, if_false]
    by_cases h1 : (at' (x :: xs) 0 != 1) = true
    · have hp : program (x :: xs) = .error .notOne := by simp [program, h1]
      rw [hp]
      exact ⟨([], some (errFmt .notOne, [])), by simp [h1, goErr, errFmt], rfl, [], rfl⟩
    · by_cases h2 : (x :: xs).contains 0 = true
      · have hp : program (x :: xs) = .error .zero := by
          unfold program; rw [if_neg (by simp), if_neg h1, if_pos h2]
        rw [hp]
        refine ⟨([], some (errFmt .zero, [])), ?_, rfl, [], rfl⟩
        rw [if_neg h1, if_pos h2]; rfl
      · rw [if_neg h1, if_neg h2]
        rcases dup_outer_tie (x :: xs) (x :: xs).length 0 (by simp) with ⟨hd, r, hr, hE⟩ | ⟨hd, hr⟩
        · simp only [List.drop_zero] at hd
          have hp : program (x :: xs) = .error .dup := by
            unfold program; rw [if_neg (by simp), if_neg h1, if_neg h2, if_pos hd]
          rw [hp]
          exact ⟨r, by simpa using hr, hE⟩
        · simp only [List.drop_zero] at hd
          have hcl := collect_loop_tie (x :: xs) ((x :: xs).length - 1) 1 [] (by omega) (by simp; omega)
          rw [← firstOps_eq] at hcl
          have hp : program (x :: xs) = collect (firstOps (x :: xs)) 1 := by
            unfold program; rw [if_neg (by simp), if_neg h1, if_neg h2, if_neg (by simp [hd])]
          rw [hp]
          have hr' : chainProgram_loop1 (x :: xs).length 0 (x :: xs) =
              chainProgram_loop3 ((x :: xs).length - 1) 1 (x :: xs) [] := by simpa using hr
          have hcl' : chainProgram_loop3 ((x :: xs).length - 1) 1 (x :: xs) [] =
              some (collectOut [] (collect (firstOps (x :: xs)) 1)) := by simpa using hcl
          refine ⟨collectOut [] (collect (firstOps (x :: xs)) 1), by rw [hr', hcl'], ?_⟩
          cases hcol : collect (firstOps (x :: xs)) 1 with
          | ok p => simp [collectOut]
          | error e =>
            obtain ⟨m, rfl⟩ := collect_error_noOp _ _ _ hcol
            exact ⟨rfl, [(m : Int)], rfl⟩

theorem validate_tie (c : Chain) :
    ∃ e, chainValidate c = some e ∧ (e = none ↔ validate c = true) := by
  obtain ⟨r, hr, hm⟩ := program_tie c
  refine ⟨r.2, by simp [chainValidate, hr], ?_⟩
  unfold validate
  cases hp : program c with
  | ok p => rw [hp] at hm; simp [hm]
  | error e => rw [hp] at hm; obtain ⟨_, args, h2⟩ := hm; simp [h2]

theorem produces_tie (c : Chain) (t : Int) :
    ∃ e, chainProduces c t = some e ∧ (e = none ↔ produces c t = true) := by
  obtain ⟨e, he, hv⟩ := validate_tie c
  unfold chainProduces produces
  simp only [he, bind, Option.bind]
  cases e with
  | some err =>
    refine ⟨some err, by simp, ?_⟩
    have : validate c = false := by
      cases h : validate c
      · rfl
      · exact absurd (hv.2 h) (by simp)
    simp [this]
  | none =>
    have hval : validate c = true := hv.1 rfl
    have hne : c ≠ [] := by
      intro h; subst h; simp [validate, program] at hval
    obtain ⟨l, hl⟩ := List.getLast?_isSome.2 hne |> Option.isSome_iff_exists.1
    have hend : chainEnd c = some l := by rw [end_tie, hl]
    have hb := bCmp_eq_zero l t
    simp only [Option.isSome_none, Bool.false_eq_true, if_false, hend, bne, hb, hval, Bool.true_and, hl]
    by_cases hlt : l = t
    · exact ⟨none, by simp [hlt, goNil], by simp [hlt]⟩
    · exact ⟨some ("chain does not end with target", []), by simp [hlt, goErr], by simp [hlt]⟩

/-! ### `Chain.Superset`, `Product`, `Plus` -/

theorem superset_loop_tie (c : Chain) : ∀ (ts ts0 : List Int),
    ∃ e, chainSuperset_loop1 ts c ts0 = some e ∧ (e = none ↔ ts.all (fun t => c.contains t) = true) := by
  intro ts
  induction ts with
  | nil => intro ts0; exact ⟨none, by simp [chainSuperset_loop1, goNil], by simp⟩
  | cons t ts ih =>
    intro ts0
    by_cases h : c.contains t = true
    · obtain ⟨e, h1, h2⟩ := ih ts0
      refine ⟨e, ?_, ?_⟩
      · simp only [chainSuperset_loop1, AC.BigintsTie.contains_tie, bind, Option.bind, h, Bool.not_true,
          Bool.false_eq_true, if_false]
        exact h1
      · simp only [List.all_cons, h, Bool.true_and]; exact h2
    · have hf : c.contains t = false := by
        cases hh : c.contains t
        · rfl
        · exact absurd hh h
      refine ⟨some ("chain does not contain %v", [t]), ?_, ?_⟩
      · simp only [chainSuperset_loop1, AC.BigintsTie.contains_tie, bind, Option.bind, hf, Bool.not_false,
          if_true, goErr]; rfl
      · simp only [List.all_cons, hf, Bool.false_and]; simp

theorem superset_tie (c : Chain) (ts : List Int) :
    ∃ e, chainSuperset c ts = some e ∧ (e = none ↔ superset c ts = true) := by
  obtain ⟨e, he, hv⟩ := validate_tie c
  unfold chainSuperset superset
  simp only [he, bind, Option.bind]
  cases e with
  | some err =>
    refine ⟨some err, by simp, ?_⟩
    have : validate c = false := by
      cases h : validate c
      · rfl
      · exact absurd (hv.2 h) (by simp)
    simp [this]
  | none =>
    have hval : validate c = true := hv.1 rfl
    obtain ⟨e, h1, h2⟩ := superset_loop_tie c ts ts
    refine ⟨e, by simp [h1], ?_⟩
    simp only [hval, Bool.true_and]; exact h2

theorem product_loop_tie (last : Int) : ∀ (xs a b c : List Int),
    fnProduct_loop1 xs a b c last = some (c ++ xs.map (last * ·)) := by
  intro xs
  induction xs with
  | nil => intro a b c; simp [fnProduct_loop1]
  | cons x xs ih => intro a b c; simp [fnProduct_loop1, bMul, ih]

theorem product_tie (a b : Chain) : fnProduct a b = PX.productX a b := by
  unfold fnProduct PX.productX
  simp only [chainClone, AC.BigintsTie.clone_tie, bind, Option.bind, pure, end_tie]
  cases a with
  | nil => simp
  | cons x xs =>
    cases b with
    | nil =>
      obtain ⟨l, hl⟩ := Option.isSome_iff_exists.1 (List.getLast?_isSome.2 (List.cons_ne_nil x xs))
      simp [sliceFrom, hl]
    | cons y ys =>
      obtain ⟨l, hl⟩ := Option.isSome_iff_exists.1 (List.getLast?_isSome.2 (List.cons_ne_nil x xs))
      have hsl : sliceFrom (y :: ys) 1 = some ys := by simp [sliceFrom]
      have hld : (x :: xs).getLastD 1 = l := by
        rw [List.getLastD_eq_getLast?, hl]; rfl
      simp [hl, hsl, product_loop_tie, product, hld]

theorem plus_tie (a : Chain) (x : Int) : fnPlus a x = PX.plusX a x := by
  unfold fnPlus PX.plusX
  simp only [chainClone, AC.BigintsTie.clone_tie, bind, Option.bind, pure, end_tie]
  cases a with
  | nil => simp
  | cons y ys =>
    obtain ⟨l, hl⟩ := Option.isSome_iff_exists.1 (List.getLast?_isSome.2 (List.cons_ne_nil y ys))
    have hld : (y :: ys).getLastD 1 = l := by
      rw [List.getLastD_eq_getLast?, hl]; rfl
    simp [hl, bAdd, plus, hld]
