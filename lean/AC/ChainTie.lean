import AC.ProgramTie
import AC.BigintTie
/-! # The translated `Chain.IsAscending` / `Chain.Ops` / `Chain.End` equal the hand-written model

`chainOps`, `chainIsAscending`, `chainEnd` of `AC/Gen/ProgramFns.lean` are regenerated from chain.go on
every run.  `Chain.Ops` is the function every validation theorem (C02, and through it C01, C08, C10,
C11) rests on: the model `P.ops` (two-pointer scan on an ascending prefix, quadratic scan otherwise)
is proved equal to the specification `opsSpec` in `AC/OpsEq.lean`; here the translated Go function is
proved equal to the model, for every chain and every position `k < len(c)`. -/
namespace AC.ChainTie
open AC.Gen.Program AC.GoPrim AC.BigPrim AC.ProgramTie P

theorem bCmp_nonneg (a b : Int) : (decide (bCmp a b ≥ 0)) = !(decide (a < b)) := by
  unfold bCmp
  by_cases h : a < b
  · simp [h]
  · by_cases h2 : a = b <;> simp [h, h2]

theorem bCmp_eq_zero (a b : Int) : (bCmp a b == 0) = decide (a = b) := by
  unfold bCmp
  by_cases h : a < b
  · have : a ≠ b := by omega
    simp [h, this]
  · by_cases h2 : a = b <;> simp [h, h2]

theorem bCmp_le_zero (a b : Int) : (decide (bCmp a b ≤ 0)) = decide (a ≤ b) := by
  unfold bCmp
  by_cases h : a < b
  · have : a ≤ b := by omega
    simp [h, this]
  · by_cases h2 : a = b
    · simp [h2]
    · have : ¬ a ≤ b := by omega
      simp [h, h2, this]

theorem idx_sub_one (c : Chain) (i : Nat) (h : 1 ≤ i) : idx c ((i : Int) - 1) = idx c ((i - 1 : Nat) : Int) := by
  congr 1; omega

theorem isAscending_loop_tie (c : Chain) : ∀ (n i : Nat), 1 ≤ i → i + n = c.length →
    chainIsAscending_loop1 n (i : Int) c = some (isAscending.go (at' c (i - 1)) (c.drop i)) := by
  intro n
  induction n with
  | zero =>
    intro i _ hl
    have : c.drop i = [] := by simp; omega
    simp [chainIsAscending_loop1, this, isAscending.go]
  | succ n ih =>
    intro i h1 hl
    have hi : i < c.length := by omega
    have hd : c.drop i = at' c i :: c.drop (i + 1) := by
      rw [List.drop_eq_getElem_cons hi]; simp [at', hi]
    have := ih (i + 1) (by omega) (by omega)
    simp only [chainIsAscending_loop1, idx_sub_one c i h1, idx_at' c (i - 1) (by omega),
      idx_at' c i hi, bind, Option.bind, bCmp_nonneg, hd, isAscending.go]
    by_cases hlt : at' c (i - 1) < at' c i
    · simp only [hlt, decide_true, Bool.not_true, Bool.true_and]
      simpa using this
    · simp [hlt]

theorem isAscending_tie (c : Chain) : chainIsAscending c = some (isAscending c) := by
  unfold chainIsAscending
  cases c with
  | nil => simp [len, isAscending]
  | cons x xs =>
    have h0 : idx (x :: xs) 0 = some x := by simp [idx]
    have hlen : (len (x :: xs) == 0) = false := by simp [len]; omega
    have hloop := isAscending_loop_tie (x :: xs) xs.length 1 (by omega) (by simp; omega)
    simp only [hlen, h0, bind, Option.bind, pure, isAscending]
    by_cases hx : x = 1
    · have : AC.Gen.Bigint.equalInt64 x 1 = true := (AC.BigintTie.equalInt64_iff x 1).2 hx
      simp only [this, Bool.not_true]
      have hl : Int.toNat (len (x :: xs) - 1) = xs.length := by simp [len]
      simp only [hl]
      simp [hx] at hloop ⊢
      simpa [at'] using hloop
    · have : AC.Gen.Bigint.equalInt64 x 1 = false := by
        cases h : AC.Gen.Bigint.equalInt64 x 1
        · rfl
        · exact absurd ((AC.BigintTie.equalInt64_iff x 1).1 h) hx
      simp [this, hx]

theorem twoPtr_loop_tie (c : Chain) (k : Nat) (hk : k < c.length) :
    ∀ (fuel l rp : Nat) (ops : List Op) (s : Int), rp ≤ fuel + l → rp ≤ k →
    chainOps_loop1 fuel c (k : Int) (toGs ops) s (l : Int) ((rp : Int) - 1) =
      some (toGs (ops ++ twoPtr c (at' c k) l rp)) := by
  intro fuel
  induction fuel with
  | zero =>
    intro l rp ops s hf _
    have hc : ¬ ((l : Int) ≤ (rp : Int) - 1) := by omega
    have ht : twoPtr c (at' c k) l rp = [] := by
      cases rp with
      | zero => simp [twoPtr]
      | succ rp => unfold twoPtr; simp; omega
    simp [chainOps_loop1, hc, ht]
  | succ fuel ih =>
    intro l rp ops s hf hrk
    by_cases hc : (l : Int) ≤ (rp : Int) - 1
    · obtain ⟨rp', rfl⟩ : ∃ rp', rp = rp' + 1 := ⟨rp - 1, by omega⟩
      have hl : l ≤ rp' := by omega
      have hr : ((rp' + 1 : Nat) : Int) - 1 = (rp' : Int) := by omega
      have e1 : idx c (l : Int) = some (at' c l) := idx_at' c l (by omega)
      have e2 : idx c (rp' : Int) = some (at' c rp') := idx_at' c rp' (by omega)
      have e3 : idx c (k : Int) = some (at' c k) := idx_at' c k hk
      have hcI : (l : Int) ≤ (rp' : Int) := by omega
      rw [hr]
      unfold twoPtr
      simp only [chainOps_loop1, hcI, e1, e2, e3, decide_true, if_true, bind, Option.bind, bAdd, hl,
        dite_true, pure]
      by_cases hs : at' c l + at' c rp' = at' c k
      · have hb : bCmp (at' c k) (at' c k) = 0 := by simp [bCmp]
        have := ih (l + 1) (rp' + 1) (ops ++ [(l, rp')]) (at' c k) (by omega) hrk
        rw [hr] at this
        push_cast at this
        simp only [hs, hb]
        simpa [toG] using this
      · by_cases hlt : at' c l + at' c rp' < at' c k
        · have hb : bCmp (at' c l + at' c rp') (at' c k) = -1 := by simp [bCmp, hlt]
          have := ih (l + 1) (rp' + 1) ops (at' c l + at' c rp') (by omega) hrk
          rw [hr] at this
          push_cast at this
          simp only [hb, hs, hlt, if_false, if_true]
          simpa using this
        · have hb : bCmp (at' c l + at' c rp') (at' c k) = 1 := by simp [bCmp, hlt, hs]
          have := ih l rp' ops (at' c l + at' c rp') (by omega) (by omega)
          simp only [hb, hs, hlt, if_false]
          simpa using this
    · have ht : twoPtr c (at' c k) l rp = [] := by
        cases rp with
        | zero => simp [twoPtr]
        | succ rp => unfold twoPtr; simp; omega
      simp [chainOps_loop1, hc, ht]

/-- the pairs the inner loop of the quadratic scan adds for a fixed `i`, scanning `j = lo, lo+1, ..` -/
def rowFrom (c : Chain) (k i lo n : Nat) : List Op :=
  ((List.range' lo n).filter (fun j => at' c i + at' c j == at' c k)).map (fun j => (i, j))

theorem quad_inner_tie (c : Chain) (k : Nat) (hk : k < c.length) (i : Nat) :
    ∀ (n j : Nat) (ops : List Op) (s : Int), i ≤ j → j + n = k →
    ∃ s', chainOps_loop3 n (j : Int) c (k : Int) (toGs ops) s (i : Int) =
      some (toGs (ops ++ rowFrom c k i j n), s') := by
  intro n
  induction n with
  | zero => intro j ops s _ _; exact ⟨s, by simp [chainOps_loop3, rowFrom]⟩
  | succ n ih =>
    intro j ops s hij hjk
    have e1 : idx c (i : Int) = some (at' c i) := idx_at' c i (by omega)
    have e2 : idx c (j : Int) = some (at' c j) := idx_at' c j (by omega)
    have e3 : idx c (k : Int) = some (at' c k) := idx_at' c k hk
    simp only [chainOps_loop3, e1, e2, e3, bind, Option.bind, bAdd, bCmp_eq_zero, rowFrom,
      List.range'_succ, List.filter_cons]
    by_cases hs : at' c i + at' c j = at' c k
    · obtain ⟨s', h'⟩ := ih (j + 1) (ops ++ [(i, j)]) (at' c i + at' c j) (by omega) (by omega)
      refine ⟨s', ?_⟩
      push_cast at h'
      simp only [hs, decide_true, if_true, beq_self_eq_true, List.map_cons]
      rw [hs] at h'
      simpa [toG, rowFrom] using h'
    · obtain ⟨s', h'⟩ := ih (j + 1) ops (at' c i + at' c j) (by omega) (by omega)
      refine ⟨s', ?_⟩
      push_cast at h'
      have hb : (at' c i + at' c j == at' c k) = false := by simp [hs]
      simp only [hs, decide_false, hb]
      simpa [rowFrom] using h'

theorem quad_outer_tie (c : Chain) (k : Nat) (hk : k < c.length) :
    ∀ (n i : Nat) (ops : List Op) (s : Int), i + n = k →
    chainOps_loop2 n (i : Int) c (k : Int) (toGs ops) s =
      some (toGs (ops ++ (List.range' i n).flatMap (fun i' => rowFrom c k i' i' (k - i')))) := by
  intro n
  induction n with
  | zero => intro i ops s _; simp [chainOps_loop2]
  | succ n ih =>
    intro i ops s hik
    have hn : Int.toNat ((k : Int) - (i : Int)) = k - i := by omega
    obtain ⟨s', h'⟩ := quad_inner_tie c k hk i (k - i) i ops s (Nat.le_refl _) (by omega)
    have := ih (i + 1) (ops ++ rowFrom c k i i (k - i)) s' (by omega)
    push_cast at this
    simp only [chainOps_loop2, hn, h', bind, Option.bind, List.range'_succ, List.flatMap_cons]
    simpa using this

theorem filter_range_ge (k i : Nat) (hi : i ≤ k) (P : Nat → Bool) :
    (List.range k).filter (fun j => decide (i ≤ j) && P j) = (List.range' i (k - i)).filter P := by
  have hsplit : List.range k = List.range' 0 i ++ List.range' i (k - i) := by
    rw [List.range_eq_range']
    have := List.range'_append (s := 0) (m := i) (n := k - i) (step := 1)
    simp only [Nat.zero_add, Nat.one_mul] at this
    rw [this]; congr 1; omega
  rw [hsplit, List.filter_append]
  have h1 : (List.range' 0 i).filter (fun j => decide (i ≤ j) && P j) = [] := by
    rw [List.filter_eq_nil_iff]
    intro j hj
    simp only [List.mem_range'_1] at hj
    have : ¬ i ≤ j := by omega
    simp [this]
  rw [h1, List.nil_append]
  apply List.filter_congr
  intro j hj
  simp only [List.mem_range'_1] at hj
  have : i ≤ j := by omega
  simp [this]

theorem flatMap_congr' {α β} (f g : α → List β) : ∀ (l : List α), (∀ a ∈ l, f a = g a) →
    l.flatMap f = l.flatMap g := by
  intro l
  induction l with
  | nil => intro _; rfl
  | cons a l ih =>
    intro h
    simp only [List.flatMap_cons]
    rw [h a (by simp), ih (fun b hb => h b (by simp [hb]))]

theorem quadOps_rows (c : Chain) (k : Nat) :
    quadOps c k = (List.range' 0 k).flatMap (fun i => rowFrom c k i i (k - i)) := by
  unfold quadOps rowFrom
  rw [List.range_eq_range']
  apply flatMap_congr'
  intro i hi
  simp only [List.mem_range'_1] at hi
  rw [← List.range_eq_range', filter_range_ge k i (by omega)]

/-- **`Chain.Ops` as translated from chain.go equals the model**, for every chain and every position
    inside it (never a panic, never out of fuel) -/
theorem ops_tie (c : Chain) (k : Nat) (hk : k < c.length) :
    chainOps c (k : Int) = some (toGs (ops c k)) := by
  unfold chainOps ops
  have hsl : sliceTo c (k : Int) = some (c.take k) := by
    have : ¬ ((k : Int) < 0) := by omega
    simp [sliceTo, this]; omega
  simp only [hsl, isAscending_tie, bind, Option.bind, bNewInt]
  by_cases ha : isAscending (c.take k) = true
  · have hf : Int.toNat (((k : Int) - 1 - 0) + 1) = k := by omega
    have := twoPtr_loop_tie c k hk k 0 k [] 0 (by omega) (Nat.le_refl _)
    simp only [ha, if_true, hf]
    simpa using this
  · have hn : Int.toNat ((k : Int) - 0) = k := by omega
    have := quad_outer_tie c k hk k 0 [] 0 (by omega)
    simp only [ha, hn]
    rw [quadOps_rows]
    simpa using this

theorem end_tie (c : Chain) : chainEnd c = c.getLast? := by
  unfold chainEnd
  cases hc : c.length with
  | zero =>
    have : c = [] := List.eq_nil_of_length_eq_zero hc
    subst this; simp [idx, len]
  | succ n =>
    have h1 : len c - 1 = ((n : Nat) : Int) := by simp [len, hc]
    simp only [h1, idx_nat]
    rw [List.getLast?_eq_getElem?, hc]
    simp
