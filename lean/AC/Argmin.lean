/-! C14 prototype: the best-of selection of `search.Execute` (strict `<`, first wins). -/
namespace P.Argmin

/-- state: (best index, minimal cost so far or none for +∞), scanning with running index -/
def step (st : Nat × Option Int) (ic : Nat × Int) : Nat × Option Int :=
  match st.2 with
  | none => (ic.1, some ic.2)
  | some m => if ic.2 < m then (ic.1, some ic.2) else st

def scan (costs : List Int) : Nat × Option Int :=
  ((List.range costs.length).zip costs).foldl step (0, none)

theorem foldl_spec : ∀ (l : List (Nat × Int)) (b : Nat) (m : Int),
    let r := l.foldl step (b, some m)
    ∃ m', r.2 = some m' ∧ m' ≤ m ∧ (∀ ic ∈ l, m' ≤ ic.2) ∧
      ((r.1 = b ∧ m' = m ∧ ∀ ic ∈ l, m ≤ ic.2) ∨
       (∃ pre ic post, l = pre ++ ic :: post ∧ r.1 = ic.1 ∧ m' = ic.2 ∧ (∀ jc ∈ pre, m' < jc.2) ∧ m' < m)) := by
  intro l
  induction l with
  | nil => intro b m; exact ⟨m, rfl, Int.le_refl _, by simp, Or.inl ⟨rfl, rfl, by simp⟩⟩
  | cons ic r ih =>
    intro b m
    simp only [List.foldl_cons, step]
    by_cases hlt : ic.2 < m
    · simp only [hlt, if_true]
      obtain ⟨m', h1, h2, h3, h4⟩ := ih ic.1 ic.2
      refine ⟨m', h1, by omega, ?_, ?_⟩
      · intro jc hj
        rcases List.mem_cons.mp hj with rfl | hj
        · exact h2
        · exact h3 jc hj
      · right
        rcases h4 with ⟨e1, e2, e3⟩ | ⟨pre, jc, post, e1, e2, e3, e4, e5⟩
        · exact ⟨[], ic, r, rfl, e1, e2, by simp, by omega⟩
        · refine ⟨ic :: pre, jc, post, by simp [e1], e2, e3, ?_, by omega⟩
          intro kc hk
          rcases List.mem_cons.mp hk with rfl | hk
          · omega
          · exact e4 kc hk
    · simp only [hlt, if_false]
      obtain ⟨m', h1, h2, h3, h4⟩ := ih b m
      refine ⟨m', h1, h2, ?_, ?_⟩
      · intro jc hj
        rcases List.mem_cons.mp hj with rfl | hj
        · omega
        · exact h3 jc hj
      · rcases h4 with ⟨e1, e2, e3⟩ | ⟨pre, jc, post, e1, e2, e3, e4, e5⟩
        · left
          refine ⟨e1, e2, ?_⟩
          intro jc hj
          rcases List.mem_cons.mp hj with rfl | hj
          · omega
          · exact e3 jc hj
        · right
          refine ⟨ic :: pre, jc, post, by simp [e1], e2, e3, ?_, e5⟩
          intro kc hk
          rcases List.mem_cons.mp hk with rfl | hk
          · omega
          · exact e4 kc hk

/-- **the reported cost is the minimum and the chosen result is the first that attains it** -/
theorem scan_min (c0 : Int) (rest : List Int) :
    ∃ m, (scan (c0 :: rest)).2 = some m ∧ (∀ c ∈ c0 :: rest, m ≤ c) ∧ m ∈ c0 :: rest := by
  unfold scan
  simp only [List.length_cons, List.range_succ_eq_map, List.zip_cons_cons, List.foldl_cons, step]
  obtain ⟨m', h1, h2, h3, h4⟩ := foldl_spec (((List.range rest.length).map Nat.succ).zip rest) 0 c0
  refine ⟨m', h1, ?_, ?_⟩
  · intro c hc
    rcases List.mem_cons.mp hc with rfl | hc
    · exact h2
    · obtain ⟨i, hi, _⟩ := List.getElem_of_mem hc
      have : ∃ ic ∈ ((List.range rest.length).map Nat.succ).zip rest, ic.2 = c := by
        obtain ⟨i, hi, he⟩ := List.getElem_of_mem hc
        refine ⟨(i + 1, c), ?_, rfl⟩
        apply List.mem_iff_getElem.mpr
        refine ⟨i, by simp; omega, ?_⟩
        simp [he]
      obtain ⟨ic, hic, rfl⟩ := this
      exact h3 ic hic
  · rcases h4 with ⟨_, e2, _⟩ | ⟨pre, jc, post, e1, _, e3, _, _⟩
    · simp [e2]
    · have : jc ∈ ((List.range rest.length).map Nat.succ).zip rest := by rw [e1]; simp
      have := (List.of_mem_zip this).2
      rw [e3]; exact List.mem_cons_of_mem _ this

end P.Argmin
