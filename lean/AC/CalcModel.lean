import AC.CalcEval
/-! # C13: executable model of `internal/calc/calc.go`

Mirrors the Go code function by function:

* `number`   — `calc.number` + `big.Int.SetString(·, 0)` on the slice the scanner hands over
               (optional `-`; `0b`/`0x` prefix selects the digit class, lower-case hex only; otherwise
               decimal digits, where a leading `0` followed by more digits means **octal**, so `017 = 15`
               and `08` is an error; ``, `-`, `0x`, `0b` are errors);
* `popForE`  — `yard.operator` (pop rule `P.YP.stop`, tied to the generated table by `popTable_ok`);
* `finishE`  — `yard.result`;  `evalLoop`/`eval` — `calc.Eval` (only `' '` is skipped).

Division by zero is an explicit outcome (`Outcome.divzero`): `yard.apply` returns
`errors.New("division by zero")` when the operator is marked `divisor` and its second operand is 0
(before the fix F4: the panic of `big.Int.Div` at the same point). It is raised at the moment the
division is applied — never Lean's `x / 0 = 0`.

The machine is generic in the way an operator application can halt (`ε`), so that the driver can run
the *same* machine with an extra "exponent too large for the runtime" halt; the model proper is the
instance `applyE` (`ε = DivZero`). -/
namespace AC.Calc
open P.YP (Bop stop ipow opOfChar)

/-- result of a machine run: a value, a Go `error`, or a halt inside an operator application -/
inductive R (ε : Type) (α : Type) where
  | ok (a : α)
  | err
  | halt (e : ε)
deriving Repr, DecidableEq

inductive DivZero | divzero deriving Repr, DecidableEq

/-- outcome of `calc.Eval`: `ok v` (value, nil), `err` (nil, any other error),
    `divzero` (nil, the error "division by zero" of `yard.apply`) -/
abbrev Outcome := R DivZero Int
@[match_pattern] abbrev Outcome.divzero : Outcome := R.halt DivZero.divzero

/-- the `divisor` field of the `operators` table: the second operand must be non-zero -/
def isDivisor : Bop → Bool | .div => true | _ => false

/-- the `apply` functions of the `operators` table: `Exp(x, y, nil)` (1 for `y ≤ 0`), `Mul`,
    `Div` (Euclidean), `Add`, `Sub` -/
def applyV : Bop → Int → Int → Int
  | .pow, x, y => ipow x y
  | .mul, x, y => x * y
  | .div, x, y => Int.ediv x y
  | .add, x, y => x + y
  | .sub, x, y => x - y

/-- the arithmetic part of `yard.apply`: the divisor check, then the operator's `apply` -/
def applyE (o : Bop) (x y : Int) : Except DivZero Int :=
  if isDivisor o && y == 0 then .error .divzero else .ok (applyV o x y)

section machine
variable {ε : Type} (ap : Bop → Int → Int → Except ε Int)

/-- `yard.operator` (without the final push): stacks are top-first -/
def popForE (o : Bop) : List Int → List Bop → R ε (List Int × List Bop)
  | vs, [] => .ok (vs, [])
  | vs, t :: ts =>
    if stop t o then .ok (vs, t :: ts)
    else match vs with
      | b :: a :: rest =>
        match ap t a b with
        | .ok z => popForE o (z :: rest) ts
        | .error e => .halt e
      | _ => .err                                   -- "too few operands"

/-- `yard.result` -/
def finishE : List Int → List Bop → R ε Int
  | [v], [] => .ok v
  | _, [] => .err                                   -- "wrong operand count"
  | b :: a :: rest, t :: ts =>
    match ap t a b with
    | .ok z => finishE (z :: rest) ts
    | .error e => .halt e
  | _, _ :: _ => .err                               -- "too few operands"
end machine

/-! ## the literal scanner -/
def isBin (c : Char) : Bool := c == '0' || c == '1'
def isHex (c : Char) : Bool := c.isDigit || (c.val ≥ 97 && c.val ≤ 102)
def isOct (c : Char) : Bool := c.val ≥ 48 && c.val ≤ 55
/-- value of a digit character `0-9a-f` -/
def digVal (c : Char) : Nat := if c.isDigit then c.toNat - 48 else c.toNat - 87
def valOf (b : Nat) (ds : List Char) : Nat := ds.foldl (fun a c => b * a + digVal c) 0
def sgn (neg : Bool) (v : Nat) : Int := if neg then -(v : Int) else v

/-- after a `0b`/`0x` prefix: at least one digit of the class -/
def prefixed (neg : Bool) (base : Nat) (p : Char → Bool) (r : List Char) : Option (Int × List Char) :=
  let ds := r.takeWhile p
  if ds.isEmpty then none else some (sgn neg (valOf base ds), r.dropWhile p)

/-- no prefix: a run of decimal digits; base-0 `SetString` reads a leading `0` followed by more
    digits as octal and rejects the digits 8 and 9 there -/
def unprefixed (neg : Bool) (b1 : List Char) : Option (Int × List Char) :=
  let rest := b1.dropWhile Char.isDigit
  match b1.takeWhile Char.isDigit with
  | [] => none
  | ['0'] => some (0, rest)
  | '0' :: ds => if ds.all isOct then some (sgn neg (valOf 8 ds), rest) else none
  | ds => some (sgn neg (valOf 10 ds), rest)

/-- `calc.number` after the optional sign: `bytes.HasPrefix(b[i:], "0b")`, then `"0x"`, else decimal -/
def numberBody (neg : Bool) (b1 : List Char) : Option (Int × List Char) :=
  if ['0', 'b'].isPrefixOf b1 then prefixed neg 2 isBin (b1.drop 2)
  else if ['0', 'x'].isPrefixOf b1 then prefixed neg 16 isHex (b1.drop 2)
  else unprefixed neg b1

/-- `calc.number` -/
def number (b : List Char) : Option (Int × List Char) :=
  match b with
  | '-' :: r => numberBody true r
  | _ => numberBody false b

/-! ## `calc.Eval` -/
section machine
variable {ε : Type} (ap : Bop → Int → Int → Except ε Int)

/-- the loop of `Eval`: fuel, `operand` flag, operand stack, operator stack, remaining input.
    Every iteration consumes at least one character, so `length + 1` fuel is never exhausted. -/
def evalLoop : Nat → Bool → List Int → List Bop → List Char → R ε Int
  | 0, _, _, _, _ => .err
  | _+1, _, vs, os, [] => finishE ap vs os
  | f+1, ex, vs, os, c :: r =>
    if c = ' ' then evalLoop f ex vs os r
    else if ex then
      match number (c :: r) with
      | none => .err                                -- "expected number"
      | some (x, rest) => evalLoop f false (x :: vs) os rest
    else
      match opOfChar c with
      | none => .err                                -- "expected operator"
      | some o =>
        match popForE ap o vs os with
        | .ok (vs', os') => evalLoop f true vs' (o :: os') r
        | .err => .err
        | .halt e => .halt e

def evalWith (s : List Char) : R ε Int := evalLoop ap (s.length + 1) true [] [] s

/-- the same machine on a token list `n0 (o1, n1) (o2, n2) …` (what `Eval` does once the
    characters are read) -/
def runE : List Int → List Bop → List (Bop × Int) → R ε Int
  | vs, os, [] => finishE ap vs os
  | vs, os, (o, n) :: r =>
    match popForE ap o vs os with
    | .ok (vs', os') => runE (n :: vs') (o :: os') r
    | .err => .err
    | .halt e => .halt e
end machine

/-- **the model of `calc.Eval`** -/
def eval (s : List Char) : Outcome := evalWith applyE s

/-- the yard on tokens: operand `n0`, then (operator, operand) pairs -/
def yardE (n0 : Int) (toks : List (Bop × Int)) : Outcome := runE applyE [n0] [] toks

end AC.Calc
