import AC.ChainSet
/-! C01 prototype: the final step of the dictionary and runs algorithms — merge the pruned
    dictionary chain with the `dictsumchain` elements, sort, de-duplicate. -/
namespace P

theorem head_sortUniq_one (l : List Int) (h1 : (1 : Int) ∈ l) (hpos : ∀ x ∈ l, 1 ≤ x) :
    (sortUniq l).head? = some 1 := by
  have hasc := pairwise_sortUniq l
  have hm1 : (1 : Int) ∈ sortUniq l := (mem_sortUniq l 1).2 h1
  cases hs : sortUniq l with
  | nil => rw [hs] at hm1; simp at hm1
  | cons a r =>
    rw [hs] at hasc hm1
    have ha : 1 ≤ a := hpos a ((mem_sortUniq l a).1 (by rw [hs]; simp))
    rcases List.mem_cons.mp hm1 with h | h
    · simp [h]
    · have := (List.pairwise_cons.mp hasc).1 1 h
      omega

theorem last_sortUniq (l : List Int) (n : Int) (hn : n ∈ l) (hle : ∀ x ∈ l, x ≤ n) :
    (sortUniq l).getLast? = some n := by
  have hasc := pairwise_sortUniq l
  have hmn : n ∈ sortUniq l := (mem_sortUniq l n).2 hn
  have hne : sortUniq l ≠ [] := by intro e; rw [e] at hmn; simp at hmn
  have hlast := List.getLast?_eq_some_getLast hne
  rw [hlast]
  have hmem : (sortUniq l).getLast hne ∈ sortUniq l := List.getLast_mem hne
  have h1 : (sortUniq l).getLast hne ≤ n := hle _ ((mem_sortUniq l _).1 hmem)
  have hsplit := List.dropLast_concat_getLast hne
  generalize (sortUniq l).getLast hne = L at *
  rw [← hsplit] at hmn hasc
  have : L = n := by
    rcases List.mem_append.mp hmn with h | h
    · have := (List.pairwise_append.mp hasc).2.2 n h L (by simp)
      omega
    · have : n = L := by simpa using h
      omega
  rw [this]

/-- **assembly**: `pruned` contains 1 and is sum-closed; the `dictsumchain` elements `dc` are each
    the double of, or a pruned element added to, the previous element (starting from a pruned
    element); everything is positive and at most `n`, and `n` is among them. Then the sorted,
    de-duplicated union is an addition chain ending at `n`. -/
theorem dict_assemble (pruned dc : List Int) (n cur0 : Int)
    (hp1 : (1 : Int) ∈ pruned) (hppos : ∀ x ∈ pruned, 1 ≤ x)
    (hpcl : ∀ x ∈ pruned, x = 1 ∨ ∃ a ∈ pruned, ∃ b ∈ pruned, a + b = x)
    (hcur : cur0 ∈ pruned)
    (hdcl : ∀ y ∈ dc, ∃ x, (x = cur0 ∨ x ∈ dc) ∧ (y = x + x ∨ ∃ d ∈ pruned, y = x + d))
    (hdpos : ∀ y ∈ dc, 1 ≤ y) (hle : ∀ x ∈ pruned ++ dc, x ≤ n) (hn : n ∈ pruned ++ dc) :
    IsChain (sortUniq (pruned ++ dc)) ∧ (sortUniq (pruned ++ dc)).getLast? = some n := by
  have hpos : ∀ x ∈ pruned ++ dc, 1 ≤ x := by
    intro x hx
    rcases List.mem_append.mp hx with h | h
    · exact hppos x h
    · exact hdpos x h
  refine ⟨?_, last_sortUniq _ n hn hle⟩
  apply chain_of_closed
  · exact pairwise_sortUniq _
  · intro x hx; have := hpos x ((mem_sortUniq _ x).1 hx); omega
  · exact head_sortUniq_one _ (List.mem_append_left _ hp1) hpos
  · intro x hx
    have hx' := (mem_sortUniq _ x).1 hx
    have lift : ∀ z, z ∈ pruned ++ dc → z ∈ sortUniq (pruned ++ dc) := fun z hz => (mem_sortUniq _ z).2 hz
    rcases List.mem_append.mp hx' with h | h
    · rcases hpcl x h with h1 | ⟨a, ha, b, hb, hab⟩
      · exact Or.inl h1
      · exact Or.inr ⟨a, lift a (List.mem_append_left _ ha), b, lift b (List.mem_append_left _ hb), hab⟩
    · right
      obtain ⟨x0, hx0, hform⟩ := hdcl x h
      have hx0m : x0 ∈ pruned ++ dc := by
        rcases hx0 with rfl | h0
        · exact List.mem_append_left _ hcur
        · exact List.mem_append_right _ h0
      rcases hform with rfl | ⟨d, hd, rfl⟩
      · exact ⟨x0, lift x0 hx0m, x0, lift x0 hx0m, rfl⟩
      · exact ⟨x0, lift x0 hx0m, d, lift d (List.mem_append_left _ hd), rfl⟩

end P
