/-! # LTS of `exec.Parallel.Execute` with logger events, and trace acceptance (C12)

Mirrors /repo/alg/exec/exec.go:

```
sem := make(chan token, limit)
for i, a := range as { sem <- token{}; go func(i, a) {            -- main: spawn i
    logger.Printf("start: %s", a)                                   -- worker i: start
    rs[i] = Execute(n, a)                                           -- worker i: run, fin (FindChain), store
    logger.Printf("done: %s", a)                                    -- worker i: done
    <-sem }(i, a) }                                                 -- worker i: release
for i := 0; i < limit; i++ { sem <- token{} }                       -- main: waitSend × limit
return rs                                                           -- main: ret
```

`tokens` is the occupancy of the buffered channel `sem` (capacity `L`): a send is enabled iff
`tokens < L`, a receive iff `0 < tokens`. `rs[i] = some i` stands for "slot i holds
`Execute(n, aᵢ)`". Observable actions (`Act.ev`) are what the harness can record from outside:
the two logger lines, entry and exit of the algorithm's `FindChain`, and the return of `Execute`.
Core Lean only. -/
namespace P.ExecT

inductive Phase
  | idle | spawned | started | running | finished | stored | doneLogged | released
  deriving DecidableEq, Repr

inductive Main | spawning (j : Nat) | waiting (w : Nat) | returned deriving DecidableEq, Repr

structure St where
  main : Main
  tokens : Nat
  ph : List Phase           -- one per algorithm
  rs : List (Option Nat)    -- slot i holds `some i` (standing for `Execute(n, aᵢ)`) once stored
  deriving DecidableEq, Repr

def init (k : Nat) : St := ⟨.spawning 0, 0, List.replicate k .idle, List.replicate k none⟩

/-- what an observer outside `Execute` can see -/
inductive Event | start (i : Nat) | run (i : Nat) | fin (i : Nat) | done (i : Nat) | ret
  deriving DecidableEq, Repr

inductive Act
  | spawn (j : Nat) | toWait | waitSend | store (i : Nat) | release (i : Nat) | ev (e : Event)
  deriving DecidableEq, Repr

def obs : Act → Option Event | .ev e => some e | _ => none

/-- worker-local observable moves that touch neither the channel nor `rs` -/
inductive Local : Phase → Phase → (Nat → Event) → Prop
  | start : Local .spawned .started .start
  | run : Local .started .running .run
  | fin : Local .running .finished .fin
  | done : Local .stored .doneLogged .done

/-- transitions for `k` algorithms and limit `L` -/
inductive Step (k L : Nat) : St → Act → St → Prop
  | spawn (s : St) (j : Nat) : s.main = .spawning j → j < k → s.tokens < L →
      Step k L s (.spawn j)
        { s with main := .spawning (j + 1), tokens := s.tokens + 1, ph := s.ph.set j .spawned }
  | toWait (s : St) : s.main = .spawning k → Step k L s .toWait { s with main := .waiting 0 }
  | waitSend (s : St) (w : Nat) : s.main = .waiting w → w < L → s.tokens < L →
      Step k L s .waitSend { s with main := .waiting (w + 1), tokens := s.tokens + 1 }
  | ret (s : St) : s.main = .waiting L → Step k L s (.ev .ret) { s with main := .returned }
  | loc (s : St) (i : Nat) (p q : Phase) (e : Nat → Event) : i < k → Local p q e →
      s.ph[i]? = some p → Step k L s (.ev (e i)) { s with ph := s.ph.set i q }
  | store (s : St) (i : Nat) : i < k → s.ph[i]? = some .finished →
      Step k L s (.store i) { s with ph := s.ph.set i .stored, rs := s.rs.set i (some i) }
  | release (s : St) (i : Nat) : i < k → s.ph[i]? = some .doneLogged → 0 < s.tokens →
      Step k L s (.release i) { s with ph := s.ph.set i .released, tokens := s.tokens - 1 }

/-- finite executions, with the list of actions taken -/
inductive Exec (k L : Nat) : St → List Act → St → Prop
  | nil (s : St) : Exec k L s [] s
  | snoc {s t u : St} {as : List Act} {a : Act} :
      Exec k L s as t → Step k L t a u → Exec k L s (as ++ [a]) u

def Reach (k L : Nat) (s : St) : Prop := ∃ as, Exec k L (init k) as s

theorem Exec.one {k L : Nat} {s t : St} {a : Act} (h : Step k L s a t) : Exec k L s [a] t := by
  have := Exec.snoc (Exec.nil s) h
  simpa using this

theorem Exec.append {k L : Nat} {s t u : St} {as bs : List Act}
    (h1 : Exec k L s as t) (h2 : Exec k L t bs u) : Exec k L s (as ++ bs) u := by
  induction h2 with
  | nil => simpa using h1
  | snoc _ hs ih => rw [← List.append_assoc]; exact Exec.snoc ih hs

/-- the worker holds a token of the semaphore -/
def holds : Phase → Bool
  | .idle => false | .released => false | _ => true
/-- the worker has written its result slot -/
def filled : Phase → Bool
  | .stored => true | .doneLogged => true | .released => true | _ => false
def isRunning : Phase → Bool | .running => true | _ => false

def nHolding (s : St) : Nat := s.ph.countP holds
def nRunning (s : St) : Nat := s.ph.countP isRunning
def mainHeld (L : Nat) : Main → Nat | .waiting w => w | .returned => L | .spawning _ => 0
def spawnedCnt : Main → Nat → Nat | .spawning j, _ => j | _, k => k

/-- The invariant. -/
structure Inv (k L : Nat) (s : St) : Prop where
  len_ph : s.ph.length = k
  len_rs : s.rs.length = k
  /-- channel occupancy = tokens held by workers + tokens re-acquired by main -/
  tok : s.tokens = nHolding s + mainHeld L s.main
  tok_le : s.tokens ≤ L
  /-- workers at or beyond the spawn pointer are idle, those before it are not -/
  idle_iff : ∀ i, i < k → (s.ph[i]? = some .idle ↔ spawnedCnt s.main k ≤ i)
  spawn_le : spawnedCnt s.main k ≤ k
  /-- a slot is filled exactly when its worker has stored, and with its own result -/
  slot : ∀ i, i < k → ∀ p, s.ph[i]? = some p → s.rs[i]? = some (if filled p then some i else none)
  wait_le : ∀ w, s.main = .waiting w → w ≤ L

theorem inv_init (k L : Nat) : Inv k L (init k) := by
  refine ⟨by simp [init], by simp [init], ?_, by simp [init], ?_, by simp [init, spawnedCnt], ?_, ?_⟩
  · simp [init, nHolding, mainHeld, List.countP_replicate, holds]
  · intro i hi; simp [init, spawnedCnt, hi]
  · intro i hi p hp
    simp [init, hi] at hp
    subst hp
    simp [init, hi, filled]
  · intro w h; simp [init] at h

theorem lt_of_getElem? {α} {l : List α} {i : Nat} {a : α} (h : l[i]? = some a) : i < l.length := by
  cases hlt : decide (i < l.length) with
  | true => exact of_decide_eq_true hlt
  | false =>
    have : ¬ i < l.length := of_decide_eq_false hlt
    rw [List.getElem?_eq_none (by omega)] at h; cases h

theorem getElem_of_getElem? {α} {l : List α} {i : Nat} {a : α} (h : l[i]? = some a) :
    ∃ hi : i < l.length, l[i] = a := by
  have hi := lt_of_getElem? h
  exact ⟨hi, by rw [List.getElem?_eq_getElem hi] at h; exact Option.some.inj h⟩

theorem get_set_ne {α} (l : List α) (i j : Nat) (a : α) (h : i ≠ j) : (l.set i a)[j]? = l[j]? := by
  simp [h]
theorem get_set_eq {α} (l : List α) (i : Nat) (a : α) (h : i < l.length) :
    (l.set i a)[i]? = some a := by
  simp [h]

/-- counting a Boolean predicate after one cell changed from `p` to `q` -/
theorem countP_set_cell (f : Phase → Bool) (l : List Phase) (i : Nat) (p q : Phase)
    (h : l[i]? = some p) :
    (l.set i q).countP f + (if f p then 1 else 0) = l.countP f + (if f q then 1 else 0) := by
  obtain ⟨hil, hie⟩ := getElem_of_getElem? h
  rw [List.countP_set hil, hie]
  by_cases hp : f p = true
  · have hpos : 0 < l.countP f :=
      List.countP_pos_iff.mpr ⟨l[i], List.getElem_mem hil, by rw [hie]; exact hp⟩
    simp [hp]; omega
  · simp [hp]

theorem idle_iff_set {k c : Nat} {ph : List Phase}
    (h : ∀ i, i < k → (ph[i]? = some .idle ↔ c ≤ i)) (j : Nat) (p q : Phase) (hjk : j < k)
    (hj : ph[j]? = some p) (hp : p ≠ .idle) (hq : q ≠ .idle) :
    ∀ i, i < k → ((ph.set j q)[i]? = some .idle ↔ c ≤ i) := by
  intro i hik
  by_cases hij : j = i
  · subst hij
    rw [get_set_eq _ _ _ (lt_of_getElem? hj)]
    have := h j hjk
    rw [hj] at this
    constructor
    · intro hc; exact absurd (Option.some.inj hc) hq
    · intro hc; exact absurd (Option.some.inj (this.2 hc)) hp
  · rw [get_set_ne _ _ _ _ hij]; exact h i hik

theorem slot_set {k : Nat} {ph : List Phase} {rs : List (Option Nat)}
    (h : ∀ i, i < k → ∀ p, ph[i]? = some p → rs[i]? = some (if filled p then some i else none))
    (j : Nat) (p q : Phase) (hjk : j < k) (hj : ph[j]? = some p) (hf : filled q = filled p) :
    ∀ i, i < k → ∀ p', (ph.set j q)[i]? = some p' →
      rs[i]? = some (if filled p' then some i else none) := by
  intro i hik p' hp'
  by_cases hij : j = i
  · subst hij
    rw [get_set_eq _ _ _ (lt_of_getElem? hj)] at hp'
    have := Option.some.inj hp'
    subst this
    rw [hf]; exact h j hjk p hj
  · rw [get_set_ne _ _ _ _ hij] at hp'; exact h i hik p' hp'

theorem local_facts {p q : Phase} {e : Nat → Event} (h : Local p q e) :
    holds p = true ∧ holds q = true ∧ p ≠ .idle ∧ q ≠ .idle ∧ filled q = filled p := by
  cases h <;> simp [holds, filled]

theorem inv_step {k L : Nat} {s t : St} {a : Act} (hi : Inv k L s) (hs : Step k L s a t) :
    Inv k L t := by
  cases hs with
  | spawn j hm hj hl =>
    have hidle : s.ph[j]? = some .idle := (hi.idle_iff j hj).2 (by simp [hm, spawnedCnt])
    have hjl := lt_of_getElem? hidle
    refine ⟨by simp [hi.len_ph], hi.len_rs, ?_, by show s.tokens + 1 ≤ L; omega, ?_,
      by simp [spawnedCnt]; omega, ?_, by intro w h; simp at h⟩
    · show s.tokens + 1 = (s.ph.set j Phase.spawned).countP holds + 0
      have hc := countP_set_cell holds s.ph j .idle .spawned hidle
      have := hi.tok; rw [hm] at this
      simp [holds, nHolding, mainHeld] at this hc ⊢; omega
    · intro i hik
      show (s.ph.set j Phase.spawned)[i]? = some .idle ↔ j + 1 ≤ i
      by_cases hij : j = i
      · subst hij; rw [get_set_eq _ _ _ hjl]; simp
      · rw [get_set_ne _ _ _ _ hij, hi.idle_iff i hik, hm]; simp [spawnedCnt]; omega
    · intro i hik p' hp'
      have hp'' : (s.ph.set j Phase.spawned)[i]? = some p' := hp'
      show s.rs[i]? = _
      by_cases hij : j = i
      · subst hij
        rw [get_set_eq _ _ _ hjl] at hp''
        have := Option.some.inj hp''; subst this
        have := hi.slot j hik .idle hidle
        simpa [filled] using this
      · rw [get_set_ne _ _ _ _ hij] at hp''; exact hi.slot i hik p' hp''
  | toWait hm =>
    refine ⟨hi.len_ph, hi.len_rs, ?_, hi.tok_le, ?_, by simp [spawnedCnt], hi.slot,
      by intro w h; simp at h; omega⟩
    · have := hi.tok; rw [hm] at this
      show s.tokens = nHolding s + 0
      simpa [mainHeld] using this
    · intro i hik
      show s.ph[i]? = some .idle ↔ k ≤ i
      rw [hi.idle_iff i hik, hm]; simp [spawnedCnt]
  | waitSend w hm hw hl =>
    refine ⟨hi.len_ph, hi.len_rs, ?_, by show s.tokens + 1 ≤ L; omega, ?_, by simp [spawnedCnt],
      hi.slot, by intro w' h; simp at h; omega⟩
    · have := hi.tok; rw [hm] at this
      show s.tokens + 1 = nHolding s + (w + 1); simp [mainHeld] at this; omega
    · intro i hik
      show s.ph[i]? = some .idle ↔ k ≤ i
      rw [hi.idle_iff i hik, hm]; simp [spawnedCnt]
  | ret hm =>
    refine ⟨hi.len_ph, hi.len_rs, ?_, hi.tok_le, ?_, by simp [spawnedCnt], hi.slot,
      by intro w h; simp at h⟩
    · have := hi.tok; rw [hm] at this
      show s.tokens = nHolding s + L
      simpa [mainHeld] using this
    · intro i hik
      show s.ph[i]? = some .idle ↔ k ≤ i
      rw [hi.idle_iff i hik, hm]; simp [spawnedCnt]
  | loc i p q e hik hl hp =>
    obtain ⟨hhp, hhq, hpi, hqi, hf⟩ := local_facts hl
    refine ⟨by simp [hi.len_ph], hi.len_rs, ?_, hi.tok_le,
      idle_iff_set hi.idle_iff i p q hik hp hpi hqi, hi.spawn_le,
      slot_set hi.slot i p q hik hp hf, hi.wait_le⟩
    show s.tokens = (s.ph.set i q).countP holds + mainHeld L s.main
    have hc := countP_set_cell holds s.ph i p q hp
    have := hi.tok
    simp [hhp, hhq, nHolding] at this hc ⊢; omega
  | store i hik hp =>
    have hil := lt_of_getElem? hp
    have hilr : i < s.rs.length := by rw [hi.len_rs]; exact hik
    refine ⟨by simp [hi.len_ph], by simp [hi.len_rs], ?_, hi.tok_le,
      idle_iff_set hi.idle_iff i .finished .stored hik hp (by decide) (by decide), hi.spawn_le,
      ?_, hi.wait_le⟩
    · show s.tokens = (s.ph.set i Phase.stored).countP holds + mainHeld L s.main
      have hc := countP_set_cell holds s.ph i .finished .stored hp
      have := hi.tok
      simp [holds, nHolding] at this hc ⊢; omega
    · intro j hjk p' hp'
      have hp'' : (s.ph.set i Phase.stored)[j]? = some p' := hp'
      show (s.rs.set i (some i))[j]? = _
      by_cases hij : i = j
      · subst hij
        rw [get_set_eq _ _ _ hil] at hp''
        have := Option.some.inj hp''; subst this
        rw [get_set_eq _ _ _ hilr]; simp [filled]
      · rw [get_set_ne _ _ _ _ hij] at hp'' ⊢; exact hi.slot j hjk p' hp''
  | release i hik hp hpos =>
    refine ⟨by simp [hi.len_ph], hi.len_rs, ?_,
      by show s.tokens - 1 ≤ L; have := hi.tok_le; omega,
      idle_iff_set hi.idle_iff i .doneLogged .released hik hp (by decide) (by decide), hi.spawn_le,
      slot_set hi.slot i .doneLogged .released hik hp (by decide), hi.wait_le⟩
    show s.tokens - 1 = (s.ph.set i Phase.released).countP holds + mainHeld L s.main
    have hc := countP_set_cell holds s.ph i .doneLogged .released hp
    have := hi.tok
    simp [holds, nHolding] at this hc ⊢; omega

theorem inv_exec {k L : Nat} {s t : St} {as : List Act} (hi : Inv k L s) (h : Exec k L s as t) :
    Inv k L t := by
  induction h with
  | nil => exact hi
  | snoc _ hs ih => exact inv_step ih hs

theorem inv_reach {k L : Nat} {s : St} (h : Reach k L s) : Inv k L s := by
  obtain ⟨as, h⟩ := h
  exact inv_exec (inv_init k L) h

/-! ### consequences -/

theorem nRunning_le_nHolding (s : St) : nRunning s ≤ nHolding s := by
  unfold nRunning nHolding
  apply List.countP_mono_left
  intro p _ hp
  cases p <;> simp [isRunning, holds] at hp ⊢

/-- never more than `L` workers between acquiring and releasing a token -/
theorem limit_respected {k L : Nat} {s : St} (h : Reach k L s) : nHolding s ≤ L := by
  have hi := inv_reach h
  have := hi.tok; have := hi.tok_le
  omega

/-- when `Execute` has returned, every slot i holds the result of algorithm i and every worker has
    released its token -/
theorem return_complete {k L : Nat} {s : St} (h : Reach k L s) (hr : s.main = .returned) :
    ∀ i, i < k → s.rs[i]? = some (some i) ∧ s.ph[i]? = some .released := by
  have hi := inv_reach h
  intro i hik
  have htok := hi.tok; rw [hr] at htok
  have hle := hi.tok_le
  have hz : nHolding s = 0 := by simp [mainHeld] at htok; omega
  have hil : i < s.ph.length := by rw [hi.len_ph]; exact hik
  have hnotidle : ¬ s.ph[i]? = some .idle := by
    intro hc
    have := (hi.idle_iff i hik).1 hc
    rw [hr] at this; simp [spawnedCnt] at this; omega
  have hna : holds s.ph[i] = false := by
    cases hact : holds s.ph[i] with
    | false => rfl
    | true =>
      have : 0 < s.ph.countP holds := List.countP_pos_iff.mpr ⟨s.ph[i], List.getElem_mem hil, hact⟩
      unfold nHolding at hz; omega
  have hrel : s.ph[i]? = some .released := by
    rw [List.getElem?_eq_getElem hil] at hnotidle ⊢
    cases hp : s.ph[i] with
    | idle => rw [hp] at hnotidle; exact absurd rfl hnotidle
    | released => rfl
    | _ => rw [hp] at hna; simp [holds] at hna
  refine ⟨?_, hrel⟩
  have := hi.slot i hik .released hrel
  simpa [filled] using this

/-- deadlock freedom: for `L ≥ 1` every reachable non-final state has an enabled step -/
theorem progress {k L : Nat} (hL : 1 ≤ L) {s : St} (h : Reach k L s) (hn : s.main ≠ .returned) :
    ∃ a t, Step k L s a t := by
  have hi := inv_reach h
  by_cases hact : 0 < nHolding s
  · obtain ⟨p, hp, hpa⟩ := List.countP_pos_iff.mp hact
    obtain ⟨i, hil, hie⟩ := List.getElem_of_mem hp
    have hik : i < k := by rw [← hi.len_ph]; exact hil
    have hget : s.ph[i]? = some p := by rw [List.getElem?_eq_getElem hil, hie]
    cases p with
    | idle => simp [holds] at hpa
    | released => simp [holds] at hpa
    | spawned => exact ⟨_, _, Step.loc s i _ _ _ hik Local.start hget⟩
    | started => exact ⟨_, _, Step.loc s i _ _ _ hik Local.run hget⟩
    | running => exact ⟨_, _, Step.loc s i _ _ _ hik Local.fin hget⟩
    | finished => exact ⟨_, _, Step.store s i hik hget⟩
    | stored => exact ⟨_, _, Step.loc s i _ _ _ hik Local.done hget⟩
    | doneLogged =>
      have : 0 < s.tokens := by have := hi.tok; omega
      exact ⟨_, _, Step.release s i hik hget this⟩
  · have hz : nHolding s = 0 := by omega
    have htok := hi.tok
    cases hm : s.main with
    | returned => exact absurd hm hn
    | spawning j =>
      rw [hm] at htok
      have hjle := hi.spawn_le; rw [hm] at hjle; simp [spawnedCnt] at hjle
      by_cases hjk : j = k
      · subst hjk; exact ⟨_, _, Step.toWait s hm⟩
      · exact ⟨_, _, Step.spawn s j hm (by omega) (by simp [mainHeld] at htok; omega)⟩
    | waiting w =>
      rw [hm] at htok
      have hw := hi.wait_le w hm
      by_cases hwl : w = L
      · subst hwl; exact ⟨_, _, Step.ret s hm⟩
      · exact ⟨_, _, Step.waitSend s w hm (by omega) (by simp [mainHeld] at htok; omega)⟩

/-- with limit 0 and at least one algorithm nothing can ever happen (the `-p 0` hang) -/
theorem limit_zero_blocks {k : Nat} (hk : 1 ≤ k) : ¬ ∃ a t, Step k 0 (init k) a t := by
  rintro ⟨a, t, h⟩
  have hph : ∀ (i : Nat) (p : Phase), (init k).ph[i]? = some p → p = Phase.idle := by
    intro i p hp
    simp only [init, List.getElem?_replicate] at hp
    split at hp
    · exact (Option.some.inj hp).symm
    · cases hp
  cases h with
  | spawn j hm hj hl => exact absurd hl (Nat.not_lt_zero _)
  | toWait hm => simp [init] at hm; omega
  | waitSend w hm hw hl => exact absurd hl (Nat.not_lt_zero _)
  | ret hm => simp [init] at hm
  | loc i p q e hik hl hp => have := hph i p hp; subst this; cases hl
  | store i hik hp => have := hph i _ hp; cases this
  | release i hik hp hpos => have := hph i _ hp; cases this

/-- only `store j` changes slot `j` (and it writes `some j`) -/
theorem slots_private {k L : Nat} {s t : St} {a : Act} (h : Step k L s a t) (j : Nat)
    (hne : t.rs[j]? ≠ s.rs[j]?) : a = .store j ∧ t.rs[j]? = some (some j) := by
  cases h with
  | store i hik hp =>
    by_cases hij : i = j
    · subst hij
      refine ⟨rfl, ?_⟩
      show (s.rs.set i (some i))[i]? = _
      by_cases hil : i < s.rs.length
      · exact get_set_eq _ _ _ hil
      · exfalso; apply hne
        show (s.rs.set i (some i))[i]? = _
        simp [hil]
    · exfalso; apply hne
      show (s.rs.set i (some i))[j]? = _
      exact get_set_ne _ _ _ _ hij
  | _ => exact absurd rfl hne

/-! ### trace acceptance (executable) -/

/-- main performs `n` further spawns -/
def spawnN (k L : Nat) : Nat → St → Option St
  | 0, s => some s
  | n + 1, s =>
    match s.main with
    | .spawning j =>
      if j < k ∧ s.tokens < L then
        spawnN k L n
          { s with main := .spawning (j + 1), tokens := s.tokens + 1, ph := s.ph.set j .spawned }
      else none
    | _ => none

/-- main catches up (lazily) so that worker `i` has been spawned -/
def catchUp (k L : Nat) (s : St) (i : Nat) : Option St :=
  match s.main with
  | .spawning j => spawnN k L (i + 1 - j) s
  | _ => some s

def setPh (s : St) (i : Nat) (q : Phase) : St := { s with ph := s.ph.set i q }

/-- One observable event. Silent steps are scheduled canonically: main spawns as late as
    possible, a worker stores right before its `done` line and releases right after it, main
    performs its `L` closing sends right before returning.

    Why this loses no behaviour (completeness, argued here, not proved — only soundness
    `stepEv_sound` is needed for the theorems to apply to an accepted trace): in any execution with
    the same observable trace, at every point the canonical run has spawned no more and released no
    fewer workers, so its channel occupancy is ≤ the real one; a spawn or closing send that was
    enabled in the real run is therefore still enabled when the canonical run performs it later. -/
def stepEv (k L : Nat) (s : St) : Event → Option St
  | .start i =>
    if i < k then
      match catchUp k L s i with
      | some s' => if s'.ph[i]? = some .spawned then some (setPh s' i .started) else none
      | none => none
    else none
  | .run i => if i < k ∧ s.ph[i]? = some .started then some (setPh s i .running) else none
  | .fin i => if i < k ∧ s.ph[i]? = some .running then some (setPh s i .finished) else none
  | .done i =>
    if i < k ∧ s.ph[i]? = some .finished ∧ 0 < s.tokens then
      some { s with ph := ((s.ph.set i .stored).set i .doneLogged).set i .released,
                    rs := s.rs.set i (some i), tokens := s.tokens - 1 }
    else none
  | .ret =>
    if s.main = .spawning k ∧ s.tokens = 0 then some { s with main := .returned, tokens := L }
    else none

def allFilled (k : Nat) (s : St) : Bool := (List.range k).all fun i => s.rs[i]? == some (some i)

def isFinal (k : Nat) (s : St) : Bool := s.main == .returned && allFilled k s

def acceptsFrom (k L : Nat) : St → List Event → Nat → Option Nat
  | s, [], n => if isFinal k s then none else some n
  | s, e :: es, n =>
    match stepEv k L s e with
    | none => some n
    | some t => acceptsFrom k L t es (n + 1)

/-- index of the first event that is not an enabled transition (`trace.length` if the trace is
    executable but does not end in `returned` with all slots filled); `none` = accepted -/
def accepts (k L : Nat) (trace : List Event) : Option Nat := acceptsFrom k L (init k) trace 0

theorem spawnN_sound {k L : Nat} : ∀ (n : Nat) (s t : St), spawnN k L n s = some t →
    ∃ as, Exec k L s as t ∧ as.filterMap obs = [] := by
  intro n
  induction n with
  | zero => intro s t h; simp [spawnN] at h; subst h; exact ⟨[], Exec.nil _, rfl⟩
  | succ n ih =>
    intro s t h
    unfold spawnN at h
    split at h
    · rename_i j hm
      split at h
      · rename_i hc
        obtain ⟨as, he, ho⟩ := ih _ _ h
        refine ⟨[.spawn j] ++ as, Exec.append (Exec.one (Step.spawn s j hm hc.1 hc.2)) he, ?_⟩
        rw [List.filterMap_append, ho]; rfl
      · cases h
    · cases h

theorem waitSends {k L : Nat} : ∀ (n w : Nat) (s : St), s.main = .waiting w → w + n ≤ L →
    s.tokens + n ≤ L →
    ∃ as, Exec k L s as { s with main := .waiting (w + n), tokens := s.tokens + n } ∧
      as.filterMap obs = [] := by
  intro n
  induction n with
  | zero =>
    intro w s hm _ _
    refine ⟨[], ?_, rfl⟩
    have : ({ s with main := .waiting (w + 0), tokens := s.tokens + 0 } : St) = s := by
      cases s; simp at hm ⊢; exact hm.symm
    rw [this]; exact Exec.nil _
  | succ n ih =>
    intro w s hm hw ht
    have h1 := Step.waitSend (k := k) (L := L) s w hm (by omega) (by omega)
    obtain ⟨as, he, ho⟩ := ih (w + 1)
      { s with main := .waiting (w + 1), tokens := s.tokens + 1 } rfl (by omega)
      (by show s.tokens + 1 + n ≤ L; omega)
    refine ⟨[.waitSend] ++ as, ?_, by rw [List.filterMap_append, ho]; rfl⟩
    have he' := Exec.append (Exec.one h1) he
    have e1 : w + 1 + n = w + (n + 1) := by omega
    have e2 : s.tokens + 1 + n = s.tokens + (n + 1) := by omega
    simp only [e1, e2] at he'
    exact he'

theorem stepEv_sound {k L : Nat} {s t : St} {e : Event} (h : stepEv k L s e = some t) :
    ∃ as, Exec k L s as t ∧ as.filterMap obs = [e] := by
  cases e with
  | start i =>
    simp only [stepEv] at h
    split at h
    · rename_i hik
      split at h
      · rename_i s' hc
        split at h
        · rename_i hp
          have := Option.some.inj h; subst this
          have hcu : ∃ as, Exec k L s as s' ∧ as.filterMap obs = [] := by
            unfold catchUp at hc
            split at hc
            · exact spawnN_sound _ _ _ hc
            · have := Option.some.inj hc; subst this; exact ⟨[], Exec.nil _, rfl⟩
          obtain ⟨as, he, ho⟩ := hcu
          refine ⟨as ++ [.ev (.start i)],
            Exec.snoc he (Step.loc s' i _ _ _ hik Local.start hp), ?_⟩
          rw [List.filterMap_append, ho]; rfl
        · cases h
      · cases h
    · cases h
  | run i =>
    simp only [stepEv] at h
    split at h
    · rename_i hc
      have := Option.some.inj h; subst this
      exact ⟨[.ev (.run i)], Exec.one (Step.loc s i _ _ _ hc.1 Local.run hc.2), rfl⟩
    · cases h
  | fin i =>
    simp only [stepEv] at h
    split at h
    · rename_i hc
      have := Option.some.inj h; subst this
      exact ⟨[.ev (.fin i)], Exec.one (Step.loc s i _ _ _ hc.1 Local.fin hc.2), rfl⟩
    · cases h
  | done i =>
    simp only [stepEv] at h
    split at h
    · rename_i hc
      obtain ⟨hik, hp, hpos⟩ := hc
      have := Option.some.inj h; subst this
      have hil := lt_of_getElem? hp
      have s1 := Step.store (k := k) (L := L) s i hik hp
      have s2 := Step.loc (k := k) (L := L)
        { s with ph := s.ph.set i .stored, rs := s.rs.set i (some i) } i _ _ _ hik Local.done
        (by show (s.ph.set i Phase.stored)[i]? = _; exact get_set_eq _ _ _ hil)
      have s3 := Step.release (k := k) (L := L)
        { s with ph := (s.ph.set i .stored).set i .doneLogged, rs := s.rs.set i (some i) } i hik
        (by show ((s.ph.set i Phase.stored).set i Phase.doneLogged)[i]? = _
            exact get_set_eq _ _ _ (by simp [hil]))
        hpos
      exact ⟨[.store i, .ev (.done i), .release i],
        Exec.append (Exec.append (Exec.one s1) (Exec.one s2)) (Exec.one s3), rfl⟩
    · cases h
  | ret =>
    simp only [stepEv] at h
    split at h
    · rename_i hc
      obtain ⟨hm, ht⟩ := hc
      have := Option.some.inj h; subst this
      have s1 := Step.toWait (k := k) (L := L) s hm
      obtain ⟨as, he, ho⟩ := waitSends (k := k) (L := L) L 0 { s with main := .waiting 0 } rfl
        (by omega) (by show s.tokens + L ≤ L; omega)
      have s3 := Step.ret (k := k) (L := L)
        { s with main := .waiting (0 + L), tokens := s.tokens + L } (by simp)
      refine ⟨[.toWait] ++ as ++ [.ev .ret], ?_, ?_⟩
      · have := Exec.snoc (Exec.append (Exec.one s1) he) s3
        simp only [ht, Nat.zero_add] at this
        exact this
      · rw [List.filterMap_append, List.filterMap_append, ho]; rfl
    · cases h

/-- every prefix of a trace that is accepted from `s` is the observable part of an execution
    from `s` -/
theorem acceptsFrom_prefix {k L : Nat} : ∀ (es : List Event) (s : St) (n : Nat),
    acceptsFrom k L s es n = none → ∀ p, p <+: es →
    ∃ as t, Exec k L s as t ∧ as.filterMap obs = p := by
  intro es
  induction es with
  | nil =>
    intro s n _ p hp
    have : p = [] := List.prefix_nil.mp hp
    subst this
    exact ⟨[], s, Exec.nil _, rfl⟩
  | cons e es ih =>
    intro s n h p hp
    cases p with
    | nil => exact ⟨[], s, Exec.nil _, rfl⟩
    | cons e' p' =>
      obtain ⟨he, hp'⟩ := List.cons_prefix_cons.mp hp
      subst he
      unfold acceptsFrom at h
      split at h
      · cases h
      · rename_i t hst
        obtain ⟨as1, hx1, ho1⟩ := stepEv_sound hst
        obtain ⟨as2, u, hx2, ho2⟩ := ih t (n + 1) h p' hp'
        exact ⟨as1 ++ as2, u, Exec.append hx1 hx2, by rw [List.filterMap_append, ho1, ho2]; rfl⟩

/-- an accepted trace is the observable part of an execution that ends in `returned` -/
theorem acceptsFrom_sound {k L : Nat} : ∀ (es : List Event) (s : St) (n : Nat),
    acceptsFrom k L s es n = none →
    ∃ as t, Exec k L s as t ∧ as.filterMap obs = es ∧ t.main = .returned := by
  intro es
  induction es with
  | nil =>
    intro s n h
    unfold acceptsFrom at h
    split at h
    · rename_i hf
      simp [isFinal] at hf
      exact ⟨[], s, Exec.nil _, rfl, hf.1⟩
    · cases h
  | cons e es ih =>
    intro s n h
    unfold acceptsFrom at h
    split at h
    · cases h
    · rename_i t hst
      obtain ⟨as1, hx1, ho1⟩ := stepEv_sound hst
      obtain ⟨as2, u, hx2, ho2, hr⟩ := ih t (n + 1) h
      exact ⟨as1 ++ as2, u, Exec.append hx1 hx2, by rw [List.filterMap_append, ho1, ho2]; rfl, hr⟩

theorem accepts_sound {k L : Nat} {tr : List Event} (h : accepts k L tr = none) :
    ∃ as s, Exec k L (init k) as s ∧ as.filterMap obs = tr ∧ s.main = .returned :=
  acceptsFrom_sound tr (init k) 0 h

/-! ### counting `run`/`fin` events along an execution -/

def isRunEv : Event → Bool | .run _ => true | _ => false
def isFinEv : Event → Bool | .fin _ => true | _ => false
def nRun (tr : List Event) : Nat := tr.countP isRunEv
def nFin (tr : List Event) : Nat := tr.countP isFinEv

/-- #(run events) − #(fin events) = number of workers inside `FindChain` -/
theorem running_count {k L : Nat} {s : St} {as : List Act} (h : Exec k L (init k) as s) :
    nRun (as.filterMap obs) = nFin (as.filterMap obs) + nRunning s := by
  induction h with
  | nil =>
    simp [nRun, nFin, nRunning, init, List.countP_replicate, isRunning]
  | @snoc t u as a hx hs ih =>
    rw [List.filterMap_append]
    unfold nRun nFin at ih ⊢
    rw [List.countP_append, List.countP_append, ih]
    cases hs with
    | spawn j hm hj hl =>
      have hinv : Inv k L t := inv_exec (inv_init k L) hx
      have hidle : t.ph[j]? = some .idle := (hinv.idle_iff j hj).2 (by simp [hm, spawnedCnt])
      have hc := countP_set_cell isRunning t.ph j .idle .spawned hidle
      have e1 : List.filterMap obs [Act.spawn j] = [] := rfl
      rw [e1]
      show _ = _ + (t.ph.set j Phase.spawned).countP isRunning
      simp [isRunning, nRunning] at hc ⊢; omega
    | toWait hm =>
      have e1 : List.filterMap obs [Act.toWait] = [] := rfl
      rw [e1]; simp [nRunning]
    | waitSend w hm hw hl =>
      have e1 : List.filterMap obs [Act.waitSend] = [] := rfl
      rw [e1]; simp [nRunning]
    | ret hm =>
      have e1 : List.filterMap obs [Act.ev .ret] = [.ret] := rfl
      rw [e1]; simp [nRunning, isRunEv, isFinEv]
    | loc i p q e hik hl hp =>
      have hc := countP_set_cell isRunning t.ph i p q hp
      have e1 : List.filterMap obs [Act.ev (e i)] = [e i] := rfl
      rw [e1]
      show _ = _ + (t.ph.set i q).countP isRunning
      cases hl <;> simp [isRunning, nRunning, isRunEv, isFinEv] at hc ⊢ <;> omega
    | store i hik hp =>
      have hc := countP_set_cell isRunning t.ph i .finished .stored hp
      have e1 : List.filterMap obs [Act.store i] = [] := rfl
      rw [e1]
      show _ = _ + (t.ph.set i Phase.stored).countP isRunning
      simp [isRunning, nRunning] at hc ⊢; omega
    | release i hik hp hpos =>
      have hc := countP_set_cell isRunning t.ph i .doneLogged .released hp
      have e1 : List.filterMap obs [Act.release i] = [] := rfl
      rw [e1]
      show _ = _ + (t.ph.set i Phase.released).countP isRunning
      simp [isRunning, nRunning] at hc ⊢; omega

/-- on an accepted trace, at every prefix at most `L` algorithms are inside `FindChain` -/
theorem accepted_limit {k L : Nat} {tr : List Event} (h : accepts k L tr = none) :
    ∀ p, p <+: tr → nRun p ≤ nFin p + L := by
  intro p hp
  obtain ⟨as, t, hx, ho⟩ := acceptsFrom_prefix tr (init k) 0 h p hp
  have hc := running_count hx
  rw [ho] at hc
  have h1 := nRunning_le_nHolding t
  have h2 := limit_respected ⟨as, hx⟩
  omega

end P.ExecT
