import AC.Gen.BigintFns
/-! # Translator tie for internal/bigint (C19)

`AC/Gen/BigintFns.lean` is regenerated on every run from the Go source of `Zero, One, Equal, EqualInt64,
IsZero, IsNonZero, Clone, Pow2, IsPow2, Mask, Ones, MinMax, Extract` by the translator
`harness/cmd/extract/c19.go`.  This file proves that the translated functions are the hand-written models
the correspondence run executes (`P.HX.maskI`, `P.HX.extractI`, `P.HX.isPow2`, `P.HX.minMax`) — so the
C19 theorems about those models are theorems about the code as it is written now.  A change of the Go
source changes the generated terms and these proofs are re-checked. -/
namespace AC.BigintTie
open AC.Gen.Bigint AC.BigPrim P.HX

theorem zero_eq : zero = 0 := rfl
theorem one_eq : one = 1 := rfl
theorem clone_eq (x : Int) : clone x = x := rfl

theorem bCmp_eq_zero (x y : Int) : (bCmp x y == 0) = decide (x = y) := by
  unfold bCmp
  by_cases h1 : x < y
  · have : x ≠ y := by omega
    simp [h1, this]
  · by_cases h2 : x = y
    · simp [h2]
    · simp [h1, h2]

theorem equal_eq (x y : Int) : equal x y = decide (x = y) := by
  unfold equal; exact bCmp_eq_zero x y

theorem equal_iff (x y : Int) : equal x y = true ↔ x = y := by
  rw [equal_eq]; simp

theorem equalInt64_iff (x y : Int) : equalInt64 x y = true ↔ x = y := by
  unfold equalInt64 bNewInt; exact equal_iff x y

theorem isZero_iff (x : Int) : isZero x = true ↔ x = 0 := by
  unfold isZero bSign
  by_cases h1 : x < 0
  · have : x ≠ 0 := by omega
    simp [h1, this]
  · by_cases h2 : x = 0
    · simp [h2]
    · simp [h1, h2]

theorem isNonZero_iff (x : Int) : isNonZero x = true ↔ x ≠ 0 := by
  unfold isNonZero
  rw [Bool.not_eq_true', ← Bool.not_eq_true, isZero_iff]

theorem pow2_eq (e : Nat) : pow2 e = (2 : Int) ^ e := by
  unfold pow2 bLsh one bNewInt; omega

/-- `Mask` as written in the source is the model `maskI` -/
theorem mask_eq (l h : Nat) : mask l h = maskI l h := by
  unfold mask bSub maskI
  simp only [pow2_eq]

/-- `Ones` as written in the source -/
theorem ones_eq (n : Nat) : ones n = maskI 0 n := by
  unfold ones; exact mask_eq 0 n

/-- `Extract` as written in the source is the model `extractI` -/
theorem extract_eq (x : Int) (l h : Nat) : extract x l h = extractI x l h := by
  unfold extract bAnd bRsh extractI
  simp only [mask_eq]

/-- `IsPow2` as written in the source is the model `isPow2` -/
theorem isPow2_eq (x : Int) : AC.Gen.Bigint.isPow2 x = P.HX.isPow2 x := by
  unfold AC.Gen.Bigint.isPow2 P.HX.isPow2 bBitLen
  simp only []
  by_cases h : bitLen x.natAbs = 0
  · simp [h]
  · have h1 : ((bitLen x.natAbs : Nat) : Int) ≠ 0 := by omega
    have h2 : Int.toNat (((bitLen x.natAbs : Nat) : Int) - 1) = bitLen x.natAbs - 1 := by omega
    simp only [h, if_false]
    rw [show ((((bitLen x.natAbs : Nat) : Int) == 0) = false) from by simpa using h1]
    simp only [Bool.false_eq_true, if_false]
    rw [equal_eq, pow2_eq, h2]
    simp only [Int.natCast_pow, Int.cast_ofNat_Int]
    generalize (2 : Int) ^ (bitLen x.natAbs - 1) = y
    by_cases hx : x = y <;> simp [hx]

/-- `MinMax` as written in the source is the model `minMax` -/
theorem minMax_eq (x y : Int) : AC.Gen.Bigint.minMax x y = P.HX.minMax x y := by
  unfold AC.Gen.Bigint.minMax P.HX.minMax bCmp
  by_cases h1 : x < y
  · simp [h1]
  · by_cases h2 : x = y
    · simp [h2]
    · simp [h1, h2]

end AC.BigintTie
