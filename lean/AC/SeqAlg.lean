import AC.Strat
import AC.HeurTotal
/-! Unified executable model of the exported sequence algorithms: heuristic compositions
    (alg/heuristic) and continued-fraction strategies (alg/contfrac). -/
namespace P

inductive Heur | halving | deltaLargest | approximation | useFirst (hs : List Heur)
deriving Repr

/-- atomic heuristics only (what `UseFirst` is applied to in practice; nesting is modelled by flattening) -/
def Heur.suggestAtom : Heur → Suggest
  | .halving => suggestHalving
  | .deltaLargest => suggestDelta
  | .approximation => suggestApprox
  | .useFirst _ => fun _ _ => none

def Heur.suggest : Heur → Suggest
  | .useFirst hs => suggestFirst (hs.map Heur.suggestAtom)
  | h => h.suggestAtom

inductive SeqAlg | heuristic (h : Heur) | contfrac (s : Strategy)
deriving Repr

/-- try increasing fuel; by `cf_mono` any fuel that returns `some` returns the same chain -/
def cfSearch (s : Strategy) (ns : List Int) : Nat → Nat → Option (List Int)
  | 0, _ => none
  | t+1, f => match chain s f ns with
    | some c => some c
    | none => cfSearch s ns t (4 * f)

/-- `FindSequence`; `none` = the Go code reports failure (partial heuristic), or would not terminate -/
def SeqAlg.find : SeqAlg → List Int → Option (List Int)
  | .heuristic h, ts => findSequence h.suggest (((sortUniq ([1, 2] ++ ts)).getLastD 0).toNat + 1) ts
  | .contfrac s, ts => cfSearch s (ts.mergeSort (fun a b => a ≤ b)) 12 64

/-- every atomic heuristic is sound -/
theorem Heur.sound_atom : ∀ h : Heur, Sound h.suggestAtom
  | .halving => sound_halving
  | .deltaLargest => sound_delta
  | .approximation => sound_approx
  | .useFirst _ => by intro f t ins _ h; simp [Heur.suggestAtom] at h

theorem Heur.sound : ∀ h : Heur, Sound h.suggest
  | .useFirst hs => by
    apply sound_first
    intro sg hsg
    obtain ⟨h, _, rfl⟩ := List.mem_map.1 hsg
    exact Heur.sound_atom h
  | .halving => sound_halving
  | .deltaLargest => sound_delta
  | .approximation => sound_approx

/-- "ends in / contains a total heuristic" -/
def Heur.isTotal : Heur → Bool
  | .deltaLargest => true
  | .approximation => true
  | .halving => false
  | .useFirst hs => hs.any fun h => match h with | .deltaLargest => true | .approximation => true | _ => false

theorem Heur.total (h : Heur) (ht : h.isTotal = true) : Total h.suggest := by
  cases h with
  | halving => simp [Heur.isTotal] at ht
  | deltaLargest => exact total_delta
  | approximation => exact total_approx
  | useFirst hs =>
    simp only [Heur.isTotal, List.any_eq_true] at ht
    obtain ⟨a, ha, hta⟩ := ht
    cases a with
    | deltaLargest =>
      exact total_first_of_mem _ suggestDelta (List.mem_map.2 ⟨_, ha, rfl⟩) total_delta
    | approximation =>
      exact total_first_of_mem _ suggestApprox (List.mem_map.2 ⟨_, ha, rfl⟩) total_approx
    | halving => simp at hta
    | useFirst _ => simp at hta

theorem cfSearch_some (s : Strategy) (ns c : List Int) : ∀ (t f : Nat), cfSearch s ns t f = some c →
    ∃ f', chain s f' ns = some c
  | 0, _, h => by simp [cfSearch] at h
  | t+1, f, h => by
    unfold cfSearch at h
    split at h
    · rename_i c' hc; cases h; exact ⟨f, hc⟩
    · exact cfSearch_some s ns c t _ h

end P
