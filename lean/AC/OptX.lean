import AC.ChainX
/-! Executable model of `opt.Optimize` (alg/opt/opt.go), index based like the Go code. -/
namespace P.OptX
open P

def uses (o : Op) (i : Nat) : Bool := o.1 == i || o.2 == i

/-- `pruneuses` -/
def pruneUses (ops : List Op) (i : Nat) : List Op := ops.filter fun o => !uses o i

/-- `Op.Operands` -/
def operands (o : Op) : List Nat := if o.1 == o.2 then [o.1] else [o.1, o.2]

def incr : List Nat → Nat → List Nat
  | [], _ => []
  | c :: r, 0 => (c + 1) :: r
  | c :: r, i+1 => c :: incr r i

/-- bump the counters of the operands of a singleton list -/
def bumpSingle (counts : List Nat) : List Op → List Nat
  | [o] => (operands o).foldl incr counts
  | _ => counts

structure St where
  ops : List (List Op)
  counts : List Nat
  remove : List Nat     -- in increasing order

/-- one iteration of the candidate loop for position `k` -/
def step (n : Nat) (st : St) (k : Nat) : St :=
  if st.counts.getD k 0 > 0 then st else
    let ops' := st.ops.mapIdx fun l o => if k < l then pruneUses o k else o
    let counts' := ((List.range n).filter (k < ·)).foldl (fun cs l => bumpSingle cs (ops'.getD l [])) st.counts
    { ops := ops', counts := counts', remove := st.remove ++ [k] }

def initSt (c : Chain) : St :=
  let n := c.length
  let ops := (List.range n).map fun k => if k == 0 then [] else P.ops c k
  let counts := ((List.range n).filter (0 < ·)).foldl (fun cs k => bumpSingle cs (ops.getD k [])) (List.replicate n 0)
  { ops := ops, counts := counts, remove := [] }

/-- `opt.Optimize` -/
def optimize (c : Chain) : Chain :=
  let n := c.length
  let fin := ((List.range (n - 1)).filter (0 < ·)).foldl (step n) (initSt c)
  (List.range n).filterMap fun i => if fin.remove.contains i then none else some (at' c i)

end P.OptX
