import AC.Drv.C01
import AC.Drv.C02
import AC.Drv.C03
import AC.Drv.C04
import AC.Drv.C05
import AC.Drv.C06
import AC.Drv.C07
import AC.Drv.C08
import AC.Drv.C09
import AC.Drv.C10
import AC.Drv.C11
import AC.Drv.C12
import AC.Drv.C13
import AC.Drv.C14
import AC.Drv.C15
import AC.Drv.C18
import AC.Drv.C19
import AC.Drv.C20
open AC.Drv

def dispatch (line : String) : String :=
  match splitSp line with
  | [] => "skip"
  | op :: f =>
    let r := match op with
      | "c01" => handleC01 f
      | "c01ds" => handleC01ds f
      | "c02" => handleC02 f
      | "c03" => handleC03 f
      | "c04" => handleC04 f
      | "c04b" => handleC04b f
      | "c16" => handleC16 f
      | "c05" => handleC05 f
      | "c17" => handleC17 f
      | "c06" => handleC06 f
      | "c07" => handleC07 f
      | "c08" => handleC08 f
      | "c08s" => handleC08s f
      | "c08k" => handleC08k f
      | "c09" => handleC09 f
      | "c10" => handleC10 f
      | "c11" => handleC11 f
      | "c12" => handleC12 f
      | "c12n" => handleC12n f
      | "c13" => handleC13 f
      | "c14" => handleC14 f
      | "c15" => handleC15 f
      | "c19" => handleC19 f
      | "c18" => handleC18 f
      | "c20" => handleC20 f
      | _ => bad s!"unknown-op:{op}"
    r.render

partial def loop (h : IO.FS.Stream) (out : IO.FS.Stream) (n : Nat) : IO Unit := do
  let line ← h.getLine
  if line.isEmpty then return ()
  let l := (line.dropRightWhile (fun c => c == '\n' || c == '\r'))
  out.putStrLn s!"{n} {dispatch l}"
  loop h out (n+1)

def main : IO Unit := do
  let out ← IO.getStdout
  loop (← IO.getStdin) out 1
  out.flush
