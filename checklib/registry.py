"""Per-property configuration read by ./check (rules, assumptions, open obligations)."""

TRUSTED_BASE = [
    "Lean 4.33.0 kernel; axioms propext, Classical.choice, Quot.sound only (audited per theorem on every run)",
    "Lean compiler for the driver executable (used for correspondence and spec evaluation, never for a theorem)",
    "go/ast fact extractor and Go correspondence harness under /verif/harness, including canonicalisation",
    "hand-written Lean model is NOT trusted: it is what the correspondence run checks against /repo",
]

PROPS = {
    "C02": {
        "level_text": "Lean theorems: validate <-> IsChain, produces/superset/ascending characterisations, Ops(k) = the "
                      "lexicographic list of index pairs on both code paths, evaluate(program c) = c; for all integer "
                      "sequences of any length. Tied to chain.go/program.go by exact-output correspondence.",
        "rule": "all integer sequences over {-1,0,1,2,3,4,5,6,8} up to length 5 (quick) / 6 (thorough), every valid "
                "chain in every element order up to length 6/8, random long big-integer chains with injected faults; "
                "non-trivial = length >= 3 and (invalid for a reason other than the first element, or some position "
                "has >= 2 ops, or the quadratic path is taken); distinct = distinct case line",
        "exhaustive": True,
        "assumptions": ["math/big Add/Cmp behave as integer + and comparison"],
    },
}
