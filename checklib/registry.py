"""Per-property configuration read by ./check: one JSON file per property in checklib/props/.

Keys: level_text (MANIFEST level_claimed.text), rule (how cases are generated; what is non-trivial / distinct),
exhaustive, assumptions (list), open (open proof obligations, full statements kept in the Props file as `..._Statement`),
trusted (extra trusted-base items), technique, level_note, not_applicable (reason; property is then not claimed).
"""
import glob
import json
import os

TRUSTED_BASE = [
    "Lean 4.33.0 kernel; axioms propext, Classical.choice, Quot.sound only (audited per theorem on every run)",
    "Lean compiler for the driver executable (used for correspondence and spec evaluation, never for a theorem)",
    "go/ast fact extractor and Go correspondence harness under /verif/harness, including canonicalisation",
    "hand-written Lean model is NOT trusted: it is what the correspondence run checks against /repo",
]

PROPS = {}
for _p in sorted(glob.glob(os.path.join(os.path.dirname(os.path.abspath(__file__)), "props", "*.json"))):
    PROPS[os.path.splitext(os.path.basename(_p))[0]] = json.load(open(_p))
