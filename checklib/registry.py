"""Per-property configuration read by ./check (rules, assumptions, open obligations)."""

TRUSTED_BASE = [
    "Lean 4.33.0 kernel; axioms propext, Classical.choice, Quot.sound only (audited per theorem on every run)",
    "Lean compiler for the driver executable (used for correspondence and spec evaluation, never for a theorem)",
    "go/ast fact extractor and Go correspondence harness under /verif/harness, including canonicalisation",
    "hand-written Lean model is NOT trusted: it is what the correspondence run checks against /repo",
]

PROPS = {
    "C02": {
        "level_text": "Lean theorems: validate <-> IsChain, produces/superset/ascending characterisations, Ops(k) = the "
                      "lexicographic list of index pairs on both code paths, evaluate(program c) = c; for all integer "
                      "sequences of any length. Tied to chain.go/program.go by exact-output correspondence.",
        "rule": "all integer sequences over {-1,0,1,2,3,4,5,6,8} up to length 5 (quick) / 6 (thorough), every valid "
                "chain in every element order up to length 6/8, random long big-integer chains with injected faults; "
                "non-trivial = length >= 3 and (invalid for a reason other than the first element, or some position "
                "has >= 2 ops, or the quadratic path is taken); distinct = distinct case line",
        "exhaustive": True,
        "assumptions": ["math/big Add/Cmp behave as integer + and comparison"],
    },
    "C09": {
        "level_text": "Lean theorems per method (fixed, sliding, run-length, hybrid), for every x, K >= 1, T: terms sum to x, "
                      "after sorting every term lies strictly below the exponent of every later term (strictly increasing "
                      "exponents + non-overlap), d > 0, per-method shape, dictionary = strictly sorted distinct d; "
                      "decomposition of x >= 1 non-empty. Tied to alg/dict/dict.go by exact-output correspondence.",
        "rule": "x < 2^10 (quick) / 2^13 (thorough) x K in 1..8 x T in 0..9 x {fixed, sliding, run-length} exhaustively, hybrid "
                "for x < 2^9 / 2^12; 300 / 3000 structured values up to 1024 bits (2^k, 2^k-1, 2^k-c, Solinas-like, runs of "
                "length exactly K/K+1/T/T+1, sparse, dense, runs with holes) with K in 1..130, T in 0..130, all four methods; "
                "non-trivial = at least two terms; distinct = distinct case line",
        "exhaustive": True,
        "assumptions": ["math/big Bit/BitLen/Lsh/Rsh/And/Xor/Sub behave as on naturals",
                        "sort.Slice returns a sorted permutation (exponents are distinct, so the result is unique)"],
    },
}
