#!/bin/sh
# Build the framework from files on disk only (offline).
set -e
cd "$(dirname "$0")"
export GOFLAGS=-mod=mod GOPROXY=off GOSUMDB=off GOTOOLCHAIN=local CGO_ENABLED=0
mkdir -p work evidence replays harness/bin
cp /repo/go.sum harness/go.sum
(cd harness && for c in cmd/*; do go build -tags verif -o bin/$(basename $c) ./$c; done)
(cd lean && lake build AC acdriver 2>&1 | grep -E "^error|error:|Build completed|build failed" || true)
test -x lean/.lake/build/bin/acdriver
