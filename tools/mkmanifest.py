#!/usr/bin/env python3
"""Regenerate /verif/MANIFEST.json from checklib/registry.py."""
import json, os, subprocess, sys
VERIF = os.path.dirname(os.path.dirname(os.path.abspath(__file__)))
sys.path.insert(0, VERIF)
from checklib import registry

ids = [json.loads(l)["id"] for l in open(os.path.join(VERIF, "properties.jsonl"))]
hooks = subprocess.run(["git", "-C", "/repo", "log", "--format=%H %s"], capture_output=True, text=True).stdout
hook_commits = [l.split()[0] for l in hooks.splitlines() if l.split(" ", 1)[1].startswith("verif:")]
checks, na = [], []
for pid in ids:
    cfg = registry.PROPS.get(pid)
    if not cfg or cfg.get("not_applicable"):
        na.append({"property_id": pid, "reason": (cfg or {}).get("not_applicable", "check not built yet (work in progress)")})
        continue
    checks.append({
        "property_id": pid,
        "quick_cmd": "./check %s --tier quick" % pid,
        "thorough_cmd": "./check %s --tier thorough" % pid,
        "evidence_file": "/verif/evidence/%s.json" % pid,
        "replay_cmd_template": "./check %s --replay {path}" % pid,
        "engine": "lean4-proof+correspondence",
        "level_claimed": {"category": "proof", "text": cfg["level_text"], "design_ref": "DESIGN.md section 6, " + pid},
        "level_note": cfg.get("level_note", "Trusted: Lean kernel (axioms propext/Classical.choice/Quot.sound), the "
                              "extractor and the correspondence harness; the hand-written model is tied to /repo by "
                              "differential execution on every run, not trusted."),
        "technique": cfg.get("technique", "Lean 4 theorems over an executable model + checked correspondence to the Go code"),
    })
m = {
    "version": 1,
    "setup_cmd": "./setup.sh",
    "hooks": {"guard": "verif", "enable": "go build -tags verif (harness module with replace => /repo)",
              "baseline_off_cmd": "cd /repo && go test -mod=mod -vet=off -count=1 -timeout 25m ./...",
              "source_commits": hook_commits, "add_only": True},
    "engines": [{"name": "lean4-proof+correspondence", "path": "/verif/check",
                 "serves_properties": [c["property_id"] for c in checks],
                 "kind_free_text": "Lean 4 machine-checked theorems about hand-written executable models (lean/AC), "
                                   "tied to /repo on every run by a go/ast fact extractor regenerating Lean tables and by a "
                                   "Go harness + compiled Lean driver differential run; decidable specs evaluated on the "
                                   "implementation's own output separate violations from harmless divergence"}],
    "checks": checks,
    "not_applicable": na,
    "notes": "See DESIGN.md. known_findings.txt lists recorded defects; seeded/ holds validated mutations.",
}
json.dump(m, open(os.path.join(VERIF, "MANIFEST.json"), "w"), indent=1)
print("checks:", len(checks), "not_applicable:", len(na))
