#!/bin/bash
# usage: confirm_all.sh C07 C03 ...
for pid in "$@"; do for m in m3 m4 m5 m6 m7 m8 m9 m10 m11 m12 m13 m14; do
  if [ -f /tmp/mw2/$pid-out/$m/patch.diff ] && [ -f /tmp/mw2/$pid-out/$m/notes.md ] && ls /tmp/mw2/$pid-out/$m/*_test.go >/dev/null 2>&1 && [ ! -f /tmp/mw2/$pid-out/$m/confirm.log ]; then
    SEEDSRC=/tmp/mw2 /verif/tools/confirm_seed.sh $pid $m > /tmp/mw2/$pid-out/$m/confirm.log 2>&1
    tail -1 /tmp/mw2/$pid-out/$m/confirm.log
  fi
done; done
