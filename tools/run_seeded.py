#!/usr/bin/env python3
"""Run the registered checks against every confirmed seeded change (each applied in its own scratch
worktree of /repo, never in /repo itself) and record the outcome in seeded/<id>/meta.json and
seeded/RESULTS.md."""
import json, os, re, subprocess, sys, hashlib, tempfile, shutil
VERIF = os.path.dirname(os.path.dirname(os.path.abspath(__file__)))
SEEDED = os.path.join(VERIF, "seeded")
EXTRA = {"C16-m8": ["C14"], "C05-m7": ["C06"], "C05-m8": ["C06"], "C04-m8": ["C07"], "C06-m4": ["C07"], "C01-m4": ["C12"], "C14-m7": ["C13"], "C03-m6": ["C18"], "C15-m6": ["C18"], "C11-m2": ["C02"], "C10-m1": ["C02"], "C14-m2": ["C13"], "C18-m2": ["C04"], "C04-m1": ["C18"],
         "C06-m1": ["C05"], "C14-m1": ["C12"], "C15-m2": ["C12"], "C04-m12": ["C14"], "C05-m12": ["C18", "C04"], "C02-m11": ["C10"], "C02-m12": ["C08"],
         "C18-m11": ["C02"], "C19-m11": ["C08"], "C06-m14": ["C03"], "C07-m13": ["C03"], "C13-m14": ["C15"], "C01-m14": ["C12"]}
only = sys.argv[1:]
rows = []
for d in sorted(os.listdir(SEEDED)):
    path = os.path.join(SEEDED, d)
    if not os.path.isdir(path) or (only and d not in only):
        continue
    pid = d.split("-")[0]
    wt = tempfile.mkdtemp(prefix="seedrun.")
    subprocess.run(["git", "-C", "/repo", "worktree", "add", "-q", "--detach", wt, "HEAD"], check=True)
    ok = subprocess.run(["git", "-C", wt, "apply", os.path.join(path, "patch.diff")]).returncode == 0
    results = {}
    if ok:
        for chk in [pid] + EXTRA.get(d, []):
            env = dict(os.environ, VERIF_REPO=wt, VERIF_NO_WIDEN="1", VERIF_STALL_SECONDS=os.environ.get("VERIF_STALL_SECONDS", "120"))
            p = subprocess.run([os.path.join(VERIF, "check"), chk, "--tier", "quick"], env=env,
                               capture_output=True, text=True)
            out = p.stdout
            viol = [l for l in out.splitlines() if l.startswith("VIOLATION")]
            summ = [l for l in out.splitlines() if " tier=" in l]
            kind = "missed"
            if viol:
                kind = "violation-no-failing-input-found" if "no-failing-input-found" in viol[0] else "violation-with-replay"
            clause = ""
            m = re.search(r"replay=(\S+)", viol[0]) if viol else None
            if m and os.path.exists(m.group(1)):
                try:
                    rp = json.load(open(m.group(1)))
                    clause = rp.get("clause", "") or "; ".join(rp.get("no_longer_checks", [])[:2])[:300]
                    case = rp.get("case", "")[:300]
                except Exception:
                    case = ""
            else:
                case = ""
            results[chk] = {"outcome": kind, "exit": p.returncode, "clause": clause, "case": case,
                            "summary": summ[0] if summ else ""}
    subprocess.run(["git", "-C", "/repo", "worktree", "remove", "--force", wt])
    tag = hashlib.sha1(wt.encode()).hexdigest()[:8]
    shutil.rmtree(os.path.join(VERIF, "work", "alt-" + tag), ignore_errors=True)
    notes = open(os.path.join(path, "notes.md")).read() if os.path.exists(os.path.join(path, "notes.md")) else ""
    meta_path = os.path.join(path, "meta.json")
    meta = json.load(open(meta_path)) if os.path.exists(meta_path) else {}
    def section(rx):
        m = re.search(r"^#+[^\n]*(" + rx + r")[^\n]*\n(.*?)(?=^#+ |\Z)", notes, re.S | re.M | re.I)
        return re.sub(r"\s+", " ", m.group(2)).strip()[:900] if m else ""
    title = next((l.lstrip("# ").strip() for l in notes.splitlines() if l.startswith("# ")), "")
    needs = section("manifest|trigger|needs|needed|condition|when it") or section("failing input|fail")
    breaks = section("clause|breaks|broken")
    meta.update({
        "id": d, "property": pid,
        "what_it_changes": title,
        "clause_broken": breaks,
        "needs_to_manifest": needs,
        "ran": "tools/confirm_seed.sh (worktree of /repo HEAD: demo passes; patch applied: builds, full suite passes, demo fails), then ./check <property> --tier quick with VERIF_REPO=<scratch worktree with the patch> (tools/run_seeded.py)",
        "source": "fresh sub-agent given only the property text and its own scratch worktree",
        "confirmed": "tools/confirm_seed.sh: applies, builds, existing suite passes, demonstration fails with it and passes without (confirmation.log)",
        "applies_to_head": ok,
        "checks_run": {k: v for k, v in results.items()},
    })
    json.dump(meta, open(meta_path, "w"), indent=1)
    rows.append((d, results))
with open(os.path.join(SEEDED, "RESULTS.md"), "a" if only else "w") as f:
    if not only:
        f.write("# Seeded changes vs checks (quick tier, applied in a scratch worktree)\n\n| seed | check | outcome | first failing clause / what no longer checks |\n|---|---|---|---|\n")
    for d, results in rows:
        for chk, r in results.items():
            f.write("| %s | %s | %s | %s |\n" % (d, chk, r["outcome"], (r["clause"] or "").replace("|", "/")[:160]))
print("done", len(rows))
