#!/bin/bash
# confirm every delivered seed, then run the checks on every confirmed seed without meta.json
ALL="C01 C02 C03 C04 C05 C06 C07 C08 C09 C10 C11 C12 C13 C14 C15 C16 C17 C18 C19 C20"
/tmp/mw2/confirm_all.sh $ALL
cd /verif
todo=""
for d in seeded/*-m3 seeded/*-m4 seeded/*-m5 seeded/*-m6 seeded/*-m7 seeded/*-m8 seeded/*-m9 seeded/*-m10 seeded/*-m11 seeded/*-m12 seeded/*-m13 seeded/*-m14; do [ -d $d ] && [ ! -f $d/meta.json ] && todo="$todo $(basename $d)"; done
[ -n "$todo" ] && python3 tools/run_seeded.py $todo
echo PIPELINE-DONE $todo
