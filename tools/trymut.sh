#!/bin/sh
# trymut.sh <patch.diff> <Cnn> [<Cnn> ...]: evaluate the checks against a seeded change in a scratch
# worktree (never in /repo). Prints the last lines of each check.
set -e
patch="$1"; shift
wt=$(mktemp -d /tmp/trymut.XXXXXX)
git -C /repo worktree add -q --detach "$wt" HEAD
if ! git -C "$wt" apply "$patch"; then echo "patch does not apply"; git -C /repo worktree remove --force "$wt"; exit 3; fi
for p in "$@"; do
  echo "=== $p"
  VERIF_REPO="$wt" /verif/check "$p" --tier "${VERIF_TIER:-quick}" 2>&1 | tail -${TAIL:-6} || true
done
git -C /repo worktree remove --force "$wt"
tag=$(python3 -c "import hashlib,sys;print(hashlib.sha1(sys.argv[1].encode()).hexdigest()[:8])" "$wt")
rm -rf "/verif/work/alt-$tag"
