#!/bin/sh
# trymut.sh <patch.diff> <Cnn> [<Cnn> ...]: evaluate the checks against a seeded change in a scratch
# worktree (never in /repo). Prints the last lines of each check.
set -e
patch="$1"; shift
wt=$(mktemp -d /tmp/trymut.XXXXXX)
git -C /repo worktree add -q --detach "$wt" HEAD
git -C "$wt" apply "$patch"
for p in "$@"; do
  echo "=== $p"
  VERIF_REPO="$wt" /verif/check "$p" --tier "${VERIF_TIER:-quick}" 2>&1 | tail -${TAIL:-6} || true
done
git -C /repo worktree remove --force "$wt"
rm -rf /verif/work/alt-*
