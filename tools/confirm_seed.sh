#!/bin/bash
# confirm_seed.sh <Cnn> <mK>: confirm a seeded change produced by a sub-agent in a scratch worktree:
# it compiles, the existing test suite passes with it, the demonstration fails with it and passes
# without it. Then record it under /verif/seeded/<Cnn>-<mK>/ and run the checks given as further args.
set -u
export GOFLAGS=-mod=mod GOPROXY=off GOSUMDB=off GOTOOLCHAIN=local
pid="$1"; m="$2"; shift 2
src=${SEEDSRC:-/root/mw}/$pid-out/$m
dst=/verif/seeded/$pid-$m
wt=$(mktemp -d /tmp/seed.XXXXXX)
git -C /repo worktree add -q --detach "$wt" HEAD
demo=$(ls $src/*_test.go | head -1)
demopath=$(grep -oE 'demo path: [^ ]+' $src/notes.md | head -1 | sed 's/demo path: //' | tr -d '`*')
[ -z "$demopath" ] && demopath=$(basename $demo)
demodir=$(dirname "$demopath")
log=$(mktemp)
{
echo "demo path: $demopath"
cp $demo $wt/$demopath
(cd $wt && go test -vet=off -count=1 -run 'Demo' ./$demodir/ >/dev/null 2>&1); r0=$?
echo "demo on HEAD: exit $r0 (expect 0)"
git -C $wt apply $src/patch.diff; ra=$?
echo "apply: exit $ra"
(cd $wt && go build ./... ); rb=$?
echo "build with change: exit $rb"
(cd $wt && go test -vet=off -count=1 -run 'Demo' ./$demodir/ >/dev/null 2>&1); r1=$?
echo "demo with change: exit $r1 (expect non-zero)"
rm $wt/$demopath
(cd $wt && go test -vet=off -count=1 -timeout 25m ./... > $log.suite 2>&1); rs=$?
grep -v "no test files" $log.suite | grep -v "^ok" | head -20; rm -f $log.suite
echo "existing suite with change: exit $rs (expect 0)"
} > $log 2>&1
cat $log
git -C /repo worktree remove --force "$wt"
if grep -q "demo on HEAD: exit 0" $log && grep -q "apply: exit 0" $log && grep -q "build with change: exit 0" $log && ! grep -q "demo with change: exit 0 " $log && grep -q "existing suite with change: exit 0" $log; then
  mkdir -p $dst
  cp $src/patch.diff $dst/patch.diff
  cp $demo $dst/
  cp $src/notes.md $dst/notes.md
  cp $log $dst/confirmation.log
  echo "CONFIRMED -> $dst"
else
  echo "NOT CONFIRMED"
fi
rm -f $log
