module verifharness

go 1.16

require github.com/mmcloughlin/addchain v0.0.0

replace github.com/mmcloughlin/addchain => /repo
