package main

import (
	"bufio"
	"encoding/hex"
	"fmt"
	"math/big"
	"os"
	"runtime"
	"strings"
	"sync"
	"sync/atomic"
	"time"

	"github.com/mmcloughlin/addchain"
)

// RNG is splitmix64: every random choice of a run derives from one seed.
type RNG struct{ s uint64 }

func NewRNG(seed uint64) *RNG { return &RNG{s: seed} }

func (r *RNG) Next() uint64 {
	r.s += 0x9e3779b97f4a7c15
	z := r.s
	z = (z ^ (z >> 30)) * 0xbf58476d1ce4e5b9
	z = (z ^ (z >> 27)) * 0x94d049bb133111eb
	return z ^ (z >> 31)
}

func (r *RNG) Intn(n int) int {
	if n <= 0 {
		return 0
	}
	return int(r.Next() % uint64(n))
}

func (r *RNG) Bool() bool { return r.Next()&1 == 1 }

// Bits returns a uniformly random integer below 2^n.
func (r *RNG) Bits(n int) *big.Int {
	x := new(big.Int)
	for i := 0; i < n; i += 64 {
		x.Lsh(x, 64)
		x.Or(x, new(big.Int).SetUint64(r.Next()))
	}
	if n%64 != 0 || true {
		x.And(x, new(big.Int).Sub(new(big.Int).Lsh(big.NewInt(1), uint(n)), big.NewInt(1)))
	}
	return x
}

func hashString(s string) uint64 {
	h := uint64(1469598103934665603)
	for i := 0; i < len(s); i++ {
		h ^= uint64(s[i])
		h *= 1099511628211
	}
	return h
}

// Gen is the case writer.
type Gen struct {
	// PendingPath, when set, receives the description of the case that is about to be executed: a
	// fatal error of the Go runtime inside the code under test (stack overflow from an unbounded
	// recursion, out of memory) cannot be recovered in-process, and the check then names this case.
	PendingPath string
	pendFile    *os.File
	pendLen     int
	Tier        string
	Thorough    bool
	R           *RNG
	W           *bufio.Writer
	N           int
	Stats       map[string]int
	Notes       []string
}

// Line writes one protocol line.
// pendingSince: unix time of the last Pending record that no Line has followed yet (0 = none). The
// watchdog of main.go ends the process with a Go-runtime-style "fatal error:" line when a pending case
// has not returned for VERIF_STALL_SECONDS (default 900): a call of the code under test that never
// returns then becomes a replay through the pending-case record, instead of blocking the check.
var pendingSince atomic.Int64

func (g *Gen) Line(fields ...string) {
	pendingSince.Store(0)
	for i, f := range fields {
		if f == "" {
			fields[i] = "-"
		}
	}
	g.W.WriteString(strings.Join(fields, " "))
	g.W.WriteByte('\n')
	g.N++
}

func (g *Gen) Count(k string) { g.Stats[k]++ }

// Returned marks the pending case as finished when no Line follows it (probes judged on the Go side).
func (g *Gen) Returned() { pendingSince.Store(0) }

// Pending records the case that is about to be executed (see PendingPath).
func (g *Gen) Pending(fields ...string) {
	if g.PendingPath == "" {
		return
	}
	if g.pendFile == nil {
		f, err := os.Create(g.PendingPath)
		if err != nil {
			g.PendingPath = ""
			return
		}
		g.pendFile = f
	}
	// one positional write per case: the record is padded with blanks to cover the previous one
	b := []byte(strings.Join(fields, " "))
	n := len(b)
	for len(b) < g.pendLen {
		b = append(b, ' ')
	}
	g.pendLen = n
	_, _ = g.pendFile.WriteAt(append(b, '\n'), 0)
	pendingSince.Store(time.Now().Unix())
}

// failAfter is a writer that accepts n bytes and then fails: the code under test must report the error.
type failAfter struct {
	n       int
	written []byte
}

func (w *failAfter) Write(p []byte) (int, error) {
	if len(p) <= w.n {
		w.n -= len(p)
		w.written = append(w.written, p...)
		return len(p), nil
	}
	k := w.n
	w.written = append(w.written, p[:k]...)
	w.n = 0
	return k, fmt.Errorf("write failed after the budget")
}

// notesViolation reports whether a harness-side violation has been recorded.
func (g *Gen) notesViolation() bool {
	for _, n := range g.Notes {
		if strings.HasPrefix(n, "VIOLATION:") {
			return true
		}
	}
	return false
}

// Parallel runs the tasks on a worker pool and writes the lines they return in task
// order, so the output is independent of scheduling. Tasks must not touch g.
func (g *Gen) Parallel(tasks []func() []string) {
	workers := runtime.NumCPU()
	if workers > 12 {
		workers = 12
	}
	res := make([][]string, len(tasks))
	var wg sync.WaitGroup
	next := int64(-1)
	for w := 0; w < workers; w++ {
		wg.Add(1)
		go func() {
			defer wg.Done()
			for {
				i := int(atomic.AddInt64(&next, 1))
				if i >= len(tasks) {
					return
				}
				res[i] = tasks[i]()
			}
		}()
	}
	wg.Wait()
	for _, fields := range res {
		// a task may return several lines, separated by the field "\n"
		for len(fields) > 0 {
			k := 0
			for k < len(fields) && fields[k] != "\n" {
				k++
			}
			if k > 0 {
				g.Line(fields[:k]...)
			}
			if k == len(fields) {
				break
			}
			fields = fields[k+1:]
		}
	}
}

func (g *Gen) corpus(path string) {
	b, err := os.ReadFile(path)
	if err != nil {
		return
	}
	_ = b
}

// pick returns q in quick tier and t in thorough tier.
func (g *Gen) pick(q, t int) int {
	if g.Thorough {
		return t
	}
	return q
}

// encoders

func encInts(xs []*big.Int) string {
	if len(xs) == 0 {
		return "-"
	}
	ss := make([]string, len(xs))
	for i, x := range xs {
		ss[i] = x.String()
	}
	return strings.Join(ss, ",")
}

func encIntSlice(xs []int) string {
	if len(xs) == 0 {
		return "-"
	}
	ss := make([]string, len(xs))
	for i, x := range xs {
		ss[i] = fmt.Sprint(x)
	}
	return strings.Join(ss, ",")
}

func encUints(xs []uint) string {
	if len(xs) == 0 {
		return "-"
	}
	ss := make([]string, len(xs))
	for i, x := range xs {
		ss[i] = fmt.Sprint(x)
	}
	return strings.Join(ss, ",")
}

func encOps(p []addchain.Op) string {
	if len(p) == 0 {
		return "-"
	}
	ss := make([]string, len(p))
	for i, o := range p {
		ss[i] = fmt.Sprintf("%d:%d", o.I, o.J)
	}
	return strings.Join(ss, ",")
}

func encHex(s string) string {
	if s == "" {
		return "-"
	}
	return hex.EncodeToString([]byte(s))
}

func b01(b bool) string {
	if b {
		return "1"
	}
	return "0"
}

func ints(xs ...int64) []*big.Int {
	r := make([]*big.Int, len(xs))
	for i, x := range xs {
		r[i] = big.NewInt(x)
	}
	return r
}

func cloneInts(xs []*big.Int) []*big.Int {
	r := make([]*big.Int, len(xs))
	for i, x := range xs {
		r[i] = new(big.Int).Set(x)
	}
	return r
}

func equalInts(a, b []*big.Int) bool {
	if len(a) != len(b) {
		return false
	}
	for i := range a {
		if a[i].Cmp(b[i]) != 0 {
			return false
		}
	}
	return true
}

// safe runs f, converting a panic into the returned string.
func safe(f func()) (panicked string) {
	defer func() {
		if r := recover(); r != nil {
			panicked = fmt.Sprint(r)
		}
	}()
	f()
	return ""
}

// validChains enumerates every valid addition chain (any element order, no
// duplicates) of exactly the given length with values at most maxv.
func validChains(length int, maxv int64, f func(c []int64)) {
	c := []int64{1}
	var rec func()
	rec = func() {
		if len(c) == length {
			f(c)
			return
		}
		seen := map[int64]bool{}
		for i := 0; i < len(c); i++ {
			for j := i; j < len(c); j++ {
				s := c[i] + c[j]
				if s > maxv || seen[s] {
					continue
				}
				dup := false
				for _, x := range c {
					if x == s {
						dup = true
						break
					}
				}
				if dup {
					continue
				}
				seen[s] = true
				c = append(c, s)
				rec()
				c = c[:len(c)-1]
			}
		}
	}
	rec()
}

func fromInt64s(c []int64) addchain.Chain { return addchain.Int64s(c...) }

func decInts(s string) []*big.Int {
	if s == "-" || s == "" {
		return []*big.Int{}
	}
	parts := strings.Split(s, ",")
	r := make([]*big.Int, 0, len(parts))
	for _, p := range parts {
		x, ok := new(big.Int).SetString(p, 10)
		if !ok {
			x = new(big.Int)
		}
		r = append(r, x)
	}
	return r
}

func sortInts(xs []*big.Int) {
	for a := 1; a < len(xs); a++ {
		for b := a; b > 0 && xs[b-1].Cmp(xs[b]) > 0; b-- {
			xs[b-1], xs[b] = xs[b], xs[b-1]
		}
	}
}
