package main

import (
	"bytes"
	"fmt"
	"math/big"
	"os"
	"strconv"
	"strings"
	"sync"
	"time"

	"github.com/mmcloughlin/addchain"
	"github.com/mmcloughlin/addchain/acc"
	"github.com/mmcloughlin/addchain/acc/ast"
	"github.com/mmcloughlin/addchain/acc/ir"
	"github.com/mmcloughlin/addchain/acc/pass"
	"github.com/mmcloughlin/addchain/acc/printer"
	"github.com/mmcloughlin/addchain/alg"
	"github.com/mmcloughlin/addchain/alg/ensemble"
	"github.com/mmcloughlin/addchain/alg/exec"
	"github.com/mmcloughlin/addchain/verifhooks"
)

// C04 and C16 share the generator: C04 writes `c04` lines (decompile, build, print, reload),
// C16 writes `c16` lines (the built script only).

func init() {
	// C04 re-loads every printed script (about 0.5 ms each with the memoizing parser), so its quick
	// tier enumerates length <= 5 and samples length 6; C16 only builds and enumerates length <= 6.
	props["C04"] = func(g *Gen) {
		genC04(g, c04Case, g.pick(5, 6), 16)
		genC04b(g)
	}
	props["C16"] = func(g *Gen) { c16OtherNaming(g); c16Concurrent(g); genC04(g, c16Case, 6, 8) }
	replays["C04"] = func(g *Gen, f []string) {
		if len(f) >= 2 && f[0] == "c04b" {
			c04bCase(g, f[1])
		} else if len(f) >= 2 {
			c04Case(g, decOps(f[1]))
		}
	}
	replays["C16"] = func(g *Gen, f []string) {
		if len(f) >= 2 {
			c16Case(g, decOps(f[1]))
		}
	}
}

func decOps(s string) addchain.Program {
	p := addchain.Program{}
	if s == "-" || s == "" {
		return p
	}
	for _, part := range strings.Split(s, ",") {
		ij := strings.Split(part, ":")
		if len(ij) != 2 {
			continue
		}
		i, _ := strconv.Atoi(ij[0])
		j, _ := strconv.Atoi(ij[1])
		p = append(p, addchain.Op{I: i, J: j})
	}
	return p
}

// irDump renders an IR program as `k:A(i,j);k:D(i);k:S(i,s)` (k = output index), `-` when empty.
func irDump(p *ir.Program) string {
	if len(p.Instructions) == 0 {
		return "-"
	}
	parts := make([]string, len(p.Instructions))
	for n, inst := range p.Instructions {
		var o string
		switch op := inst.Op.(type) {
		case ir.Add:
			o = fmt.Sprintf("A(%d,%d)", op.X.Index, op.Y.Index)
		case ir.Double:
			o = fmt.Sprintf("D(%d)", op.X.Index)
		case ir.Shift:
			o = fmt.Sprintf("S(%d,%d)", op.X.Index, op.S)
		default:
			o = "?"
		}
		parts[n] = fmt.Sprintf("%d:%s", inst.Output.Index, o)
	}
	return strings.Join(parts, ";")
}

func exprDump(b *strings.Builder, e ast.Expr) {
	switch x := e.(type) {
	case ast.Operand:
		fmt.Fprintf(b, "O(%d)", int(x))
	case ast.Identifier:
		fmt.Fprintf(b, "I(%s)", string(x))
	case ast.Add:
		b.WriteString("A(")
		exprDump(b, x.X)
		b.WriteString(",")
		exprDump(b, x.Y)
		b.WriteString(")")
	case ast.Shift:
		b.WriteString("S(")
		exprDump(b, x.X)
		fmt.Fprintf(b, ",%d)", x.S)
	case ast.Double:
		b.WriteString("D(")
		exprDump(b, x.X)
		b.WriteString(")")
	default:
		b.WriteString("?")
	}
}

// scriptDump renders a script as `name=expr;...;=expr` with prefix-form expressions.
func scriptDump(c *ast.Chain) string {
	if len(c.Statements) == 0 {
		return "-"
	}
	var b strings.Builder
	for n, s := range c.Statements {
		if n > 0 {
			b.WriteString(";")
		}
		b.WriteString(string(s.Name))
		b.WriteString("=")
		exprDump(&b, s.Expr)
	}
	return b.String()
}

// irParse reads an IR dump back into a program with a fresh operand object per occurrence.
func irParse(s string) *ir.Program {
	p := &ir.Program{}
	if s == "-" || s == "" {
		return p
	}
	for _, part := range strings.Split(s, ";") {
		var k, x, y int
		switch {
		case scan(part, "%d:A(%d,%d)", &k, &x, &y):
			p.AddInstruction(&ir.Instruction{Output: ir.Index(k), Op: ir.Add{X: ir.Index(x), Y: ir.Index(y)}})
		case scan(part, "%d:D(%d)", &k, &x):
			p.AddInstruction(&ir.Instruction{Output: ir.Index(k), Op: ir.Double{X: ir.Index(x)}})
		case scan(part, "%d:S(%d,%d)", &k, &x, &y):
			p.AddInstruction(&ir.Instruction{Output: ir.Index(k), Op: ir.Shift{X: ir.Index(x), S: uint(y)}})
		}
	}
	return p
}

func scan(s, format string, args ...interface{}) bool {
	n, err := fmt.Sscanf(s, format, args...)
	return err == nil && n == len(args)
}

// c04bCase runs Build directly on an unnamed IR program (not necessarily one Decompile would
// produce): correspondence for the builder model on general IR.
func c04bCase(g *Gen, dump string) {
	bld := "panic"
	safe(func() {
		ch, err := acc.Build(irParse(dump))
		if err != nil {
			bld = "err"
			return
		}
		bld = scriptDump(ch)
	})
	g.Line("c04b", dump, bld)
}

// c04IR turns a program into an IR dump by an arbitrary grouping: runs of doublings become shifts
// whether or not their intermediates are read elsewhere (dangling inputs), a doubling may be written
// as an addition of an element to itself, and with `faults` a shift by zero or a wrong output index
// is injected now and then.
func c04IR(g *Gen, p addchain.Program, faults bool) string {
	parts := []string{}
	for i := 0; i < len(p); i++ {
		op := p[i]
		if op.I != op.J {
			parts = append(parts, fmt.Sprintf("%d:A(%d,%d)", i+1, op.I, op.J))
		} else {
			j := i + 1
			if g.R.Intn(3) != 0 {
				for ; j < len(p) && p[j].I == j && p[j].J == j && g.R.Intn(6) != 0; j++ {
				}
			}
			switch s := j - i; {
			case s > 1:
				parts = append(parts, fmt.Sprintf("%d:S(%d,%d)", j, op.I, s))
				i = j - 1
			case g.R.Intn(4) == 0:
				parts = append(parts, fmt.Sprintf("%d:A(%d,%d)", i+1, op.I, op.I))
			case g.R.Intn(5) == 0:
				parts = append(parts, fmt.Sprintf("%d:S(%d,1)", i+1, op.I))
			default:
				parts = append(parts, fmt.Sprintf("%d:D(%d)", i+1, op.I))
			}
		}
		if faults {
			switch g.R.Intn(12) {
			case 0: // shift by zero of the element just produced (compiles; duplicate output index)
				parts = append(parts, fmt.Sprintf("%d:S(%d,0)", i+1, i+1))
			case 1: // shift by zero of another element (output-index cross-check fails)
				parts = append(parts, fmt.Sprintf("%d:S(%d,0)", i+1, g.R.Intn(i+2)))
			case 2: // wrong output index
				parts = append(parts, fmt.Sprintf("%d:D(%d)", i+1+g.R.Intn(3), g.R.Intn(i+2)))
			}
		}
	}
	if len(parts) == 0 {
		return "-"
	}
	return strings.Join(parts, ";")
}

func cloneOps(p addchain.Program) addchain.Program { return append(addchain.Program{}, p...) }

func c04Case(g *Gen, p addchain.Program) {
	in := cloneOps(p)
	irs, bld, txt, rl, rlp, dng := "panic", "-", "-", "-", "-", "0"
	var prog *ir.Program
	if msg := safe(func() {
		var err error
		prog, err = acc.Decompile(p)
		if err != nil {
			prog = nil
			irs = "err"
			return
		}
		irs = irDump(prog)
		dng = b01(pass.CheckDanglingInputs(prog) == nil)
	}); msg != "" {
		irs, prog = "panic", nil
	}
	if prog != nil {
		if msg := safe(func() {
			ch, err := acc.Build(prog)
			if err != nil {
				bld = "err"
				return
			}
			bld = scriptDump(ch)
			s, err := printer.String(ch)
			if err != nil {
				txt, rl = "-", "err"
				return
			}
			txt = encHex(s)
			p2, err := acc.LoadString(s)
			if err != nil {
				rl = "err"
				return
			}
			rl = encInts(p2.Chain)
			rlp = encOps(p2.Program)
		}); msg != "" {
			if bld == "-" {
				bld = "panic"
			} else {
				rl = "panic"
			}
		}
	}
	for i := range in {
		if i >= len(p) || in[i] != p[i] {
			g.Notes = append(g.Notes, "MUTATED:"+encOps(in))
			dng = "mutated"
			break
		}
	}
	g.Line("c04", encOps(in), irs, bld, txt, rl, rlp, dng)
}

func c16Case(g *Gen, p addchain.Program) {
	bld := "panic"
	bld2 := ""
	safe(func() {
		prog, err := acc.Decompile(p)
		if err != nil {
			bld = "err"
			return
		}
		ch, err := acc.Build(prog)
		if err != nil {
			bld = "err"
			return
		}
		bld = scriptDump(ch)
		// history: building the same program again (acc.String followed by acc.Save, fmt -b
		// after gen, ...) must give the same script — the passes cache their results on the
		// program and must not disturb them
		ch2, err := acc.Build(prog)
		if err != nil {
			bld2 = "err"
			return
		}
		bld2 = scriptDump(ch2)
	})
	g.Line("c16", encOps(p), bld)
	c16CloneProbe(g, p)
	if bld2 != "" && bld2 != bld {
		g.Line("c16", encOps(p), bld2)
		g.Count("second-build-differs")
	}
}

// c16CloneProbe: history through ir.Program.Clone. The program is built (the passes leave their
// results on it), cloned, the clone is extended by a doubling of the result, and the clone is built:
// the script must be the one for the extended program (pass results of the original must not leak
// into the clone). Only when the last operation is an addition and twice the last value is new, so
// that Decompile of the extended program is Decompile of the program plus that doubling.
func c16CloneProbe(g *Gen, p addchain.Program) {
	n := len(p)
	if n == 0 || p[n-1].I == p[n-1].J || (g.N%3 != 0 && n > 3) {
		return
	}
	var chain addchain.Chain
	if safe(func() { chain = p.Evaluate() }) != "" || len(chain) != n+1 {
		return
	}
	twice := new(big.Int).Lsh(chain[n], 1)
	for _, v := range chain {
		if v.Cmp(twice) == 0 {
			return
		}
	}
	dump := "panic"
	ok := false
	safe(func() {
		prog, err := acc.Decompile(p)
		if err != nil {
			return
		}
		if _, err := acc.Build(prog); err != nil {
			return
		}
		cl := prog.Clone()
		cl.AddInstruction(&ir.Instruction{Output: ir.Index(n + 1), Op: ir.Double{X: ir.Index(n)}})
		ch, err := acc.Build(cl)
		ok = true
		if err != nil {
			dump = "err"
			return
		}
		dump = scriptDump(ch)
	})
	if !ok {
		return
	}
	g.Line("c16", encOps(append(cloneOps(p), addchain.Op{I: n, J: n})), dump)
	g.Count("clone-extend-build")
}

// c04Enum calls f on every program of exactly length n whose operands are in range (op k reads
// positions 0..k, both operand orders) and whose chain values are pairwise distinct. With
// sample > 0 only about one in `sample` complete programs is emitted.
func c04Enum(g *Gen, n int, sample int, f func(p addchain.Program)) {
	vals := []int64{1}
	p := addchain.Program{}
	var rec func()
	rec = func() {
		if len(p) == n {
			if sample <= 1 || g.R.Intn(sample) == 0 {
				f(cloneOps(p))
			}
			return
		}
		k := len(p)
		for i := 0; i <= k; i++ {
			for j := 0; j <= k; j++ {
				s := vals[i] + vals[j]
				dup := false
				for _, v := range vals {
					if v == s {
						dup = true
						break
					}
				}
				if dup {
					continue
				}
				vals = append(vals, s)
				p = append(p, addchain.Op{I: i, J: j})
				rec()
				vals = vals[:len(vals)-1]
				p = p[:len(p)-1]
			}
		}
	}
	rec()
}

// c04Targets are structured targets: long runs of ones, small byte values, field primes and
// the usual inversion exponents.
func c04Targets(g *Gen) []*big.Int {
	pow := func(k uint) *big.Int { return new(big.Int).Lsh(big.NewInt(1), k) }
	sub := func(a *big.Int, b int64) *big.Int { return new(big.Int).Sub(a, big.NewInt(b)) }
	ts := []*big.Int{
		sub(pow(255), 19), sub(pow(255), 21), sub(pow(127), 1), sub(pow(64), 1), sub(pow(130), 5),
		sub(pow(89), 1), sub(pow(521), 1), sub(pow(521), 3),
	}
	// secp256k1 field prime and p-2
	sp := new(big.Int).Sub(pow(256), pow(32))
	sp.Sub(sp, big.NewInt(977))
	ts = append(ts, sp, sub(sp, 2))
	// NIST P-256 prime - 2
	p256 := new(big.Int).Sub(pow(256), pow(224))
	p256.Add(p256, pow(192))
	p256.Add(p256, pow(96))
	p256.Sub(p256, big.NewInt(3))
	ts = append(ts, p256)
	for _, k := range []uint{9, 10, 17, 33, 100, 200} {
		ts = append(ts, sub(pow(k), 1))
	}
	for _, v := range []int64{1, 2, 3, 5, 7, 15, 31, 47, 255, 256, 257, 511, 1023, 65537} {
		ts = append(ts, big.NewInt(v))
	}
	return ts
}

// c04Random builds a random program of about n operations with pairwise distinct values, rich
// in doubling runs, operations that re-use the middle of a doubling run, and chains of
// once-used additions (the shapes the builder inlines up to its complexity limit).
func c04Random(g *Gen, n int) addchain.Program {
	vals := []*big.Int{big.NewInt(1)}
	seen := map[string]bool{"1": true}
	p := addchain.Program{}
	add := func(i, j int) bool {
		s := new(big.Int).Add(vals[i], vals[j])
		if s.BitLen() > 900 || seen[s.String()] {
			return false
		}
		seen[s.String()] = true
		vals = append(vals, s)
		p = append(p, addchain.Op{I: i, J: j})
		return true
	}
	lastRunStart, lastRunEnd := -1, -1
	for len(p) < n {
		last := len(vals) - 1
		switch g.R.Intn(10) {
		case 0, 1, 2: // doubling run from the last (or sometimes an earlier) element
			from := last
			if g.R.Intn(4) == 0 {
				from = g.R.Intn(len(vals))
			}
			l := 1 + g.R.Intn(12)
			if !add(from, from) {
				continue
			}
			start := len(vals) - 1
			for t := 1; t < l; t++ {
				k := len(vals) - 1
				if !add(k, k) {
					break
				}
			}
			lastRunStart, lastRunEnd = start, len(vals)-1
		case 3, 4: // re-use an intermediate of the most recent doubling run
			if lastRunStart < 0 || lastRunEnd-lastRunStart < 1 {
				continue
			}
			mid := lastRunStart + g.R.Intn(lastRunEnd-lastRunStart)
			other := last
			if g.R.Intn(3) == 0 {
				other = g.R.Intn(len(vals))
			}
			if g.R.Bool() {
				add(mid, other)
			} else {
				add(other, mid)
			}
		case 5, 6, 7: // chain of additions each used once by the next one
			l := 1 + g.R.Intn(9)
			for t := 0; t < l; t++ {
				k := len(vals) - 1
				r := g.R.Intn(len(vals))
				if g.R.Intn(3) == 0 {
					r = g.R.Intn(1 + len(vals)/4)
				}
				if g.R.Bool() {
					add(k, r)
				} else {
					add(r, k)
				}
			}
		case 8: // addition inside a would-be run: x, 2x, then 2x+x' style
			add(last, g.R.Intn(len(vals)))
			k := len(vals) - 1
			add(k, k)
		default:
			add(g.R.Intn(len(vals)), g.R.Intn(len(vals)))
		}
	}
	return p
}

// c04Runs builds a program in the style of the runs algorithms: values 2^n - 1 obtained as
// (2^a - 1) << b + (2^b - 1), with the shifts as doubling runs, interleaved with a few small
// additions. Such programs exercise the `x<n>` names (runs longer than 8 bits), the `_<binary>`
// names and, for the shifted intermediates that are read twice, the `i<index>` names.
func c04Runs(g *Gen, steps int) addchain.Program {
	vals := []*big.Int{big.NewInt(1)}
	seen := map[string]int{"1": 0}
	p := addchain.Program{}
	// add returns the index holding vals[i]+vals[j], appending an operation only for a new value
	add := func(i, j int) int {
		s := new(big.Int).Add(vals[i], vals[j])
		if k, ok := seen[s.String()]; ok {
			return k
		}
		if s.BitLen() > 900 {
			return -1
		}
		seen[s.String()] = len(vals)
		vals = append(vals, s)
		p = append(p, addchain.Op{I: i, J: j})
		return len(vals) - 1
	}
	runIdx := map[int]int{1: 0} // run length -> index of 2^len - 1
	lens := []int{1}
	for t := 0; t < steps; t++ {
		top := 3
		if len(lens) < top {
			top = len(lens)
		}
		a := lens[len(lens)-1-g.R.Intn(top)]
		b := lens[g.R.Intn(len(lens))]
		if g.R.Bool() {
			a, b = b, a
		}
		if _, ok := runIdx[a+b]; ok || a+b > 400 {
			continue
		}
		k := runIdx[a]
		for d := 0; d < b && k >= 0; d++ {
			k = add(k, k)
		}
		if k < 0 {
			break
		}
		var r int
		if g.R.Bool() {
			r = add(k, runIdx[b])
		} else {
			r = add(runIdx[b], k)
		}
		if r < 0 {
			break
		}
		runIdx[a+b] = r
		lens = append(lens, a+b)
		if g.R.Intn(3) == 0 { // a stray addition re-using an earlier element
			add(r, g.R.Intn(len(vals)))
		}
	}
	return p
}

func genC04(g *Gen, emit func(g *Gen, p addchain.Program), maxLen, sample7 int) {
	// the one-element chain
	emit(g, addchain.Program{})
	g.Count("empty")
	c04FileProbe(g)
	c04CLIProbe(g)

	// every duplicate-free program up to the bound, both operand orders
	for n := 1; n <= maxLen; n++ {
		c04Enum(g, n, 0, func(p addchain.Program) {
			emit(g, p)
			g.Count(fmt.Sprintf("exhaustive-len%d", n))
		})
	}
	if g.Thorough {
		c04Enum(g, 7, sample7, func(p addchain.Program) {
			emit(g, p)
			g.Count("sampled-len7")
		})
	} else if maxLen < 6 {
		c04Enum(g, 6, 8, func(p addchain.Program) {
			emit(g, p)
			g.Count("sampled-len6")
		})
	}

	// outside the quantifier (correspondence only): chains with repeated values, operands that
	// are out of range for their position, operands above len(p) (ReadCounts panics)
	var rec func(p addchain.Program, n, hi int)
	rec = func(p addchain.Program, n, hi int) {
		if len(p) == n {
			emit(g, cloneOps(p))
			g.Count("any-operands")
			return
		}
		for i := 0; i <= hi; i++ {
			for j := 0; j <= hi; j++ {
				rec(append(p, addchain.Op{I: i, J: j}), n, hi)
			}
		}
	}
	rec(addchain.Program{}, 1, 2)
	rec(addchain.Program{}, 2, 3)
	rec(addchain.Program{}, 3, 3)
	for i := 0; i < g.pick(500, 3000); i++ {
		n := 4 + g.R.Intn(5)
		p := addchain.Program{}
		for k := 0; k < n; k++ {
			hi := k + 1
			if g.R.Intn(8) == 0 {
				hi = n + 2
			}
			p = append(p, addchain.Op{I: g.R.Intn(hi), J: g.R.Intn(hi)})
		}
		emit(g, p)
		g.Count("any-operands")
	}

	// outputs of the search algorithms
	as := ensemble.Ensemble()
	ts := c04Targets(g)
	runs := g.pick(40, 200)
	for r := 0; r < runs; r++ {
		var n *big.Int
		switch {
		case r < len(ts):
			n = ts[r]
		case r%3 == 0:
			n = ts[g.R.Intn(len(ts))]
		default:
			n = g.R.Bits(64 + g.R.Intn(193))
			n.SetBit(n, 0, 1)
			if g.R.Intn(3) == 0 { // plant a long run of ones
				l := uint(9 + g.R.Intn(40))
				at := uint(g.R.Intn(n.BitLen()))
				run := new(big.Int).Sub(new(big.Int).Lsh(big.NewInt(1), l), big.NewInt(1))
				n.Or(n, run.Lsh(run, at))
			}
		}
		a := as[g.R.Intn(len(as))]
		var res exec.Result
		if msg := safe(func() { res = exec.Execute(n, a) }); msg != "" || res.Err != nil {
			g.Count("search-failed")
			continue
		}
		emit(g, res.Program)
		g.Count("search")
	}

	// very long programs: scripts of several hundred lines (a parser with a work limit, a quadratic
	// pass or a recursion bound shows up only here)
	for _, bits := range []int{2048, 3072, 4100, 6000}[:g.pick(3, 4)] {
		n := g.R.Bits(bits)
		n.SetBit(n, bits-1, 1)
		n.SetBit(n, 0, 1)
		var a alg.ChainAlgorithm
		for _, cand := range as {
			if strings.Contains(cand.String(), "sliding_window(4)") && strings.Contains(cand.String(), "dichotomic") && !strings.HasPrefix(cand.String(), "opt(") {
				a = cand
			}
		}
		if a == nil {
			a = as[0]
		}
		var res exec.Result
		if msg := safe(func() { res = exec.Execute(n, a) }); msg != "" || res.Err != nil {
			g.Count("search-failed")
			continue
		}
		emit(g, res.Program)
		g.Count("search-very-long")
	}

	// values just above a machine word whose low word is a small value or an all-ones run: 2^k + v for
	// k around 64 and 128 (a name derived from a truncated word collides with the real small value's)
	for _, k := range []int{63, 64, 65, 66, 127, 128} {
		for _, small := range [][]addchain.Op{
			{{I: 0, J: 0}},               // 2
			{{I: 0, J: 0}, {I: 1, J: 0}}, // 2, 3
			{{I: 0, J: 0}, {I: 1, J: 0}, {I: 2, J: 2}, {I: 3, J: 0}}, // 2, 3, 6, 7
		} {
			p := addchain.Program{}
			p = append(p, small...)
			last := len(p) // index of the largest small value
			// a doubling run from 1 up to 2^k: 1 is index 0; start the run from index 1 (= 2)
			cur := 1
			for e := 1; e < k; e++ {
				p = append(p, addchain.Op{I: cur, J: cur})
				cur = len(p)
			}
			// 2^k + (largest small value), then a doubling of it, then + 1
			p = append(p, addchain.Op{I: cur, J: last})
			p = append(p, addchain.Op{I: len(p), J: len(p)})
			p = append(p, addchain.Op{I: len(p), J: 0})
			emit(g, p)
			g.Count("above-word")
		}
	}

	// programs in the style of the runs algorithms (names x<n>)
	for i := 0; i < g.pick(300, 2000); i++ {
		emit(g, c04Runs(g, 6+g.R.Intn(20)))
		g.Count("random-runs")
	}

	// random long programs
	for i := 0; i < g.pick(2000, 10000); i++ {
		p := c04Random(g, 20+g.R.Intn(181))
		emit(g, p)
		g.Count("random-long")
	}
}

// c16Concurrent: acc.Build is a pure function of the program — building different programs from several
// goroutines at once must give each the script it gets alone (the naming passes are package-level values
// shared by every call).
func c16Concurrent(g *Gen) {
	const n = 48
	progs := make([]addchain.Program, n)
	alone := make([]string, n)
	build := func(p addchain.Program) string {
		out := "panic"
		safe(func() {
			prog, err := acc.Decompile(p)
			if err != nil {
				out = "err"
				return
			}
			ch, err := acc.Build(prog)
			if err != nil {
				out = "err"
				return
			}
			out = scriptDump(ch)
		})
		return out
	}
	for i := range progs {
		if i%2 == 0 {
			progs[i] = c04Random(g, 40+g.R.Intn(200))
		} else {
			progs[i] = c04Runs(g, 10+g.R.Intn(20))
		}
		alone[i] = build(progs[i])
	}
	for round := 0; round < 4; round++ {
		got := make([]string, n)
		var wg sync.WaitGroup
		start := make(chan struct{})
		for w := 0; w < 8; w++ {
			wg.Add(1)
			go func(w int) {
				defer wg.Done()
				<-start
				for i := w; i < n; i += 8 {
					got[i] = build(progs[i])
				}
			}(w)
		}
		close(start)
		wg.Wait()
		g.Count("concurrent-builds")
		for i := range got {
			if got[i] != alone[i] {
				g.Notes = append(g.Notes, fmt.Sprintf("VIOLATION: acc.Build of program %s gives %.200s when other programs are built at the same time, and %.200s alone", encOps(progs[i]), got[i], alone[i]))
				return
			}
		}
	}
}

// c04FileProbe: the file-level API (acc.Save, acc.LoadFile, acc.Write, acc.LoadReader). A long script
// is saved, a short one is saved over it (and the other way round), and the file is loaded back: it
// must hold exactly the last program saved.
func c04FileProbe(g *Gen) {
	dir, err := os.MkdirTemp("", "c04files")
	if err != nil {
		return
	}
	defer os.RemoveAll(dir)
	long := c04Random(g, 150)
	short := addchain.Program{{I: 0, J: 0}, {I: 1, J: 0}}
	empty := addchain.Program{}
	path := dir + "/chain.acc"
	for step, p := range []addchain.Program{long, short, long, empty, short} {
		msg := ""
		pn := safe(func() {
			prog, err := acc.Decompile(p)
			if err != nil {
				msg = "decompile: " + err.Error()
				return
			}
			if err := acc.Save(path, prog); err != nil {
				msg = "save: " + err.Error()
				return
			}
			// acc.String, acc.Write and the saved file are the same text
			str, err := acc.String(prog)
			var buf bytes.Buffer
			werr := acc.Write(&buf, prog)
			data, rerr := os.ReadFile(path)
			if err != nil || werr != nil || rerr != nil || str != buf.String() || str != string(data) {
				msg = fmt.Sprintf("acc.String / acc.Write / saved file differ (%v %v %v; %d / %d / %d bytes)", err, werr, rerr, len(str), buf.Len(), len(data))
				return
			}
			// a destination that fails part-way must make acc.Write report an error: a cut-off script may
			// well load, to a different chain
			for _, k := range []int{0, len(str) / 2, len(str) - 1} {
				if k < 0 || k >= len(str) {
					continue
				}
				if e := acc.Write(&failAfter{n: k}, prog); e == nil {
					msg = fmt.Sprintf("acc.Write reports success although the writer failed after %d of %d bytes", k, len(str))
					return
				}
			}
			back, err := acc.LoadFile(path)
			if err != nil {
				msg = "load: " + err.Error()
				return
			}
			want := p.Evaluate()
			if !equalInts(back.Chain, want) {
				msg = fmt.Sprintf("file holds chain %s, saved %s", encInts(back.Chain), encInts(want))
			}
		})
		if pn != "" {
			msg = "panic: " + pn
		}
		g.Count("file-save-load")
		if msg != "" {
			g.Notes = append(g.Notes, fmt.Sprintf("VIOLATION: acc.Save then acc.LoadFile on the same path, step %d (program of %d ops): %s", step, len(p), msg))
			return
		}
	}
}

// genC04b: Build on general IR programs (correspondence only; the property quantifies over
// chain programs, whose IR is the output of Decompile).
func genC04b(g *Gen) {
	for n := 1; n <= g.pick(4, 5); n++ {
		c04Enum(g, n, 0, func(p addchain.Program) {
			for r := 0; r < 3; r++ {
				c04bCase(g, c04IR(g, p, r == 2))
				g.Count("ir-small")
			}
		})
	}
	for i := 0; i < g.pick(1500, 8000); i++ {
		var p addchain.Program
		if g.R.Intn(4) == 0 {
			p = c04Runs(g, 4+g.R.Intn(10))
		} else {
			p = c04Random(g, 5+g.R.Intn(80))
		}
		c04bCase(g, c04IR(g, p, g.R.Intn(3) == 0))
		g.Count("ir-random")
	}
	for _, d := range []string{"9:S(0,9);9:S(9,0);10:A(9,9)", "1:D(0);1:S(1,0);2:D(1)", "1:D(0);1:S(1,0)",
		"1:A(0,0);2:A(1,1)", "3:S(0,3);4:A(1,3)", "0:S(0,0)", "0:S(0,0);1:D(0)", "2:D(0)", "1:D(1)"} {
		c04bCase(g, d)
		g.Count("ir-fixed")
	}
}

// c04CLIProbe: the script the `search` subcommand prints on standard output, with and without -v and
// at two concurrency settings, is a script: it loads back to a chain that ends at the target, and
// the verbose run prints the same bytes as the quiet one (logs belong on standard error).
func c04CLIProbe(g *Gen) {
	if addchainBin() == "" {
		return
	}
	targets := []string{"47", "2^31 - 1", "0x1f3", strconv.Itoa(3 + g.R.Intn(4000))}
	for _, e := range targets {
		n, err := verifhooks.CalcEval(e)
		if err != nil || n == nil {
			continue
		}
		var quiet []byte
		for k, args := range [][]string{{"search", e}, {"search", "-v", "-p", "2", e}, {"search", "-v", e}} {
			r := runCLI(args, nil, 60*time.Second)
			if r.timedOut {
				continue
			}
			msg := ""
			if r.exit != 0 {
				msg = fmt.Sprintf("exit status %d", r.exit)
			} else if pn := safe(func() {
				p, lerr := acc.LoadString(string(r.stdout))
				if lerr != nil {
					msg = "standard output does not load: " + lerr.Error()
					return
				}
				if perr := p.Chain.Produces(n); perr != nil {
					msg = "the loaded chain is not a chain for the target: " + perr.Error()
				}
			}); pn != "" {
				msg = "loading standard output panics: " + pn
			}
			if msg == "" && k == 0 {
				quiet = r.stdout
			} else if msg == "" && quiet != nil && !bytes.Equal(quiet, r.stdout) {
				msg = "standard output differs from the one printed without -v"
			}
			if msg != "" && !g.notesViolation() {
				g.Notes = append(g.Notes, fmt.Sprintf("VIOLATION: `addchain %s`: %s", strings.Join(args, " "), msg))
			}
			g.Count("cli-search-stdout")
		}
	}
}

// c16OtherNaming: the naming passes are public and parameterised; a caller that named values with
// another width or format earlier in the process (outcome not judged) must not change what Build names
// afterwards (name caches keyed by value only).
func c16OtherNaming(g *Gen) {
	for _, f := range []struct {
		k      int
		format string
	}{{8, "_%x"}, {4, "v%d"}, {12, "b%b_"}} {
		f := f
		safe(func() {
			p, err := acc.Decompile(c04Random(g, 40))
			if err != nil {
				return
			}
			_ = pass.Exec(p, pass.NameBinaryValues(f.k, f.format), pass.NameBinaryRuns("r%d_"))
		})
	}
	g.Count("other-naming-calls")
}
