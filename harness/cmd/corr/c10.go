package main

import (
	"math/big"

	"github.com/mmcloughlin/addchain"
	"github.com/mmcloughlin/addchain/alg/opt"
)

func init() {
	props["C10"] = genC10
	replays["C10"] = func(g *Gen, f []string) {
		if len(f) >= 2 {
			c10Case(g, addchain.Chain(decInts(f[1])))
		}
	}
}

func c10Case(g *Gen, c addchain.Chain) {
	before := cloneInts(c)
	out := "err"
	var o addchain.Chain
	var err error
	if p := safe(func() { o, err = opt.Optimize(c) }); p != "" {
		out = "panic"
	} else if err == nil {
		out = encInts(o)
	}
	g.Line("c10", encInts(before), out, b01(equalInts(before, c)))
}

func genC10(g *Gen) {
	for l := 1; l <= g.pick(7, 9); l++ {
		maxv := int64(1 << 40)
		if l >= 9 {
			maxv = 40
		}
		validChains(l, maxv, func(c []int64) {
			c10Case(g, fromInt64s(c))
			g.Count("valid")
		})
	}
	// redundant chains: union of several ascending chains for one target, sorted (and some shuffled)
	for i := 0; i < g.pick(3000, 30000); i++ {
		var c addchain.Chain
		seen := map[string]bool{}
		add := func(x *big.Int) {
			if !seen[x.String()] {
				seen[x.String()] = true
				c = append(c, new(big.Int).Set(x))
			}
		}
		add(big.NewInt(1))
		n := 6 + g.R.Intn(20)
		for len(c) < n {
			a, b := c[g.R.Intn(len(c))], c[g.R.Intn(len(c))]
			if g.R.Intn(3) == 0 {
				a = c[len(c)-1]
			}
			add(new(big.Int).Add(a, b))
		}
		if g.R.Intn(4) != 0 {
			for a := 0; a < len(c); a++ {
				for b := a + 1; b < len(c); b++ {
					if c[a].Cmp(c[b]) > 0 {
						c[a], c[b] = c[b], c[a]
					}
				}
			}
		}
		c10Case(g, c)
		g.Count("redundant")
	}
	// a few invalid inputs (the property says nothing about them; correspondence only)
	for i := 0; i < 200; i++ {
		n := 1 + g.R.Intn(6)
		c := make(addchain.Chain, n)
		for j := range c {
			c[j] = big.NewInt(int64(g.R.Intn(9)) - 1)
		}
		c10Case(g, c)
		g.Count("invalid")
	}
}
