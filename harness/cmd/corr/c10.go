package main

import (
	"fmt"
	"math/big"
	"sort"

	"github.com/mmcloughlin/addchain"
	"github.com/mmcloughlin/addchain/alg/ensemble"
	"github.com/mmcloughlin/addchain/alg/opt"
)

func init() {
	props["C10"] = genC10
	replays["C10"] = func(g *Gen, f []string) {
		if len(f) >= 2 {
			c10Case(g, addchain.Chain(decInts(f[1])))
		}
	}
}

func c10Case(g *Gen, c addchain.Chain) {
	g.Pending("c10", encInts(c))
	before := cloneInts(c)
	out := "err"
	var o addchain.Chain
	var err error
	if p := safe(func() { o, err = opt.Optimize(c) }); p != "" {
		out = "panic"
	} else if err == nil {
		out = encInts(o)
	}
	g.Line("c10", encInts(before), out, b01(equalInts(before, c)))
}

// c10Long: chains of more than a thousand elements (a run of doublings, a few small values near the
// start, and final elements that are the only users of those small values), at lengths that are not
// multiples of small numbers. The list-based Lean model is cubic in the length, so these are judged
// here, against the property itself: the result must be a valid chain that is a subsequence of the
// input with the same first and last element.
func c10Long(g *Gen) {
	for _, n := range []int{1031, 1103, 1201, 1291} {
		for variant := 0; variant < 3; variant++ {
			c := addchain.Chain{big.NewInt(1), big.NewInt(2), big.NewInt(3), big.NewInt(4)}
			if variant == 1 {
				c = append(c, big.NewInt(5), big.NewInt(7))
			}
			p := new(big.Int).Set(c[3])
			for len(c) < n-1-variant {
				p = new(big.Int).Lsh(p, 1)
				c = append(c, p)
			}
			// the last elements use small values nothing else needs
			last := c[len(c)-1]
			c = append(c, new(big.Int).Add(last, big.NewInt(3)))
			if variant >= 1 {
				c = append(c, new(big.Int).Add(c[len(c)-1], c[len(c)-2]))
			}
			if variant == 2 {
				c = append(c, new(big.Int).Add(c[len(c)-1], big.NewInt(2)))
			}
			before := cloneInts(c)
			var o addchain.Chain
			var err error
			msg := ""
			if pn := safe(func() { o, err = opt.Optimize(c) }); pn != "" {
				msg = "panics: " + pn
			} else if err != nil {
				msg = "returns an error: " + err.Error()
			} else if verr := o.Validate(); verr != nil {
				msg = "returns a sequence that is not an addition chain: " + verr.Error()
			} else if len(o) == 0 || o[0].Cmp(before[0]) != 0 || o[len(o)-1].Cmp(before[len(before)-1]) != 0 {
				msg = "changes the first or last element"
			} else if !equalInts(before, c) {
				msg = "modifies its argument"
			} else {
				j := 0
				for _, x := range before {
					if j < len(o) && o[j].Cmp(x) == 0 {
						j++
					}
				}
				if j != len(o) {
					msg = "returns elements that are not a subsequence of the input"
				}
			}
			g.Count("long-chain")
			if msg != "" && !g.notesViolation() {
				g.Notes = append(g.Notes, fmt.Sprintf("VIOLATION: Optimize on a valid chain of %d elements (1 2 3 4 8 16 ... then sums using 3 and 2 only at the end, variant %d) %s", len(before), variant, msg))
			}
		}
	}
}

func genC10(g *Gen) {
	c10Long(g)
	for l := 1; l <= g.pick(7, 9); l++ {
		maxv := int64(1 << 40)
		if l >= 9 {
			maxv = 40
		}
		validChains(l, maxv, func(c []int64) {
			c10Case(g, fromInt64s(c))
			g.Count("valid")
		})
	}
	// redundant chains: union of several ascending chains for one target, sorted (and some shuffled)
	for i := 0; i < g.pick(3000, 30000); i++ {
		var c addchain.Chain
		seen := map[string]bool{}
		add := func(x *big.Int) {
			if !seen[x.String()] {
				seen[x.String()] = true
				c = append(c, new(big.Int).Set(x))
			}
		}
		add(big.NewInt(1))
		n := 6 + g.R.Intn(20)
		for len(c) < n {
			a, b := c[g.R.Intn(len(c))], c[g.R.Intn(len(c))]
			if g.R.Intn(3) == 0 {
				a = c[len(c)-1]
			}
			add(new(big.Int).Add(a, b))
		}
		if g.R.Intn(4) != 0 {
			for a := 0; a < len(c); a++ {
				for b := a + 1; b < len(c); b++ {
					if c[a].Cmp(c[b]) > 0 {
						c[a], c[b] = c[b], c[a]
					}
				}
			}
		}
		c10Case(g, c)
		g.Count("redundant")
	}
	// chains with values far beyond a machine word: unoptimised search results for 70-200 bit
	// targets, as found and with extra redundant sums inserted (some shuffled)
	ens := ensemble.Ensemble()
	for i := 0; i < g.pick(40, 300); i++ {
		n := g.R.Bits(70 + g.R.Intn(130))
		n.SetBit(n, 0, 1)
		a := ens[g.R.Intn(len(ens))]
		if oa, ok := a.(opt.Algorithm); ok {
			a = oa.Algorithm
		}
		var c addchain.Chain
		var err error
		if safe(func() { c, err = a.FindChain(n) }) != "" || err != nil || len(c) > 400 {
			continue
		}
		c = cloneInts(c)
		seen := map[string]bool{}
		for _, x := range c {
			seen[x.String()] = true
		}
		for extra := g.R.Intn(6); extra > 0; extra-- {
			s := new(big.Int).Add(c[g.R.Intn(len(c))], c[g.R.Intn(len(c))])
			if !seen[s.String()] && s.Cmp(c[len(c)-1]) < 0 {
				seen[s.String()] = true
				c = append(c, s)
			}
		}
		if g.R.Intn(3) != 0 {
			last := c[len(c)-1]
			c = c[:len(c)-1]
			c19SortInts(c)
			c = append(c, last)
		}
		c10Case(g, c)
		g.Count("search-big")
	}
	// redundant chains lifted to the top of the machine-word range: 1, 2, …, 2^k followed by 2^k times a
	// small redundant chain, with the largest element just below / at / above 2^63 and 2^64 (sums of two
	// elements wrap in 64-bit arithmetic exactly here)
	for i := 0; i < g.pick(1500, 6000); i++ {
		small := []int64{1}
		seenS := map[int64]bool{1: true}
		n := 5 + g.R.Intn(9)
		for tries := 0; len(small) < n && tries < 200; tries++ {
			a, b := small[g.R.Intn(len(small))], small[g.R.Intn(len(small))]
			if g.R.Intn(3) == 0 {
				a = small[len(small)-1]
			}
			if v := a + b; !seenS[v] {
				seenS[v] = true
				small = append(small, v)
			}
		}
		sort.Slice(small, func(x, y int) bool { return small[x] < small[y] })
		maxS := small[len(small)-1]
		bl := 0
		for v := maxS; v > 0; v >>= 1 {
			bl++
		}
		top := []int{62, 63, 64, 65}[g.R.Intn(4)] // bit length of the largest element
		k := top - bl
		if k < 1 {
			continue
		}
		c := addchain.Chain{}
		for j := 0; j < k; j++ {
			c = append(c, new(big.Int).Lsh(big.NewInt(1), uint(j)))
		}
		for _, v := range small {
			c = append(c, new(big.Int).Lsh(big.NewInt(v), uint(k)))
		}
		c10Case(g, c)
		g.Count("word-top")
	}
	// a few invalid inputs (the property says nothing about them; correspondence only)
	for i := 0; i < 200; i++ {
		n := 1 + g.R.Intn(6)
		c := make(addchain.Chain, n)
		for j := range c {
			c[j] = big.NewInt(int64(g.R.Intn(9)) - 1)
		}
		c10Case(g, c)
		g.Count("invalid")
	}
}
