package main

import (
	"bytes"
	"encoding/hex"
	"fmt"
	"go/build/constraint"
	"go/format"
	"go/token"
	"os"
	"strconv"
	"strings"
	"unicode"
	"unicode/utf8"

	vh "github.com/mmcloughlin/addchain/verifhooks"
)

// C20 — release metadata round trip (internal/metavars).
//
// Lines:
//   c20 quote <bytes> <printable code points> <impl %q>
//   c20 file <dom in|ext|out> <pkg> <props> <printable> <written|err> <readback pkg|err> <readback props> <fixedpoint 0|1>
//   c20 hist <initial props> <ops> <impl results> <impl final props>
// Byte strings are hex ("-" empty); props are name,doc,value triples joined by ';' ("-" no property).

func init() {
	props["C20"] = genC20
	replays["C20"] = func(g *Gen, f []string) {
		if len(f) < 3 {
			return
		}
		switch f[1] {
		case "quote":
			c20Quote(g, decHexStr(f[2]))
		case "file":
			if len(f) >= 5 {
				c20File(g, decHexStr(f[3]), c20DecProps(f[4]))
			}
		case "hist":
			if len(f) >= 4 {
				c20Hist(g, c20DecProps(f[2]), c20DecOps(f[3]))
			}
		}
	}
}

func decHexStr(s string) string {
	if s == "-" || s == "" {
		return ""
	}
	b, err := hex.DecodeString(s)
	if err != nil {
		return ""
	}
	return string(b)
}

func c20EncProps(ps []vh.MetavarsProperty) string {
	if len(ps) == 0 {
		return "-"
	}
	ss := make([]string, len(ps))
	for i, p := range ps {
		ss[i] = encHex(p.Name) + "," + encHex(p.Doc) + "," + encHex(p.Value)
	}
	return strings.Join(ss, ";")
}

func c20DecProps(s string) []vh.MetavarsProperty {
	if s == "-" || s == "" {
		return nil
	}
	var ps []vh.MetavarsProperty
	for _, t := range strings.Split(s, ";") {
		f := strings.Split(t, ",")
		if len(f) != 3 {
			continue
		}
		ps = append(ps, vh.MetavarsProperty{Name: decHexStr(f[0]), Doc: decHexStr(f[1]), Value: decHexStr(f[2])})
	}
	return ps
}

// printable lists the code points >= 0x80 that occur validly encoded in the
// strings and are printable according to strconv.IsPrint (the model's oracle).
func c20Printable(ss ...string) string {
	seen := map[rune]bool{}
	var out []string
	for _, s := range ss {
		for len(s) > 0 {
			r, w := utf8.DecodeRuneInString(s)
			if !(r == utf8.RuneError && w == 1) && r >= 0x80 && !seen[r] {
				seen[r] = true
				if strconv.IsPrint(r) {
					out = append(out, fmt.Sprint(int(r)))
				}
			}
			s = s[w:]
		}
	}
	if len(out) == 0 {
		return "-"
	}
	return strings.Join(out, ",")
}

func c20Quote(g *Gen, s string) {
	q := "panic"
	if p := safe(func() { q = fmt.Sprintf("%q", s) }); p != "" {
		q = "panic"
	}
	g.Line("c20", "quote", encHex(s), c20Printable(s), encHex(q))
}

func isASCIIIdent(s string) bool {
	if s == "" {
		return false
	}
	for i := 0; i < len(s); i++ {
		c := s[i]
		if !(c == '_' || 'a' <= c && c <= 'z' || 'A' <= c && c <= 'Z' || (i > 0 && '0' <= c && c <= '9')) {
			return false
		}
	}
	return !token.IsKeyword(s)
}

// nameClass: in = ASCII non-keyword identifier; ext = other Go identifier; out = not an identifier.
func nameClass(s string) string {
	if isASCIIIdent(s) {
		return "in"
	}
	if token.IsIdentifier(s) {
		return "ext"
	}
	return "out"
}

// docClass: in = printable ASCII without trailing blank and not a "+build" line (or empty);
// ext = other one-line prose (valid UTF-8, printable runes and single spaces only);
// out = anything else (outside the property's "plain prose").
func docClass(d string) string {
	if d == "" {
		return "in"
	}
	if !utf8.ValidString(d) || constraint.IsPlusBuild("// "+d) {
		return "out"
	}
	ascii := true
	for _, r := range d {
		if r >= 0x80 {
			ascii = false
		}
		if r == 0xFEFF || !(r == ' ' || unicode.IsPrint(r)) {
			return "out"
		}
	}
	last, _ := utf8.DecodeLastRuneInString(d)
	if unicode.IsSpace(last) {
		return "out"
	}
	if ascii {
		return "in"
	}
	return "ext"
}

func worst(a, b string) string {
	rank := map[string]int{"in": 0, "ext": 1, "out": 2}
	if rank[b] > rank[a] {
		return b
	}
	return a
}

func c20File(g *Gen, pkg string, ps []vh.MetavarsProperty) {
	dom := nameClass(pkg)
	vals := make([]string, len(ps))
	for i, p := range ps {
		dom = worst(dom, worst(nameClass(p.Name), docClass(p.Doc)))
		vals[i] = p.Value
	}
	orig := append([]vh.MetavarsProperty(nil), ps...)
	f := &vh.MetavarsFile{Package: pkg, Properties: ps}
	written, rbPkg, rbProps, fixed := "err", "-", "-", false
	var buf bytes.Buffer
	var werr error
	if p := safe(func() { werr = vh.MetavarsWrite(&buf, f) }); p != "" {
		written = "panic"
	} else if werr == nil {
		written = encHex(buf.String())
		if buf.Len() == 0 {
			written = "empty"
		}
		var rf *vh.MetavarsFile
		var rerr error
		if p := safe(func() { rf, rerr = vh.MetavarsRead(bytes.NewReader(buf.Bytes())) }); p != "" {
			rbPkg = "panic"
		} else if rerr != nil {
			rbPkg = "err"
		} else {
			rbPkg = encHex(rf.Package)
			rbProps = c20EncProps(rf.Properties)
		}
		if again, err := format.Source(buf.Bytes()); err == nil && bytes.Equal(again, buf.Bytes()) {
			fixed = true
		}
	}
	// Write must not modify its argument
	if f.Package != pkg || len(f.Properties) != len(orig) {
		g.Notes = append(g.Notes, "MUTATED-BY-WRITE")
		written = "mutated"
	} else {
		for i := range orig {
			if orig[i] != f.Properties[i] {
				g.Notes = append(g.Notes, "MUTATED-BY-WRITE")
				written = "mutated"
			}
		}
	}
	g.Line("c20", "file", dom, encHex(pkg), c20EncProps(orig), c20Printable(vals...), written, rbPkg, rbProps, b01(fixed))
	g.Count("file-" + dom)
}

type c20Op struct {
	kind             byte // g a s
	name, doc, value string
}

func c20EncOps(ops []c20Op) string {
	if len(ops) == 0 {
		return "-"
	}
	ss := make([]string, len(ops))
	for i, o := range ops {
		switch o.kind {
		case 'g':
			ss[i] = "g:" + encHex(o.name)
		case 'a':
			ss[i] = "a:" + encHex(o.name) + ":" + encHex(o.doc) + ":" + encHex(o.value)
		default:
			ss[i] = "s:" + encHex(o.name) + ":" + encHex(o.value)
		}
	}
	return strings.Join(ss, ";")
}

func c20DecOps(s string) []c20Op {
	if s == "-" || s == "" {
		return nil
	}
	var ops []c20Op
	for _, t := range strings.Split(s, ";") {
		f := strings.Split(t, ":")
		switch {
		case f[0] == "g" && len(f) == 2:
			ops = append(ops, c20Op{kind: 'g', name: decHexStr(f[1])})
		case f[0] == "a" && len(f) == 4:
			ops = append(ops, c20Op{kind: 'a', name: decHexStr(f[1]), doc: decHexStr(f[2]), value: decHexStr(f[3])})
		case f[0] == "s" && len(f) == 3:
			ops = append(ops, c20Op{kind: 's', name: decHexStr(f[1]), value: decHexStr(f[2])})
		}
	}
	return ops
}

func c20Hist(g *Gen, init []vh.MetavarsProperty, ops []c20Op) {
	f := &vh.MetavarsFile{Package: "meta", Properties: append([]vh.MetavarsProperty(nil), init...)}
	res := make([]string, len(ops))
	for i, o := range ops {
		o := o
		r := ""
		p := safe(func() {
			switch o.kind {
			case 'g':
				v, ok := f.Get(o.name)
				if ok {
					r = "1:" + encHex(v)
				} else {
					r = "0"
					if v != "" {
						r = "0:" + encHex(v)
					}
				}
			case 'a':
				if err := f.Add(vh.MetavarsProperty{Name: o.name, Doc: o.doc, Value: o.value}); err != nil {
					r = "err"
				} else {
					r = "ok"
				}
			default:
				if err := f.Set(o.name, o.value); err != nil {
					r = "err"
				} else {
					r = "ok"
				}
			}
		})
		if p != "" {
			r = "panic"
		}
		res[i] = r
	}
	rs := "-"
	if len(res) > 0 {
		rs = strings.Join(res, ";")
	}
	g.Line("c20", "hist", c20EncProps(init), c20EncOps(ops), rs, c20EncProps(f.Properties))
	g.Count("hist")
}

// ---- generators ----

var c20Names = []string{
	"_", "a", "b", "x1", "X", "_x", "__", "id", "doi", "Name", "url", "b2", "zz9", "ALLCAPS", "camelCaseName",
	"releaseversion", "releasedate", "releasetag", "zenodoid", "conceptdoi", "snake_case_name", "v",
	"a_very_long_property_name_0123456789_abcdefghijklmnopqrstuvwxyz", "string", "true", "nil", "iota", "int", "len",
	"init", "main", "Go", "if_", "func1", "varx",
}

var c20ExtNames = []string{"é", "naïve", "名前", "ñ1", "Ωmega", "_ü", "aé", "éa", "日本語の名前"}

var c20BadNames = []string{"func", "var", "type", "go", "1a", "", "a b", "a-b", "a.b", "package", "é-"}

var c20Pkgs = []string{"meta", "main", "p", "metavars", "x_1", "P9", "_", "string", "release_meta_data"}

var c20Words = []string{
	"Release", "version", "of", "the", "addchain", "package.", "DOI", "for", "most", "recent", "release", "(see", "notes).",
	"a", "I", "URL:", "https://example.com/x?y=z&w=1", "date", "2021-01-02", "100%", "it's", "\"quoted\"", "back\\slash",
	"tab-free", "semi;colon", "/*", "*/", "//", "go:generate", "+builds", "x+build", "TODO(mbm):", "#1", "$var", "`raw`",
	"{}", "[]", "<>", "line", "export", "=", "var", ")", "Output:", "Deprecated:", "-", "--", "...", "~", "^", "|", "@", "!",
}

var c20ExtWords = []string{"é", "naïve", "日本語", "—", "“quoted”", "€5", "Ünïcödé", "→", "ß", "😀", "½", "ё", "…"}

// value fragments: every byte class the quoting branches on
var c20Frags = []string{
	"", "a", "hello world", " ", "\"", "\\", "'", "`", "\n", "\r\n", "\t", "\x00", "\x7f", "\x1b[0m", "\a\b\f\v", "%", "%s", "%!",
	"\x80", "\xbf", "\xc0\x80", "\xc1\xbf", "\xc2", "\xc3", "\xdf", "\xe0\x80\x80", "\xe0\x9f\xbf", "\xe0\xa0", "\xe2\x82",
	"\xed\xa0\x80", "\xed\xbf\xbf", "\xf0\x8f\xbf\xbf", "\xf0\x90\x80", "\xf4\x90\x80\x80", "\xf5", "\xf8\x88\x80\x80\x80", "\xfe", "\xff",
	"é", "€", "😀", "\u00ad", "\u2028", "\u2029", "\ufffd", "\ufeff", "\u0080", "\u009f", "\u00a0", "\u00a1", "\u07ff", "\u0800",
	"\ud7ff", "\ue000", "\uffff", "\U00010000", "\U0001f600", "\U000e0001", "\U0010ffff", "\u0378", "\u200b", "\u3000", "日本語",
	"v1.2.3", "10.5281/zenodo.4625263", "https://doi.org/10.5281/zenodo.4625263", "2021-03-23", "\\x41", "\\u00e9", "\\\"", "\\n",
	"//", "/*", "*/", ")", "=", "\"\n)\n", "\xef\xbb", "\xef\xbf", "\xf0\x9f\x98", "\xc2\xc2\xa9", "\xe2\x82\xe2\x82\xac",
}

func (g *Gen) c20Value() string {
	switch g.R.Intn(10) {
	case 0:
		return ""
	case 1, 2, 3:
		return c20Frags[g.R.Intn(len(c20Frags))]
	case 4, 5, 6:
		n := 1 + g.R.Intn(5)
		var b strings.Builder
		for i := 0; i < n; i++ {
			b.WriteString(c20Frags[g.R.Intn(len(c20Frags))])
		}
		return b.String()
	case 7:
		return string(g.c20Bytes(g.R.Intn(13)))
	default:
		n := g.R.Intn(4)
		var b strings.Builder
		for i := 0; i < n; i++ {
			b.WriteString(c20Frags[g.R.Intn(len(c20Frags))])
			b.Write(g.c20Bytes(g.R.Intn(4)))
		}
		return b.String()
	}
}

// boundary bytes of the UTF-8 decoder and the escape table
var c20Boundary = []byte{0x00, 0x07, 0x0a, 0x1f, 0x20, 0x22, 0x5c, 0x61, 0x7e, 0x7f, 0x80, 0x8f, 0x90, 0x9f, 0xa0, 0xbf,
	0xc0, 0xc2, 0xdf, 0xe0, 0xed, 0xef, 0xf0, 0xf4}

func (g *Gen) c20Bytes(n int) []byte {
	b := make([]byte, n)
	for i := range b {
		switch g.R.Intn(4) {
		case 0:
			b[i] = byte(g.R.Intn(256))
		case 1:
			b[i] = c20Boundary[g.R.Intn(len(c20Boundary))]
		case 2:
			b[i] = byte(0x80 + g.R.Intn(0x40)) // continuation
		default:
			lead := []byte{0xc2, 0xc3, 0xdf, 0xe0, 0xe1, 0xe2, 0xec, 0xed, 0xee, 0xef, 0xf0, 0xf1, 0xf3, 0xf4, 0xf5, 0x41, 0x22, 0x5c}
			b[i] = lead[g.R.Intn(len(lead))]
		}
	}
	return b
}

func (g *Gen) c20Prose(words []string, extra []string) string {
	n := 1 + g.R.Intn(7)
	ws := make([]string, n)
	for i := range ws {
		if len(extra) > 0 && g.R.Intn(3) == 0 {
			ws[i] = extra[g.R.Intn(len(extra))]
		} else {
			ws[i] = words[g.R.Intn(len(words))]
		}
	}
	sep := " "
	if g.R.Intn(8) == 0 {
		sep = "  "
	}
	return strings.Join(ws, sep)
}

// non-plain documentation: outside the property (tagged, spec not applied)
func (g *Gen) c20OddDoc() string {
	base := g.c20Prose(c20Words, nil)
	odd := []string{
		base + " ", base + "  ", base + "\t", " ", "\t", "+build x", "+build", " +build linux,386", "+build\tx", "  +build !windows",
		base + "\u00a0", base + "\u3000", base + "\u0085", "a\rb", base + "\r", "a\x00b", "a\xffb", "\xc3", "a\ufeffb",
		"a\tb", "\tindented", "a\fb", "a\vb", "x\x1b[0my", "x\x7fy", "a\u200bb", "a\u00adb",
		// these look odd but are plain prose for gofmt
		" leading blank", "  two leading blanks", "go:generate stringer", "go:build linux", "line x.go:10", "/ slash", "/", "*", "export F",
		"+builds", "x +build y", "+build,x", "+", "", "//", "// nested", "/* block */", "nolint:all", "Deprecated: use x.", "Output:",
	}
	return odd[g.R.Intn(len(odd))]
}

func (g *Gen) c20Props(n int, names []string, doc func() string) []vh.MetavarsProperty {
	ps := make([]vh.MetavarsProperty, n)
	used := map[string]bool{}
	for i := range ps {
		name := names[g.R.Intn(len(names))]
		for t := 0; used[name] && t < 4 && g.R.Intn(12) != 0; t++ {
			name = names[g.R.Intn(len(names))]
		}
		used[name] = true
		ps[i] = vh.MetavarsProperty{Name: name, Value: g.c20Value()}
		if g.R.Intn(5) < 2 {
			ps[i].Doc = doc()
		}
	}
	return ps
}

// c20FileProbe: metavars.WriteFile / ReadFile on one path — a long file is written, a short one over it,
// and the file read back must be the short one (and the other way round).
func c20FileProbe(g *Gen) {
	dir, err := os.MkdirTemp("", "c20files")
	if err != nil {
		return
	}
	defer os.RemoveAll(dir)
	path := dir + "/vars.go"
	long := &vh.MetavarsFile{Package: "meta"}
	for i := 0; i < 12; i++ {
		long.Properties = append(long.Properties, vh.MetavarsProperty{Name: fmt.Sprintf("releaseproperty%d", i), Doc: "Releaseproperty holds a fairly long description of the release.", Value: strings.Repeat("v", 40)})
	}
	short := &vh.MetavarsFile{Package: "meta", Properties: []vh.MetavarsProperty{{Name: "a", Value: "1"}}}
	for step, f := range []*vh.MetavarsFile{long, short, long, short} {
		msg := ""
		if pn := safe(func() {
			if err := vh.MetavarsWriteFile(path, f); err != nil {
				msg = "write: " + err.Error()
				return
			}
			back, err := vh.MetavarsReadFile(path)
			if err != nil {
				msg = "read: " + err.Error()
				return
			}
			if back.Package != f.Package || len(back.Properties) != len(f.Properties) {
				msg = fmt.Sprintf("file holds %d properties, written %d", len(back.Properties), len(f.Properties))
				return
			}
			for i := range f.Properties {
				if back.Properties[i] != f.Properties[i] {
					msg = fmt.Sprintf("property %d differs: %+v vs %+v", i, back.Properties[i], f.Properties[i])
					return
				}
			}
		}); pn != "" {
			msg = "panic: " + pn
		}
		g.Count("file-write-read")
		if msg != "" {
			g.Notes = append(g.Notes, fmt.Sprintf("VIOLATION: metavars.WriteFile then ReadFile on the same path, step %d: %s", step, msg))
			return
		}
	}
}

func genC20(g *Gen) {
	c20FileProbe(g)
	// ---- quote ----
	for b := 0; b < 256; b++ {
		c20Quote(g, string([]byte{byte(b)}))
		g.Count("quote-single")
	}
	for _, a := range c20Boundary {
		for _, b := range c20Boundary {
			c20Quote(g, string([]byte{a, b}))
			g.Count("quote-pair")
		}
	}
	if g.Thorough {
		tri := []byte{0x0a, 0x22, 0x5c, 0x61, 0x7f, 0x80, 0x8f, 0x90, 0x9f, 0xa0, 0xbf, 0xc2, 0xe0, 0xed, 0xef, 0xf0, 0xf4}
		for _, a := range tri {
			for _, b := range tri {
				for _, c := range tri {
					for _, d := range []byte{0x80, 0xbf, 0x41} {
						c20Quote(g, string([]byte{a, b, c, d}))
						g.Count("quote-quad")
					}
				}
			}
		}
	}
	for _, s := range c20Frags {
		c20Quote(g, s)
		g.Count("quote-frag")
	}
	for i := 0; i < g.pick(3000, 30000); i++ {
		var s string
		if g.R.Intn(3) == 0 {
			s = g.c20Value()
		} else {
			s = string(g.c20Bytes(g.R.Intn(13)))
		}
		c20Quote(g, s)
		g.Count("quote-random")
	}
	// every valid rune class boundary, as a single rune and followed by a continuation byte
	for _, r := range []rune{0x7f, 0x80, 0xa0, 0xa1, 0xad, 0xff, 0x100, 0x377, 0x378, 0x7ff, 0x800, 0xfff, 0x1000, 0xcfff, 0xd000, 0xd7ff,
		0xe000, 0xfeff, 0xfffd, 0xfffe, 0xffff, 0x10000, 0x1ffff, 0x3ffff, 0x40000, 0xfffff, 0x100000, 0x10ffff} {
		c20Quote(g, string(r))
		c20Quote(g, string(r)+"\x80")
		c20Quote(g, "\\"+string(r)+"\"")
		g.Count("quote-rune")
	}

	// ---- files ----
	// fixed shapes first: empty, one property, docs first/middle/last, alignment sections
	shapes := [][]vh.MetavarsProperty{
		{},
		{{Name: "a", Value: "x"}},
		{{Name: "a", Doc: "doc a", Value: "x"}},
		{{Name: "a", Value: "x"}, {Name: "bbb", Value: "y"}, {Name: "cc", Value: "z"}},
		{{Name: "a", Doc: "first", Value: "x"}, {Name: "bbb", Value: "y"}, {Name: "cc", Value: "z"}},
		{{Name: "a", Value: "x"}, {Name: "bbb", Doc: "middle", Value: "y"}, {Name: "cc", Value: "z"}},
		{{Name: "a", Value: "x"}, {Name: "bbb", Value: "y"}, {Name: "cc", Doc: "last", Value: "z"}},
		{{Name: "a", Doc: "d", Value: "x"}, {Name: "bbb", Doc: "d", Value: "y"}, {Name: "cc", Doc: "d", Value: "z"}},
		{{Name: "releaseversion", Doc: "Release version.", Value: "v0.4.0"}, {Name: "releasedate", Doc: "Release date.", Value: "2021-10-30"},
			{Name: "conceptdoi", Value: "10.5281/zenodo.4625263"}, {Name: "doi", Value: "10.5281/zenodo.5622943"}, {Name: "zenodoid", Value: "5622943"}},
	}
	for _, ps := range shapes {
		c20File(g, "meta", ps)
	}
	for i := 0; i < g.pick(5000, 50000); i++ {
		n := g.R.Intn(7)
		pkg := c20Pkgs[g.R.Intn(len(c20Pkgs))]
		ps := g.c20Props(n, c20Names, func() string { return g.c20Prose(c20Words, nil) })
		c20File(g, pkg, ps)
	}
	// extended domain: non-ASCII identifiers and non-ASCII prose (the property applies; outside the Lean WFFile)
	for i := 0; i < g.pick(600, 6000); i++ {
		n := 1 + g.R.Intn(6)
		names := c20Names
		if g.R.Bool() {
			names = append(append([]string{}, c20ExtNames...), c20Names[:8]...)
		}
		ps := g.c20Props(n, names, func() string { return g.c20Prose(c20Words, c20ExtWords) })
		c20File(g, c20Pkgs[g.R.Intn(len(c20Pkgs))], ps)
	}
	// outside the property: non-plain documentation, keywords / non-identifiers as names
	for i := 0; i < g.pick(800, 8000); i++ {
		n := 1 + g.R.Intn(5)
		pkg := c20Pkgs[g.R.Intn(len(c20Pkgs))]
		names := c20Names
		if g.R.Intn(6) == 0 {
			names = append(append([]string{}, c20BadNames...), c20Names[:6]...)
			if g.R.Intn(4) == 0 {
				pkg = c20BadNames[g.R.Intn(len(c20BadNames))]
			}
		}
		ps := g.c20Props(n, names, g.c20OddDoc)
		c20File(g, pkg, ps)
	}

	// ---- get/add/set histories ----
	for i := 0; i < g.pick(2000, 20000); i++ {
		pool := make([]string, 3+g.R.Intn(5))
		for j := range pool {
			pool[j] = c20Names[g.R.Intn(len(c20Names))]
		}
		n := g.R.Intn(5)
		init := make([]vh.MetavarsProperty, 0, n)
		have := map[string]bool{}
		for j := 0; j < n; j++ {
			name := pool[g.R.Intn(len(pool))]
			if have[name] && g.R.Intn(10) != 0 { // duplicates in a hand-built File are rare but legal
				continue
			}
			have[name] = true
			p := vh.MetavarsProperty{Name: name, Value: g.c20Value()}
			if g.R.Intn(3) == 0 {
				p.Doc = g.c20Prose(c20Words, nil)
			}
			init = append(init, p)
		}
		m := g.R.Intn(9)
		ops := make([]c20Op, m)
		for j := range ops {
			name := pool[g.R.Intn(len(pool))]
			if g.R.Intn(12) == 0 {
				name = []string{"", "missing", "A", "a ", "é"}[g.R.Intn(5)]
			}
			switch g.R.Intn(3) {
			case 0:
				ops[j] = c20Op{kind: 'g', name: name}
			case 1:
				ops[j] = c20Op{kind: 'a', name: name, value: g.c20Value()}
				if g.R.Intn(3) == 0 {
					ops[j].doc = g.c20Prose(c20Words, nil)
				}
			default:
				ops[j] = c20Op{kind: 's', name: name, value: g.c20Value()}
			}
		}
		c20Hist(g, init, ops)
	}
}
