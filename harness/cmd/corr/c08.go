package main

import (
	"math/big"
	"strings"

	"github.com/mmcloughlin/addchain"
	"github.com/mmcloughlin/addchain/alg"
	"github.com/mmcloughlin/addchain/alg/contfrac"
	"github.com/mmcloughlin/addchain/alg/heuristic"
)

func init() {
	props["C08"] = genC08
	replays["C08"] = func(g *Gen, f []string) {
		if len(f) >= 3 {
			c08Case(g, f[1], decInts(f[2]))
		}
	}
}

func heurAtom(c string) heuristic.Heuristic {
	switch c {
	case "H":
		return heuristic.Halving{}
	case "D":
		return heuristic.DeltaLargest{}
	default:
		return heuristic.Approximation{}
	}
}

// seqAlg builds the sequence algorithm for a code like "cf.dichotomic", "hr.D", "hr.U.H.A".
func seqAlg(code string) alg.SequenceAlgorithm {
	parts := strings.Split(code, ".")
	if parts[0] == "cf" {
		for _, s := range contfrac.Strategies {
			if s.String() == parts[1] {
				return contfrac.NewAlgorithm(s)
			}
		}
		panic("unknown strategy " + code)
	}
	if parts[1] == "U" {
		hs := []heuristic.Heuristic{}
		for _, a := range parts[2:] {
			hs = append(hs, heurAtom(a))
		}
		return heuristic.NewAlgorithm(heuristic.UseFirst(hs...))
	}
	return heuristic.NewAlgorithm(heurAtom(parts[1]))
}

var (
	c08Log   = []string{"cf.binary", "cf.co_binary", "cf.dichotomic", "cf.sqrt", "hr.U.H.D", "hr.U.H.A"}
	c08Small = []string{"cf.total", "cf.dyadic", "cf.fermat", "hr.D", "hr.A", "hr.H", "hr.U.H", "hr.U.D.H", "hr.U.A", "hr.U.H.H.A"}
)

func c08Case(g *Gen, code string, targets []*big.Int) {
	g.Pending("c08", code, encInts(targets))
	in := cloneInts(targets)
	ptrs := append([]*big.Int{}, targets...)
	vals := cloneInts(targets)
	out := "err"
	var c addchain.Chain
	var err error
	if p := safe(func() { c, err = seqAlg(code).FindSequence(targets) }); p != "" {
		out = "panic"
	} else if err == nil {
		out = encInts(c)
	}
	// neither the integers nor the contents of the caller's slice may change (contfrac sorts the
	// slice in place, which keeps the multiset of values)
	unch := true
	for i := range ptrs {
		if ptrs[i].Cmp(vals[i]) != 0 {
			unch = false
		}
	}
	after := cloneInts(targets)
	sortInts(after)
	sortedBefore := cloneInts(vals)
	sortInts(sortedBefore)
	if !equalInts(after, sortedBefore) {
		unch = false
	}
	g.Line("c08", code, encInts(in), out, b01(unch))
	g.Count(code)
}

// c08History: one algorithm object is used the way a long-lived caller uses it — a result is extended
// and passed back in, the caller's target objects are reused for other values, targets congruent
// modulo 2^64 are requested — and then the original request is repeated. The answer must be the one a
// fresh object gives (no state may survive a call; no returned slice may alias internal storage).
func c08History(g *Gen, code string, targets []*big.Int) {
	run := func(a alg.SequenceAlgorithm, ts []*big.Int) (addchain.Chain, string) {
		var c addchain.Chain
		var err error
		if p := safe(func() { c, err = a.FindSequence(ts) }); p != "" {
			return nil, "panic"
		}
		if err != nil {
			return nil, "err"
		}
		return c, "ok"
	}
	g.Pending("c08", code, encInts(targets))
	obj := seqAlg(code)
	first, st1 := run(obj, cloneInts(targets))
	firstCopy := cloneInts(first)
	if st1 == "ok" && len(first) > 0 {
		// extend the returned chain by a small and by a large new value and ask again
		// (one in-place append only: a second one into the same spare slot would undo the first)
		ext := append(first, big.NewInt(3))
		run(obj, ext)
		ext2 := append(append(addchain.Chain{}, firstCopy...), new(big.Int).Add(firstCopy[len(firstCopy)-1], big.NewInt(1)))
		run(obj, ext2)
	}
	// reuse the caller's own integers for another request
	mine := cloneInts(targets)
	run(obj, mine)
	for _, x := range mine {
		x.Add(x, big.NewInt(7))
	}
	run(obj, mine)
	// a request that agrees with the original in the low machine word
	if strings.HasPrefix(code, "cf.") && !(code == "cf.total" || code == "cf.dyadic" || code == "cf.fermat") {
		hi := cloneInts(targets)
		hi[len(hi)-1] = new(big.Int).Add(hi[len(hi)-1], new(big.Int).Lsh(big.NewInt(1), 64))
		run(obj, hi)
	}
	again, st2 := run(obj, cloneInts(targets))
	fresh, st3 := run(seqAlg(code), cloneInts(targets))
	g.Count("history")
	g.Returned()
	if st2 != st3 || !equalInts(again, fresh) || st1 != st3 || !equalInts(firstCopy, fresh) {
		g.Notes = append(g.Notes, "VIOLATION: "+code+".FindSequence("+encInts(targets)+") after earlier calls on the same object returns "+
			st2+" "+encInts(again)+", first call "+st1+" "+encInts(firstCopy)+", a fresh object "+st3+" "+encInts(fresh))
	}
}

// c08Suggest: single calls of the exported heuristics Halving and DeltaLargest (`c08s` lines), compared by
// the driver with the model AND with the functions translated from heuristic.go.
func c08Suggest(g *Gen) {
	for i := 0; i < g.pick(3000, 30000); i++ {
		// an ascending protosequence starting at 1 and a target above its last element (sometimes not)
		n := 1 + g.R.Intn(6)
		f := []*big.Int{big.NewInt(1)}
		for len(f) < n {
			step := new(big.Int).Add(g.R.Bits(1+g.R.Intn(12)), big.NewInt(1))
			f = append(f, new(big.Int).Add(f[len(f)-1], step))
		}
		var t *big.Int
		switch g.R.Intn(8) {
		case 0:
			t = new(big.Int).Set(f[len(f)-1])
		case 1:
			t = new(big.Int).Lsh(f[len(f)-1], uint(1+g.R.Intn(9)))
		default:
			t = new(big.Int).Add(f[len(f)-1], g.R.Bits(1+g.R.Intn(40)))
		}
		for _, h := range []struct {
			code string
			h    heuristic.Heuristic
		}{{"H", heuristic.Halving{}}, {"D", heuristic.DeltaLargest{}}, {"A", heuristic.Approximation{}}} {
			var out []*big.Int
			res := ""
			if pn := safe(func() { out = h.h.Suggest(f, t) }); pn != "" {
				res = "panic"
			} else if out == nil {
				res = "nil"
			} else {
				res = encInts(out)
			}
			g.Line("c08s", h.code, encInts(f), t.String(), res)
			g.Count("suggest-" + h.code)
		}
	}
}

// c08StrategyK: single calls of the continued-fraction strategies' K (`c08k` lines), compared by the
// driver with the model and, for binary / co_binary / dichotomic, with the functions translated from contfrac.go.
func c08StrategyK(g *Gen) {
	for i := 0; i < g.pick(2000, 20000); i++ {
		n := g.R.Bits(1 + g.R.Intn(g.pick(14, 18)))
		if i%7 == 0 {
			n = g.R.Bits(1 + g.R.Intn(200))
		}
		for _, st := range contfrac.Strategies {
			if !st.Singleton() && n.BitLen() > 12 {
				continue // total proposes n-2 values
			}
			var ks []*big.Int
			res := ""
			if pn := safe(func() { ks = st.K(n) }); pn != "" {
				res = "panic"
			} else {
				res = encInts(ks)
			}
			g.Line("c08k", st.String(), n.String(), res)
			g.Count("strategy-k-" + st.String())
		}
	}
}

func genC08(g *Gen) {
	c08Suggest(g)
	c08StrategyK(g)
	all := append(append([]string{}, c08Log...), c08Small...)
	for _, code := range all {
		for _, ts := range [][]int64{{1}, {5}, {2}, {3, 17}, {1, 5}, {5, 9}, {30, 3, 18}, {7, 3}, {13, 4, 13}, {11}, {23, 11}} {
			c08History(g, code, ints(ts...))
		}
		if g.notesViolation() {
			return
		}
	}
	// every list of <= 3 targets over 1..9 (repeats, unsorted)
	maxv := int64(g.pick(9, 12))
	maxl := g.pick(3, 4)
	var rec func(ts []int64)
	rec = func(ts []int64) {
		if len(ts) > 0 {
			if len(ts) < 4 || (ts[0] <= 6 && ts[1] <= 6) {
				for _, a := range all {
					c08Case(g, a, fromInt64s(ts))
				}
			}
		}
		if len(ts) == maxl {
			return
		}
		for v := int64(1); v <= maxv; v++ {
			rec(append(ts, v))
		}
	}
	rec(nil)
	// 1..8 targets of 1..256 bits for the logarithmic configurations
	for i := 0; i < g.pick(400, 4000); i++ {
		n := 1 + g.R.Intn(8)
		ts := make([]*big.Int, n)
		for j := range ts {
			ts[j] = g.R.Bits(1 + g.R.Intn(256))
			if ts[j].Sign() == 0 {
				ts[j] = big.NewInt(1)
			}
			if g.R.Intn(8) == 0 && j > 0 {
				ts[j] = new(big.Int).Set(ts[g.R.Intn(j)])
			}
			if g.R.Intn(10) == 0 {
				ts[j] = big.NewInt(int64(1 + g.R.Intn(3)))
			}
		}
		for _, a := range c08Log {
			c08Case(g, a, cloneInts(ts))
		}
	}
	// small targets for the non-logarithmic configurations
	for i := 0; i < g.pick(300, 3000); i++ {
		n := 1 + g.R.Intn(4)
		ts := make([]*big.Int, n)
		for j := range ts {
			ts[j] = big.NewInt(int64(1 + g.R.Intn(1<<uint(g.pick(8, 10)))))
		}
		for _, a := range c08Small {
			if a == "cf.total" {
				continue // super-exponential: 127 already takes 20 s in the Go code
			}
			c08Case(g, a, cloneInts(ts))
		}
	}
	// the total strategy only on very small targets
	for i := 0; i < g.pick(200, 1500); i++ {
		n := 1 + g.R.Intn(3)
		ts := make([]*big.Int, n)
		for j := range ts {
			ts[j] = big.NewInt(int64(1 + g.R.Intn(g.pick(28, 40))))
		}
		c08Case(g, "cf.total", ts)
	}
}
