package main

import (
	"math/big"
	"strings"

	"github.com/mmcloughlin/addchain"
)

func init() {
	props["C02"] = genC02
	replays["C02"] = func(g *Gen, f []string) {
		if len(f) < 4 {
			return
		}
		tgt, _ := new(big.Int).SetString(f[2], 10)
		c02Case(g, addchain.Chain(decInts(f[1])), tgt, decInts(f[3]))
	}
}

func c02Case(g *Gen, c addchain.Chain, tgt *big.Int, tgts []*big.Int) {
	g.Pending("c02", encInts(c), tgt.String(), encInts(tgts))
	before := cloneInts(c)
	// a panic of the code under test is an outcome of the case (reported as a violation with the
	// sequence as replay), never a crash of the harness
	panicked := ""
	try := func(what string, f func()) {
		if pn := safe(f); pn != "" && panicked == "" {
			panicked = what + ": " + pn
		}
	}
	V, A := false, false
	try("Validate", func() { V = c.Validate() == nil })
	try("IsAscending", func() { A = c.IsAscending() })
	P, E := "err", "err"
	try("Program/Evaluate", func() {
		if p, err := c.Program(); err == nil {
			P = encOps(p)
			E = "panic"
			E = encInts(p.Evaluate())
		}
	})
	O := "_"
	if len(c) > 0 {
		parts := make([]string, len(c))
		for k := range c {
			parts[k] = "panic"
			try("Ops", func() { parts[k] = encOps(c.Ops(k)) })
		}
		O = strings.Join(parts, ";")
	}
	PR, SU := false, false
	// Produces calls End() only after Validate succeeded.
	try("Produces", func() { PR = c.Produces(tgt) == nil })
	try("Superset", func() { SU = c.Superset(tgts) == nil })
	if !equalInts(before, c) {
		g.Notes = append(g.Notes, "MUTATED:"+encInts(before))
		V = !V // force a visible disagreement
	}
	if panicked != "" && !g.notesViolation() {
		g.Notes = append(g.Notes, "VIOLATION: chain "+encInts(before)+": "+panicked)
	}
	g.Line("c02", encInts(c), tgt.String(), encInts(tgts), b01(V), b01(A), P, O, E, b01(PR), b01(SU))
}

func genC02(g *Gen) {
	alpha := []int64{-3, -2, -1, 0, 1, 2, 3, 4, 5, 6, 8}
	maxLen := g.pick(5, 6)
	// all sequences over the alphabet up to maxLen
	var rec func(c []int64)
	rec = func(c []int64) {
		ch := fromInt64s(c)
		var tgt *big.Int
		if len(c) > 0 && g.R.Intn(4) != 0 {
			tgt = big.NewInt(c[len(c)-1])
		} else {
			tgt = big.NewInt(alpha[g.R.Intn(len(alpha))])
		}
		tgts := []*big.Int{}
		for i := g.R.Intn(3); i > 0; i-- {
			if len(c) > 0 && g.R.Intn(3) != 0 {
				tgts = append(tgts, big.NewInt(c[g.R.Intn(len(c))]))
			} else {
				tgts = append(tgts, big.NewInt(alpha[g.R.Intn(len(alpha))]))
			}
		}
		c02Case(g, ch, tgt, tgts)
		g.Count("seq")
		if len(c) >= 1 && len(c) <= 3 {
			// target lists longer than the chain, with repeats (all present / one absent)
			long := []*big.Int{}
			for i := 0; i < len(c)+1+g.R.Intn(3); i++ {
				long = append(long, big.NewInt(c[g.R.Intn(len(c))]))
			}
			c02Case(g, ch, tgt, long)
			long2 := append(cloneInts(long), big.NewInt(alpha[g.R.Intn(len(alpha))]))
			c02Case(g, ch, tgt, long2)
			g.Count("seq-long-targets")
		}
		if len(c) == maxLen {
			return
		}
		for _, a := range alpha {
			rec(append(c, a))
		}
	}
	rec([]int64{})
	// all valid chains in every order
	for l := 1; l <= g.pick(6, 8); l++ {
		validChains(l, 1<<40, func(c []int64) {
			ch := fromInt64s(c)
			tgt := big.NewInt(c[g.R.Intn(len(c))])
			tgts := []*big.Int{big.NewInt(c[g.R.Intn(len(c))]), big.NewInt(c[g.R.Intn(len(c))] + int64(g.R.Intn(2)))}
			c02Case(g, ch, tgt, tgts)
			g.Count("valid")
			long := []*big.Int{}
			for i := 0; i < len(c)+1+g.R.Intn(4); i++ {
				long = append(long, big.NewInt(c[g.R.Intn(len(c))]))
			}
			c02Case(g, ch, tgt, long)
			c02Case(g, ch, tgt, []*big.Int{})
			g.Count("valid-long-targets")
			if g.R.Intn(16) == 0 {
				// the same shape scaled by 2^64+1, 2^32+1 or -1: every sum relation still holds, every
				// element agrees with the original in its low machine word (or in absolute value), but
				// the sequence does not begin with 1 — comparisons on a truncated word accept it
				for _, m := range []*big.Int{new(big.Int).Add(new(big.Int).Lsh(big.NewInt(1), 64), big.NewInt(1)),
					new(big.Int).Add(new(big.Int).Lsh(big.NewInt(1), 32), big.NewInt(1)), big.NewInt(-1)} {
					sc := make(addchain.Chain, len(ch))
					for i, x := range ch {
						sc[i] = new(big.Int).Mul(x, m)
					}
					c02Case(g, sc, new(big.Int).Set(sc[len(sc)-1]), []*big.Int{new(big.Int).Set(sc[0])})
					// only the first element replaced / only the last replaced by a value equal in the low word
					one := cloneInts(ch)
					one[0] = new(big.Int).Mul(one[0], m)
					c02Case(g, one, new(big.Int).Set(one[len(one)-1]), nil)
					last := cloneInts(ch)
					last[len(last)-1] = new(big.Int).Add(last[len(last)-1], new(big.Int).Lsh(big.NewInt(1), 64))
					c02Case(g, last, new(big.Int).Set(ch[len(ch)-1]), []*big.Int{new(big.Int).Set(ch[len(ch)-1])})
				}
				g.Count("valid-scaled-word")
			}
		})
	}
	// random longer chains with big values, shuffled, with injected faults
	for i := 0; i < g.pick(2000, 20000); i++ {
		n := 3 + g.R.Intn(12)
		c := addchain.Chain{big.NewInt(1)}
		for len(c) < n {
			a, b := c[g.R.Intn(len(c))], c[g.R.Intn(len(c))]
			s := new(big.Int).Add(a, b)
			dup := false
			for _, x := range c {
				if x.Cmp(s) == 0 {
					dup = true
				}
			}
			if !dup || g.R.Intn(20) == 0 {
				c = append(c, s)
			} else if g.R.Intn(4) == 0 {
				c = append(c, new(big.Int).Lsh(c[len(c)-1], uint(1+g.R.Intn(70))))
			}
		}
		switch g.R.Intn(7) {
		case 6:
			// the negative of a sum of two earlier elements (sign-blind comparisons accept it)
			k := 1 + g.R.Intn(len(c)-1)
			c[k] = new(big.Int).Neg(c[k])
		case 0:
			c[g.R.Intn(len(c))] = big.NewInt(int64(g.R.Intn(5)) - 1)
		case 1:
			// sort ascending
			for a := 0; a < len(c); a++ {
				for b := a + 1; b < len(c); b++ {
					if c[a].Cmp(c[b]) > 0 {
						c[a], c[b] = c[b], c[a]
					}
				}
			}
		case 2:
			i, j := g.R.Intn(len(c)), g.R.Intn(len(c))
			c[i], c[j] = c[j], c[i]
		}
		tgt := c[len(c)-1]
		if g.R.Intn(3) == 0 {
			tgt = c[g.R.Intn(len(c))]
		}
		c02Case(g, c, new(big.Int).Set(tgt), []*big.Int{new(big.Int).Set(c[g.R.Intn(len(c))])})
		g.Count("random")
	}
}
