package main

import (
	"fmt"
	"math/big"
	"strings"

	"github.com/mmcloughlin/addchain/alg/dict"
)

func init() {
	props["C09"] = genC09
	replays["C09"] = func(g *Gen, f []string) {
		if len(f) < 5 {
			return
		}
		x, _ := new(big.Int).SetString(f[2], 10)
		var K, T uint
		fmt.Sscan(f[3], &K)
		fmt.Sscan(f[4], &T)
		c09Case(g, f[1], x, K, T)
	}
}

func encTerms(s dict.Sum) string {
	if len(s) == 0 {
		return "-"
	}
	ss := make([]string, len(s))
	for i, t := range s {
		ss[i] = fmt.Sprintf("%s:%d", t.D, t.E)
	}
	return strings.Join(ss, ",")
}

func decomposer(m string, K, T uint) dict.Decomposer {
	switch m {
	case "f":
		return dict.FixedWindow{K: K}
	case "s":
		return dict.SlidingWindow{K: K}
	case "r":
		return dict.RunLength{T: T}
	default:
		return dict.Hybrid{K: K, T: T}
	}
}

func c09Case(g *Gen, m string, x *big.Int, K, T uint) {
	before := new(big.Int).Set(x)
	g.Pending("c09", m, x.String(), fmt.Sprint(K), fmt.Sprint(T))
	// history: the terms of an earlier decomposition are overwritten by the caller; a second call must
	// not be affected (no term may be shared storage)
	var s dict.Sum
	var d []*big.Int
	var si *big.Int
	if pn := safe(func() {
		for _, t := range decomposer(m, K, T).Decompose(new(big.Int).Set(x)) {
			c19scribble(t.D)
		}
		s = decomposer(m, K, T).Decompose(x)
		d = s.Dictionary()
		si = s.Int()
	}); pn != "" {
		if !g.notesViolation() {
			g.Notes = append(g.Notes, fmt.Sprintf("VIOLATION: %s decomposition (K=%d, T=%d) of %v panics: %s", m, K, T, before, pn))
		}
		return
	}
	g.Line("c09", m, before.String(), fmt.Sprint(K), fmt.Sprint(T), encTerms(s), encInts(d), b01(before.Cmp(x) == 0), si.String())
	g.Count("m=" + m)
}

// structured returns integers with the bit patterns the decomposers branch on.
func structured(g *Gen, n int, maxbits int, K, T uint) []*big.Int {
	one := big.NewInt(1)
	out := []*big.Int{}
	pow := func(e int) *big.Int { return new(big.Int).Lsh(one, uint(e)) }
	for len(out) < n {
		bits := 2 + g.R.Intn(maxbits-1)
		x := new(big.Int)
		switch g.R.Intn(8) {
		case 0: // 2^k
			x = pow(bits)
		case 1: // 2^k - 1
			x.Sub(pow(bits), one)
		case 2: // 2^k - c
			x.Sub(pow(bits), big.NewInt(int64(1+g.R.Intn(1000))))
		case 3: // Solinas-like
			x = pow(bits)
			for i := 0; i < 1+g.R.Intn(4); i++ {
				t := pow(g.R.Intn(bits))
				if g.R.Bool() {
					x.Add(x, t)
				} else {
					x.Sub(x, t)
				}
			}
		case 4: // runs of length exactly K, K+1, T, T+1 separated by zeros
			for x.BitLen() < bits {
				lens := []uint{K, K + 1, T, T + 1, 1, 2}
				l := lens[g.R.Intn(len(lens))]
				if l == 0 {
					l = 1
				}
				x.Lsh(x, l)
				x.Or(x, new(big.Int).Sub(pow(int(l)), one))
				x.Lsh(x, uint(1+g.R.Intn(3)))
			}
			if g.R.Bool() {
				x.Or(x, one)
			}
		case 5: // sparse
			for i := 0; i < 1+g.R.Intn(6); i++ {
				x.SetBit(x, g.R.Intn(bits), 1)
			}
		case 6: // dense random
			x = g.R.Bits(bits)
		case 7: // long runs with holes
			x.Sub(pow(bits), one)
			for i := 0; i < 1+g.R.Intn(4); i++ {
				x.SetBit(x, g.R.Intn(bits), 0)
			}
		}
		if x.Sign() <= 0 {
			continue
		}
		out = append(out, x)
	}
	return out
}

func genC09(g *Gen) {
	lim := int64(1) << uint(g.pick(10, 13))
	for x := int64(1); x < lim; x++ {
		for K := uint(1); K <= 8; K++ {
			c09Case(g, "f", big.NewInt(x), K, 0)
			c09Case(g, "s", big.NewInt(x), K, 0)
		}
		for T := uint(0); T <= 9; T++ {
			c09Case(g, "r", big.NewInt(x), 0, T)
		}
	}
	limh := int64(1) << uint(g.pick(9, 12))
	for x := int64(1); x < limh; x++ {
		for K := uint(1); K <= 8; K++ {
			for T := uint(0); T <= 9; T++ {
				c09Case(g, "h", big.NewInt(x), K, T)
			}
		}
	}
	// window sizes and run limits at the machine-word boundaries, on all-ones values, dense values and
	// values whose windows have their top bit set
	one := big.NewInt(1)
	for _, K := range []uint{31, 32, 33, 63, 64, 65, 127, 128, 129} {
		xs := []*big.Int{}
		for _, n := range []uint{K - 1, K, K + 1, 2 * K, 2*K + 1, 3*K - 1, 200} {
			xs = append(xs, new(big.Int).Sub(new(big.Int).Lsh(one, n), one))
		}
		for i := 0; i < g.pick(3, 12); i++ {
			xs = append(xs, g.R.Bits(int(2*K)+g.R.Intn(200)))
		}
		xs = append(xs, structured(g, g.pick(3, 10), 600, K, K)...)
		for _, x := range xs {
			if x.Sign() <= 0 {
				continue
			}
			for _, T := range []uint{0, 1, K - 1, K, K + 1, 2 * K} {
				for _, m := range []string{"f", "s", "r", "h"} {
					c09Case(g, m, x, K, T)
				}
			}
		}
	}
	// windows that are almost empty: the top bit, then a gap of zeros whose length sits at a machine-word
	// boundary, then a low bit (a trailing-zero count taken from one or two limbs goes wrong exactly here);
	// window sizes beyond 130 too — the statement is for every K >= 1
	for _, K := range []uint{63, 64, 65, 66, 127, 128, 129, 130, 131, 160, 200, 257} {
		for _, gap := range []uint{61, 62, 63, 64, 65, 125, 126, 127, 128, 129, 130, 191, 192, 193, K - 2} {
			if gap+1 >= K {
				continue
			}
			for _, low := range []int64{1, 5} {
				x := new(big.Int).Lsh(one, 2*K+5)
				x.Add(x, new(big.Int).Lsh(one, K+1+gap))
				x.Add(x, big.NewInt(low))
				y := new(big.Int).Lsh(one, gap+3)
				y.Add(y, big.NewInt(low))
				for _, v := range []*big.Int{x, y} {
					for _, T := range []uint{0, K + 1} {
						for _, m := range []string{"f", "s", "h"} {
							c09Case(g, m, v, K, T)
						}
					}
				}
			}
		}
	}
	// structured big values with K, T up to 130
	for i := 0; i < g.pick(300, 3000); i++ {
		K := uint(1 + g.R.Intn(130))
		T := uint(g.R.Intn(131))
		if g.R.Intn(3) == 0 {
			K = uint(1 + g.R.Intn(8))
			T = uint(g.R.Intn(12))
		}
		x := structured(g, 1, 1024, K, T)[0]
		for _, m := range []string{"f", "s", "r", "h"} {
			c09Case(g, m, x, K, T)
		}
	}
}
