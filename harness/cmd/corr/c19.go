package main

import (
	"encoding/hex"
	"fmt"
	"math/big"
	"strings"

	"github.com/mmcloughlin/addchain/verifhooks"
)

func init() {
	props["C19"] = genC19
	replays["C19"] = c19Replay
}

// ---- helpers (all names prefixed c19) ----

type c19vec []*big.Int

func (v c19vec) Len() int           { return len(v) }
func (v c19vec) Idx(i int) *big.Int { return v[i] }

func c19pow(e int) *big.Int { return new(big.Int).Lsh(big.NewInt(1), uint(e)) }

func c19int(s string) *big.Int {
	x, ok := new(big.Int).SetString(s, 10)
	if !ok {
		return new(big.Int)
	}
	return x
}

func c19uint(s string) uint {
	var u uint
	fmt.Sscan(s, &u)
	return u
}

// c19same reports whether the slice still holds the same pointers, in the same
// order, pointing at unchanged values.
func c19same(now []*big.Int, ptrs []*big.Int, vals []*big.Int) bool {
	if len(now) != len(ptrs) {
		return false
	}
	for i := range now {
		if now[i] != ptrs[i] || now[i].Cmp(vals[i]) != 0 {
			return false
		}
	}
	return true
}

func c19snap(xs []*big.Int) (ptrs, vals []*big.Int) {
	return append([]*big.Int{}, xs...), cloneInts(xs)
}

func c19vecInts(v verifhooks.Vector) []*big.Int {
	r := make([]*big.Int, v.Len())
	for i := range r {
		r[i] = v.Idx(i)
	}
	return r
}

func c19u64s(ws []uint64) string {
	if len(ws) == 0 {
		return "-"
	}
	ss := make([]string, len(ws))
	for i, w := range ws {
		ss[i] = fmt.Sprint(w)
	}
	return strings.Join(ss, ",")
}

func c19bytes(bs []byte) string {
	if len(bs) == 0 {
		return "-"
	}
	ss := make([]string, len(bs))
	for i, w := range bs {
		ss[i] = fmt.Sprint(w)
	}
	return strings.Join(ss, ",")
}

// ---- one case per sub-op: call the real code (never letting a panic escape), record inputs,
// outputs (the word "panic" in every output field when the call panicked), unmodified flag ----

// c19call runs f and reports whether it panicked.
func c19call(g *Gen, op string, f func()) bool {
	if p := safe(f); p != "" {
		g.Count(op + "-panic")
		return true
	}
	return false
}

func c19out(panicked bool, s string) string {
	if panicked {
		return "panic"
	}
	return s
}

// c19scribble overwrites values a helper returned earlier: a helper that hands out shared or cached
// storage then gives a wrong answer on the next call, which is the one recorded.
func c19scribble(xs ...*big.Int) {
	for _, x := range xs {
		if x != nil {
			x.Add(x, big.NewInt(0x5eed))
			x.Neg(x)
		}
	}
}

func c19Mask(g *Gen, l, h uint) {
	out := ""
	p := c19call(g, "mask", func() {
		c19scribble(verifhooks.BigintMask(l, h))
		out = verifhooks.BigintMask(l, h).String()
	})
	g.Line("c19", "mask", fmt.Sprint(l), fmt.Sprint(h), c19out(p, out), "1")
	g.Count("mask")
}

func c19Ones(g *Gen, n uint) {
	out := ""
	p := c19call(g, "ones", func() {
		c19scribble(verifhooks.BigintOnes(n))
		out = verifhooks.BigintOnes(n).String()
	})
	g.Line("c19", "ones", fmt.Sprint(n), c19out(p, out), "1")
	g.Count("ones")
}

func c19Extract(g *Gen, x *big.Int, l, h uint) {
	before := new(big.Int).Set(x)
	out := ""
	p := c19call(g, "extract", func() {
		c19scribble(verifhooks.BigintExtract(new(big.Int).Set(x), l, h))
		out = verifhooks.BigintExtract(x, l, h).String()
	})
	g.Line("c19", "extract", before.String(), fmt.Sprint(l), fmt.Sprint(h), c19out(p, out), b01(before.Cmp(x) == 0))
	g.Count("extract")
}

func c19IsPow2(g *Gen, x *big.Int) {
	before := new(big.Int).Set(x)
	out := ""
	p := c19call(g, "ispow2", func() { out = b01(verifhooks.BigintIsPow2(x)) })
	g.Line("c19", "ispow2", before.String(), c19out(p, out), b01(before.Cmp(x) == 0))
	g.Count("ispow2")
}

func c19Pow2UpTo(g *Gen, x *big.Int) {
	before := new(big.Int).Set(x)
	out := ""
	p := c19call(g, "pow2upto", func() {
		c19scribble(verifhooks.BigintPow2UpTo(new(big.Int).Set(x))...)
		out = encInts(verifhooks.BigintPow2UpTo(x))
	})
	g.Line("c19", "pow2upto", before.String(), c19out(p, out), b01(before.Cmp(x) == 0))
	g.Count("pow2upto")
}

func c19BitsSet(g *Gen, x *big.Int) {
	before := new(big.Int).Set(x)
	out := ""
	p := c19call(g, "bitsset", func() { out = encIntSlice(verifhooks.BigintBitsSet(x)) })
	g.Line("c19", "bitsset", before.String(), c19out(p, out), b01(before.Cmp(x) == 0))
	g.Count("bitsset")
}

func c19MinMax(g *Gen, x, y *big.Int) {
	bx, by := new(big.Int).Set(x), new(big.Int).Set(y)
	smn, smx := "", ""
	p := c19call(g, "minmax", func() {
		mn, mx := verifhooks.BigintMinMax(x, y)
		smn, smx = mn.String(), mx.String()
	})
	// the results are recorded by value
	g.Line("c19", "minmax", bx.String(), by.String(), c19out(p, smn), c19out(p, smx), b01(bx.Cmp(x) == 0 && by.Cmp(y) == 0))
	g.Count("minmax")
}

func c19Uint64s(g *Gen, x *big.Int) {
	if x.Sign() < 0 {
		return // the Go loop does not terminate on negative input (model: diverges); never generated
	}
	before := new(big.Int).Set(x)
	out := ""
	p := c19call(g, "uint64s", func() { out = c19u64s(verifhooks.BigintUint64s(x)) })
	g.Line("c19", "uint64s", before.String(), c19out(p, out), b01(before.Cmp(x) == 0))
	g.Count("uint64s")
}

func c19BytesLE(g *Gen, x *big.Int) {
	before := new(big.Int).Set(x)
	out := ""
	p := c19call(g, "bytesle", func() { out = c19bytes(verifhooks.BigintBytesLittleEndian(x)) })
	g.Line("c19", "bytesle", before.String(), c19out(p, out), b01(before.Cmp(x) == 0))
	g.Count("bytesle")
}

func c19Parse(g *Gen, op, s string) {
	sok, v := "", "0"
	p := c19call(g, op, func() {
		var x *big.Int
		var ok bool
		if op == "hex" {
			x, _ = verifhooks.BigintHex(s)
			c19scribble(x)
			x, ok = verifhooks.BigintHex(s)
		} else {
			x, _ = verifhooks.BigintBinary(s)
			c19scribble(x)
			x, ok = verifhooks.BigintBinary(s)
		}
		if ok && x != nil {
			v = x.String()
		}
		sok = b01(ok)
	})
	g.Line("c19", op, encHex(s), c19out(p, sok), c19out(p, v), "1")
	g.Count(op)
}

func c19Sort(g *Gen, xs []*big.Int) {
	in := encInts(xs)
	ptrs, vals := c19snap(xs)
	p := c19call(g, "sort", func() { verifhooks.BigintsSort(xs) })
	// in place: every pointer still present exactly once, pointees unchanged
	unch := len(xs) == len(ptrs)
	used := make([]bool, len(ptrs))
	for _, q := range xs {
		found := false
		for j, o := range ptrs {
			if !used[j] && q == o {
				used[j] = true
				found = q.Cmp(vals[j]) == 0
				break
			}
		}
		if !found {
			unch = false
		}
	}
	g.Line("c19", "sort", in, c19out(p, encInts(xs)), b01(unch))
	g.Count("sort")
}

func c19Search(g *Gen, op string, n *big.Int, xs []*big.Int) {
	bn := new(big.Int).Set(n)
	ptrs, vals := c19snap(xs)
	out := ""
	p := c19call(g, op, func() {
		switch op {
		case "index":
			out = fmt.Sprint(verifhooks.BigintsIndex(n, xs))
		case "contains":
			out = b01(verifhooks.BigintsContains(n, xs))
		default:
			out = b01(verifhooks.BigintsContainsSorted(n, xs))
		}
	})
	g.Line("c19", op, bn.String(), encInts(vals), c19out(p, out), b01(bn.Cmp(n) == 0 && c19same(xs, ptrs, vals)))
	g.Count(op)
}

// c19Spare copies xs into a slice with three caller-owned sentinel elements behind it, so that the
// argument handed to a helper has spare capacity that belongs to the caller; c19SpareOK checks them.
func c19Spare(xs []*big.Int) (full, view []*big.Int) {
	full = make([]*big.Int, 0, len(xs)+3)
	full = append(full, xs...)
	for i := 0; i < 3; i++ {
		full = append(full, big.NewInt(-9001-int64(i)))
	}
	return full, full[:len(xs)]
}

func c19SpareOK(full []*big.Int, n int) bool {
	for i := 0; i < 3; i++ {
		if full[n+i] == nil || full[n+i].Cmp(big.NewInt(-9001-int64(i))) != 0 {
			return false
		}
	}
	return true
}

func c19Unique(g *Gen, xs []*big.Int) {
	full, xs := c19Spare(xs)
	ptrs, vals := c19snap(xs)
	out := ""
	held := true
	p := c19call(g, "unique", func() {
		r := verifhooks.BigintsUnique(xs)
		out = encInts(r)
		_ = verifhooks.BigintsUnique(xs)
		_ = append(verifhooks.BigintsUnique(xs), big.NewInt(-5))
		held = encInts(r) == out
	})
	g.Line("c19", "unique", encInts(vals), c19out(p, out), b01(c19same(xs, ptrs, vals) && c19SpareOK(full, len(xs)) && held))
	g.Count("unique")
}

func c19Insert(g *Gen, xs []*big.Int, x *big.Int) {
	bx := new(big.Int).Set(x)
	full, xs := c19Spare(xs)
	ptrs, vals := c19snap(xs)
	out := ""
	held := true
	p := c19call(g, "insert", func() {
		r := verifhooks.BigintsInsertSortedUnique(xs, x)
		out = encInts(r)
		// further insertions into the same argument must not disturb the first result
		_ = verifhooks.BigintsInsertSortedUnique(xs, new(big.Int).Add(x, big.NewInt(1)))
		_ = verifhooks.BigintsInsertSortedUnique(xs, new(big.Int).Sub(x, big.NewInt(1)))
		_ = verifhooks.BigintsInsertSortedUnique(xs, big.NewInt(-1000000))
		held = encInts(r) == out
	})
	g.Line("c19", "insert", encInts(vals), bx.String(), c19out(p, out), b01(bx.Cmp(x) == 0 && c19same(xs, ptrs, vals) && c19SpareOK(full, len(xs)) && held))
	g.Count("insert")
}

func c19Merge(g *Gen, xs, ys []*big.Int) {
	fx, xs := c19Spare(xs)
	fy, ys := c19Spare(ys)
	px, vx := c19snap(xs)
	py, vy := c19snap(ys)
	out := ""
	held := true
	p := c19call(g, "merge", func() {
		r := verifhooks.BigintsMergeUnique(xs, ys)
		out = encInts(r)
		_ = verifhooks.BigintsMergeUnique(ys, xs)
		_ = verifhooks.BigintsMergeUnique(xs, []*big.Int{big.NewInt(-1000000)})
		held = encInts(r) == out
	})
	g.Line("c19", "merge", encInts(vx), encInts(vy), c19out(p, out), b01(c19same(xs, px, vx) && c19same(ys, py, vy) && c19SpareOK(fx, len(xs)) && c19SpareOK(fy, len(ys)) && held))
	g.Count("merge")
}

func c19VAdd(g *Gen, u, v []*big.Int) {
	pu, vu := c19snap(u)
	pv, vv := c19snap(v)
	out := ""
	p := c19call(g, "vadd", func() {
		w := verifhooks.BigvectorAdd(c19vec(u), c19vec(v))
		out = encInts(c19vecInts(w))
	})
	g.Line("c19", "vadd", encInts(vu), encInts(vv), c19out(p, out), b01(c19same(u, pu, vu) && c19same(v, pv, vv)))
	g.Count("vadd")
}

func c19VLsh(g *Gen, v []*big.Int, s uint) {
	pv, vv := c19snap(v)
	out := ""
	p := c19call(g, "vlsh", func() {
		w := verifhooks.BigvectorLsh(c19vec(v), s)
		out = encInts(c19vecInts(w))
	})
	g.Line("c19", "vlsh", encInts(vv), fmt.Sprint(s), c19out(p, out), b01(c19same(v, pv, vv)))
	g.Count("vlsh")
}

// ---- replay of one recorded line ----

func c19Replay(g *Gen, f []string) {
	if len(f) < 3 {
		return
	}
	a := f[2:]
	need := func(n int) bool { return len(a) >= n }
	switch f[1] {
	case "mask":
		if need(2) {
			c19Mask(g, c19uint(a[0]), c19uint(a[1]))
		}
	case "ones":
		c19Ones(g, c19uint(a[0]))
	case "extract":
		if need(3) {
			c19Extract(g, c19int(a[0]), c19uint(a[1]), c19uint(a[2]))
		}
	case "ispow2":
		c19IsPow2(g, c19int(a[0]))
	case "pow2upto":
		c19Pow2UpTo(g, c19int(a[0]))
	case "bitsset":
		c19BitsSet(g, c19int(a[0]))
	case "minmax":
		if need(2) {
			c19MinMax(g, c19int(a[0]), c19int(a[1]))
		}
	case "uint64s":
		c19Uint64s(g, c19int(a[0]))
	case "bytesle":
		c19BytesLE(g, c19int(a[0]))
	case "hex", "binary":
		s := ""
		if a[0] != "-" {
			b, _ := hex.DecodeString(a[0])
			s = string(b)
		}
		c19Parse(g, f[1], s)
	case "sort":
		c19Sort(g, decInts(a[0]))
	case "unique":
		c19Unique(g, decInts(a[0]))
	case "index", "contains", "containssorted":
		if need(2) {
			c19Search(g, f[1], c19int(a[0]), decInts(a[1]))
		}
	case "insert":
		if need(2) {
			c19Insert(g, decInts(a[0]), c19int(a[1]))
		}
	case "merge":
		if need(2) {
			c19Merge(g, decInts(a[0]), decInts(a[1]))
		}
	case "vadd":
		if need(2) {
			c19VAdd(g, decInts(a[0]), decInts(a[1]))
		}
	case "vlsh":
		if need(2) {
			c19VLsh(g, decInts(a[0]), c19uint(a[1]))
		}
	}
}

// ---- generators ----

// c19Boundary returns about 40 non-negative values: 0, small, 2^k and 2^k±1
// around the 64-bit limb borders, and random values up to 2^600.
func c19Boundary(g *Gen) []*big.Int {
	one := big.NewInt(1)
	out := []*big.Int{}
	for _, v := range []int64{0, 1, 2, 3, 5, 255, 256} {
		out = append(out, big.NewInt(v))
	}
	for _, k := range []int{63, 64, 65, 127, 128} {
		out = append(out, new(big.Int).Sub(c19pow(k), one), c19pow(k), new(big.Int).Add(c19pow(k), one))
	}
	out = append(out, new(big.Int).Sub(c19pow(192), one), c19pow(256), new(big.Int).Sub(c19pow(600), one))
	for _, bits := range []int{6, 13, 33, 62, 64, 66, 100, 129, 190, 260, 333, 450, 512, 599, 600} {
		x := g.R.Bits(bits)
		x.SetBit(x, bits-1, 1)
		out = append(out, x)
	}
	return out
}

// c19Lists enumerates every list of length <= maxLen over 0..maxVal.
func c19Lists(maxLen int, maxVal int64, f func(xs []int64)) {
	cur := []int64{}
	var rec func()
	rec = func() {
		f(cur)
		if len(cur) == maxLen {
			return
		}
		for v := int64(0); v <= maxVal; v++ {
			cur = append(cur, v)
			rec()
			cur = cur[:len(cur)-1]
		}
	}
	rec()
}

// c19RandInt draws from a mix of small, negative, limb-border and large values.
func c19RandInt(g *Gen) *big.Int {
	var x *big.Int
	switch g.R.Intn(6) {
	case 0:
		x = big.NewInt(int64(g.R.Intn(8)))
	case 1:
		x = big.NewInt(int64(g.R.Intn(200)) - 100)
	case 2:
		x = c19pow(60 + g.R.Intn(10))
		x.Add(x, big.NewInt(int64(g.R.Intn(3))-1))
	case 3:
		x = g.R.Bits(1 + g.R.Intn(64))
	case 4:
		x = g.R.Bits(1 + g.R.Intn(300))
	default:
		x = g.R.Bits(1 + g.R.Intn(130))
		x.Neg(x)
	}
	return x
}

func c19RandList(g *Gen, n int) []*big.Int {
	xs := make([]*big.Int, n)
	for i := range xs {
		if i > 0 && g.R.Intn(4) == 0 {
			xs[i] = new(big.Int).Set(xs[g.R.Intn(i)]) // duplicates by value
		} else {
			xs[i] = c19RandInt(g)
		}
	}
	return xs
}

// c19SortedList returns a sorted list; distinct when asked.
func c19SortedList(g *Gen, n int, distinct bool) []*big.Int {
	xs := c19RandList(g, n)
	c19SortInts(xs)
	if !distinct {
		return xs
	}
	out := []*big.Int{}
	for _, x := range xs {
		if len(out) == 0 || out[len(out)-1].Cmp(x) != 0 {
			out = append(out, x)
		}
	}
	return out
}

// c19SortInts is an insertion sort (independent of the code under test).
func c19SortInts(xs []*big.Int) {
	for i := 1; i < len(xs); i++ {
		for j := i; j > 0 && xs[j-1].Cmp(xs[j]) > 0; j-- {
			xs[j-1], xs[j] = xs[j], xs[j-1]
		}
	}
}

func c19IsStrict(xs []int64) bool {
	for i := 1; i < len(xs); i++ {
		if xs[i-1] >= xs[i] {
			return false
		}
	}
	return true
}

// c19Spell writes x in the given base with random digit case and random underscores.
func c19Spell(g *Gen, x *big.Int, base int) string {
	t := x.Text(base)
	var sb strings.Builder
	if g.R.Intn(6) == 0 {
		sb.WriteByte('_')
	}
	for i := 0; i < len(t); i++ {
		c := t[i]
		if c >= 'a' && c <= 'f' && g.R.Bool() {
			c = c - 'a' + 'A'
		}
		sb.WriteByte(c)
		if g.R.Intn(4) == 0 {
			sb.WriteByte('_')
			if g.R.Intn(5) == 0 {
				sb.WriteByte('_')
			}
		}
	}
	return sb.String()
}

func genC19(g *Gen) {
	L := uint(g.pick(70, 200))
	bnd := c19Boundary(g)

	// --- Mask / Ones: exhaustive (l,h) including l > h (negative result, no panic) ---
	for l := uint(0); l <= L; l++ {
		for h := uint(0); h <= L; h++ {
			c19Mask(g, l, h)
		}
		c19Ones(g, l)
	}
	for _, n := range []uint{255, 256, 257, 511, 512, 600, 1023, 1024, 2000} {
		c19Ones(g, n)
		c19Mask(g, n/2, n)
		c19Mask(g, n-1, n)
		c19Mask(g, n, n)
	}

	// --- Extract: small exhaustive first (every x < 64 (256), every l <= h <= 9), so the smallest
	// counterexample is met before any large value ---
	for x := int64(0); x < int64(g.pick(64, 256)); x++ {
		for l := uint(0); l <= 9; l++ {
			for h := l; h <= 9; h++ {
				c19Extract(g, big.NewInt(x), l, h)
			}
		}
	}
	// --- Extract: every l <= h <= L on every boundary value; windows around the bit length ---
	for _, x := range bnd {
		for l := uint(0); l <= L; l++ {
			for h := l; h <= L; h++ {
				c19Extract(g, x, l, h)
			}
		}
		bl := x.BitLen()
		for i := 0; i < g.pick(60, 400); i++ {
			l := uint(g.R.Intn(bl + 10))
			h := l + uint(g.R.Intn(bl+12-int(l)))
			if g.R.Intn(3) == 0 {
				h = l + uint(g.R.Intn(70))
			}
			c19Extract(g, x, l, h)
		}
	}
	// out of range (correspondence only): l > h and negative x
	for i, x := range bnd {
		if i%5 != 0 {
			continue
		}
		for l := uint(0); l <= 20; l++ {
			for h := uint(0); h < l; h++ {
				c19Extract(g, x, l, h)
			}
		}
		nx := new(big.Int).Neg(x)
		for l := uint(0); l <= 12; l++ {
			for h := uint(0); h <= 14; h++ {
				c19Extract(g, nx, l, h)
			}
		}
	}
	for i := 0; i < g.pick(300, 3000); i++ {
		x := c19RandInt(g)
		l := uint(g.R.Intn(140))
		h := uint(g.R.Intn(140))
		c19Extract(g, x, l, h)
	}

	// --- IsPow2 / Pow2UpTo / BitsSet ---
	smallTop := int64(g.pick(4096, 65536))
	for v := int64(-64); v <= smallTop; v++ {
		c19IsPow2(g, big.NewInt(v))
		if v >= 0 {
			c19BitsSet(g, big.NewInt(v))
		}
	}
	for v := int64(-3); v <= int64(g.pick(1024, 8192)); v++ {
		c19Pow2UpTo(g, big.NewInt(v))
	}
	one := big.NewInt(1)
	for k := 1; k <= g.pick(130, 600); k++ {
		for _, x := range []*big.Int{new(big.Int).Sub(c19pow(k), one), c19pow(k), new(big.Int).Add(c19pow(k), one)} {
			c19IsPow2(g, x)
			c19IsPow2(g, new(big.Int).Neg(x))
			c19BitsSet(g, x)
			if k <= 130 || k%7 == 0 {
				c19Pow2UpTo(g, x)
			}
		}
	}
	for _, x := range bnd {
		c19IsPow2(g, x)
		c19Pow2UpTo(g, x)
		c19Pow2UpTo(g, new(big.Int).Neg(x))
		c19BitsSet(g, x)
	}
	for i := 0; i < g.pick(300, 3000); i++ {
		x := g.R.Bits(1 + g.R.Intn(600))
		c19IsPow2(g, x)
		c19BitsSet(g, x)
		if i%10 == 0 {
			c19Pow2UpTo(g, x)
		}
	}

	// --- MinMax ---
	for a := int64(-3); a <= 3; a++ {
		for b := int64(-3); b <= 3; b++ {
			c19MinMax(g, big.NewInt(a), big.NewInt(b))
		}
	}
	signed := []*big.Int{}
	for _, x := range bnd {
		signed = append(signed, x, new(big.Int).Neg(x))
	}
	for i, x := range signed {
		for j, y := range signed {
			if g.Thorough || (i+j)%3 == 0 || i == j {
				c19MinMax(g, new(big.Int).Set(x), new(big.Int).Set(y))
			}
		}
	}
	z := big.NewInt(7)
	c19MinMax(g, z, z) // same pointer twice

	// --- Uint64s / BytesLittleEndian ---
	for v := int64(-300); v <= 300; v++ {
		c19Uint64s(g, big.NewInt(v))
		c19BytesLE(g, big.NewInt(v))
	}
	for k := 1; k <= g.pick(160, 640); k++ {
		if k%8 != 0 && k%8 != 1 && k%8 != 7 && !g.Thorough {
			continue
		}
		for _, x := range []*big.Int{new(big.Int).Sub(c19pow(k), one), c19pow(k), new(big.Int).Add(c19pow(k), one)} {
			c19Uint64s(g, x)
			c19BytesLE(g, x)
			c19BytesLE(g, new(big.Int).Neg(x))
		}
	}
	for _, x := range bnd {
		c19Uint64s(g, x)
		c19BytesLE(g, x)
		c19BytesLE(g, new(big.Int).Neg(x))
	}
	for i := 0; i < g.pick(500, 5000); i++ {
		x := g.R.Bits(1 + g.R.Intn(600))
		if g.R.Intn(4) == 0 { // zero limbs / bytes in the middle
			x.Lsh(x, uint(64*(1+g.R.Intn(3))))
			x.Add(x, big.NewInt(int64(g.R.Intn(3))))
		}
		c19Uint64s(g, x)
		c19BytesLE(g, x)
		if i%3 == 0 {
			c19BytesLE(g, new(big.Int).Neg(x))
		}
	}

	// --- Hex / Binary ---
	c19Parse(g, "hex", "")
	c19Parse(g, "binary", "")
	alpha := []byte{'0', '1', '9', 'a', 'b', 'B', 'x', 'F', 'g', '_', '+', '-', ' '}
	maxLen := g.pick(4, 5)
	var rec func(cur []byte)
	rec = func(cur []byte) {
		if len(cur) > 0 {
			c19Parse(g, "hex", string(cur))
			c19Parse(g, "binary", string(cur))
		}
		if len(cur) == maxLen {
			return
		}
		for _, c := range alpha {
			rec(append(cur, c))
		}
	}
	rec([]byte{})
	for c := 0; c < 256; c++ { // every single byte, alone and after/before a digit
		for _, s := range []string{string([]byte{byte(c)}), "1" + string([]byte{byte(c)}), string([]byte{byte(c)}) + "1"} {
			c19Parse(g, "hex", s)
			c19Parse(g, "binary", s)
		}
	}
	for _, s := range []string{"0x1f", "0X1F", "0b101", "0B1", "0o7", "1e3", "1p3", "1.5", "٣", "é", "１", "dead_beef", "DEAD_BEEF",
		"ffff_ffff_ffff_ffff", "1_0000_0000_0000_0000", "__1__", "-_1", "+_", "-_", "1_", "_1", "1__0", "0_0", "-0", "+0", "00ff", "\n1", "1\n"} {
		c19Parse(g, "hex", s)
		c19Parse(g, "binary", s)
	}
	for i := 0; i < g.pick(600, 6000); i++ {
		x := g.R.Bits(1 + g.R.Intn(600))
		if i%4 == 0 {
			x = new(big.Int).Set(bnd[g.R.Intn(len(bnd))])
		}
		hs, bs := c19Spell(g, x, 16), c19Spell(g, x, 2)
		if g.R.Intn(8) == 0 {
			sign := []string{"+", "-"}[g.R.Intn(2)]
			hs, bs = sign+hs, sign+bs
		}
		if g.R.Intn(10) == 0 { // one bad character somewhere
			p := g.R.Intn(len(hs) + 1)
			hs = hs[:p] + string("gx .:"[g.R.Intn(5)]) + hs[p:]
			p = g.R.Intn(len(bs) + 1)
			bs = bs[:p] + string("2a .:"[g.R.Intn(5)]) + bs[p:]
		}
		c19Parse(g, "hex", hs)
		c19Parse(g, "binary", bs)
		if i%5 == 0 {
			c19Parse(g, "binary", hs) // hex digits offered to the binary parser
		}
	}

	// --- integer lists: every list of length <= 5 (6) over 0..5, sorted or not ---
	ll := g.pick(5, 6)
	c19Lists(ll, 5, func(xs []int64) {
		c19Sort(g, ints(xs...))
		c19Unique(g, ints(xs...))
		for n := int64(-1); n <= 6; n++ {
			c19Search(g, "index", big.NewInt(n), ints(xs...))
			c19Search(g, "contains", big.NewInt(n), ints(xs...))
			c19Search(g, "containssorted", big.NewInt(n), ints(xs...))
			if len(xs) <= 5 || c19IsStrict(xs) {
				c19Insert(g, ints(xs...), big.NewInt(n))
			}
		}
	})
	// merge: every pair of sorted distinct lists over 0..5 (0..6), and every pair of arbitrary short lists
	strict := [][]int64{}
	c19Lists(g.pick(6, 7), int64(g.pick(5, 6)), func(xs []int64) {
		if c19IsStrict(xs) {
			strict = append(strict, append([]int64{}, xs...))
		}
	})
	for _, a := range strict {
		for _, b := range strict {
			c19Merge(g, ints(a...), ints(b...))
		}
	}
	short := [][]int64{}
	c19Lists(3, int64(g.pick(3, 4)), func(xs []int64) { short = append(short, append([]int64{}, xs...)) })
	for _, a := range short {
		for _, b := range short {
			c19Merge(g, ints(a...), ints(b...))
		}
	}
	// aliasing: the same slice on both sides; an element pointer shared between the two lists
	sh := ints(1, 3, 5)
	c19Merge(g, sh, sh)
	c19Merge(g, sh, []*big.Int{sh[1]})
	c19Insert(g, sh, sh[1])
	c19Search(g, "index", sh[2], sh)

	// random longer lists with large, negative and repeated values
	for i := 0; i < g.pick(1500, 15000); i++ {
		n := g.R.Intn(40)
		xs := c19RandList(g, n)
		c19Sort(g, cloneInts(xs))
		c19Unique(g, cloneInts(xs))
		probe := c19RandInt(g)
		if n > 0 && g.R.Bool() {
			probe = new(big.Int).Set(xs[g.R.Intn(n)])
		}
		c19Search(g, "index", probe, cloneInts(xs))
		c19Search(g, "contains", probe, cloneInts(xs))
		srt := c19SortedList(g, n, false)
		c19Unique(g, cloneInts(srt))
		sp := c19RandInt(g)
		if n > 0 && g.R.Intn(3) != 0 {
			sp = new(big.Int).Set(srt[g.R.Intn(n)])
			if g.R.Intn(4) == 0 {
				sp.Add(sp, big.NewInt(int64(g.R.Intn(3))-1))
			}
		}
		c19Search(g, "containssorted", sp, cloneInts(srt))
		sd := c19SortedList(g, n, true)
		sd2 := c19SortedList(g, g.R.Intn(40), true)
		if len(sd) > 0 && g.R.Bool() { // force shared values
			for j := 0; j < 1+g.R.Intn(3); j++ {
				sd2 = append(sd2, new(big.Int).Set(sd[g.R.Intn(len(sd))]))
			}
			c19SortInts(sd2)
			d := []*big.Int{}
			for _, x := range sd2 {
				if len(d) == 0 || d[len(d)-1].Cmp(x) != 0 {
					d = append(d, x)
				}
			}
			sd2 = d
		}
		c19Merge(g, cloneInts(sd), cloneInts(sd2))
		ins := c19RandInt(g)
		if len(sd) > 0 && g.R.Bool() {
			ins = new(big.Int).Set(sd[g.R.Intn(len(sd))])
			if g.R.Bool() {
				ins.Add(ins, big.NewInt(int64(g.R.Intn(3))-1))
			}
		}
		c19Insert(g, cloneInts(sd), ins)
	}

	// --- vectors ---
	vs := [][]int64{}
	c19Lists(g.pick(2, 3), 4, func(xs []int64) {
		v := make([]int64, len(xs))
		for i, x := range xs {
			v[i] = x - 2 // values -2..2
		}
		vs = append(vs, v)
	})
	for _, u := range vs {
		for _, v := range vs {
			if len(u) == len(v) || g.R.Intn(8) == 0 {
				c19VAdd(g, ints(u...), ints(v...))
			}
		}
		for _, s := range []uint{0, 1, 2, 63, 64, 65} {
			c19VLsh(g, ints(u...), s)
		}
	}
	for i := 0; i < g.pick(600, 6000); i++ {
		n := g.R.Intn(9)
		u, v := c19RandList(g, n), c19RandList(g, n)
		if g.R.Intn(12) == 0 {
			v = c19RandList(g, g.R.Intn(9))
		}
		c19VAdd(g, u, v)
		c19VLsh(g, c19RandList(g, n), uint(g.R.Intn(int(L)+1)))
	}
	for s := uint(0); s <= L; s++ {
		c19VLsh(g, []*big.Int{big.NewInt(1), big.NewInt(-3), c19pow(64), big.NewInt(0)}, s)
	}
	// basis / zero vectors of the package itself, and aliasing u = v
	for n := 1; n <= 4; n++ {
		for i := 0; i < n; i++ {
			var b, zv []*big.Int
			if c19call(g, "newbasis", func() {
				b = c19vecInts(verifhooks.BigvectorNewBasis(n, i))
				zv = c19vecInts(verifhooks.BigvectorNew(n))
			}) {
				continue // constructors are outside the property; counted in the generator statistics
			}
			c19VAdd(g, b, zv)
			c19VAdd(g, b, b)
			c19VLsh(g, b, uint(i+1))
		}
	}
}
