package main

import (
	"math/big"

	"github.com/mmcloughlin/addchain"
	"github.com/mmcloughlin/addchain/alg/dict"
)

func init() {
	props["C11"] = genC11
	replays["C11"] = func(g *Gen, f []string) {
		if len(f) >= 2 {
			c11Case(g, addchain.Chain(decInts(f[1])))
		}
	}
}

func c11Case(g *Gen, lc addchain.Chain) {
	g.Pending("c11", encInts(lc))
	before := cloneInts(lc)
	out := "err"
	var o addchain.Chain
	var err error
	if p := safe(func() {
		// history: the elements of an earlier result are overwritten by the caller (they are the
		// caller's to keep); a second call must not be affected
		if prev, e := dict.RunsChain(cloneInts(lc)); e == nil {
			c19scribble(prev...)
		}
		o, err = dict.RunsChain(lc)
	}); p != "" {
		out = "panic"
	} else if err == nil {
		out = encInts(o)
	}
	g.Line("c11", encInts(before), out, b01(equalInts(before, lc)))
}

func genC11(g *Gen) {
	for l := 1; l <= g.pick(7, 8); l++ {
		validChains(l, 300, func(c []int64) {
			c11Case(g, fromInt64s(c))
			g.Count("valid")
		})
	}
	// random longer chains with values up to a few thousand
	for i := 0; i < g.pick(300, 3000); i++ {
		c := addchain.Chain{big.NewInt(1)}
		n := 8 + g.R.Intn(10)
		for tries := 0; len(c) < n && tries < 200; tries++ {
			a, b := c[g.R.Intn(len(c))], c[g.R.Intn(len(c))]
			s := new(big.Int).Add(a, b)
			if s.Cmp(big.NewInt(4000)) > 0 {
				continue
			}
			dup := false
			for _, x := range c {
				if x.Cmp(s) == 0 {
					dup = true
				}
			}
			if !dup {
				c = append(c, s)
			}
		}
		c11Case(g, c)
		g.Count("random")
	}
	// invalid chains are refused by validation
	for i := 0; i < 300; i++ {
		n := 1 + g.R.Intn(5)
		c := make(addchain.Chain, n)
		for j := range c {
			c[j] = big.NewInt(int64(g.R.Intn(8)) - 1)
		}
		c11Case(g, c)
		g.Count("invalid")
	}
	// invalid chains mentioning values beyond a machine word (refused; the valid-chain refusal
	// path cannot be reached by execution: a valid chain reaching 2^64 needs >2^60 appended elements)
	big1 := new(big.Int).Lsh(big.NewInt(1), 64)
	c11Case(g, addchain.Chain{big.NewInt(1), big1})
	c11Case(g, addchain.Chain{big.NewInt(1), big.NewInt(2), new(big.Int).Add(big1, big.NewInt(2))})
}
