package main

import (
	"bytes"
	"context"
	"encoding/hex"
	"fmt"
	"math/big"
	"os"
	"os/exec"
	"strconv"
	"strings"
	"sync"
	"sync/atomic"
	"time"

	"github.com/mmcloughlin/addchain/verifhooks"
)

// C14: the search command's report is self-consistent, minimal and reproducible. Everything goes
// through the binary built from the working tree (VERIF_ADDCHAIN).

func init() {
	props["C14"] = genC14
	replays["C14"] = func(g *Gen, f []string) {
		// c14 <expr hex> <n> <A> <D> ...
		if len(f) < 5 {
			return
		}
		expr := decHexField(f[1])
		a, err1 := strconv.ParseFloat(f[3], 64)
		d, err2 := strconv.ParseFloat(f[4], 64)
		if err1 != nil || err2 != nil {
			return
		}
		job := c14Job{expr: expr, A: a, D: d, Ps: []int{16, 1, 2, 3, 64}}
		r := c14Run(job, 3)
		g.Line(r...)
	}
}

func decHexField(s string) string {
	if s == "-" {
		return ""
	}
	b, err := hex.DecodeString(s)
	if err != nil {
		return ""
	}
	return string(b)
}

// ---- running the binary -------------------------------------------------------------------

type cliResult struct {
	exit     int // exit status, -1 when the process did not exit on its own
	timedOut bool
	stdout   []byte
	stderr   []byte
	startErr string
}

func addchainBin() string {
	if p := os.Getenv("VERIF_ADDCHAIN"); p != "" {
		return p
	}
	return "/verif/harness/bin/addchain"
}

// runCLI runs the addchain binary with the given arguments and standard input; the process is
// killed after the timeout. ADDCHAIN_PROFILE is removed from the environment (search would
// otherwise write profiles).
func runCLI(args []string, stdin []byte, timeout time.Duration) cliResult {
	ctx, cancel := context.WithTimeout(context.Background(), timeout)
	defer cancel()
	// the child runs under an address-space limit (4 GiB): a runaway allocation in the code under test
	// ends in an error of that process, not in memory pressure on the machine running the check
	shArgs := append([]string{"-c", `ulimit -v 4194304 2>/dev/null; exec "$0" "$@"`, addchainBin()}, args...)
	cmd := exec.CommandContext(ctx, "/bin/sh", shArgs...)
	cmd.Stdin = bytes.NewReader(stdin)
	var so, se bytes.Buffer
	cmd.Stdout = &so
	cmd.Stderr = &se
	cmd.WaitDelay = 2 * time.Second
	env := []string{}
	for _, e := range os.Environ() {
		if strings.HasPrefix(e, "ADDCHAIN_PROFILE=") || strings.HasPrefix(e, "GOMEMLIMIT=") || strings.HasPrefix(e, "GOTRACEBACK=") {
			continue
		}
		env = append(env, e)
	}
	cmd.Env = env
	err := cmd.Run()
	r := cliResult{stdout: so.Bytes(), stderr: se.Bytes()}
	if ctx.Err() == context.DeadlineExceeded {
		r.timedOut = true
		r.exit = -1
		return r
	}
	if err != nil {
		if ee, ok := err.(*exec.ExitError); ok {
			r.exit = ee.ExitCode() // -1 if terminated by a signal
			return r
		}
		r.exit = -1
		r.startErr = err.Error()
		return r
	}
	r.exit = 0
	return r
}

// parallelMap runs f(i) for i in [0,n) on a pool of workers; results are stored by index so the
// order of what is written afterwards does not depend on scheduling.
func parallelMap(n, workers int, f func(i int)) {
	if workers < 1 {
		workers = 1
	}
	var wg sync.WaitGroup
	ch := make(chan int)
	for w := 0; w < workers; w++ {
		wg.Add(1)
		go func() {
			defer wg.Done()
			for i := range ch {
				f(i)
			}
		}()
	}
	for i := 0; i < n; i++ {
		ch <- i
	}
	close(ch)
	wg.Wait()
}

func cliWorkers() int {
	if s := os.Getenv("VERIF_CLI_WORKERS"); s != "" {
		if n, err := strconv.Atoi(s); err == nil && n > 0 {
			return n
		}
	}
	return 8
}

// ---- one C14 case ---------------------------------------------------------------------------

type c14Job struct {
	expr string
	A, D float64
	Ps   []int // Ps[0] is the verbose primary run; every P is run once more without -v; the last P twice
	tag  string
}

func fmtFloat(x float64) string { return strconv.FormatFloat(x, 'g', -1, 64) }

const c14Timeout = 60 * time.Second

// c14TimedOut is set by c14Run when some invocation hit its timeout.
type c14Out struct {
	fields   []string
	timedOut bool
}

func searchArgs(verbose bool, p int, a, d float64, expr string) []string {
	args := []string{"search"}
	if verbose {
		args = append(args, "-v")
	}
	args = append(args, "-p", strconv.Itoa(p), "-add", fmtFloat(a), "-double", fmtFloat(d))
	if strings.HasPrefix(expr, "-") {
		args = append(args, "--")
	}
	return append(args, expr)
}

// parseSearchLog reads the -v log: per algorithm its name, cost string, doubles and adds; then the
// best name and the reported minimal cost.
type algLine struct {
	name string
	cost string
	d, a int
}

func parseSearchLog(stderr []byte) (algs []algLine, best, mincost string, ok bool) {
	const pfx = "addchain: "
	sawBest := false
	for _, ln := range strings.Split(string(stderr), "\n") {
		if !strings.HasPrefix(ln, pfx) {
			continue
		}
		ln = ln[len(pfx):]
		switch {
		case strings.HasPrefix(ln, "algorithm: "):
			algs = append(algs, algLine{name: ln[len("algorithm: "):], d: -1, a: -1})
		case strings.HasPrefix(ln, "best: "):
			best = ln[len("best: "):]
			sawBest = true
		case strings.HasPrefix(ln, "cost: "):
			rest := ln[len("cost: "):]
			if sawBest {
				mincost = rest
				continue
			}
			if len(algs) == 0 {
				return nil, "", "", false
			}
			// "<c>\tdoubles: \t<d> adds: <a>"
			parts := strings.Split(rest, "\t")
			if len(parts) != 3 || parts[1] != "doubles: " {
				return nil, "", "", false
			}
			var d, a int
			if _, err := fmt.Sscanf(parts[2], "%d adds: %d", &d, &a); err != nil {
				return nil, "", "", false
			}
			al := &algs[len(algs)-1]
			al.cost, al.d, al.a = parts[0], d, a
		}
	}
	if !sawBest || mincost == "" {
		return algs, best, mincost, false
	}
	for _, al := range algs {
		if al.d < 0 {
			return algs, best, mincost, false
		}
	}
	return algs, best, mincost, true
}

// parseEval reads the output of `addchain eval`: the listed chain must be consistent (every value
// the sum of the two operands named on its line); returns the last value, doubles and adds.
func parseEval(out []byte) (last *big.Int, doubles, adds int, ok bool) {
	chain := []*big.Int{big.NewInt(1)}
	sawTotal := false
	for _, ln := range strings.Split(strings.TrimRight(string(out), "\n"), "\n") {
		if strings.HasPrefix(ln, "total: ") {
			// "total: T\tdoubles: \tD adds: A"
			var t int
			parts := strings.Split(ln, "\t")
			if len(parts) != 3 || parts[1] != "doubles: " {
				return nil, 0, 0, false
			}
			if _, err := fmt.Sscanf(parts[0], "total: %d", &t); err != nil {
				return nil, 0, 0, false
			}
			if _, err := fmt.Sscanf(parts[2], "%d adds: %d", &doubles, &adds); err != nil {
				return nil, 0, 0, false
			}
			if t != doubles+adds || t != len(chain)-1 {
				return nil, 0, 0, false
			}
			sawTotal = true
			continue
		}
		if sawTotal || !strings.HasPrefix(ln, "[") {
			return nil, 0, 0, false
		}
		// "[%3d] %3d+%3d\t%x"
		rb := strings.Index(ln, "]")
		tab := strings.Index(ln, "\t")
		if rb < 0 || tab < rb {
			return nil, 0, 0, false
		}
		k, err := strconv.Atoi(strings.TrimSpace(ln[1:rb]))
		if err != nil || k != len(chain) {
			return nil, 0, 0, false
		}
		ij := strings.Split(ln[rb+1:tab], "+")
		if len(ij) != 2 {
			return nil, 0, 0, false
		}
		i, err1 := strconv.Atoi(strings.TrimSpace(ij[0]))
		j, err2 := strconv.Atoi(strings.TrimSpace(ij[1]))
		if err1 != nil || err2 != nil || i < 0 || j < 0 || i >= len(chain) || j >= len(chain) {
			return nil, 0, 0, false
		}
		v, okv := new(big.Int).SetString(ln[tab+1:], 16)
		if !okv || new(big.Int).Add(chain[i], chain[j]).Cmp(v) != 0 {
			return nil, 0, 0, false
		}
		chain = append(chain, v)
	}
	if !sawTotal {
		return nil, 0, 0, false
	}
	return chain[len(chain)-1], doubles, adds, true
}

// c14Run executes one case; mult multiplies every timeout.
func c14Run(job c14Job, mult int) []string {
	return c14RunOut(job, mult).fields
}

func c14RunOut(job c14Job, mult int) c14Out {
	to := time.Duration(mult) * c14Timeout
	out := c14Out{}
	nstr := "err"
	var n *big.Int
	var cerr error
	if p := safe(func() { n, cerr = verifhooks.CalcEval(job.expr) }); p == "" && cerr == nil && n != nil {
		nstr = n.String()
	}
	A, D := job.A, job.D
	kind := "float"
	if A == float64(int64(A)) && D == float64(int64(D)) && A >= 0 && D >= 0 && A < 1e6 && D < 1e6 {
		kind = "int"
	}
	// primary verbose run
	pr := runCLI(searchArgs(true, job.Ps[0], A, D, job.expr), nil, to)
	out.timedOut = out.timedOut || pr.timedOut
	script := pr.stdout
	algs, best, mincost, logOK := parseSearchLog(pr.stderr)
	exit := pr.exit
	if pr.exit == 0 && !logOK {
		exit = 100 // the log could not be read: reported as a non-zero status
	}
	// eval, fmt, fmt -b, gen on the printed script
	evalF, evalD, evalA := "err", "-1", "-1"
	recomputed := "-"
	fmtExit, fmtbExit, genExit := -1, -1, -1
	if pr.exit == 0 {
		ev := runCLI([]string{"eval"}, script, to)
		out.timedOut = out.timedOut || ev.timedOut
		if ev.exit == 0 {
			if last, d, a, ok := parseEval(ev.stdout); ok {
				evalF, evalD, evalA = last.String(), strconv.Itoa(d), strconv.Itoa(a)
				recomputed = fmt.Sprintf("%v", D*float64(d)+A*float64(a))
			}
		}
		r1 := runCLI([]string{"fmt"}, script, to)
		r2 := runCLI([]string{"fmt", "-b"}, script, to)
		r3 := runCLI([]string{"gen"}, script, to)
		out.timedOut = out.timedOut || r1.timedOut || r2.timedOut || r3.timedOut
		fmtExit, fmtbExit, genExit = r1.exit, r2.exit, r3.exit
	}
	// per-algorithm costs recomputed with the same float64 expression
	minOK, firstOK := false, false
	bestIdx := -1
	pairs := make([]string, len(algs))
	if logOK && len(algs) > 0 {
		for i, al := range algs {
			if al.name == best && bestIdx < 0 {
				bestIdx = i
			}
			pairs[i] = fmt.Sprintf("%d:%d", al.d, al.a)
		}
		costs := make([]float64, len(algs))
		stringsOK := true
		for i, al := range algs {
			costs[i] = D*float64(al.d) + A*float64(al.a)
			if fmt.Sprintf("%v", costs[i]) != al.cost {
				stringsOK = false
			}
		}
		first := 0
		for i := range costs {
			if costs[i] < costs[first] {
				first = i
			}
		}
		minOK = stringsOK && fmt.Sprintf("%v", costs[first]) == mincost
		for _, c := range costs {
			if c < costs[first] { // cannot happen for ordered floats; NaN-safe restatement
				minOK = false
			}
		}
		firstOK = bestIdx == first
	}
	// reproducibility: the same search at every P (non-verbose), the last P twice
	identP, identRuns := true, true
	var ref *cliResult
	for k, p := range job.Ps {
		if pr.timedOut {
			identP, identRuns = false, false
			break // the primary run did not finish: nothing to compare, and every further run would wait as long
		}
		r := runCLI(searchArgs(false, p, A, D, job.expr), nil, to)
		out.timedOut = out.timedOut || r.timedOut
		if r.exit != pr.exit || !bytes.Equal(r.stdout, script) {
			identP = false
		}
		if ref == nil {
			rr := r
			ref = &rr
		} else if !bytes.Equal(r.stderr, ref.stderr) {
			identP = false
		}
		if k == len(job.Ps)-1 {
			r2 := runCLI(searchArgs(false, p, A, D, job.expr), nil, to)
			out.timedOut = out.timedOut || r2.timedOut
			if r2.exit != r.exit || !bytes.Equal(r2.stdout, r.stdout) || !bytes.Equal(r2.stderr, r.stderr) {
				identRuns = false
			}
		}
	}
	pl := "-"
	if len(pairs) > 0 {
		pl = strings.Join(pairs, ",")
	}
	mc := mincost
	if mc == "" {
		mc = "-"
	}
	ps := make([]int, len(job.Ps))
	copy(ps, job.Ps)
	out.fields = []string{"c14", encHex(job.expr), nstr, fmtFloat(A), fmtFloat(D), strconv.Itoa(exit), encHex(string(script)),
		evalF, evalD, evalA, strings.ReplaceAll(mc, " ", "_"), recomputed, b01(minOK), b01(firstOK),
		strconv.Itoa(fmtExit), strconv.Itoa(fmtbExit), strconv.Itoa(genExit), b01(identP), b01(identRuns), pl,
		strconv.Itoa(bestIdx), kind, encIntSlice(ps)}
	return out
}

// ---- generators -----------------------------------------------------------------------------

func c14Structured(g *Gen, count int) []string {
	rnd := func(bits int) *big.Int {
		x := g.R.Bits(bits)
		x.SetBit(x, bits-1, 1)
		return x
	}
	base := []string{
		"2^127-1",
		"2^255-19",
		"2^255-21",
		"2^448-2^224-1-2",
		"2^521-1-2",
		"2^256 - 2^224 + 2^192 + 2^96 - 1 - 3",
		rnd(64).String(),
		"0x" + rnd(128).Text(16),
		rnd(256).String(),
		"2^255 - 19 - 2",
		"0x7f * 0b101 + 1",
		"-3 + 2^7 * 5",
	}
	more := []string{
		"2^256-2^32-977-2",
		"2^384-2^128-2^96+2^32-1-3",
		"2^414-17-2",
		"2^511-187-2",
		"2^448-2^224-1-3",
		"2^252+27742317777372353535851937790883648493-2",
		"2^600-1",
		"2^599+1",
		"2^64/3",
		"3^200",
		"2^383-187",
		"0b" + rnd(200).Text(2),
		"7*2^300+5",
		"2^130-5-2",
		"2^251-9",
		"2^224-2^96+1-3",
		"2^192-2^64-1-2",
		"2^160-2^31-1",
		"2^336-17",
		"2^480-2^240-1",
		"2^255-19-19+1-1",
		"10^150+7",
		"0xffffffff00000001000000000000000000000000fffffffffffffffffffffffc",
		"0x1000000000000000000000000000000014def9dea2f79cd65812631a5cf5d3eb",
	}
	all := append([]string{}, base...)
	all = append(all, more...)
	for bits := 32; len(all) < count; bits += 37 {
		b := 16 + bits%590
		all = append(all, rnd(b).String())
	}
	if count < len(all) {
		all = all[:count]
	}
	return all
}

func genC14(g *Gen) {
	type w struct{ a, d float64 }
	weights := []w{{1, 1}, {1, 2}, {3, 1}, {0.5, 1.7}}
	allP := []int{16, 1, 2, 3, 64}
	var jobs []c14Job
	maxN := g.pick(24, 200)
	for n := 1; n <= maxN; n++ {
		for _, wt := range weights {
			jobs = append(jobs, c14Job{expr: strconv.Itoa(n), A: wt.a, D: wt.d, Ps: allP, tag: "small"})
		}
	}
	structured := c14Structured(g, g.pick(12, 60))
	for i, e := range structured {
		wt := w{1, 1}
		ps := []int{16, 1}
		if g.Thorough {
			wt = weights[i%len(weights)]
			ps = allP
		}
		jobs = append(jobs, c14Job{expr: e, A: wt.a, D: wt.d, Ps: ps, tag: "structured"})
	}
	// a few extra weight settings on mid-size targets (ties and weight-dependent winners)
	extra := []struct {
		e    string
		a, d float64
	}{{"2^64-59", 1, 3}, {"2^89-1", 2, 1}, {"0xdeadbeefcafef00d", 0.1, 0.7}, {"1000003", 7, 7},
		// weights of very different magnitude (costs in seconds or joules; in units of 10^300): the
		// selection must still take the minimum
		{"2^255-19-2", 2.5e-12, 2e-12}, {"2^127-1", 1e-10, 1e-10}, {"2^89-1", 1e300, 7e299}, {"2^64-59", 3e-300, 1e-300},
		// literals in [2^63, 2^64): a limb-sized constant with its top bit set
		{"0xffffffff00000001 - 2", 1, 1}, {"2^128 + 0xfffffffffffffffe", 1, 1}, {"18446744073709551557", 1, 2},
		// additions priced far below doublings and the other way round (the selection is a plain minimum)
		{"2^127-1", 1, 2}, {"2^127-1", 0.25, 1}, {"2^64-2^32+1-2", 1, 4}, {"2^64-2^32+1-2", 5, 1},
		// a dense 512-bit target (brainpoolP512r1 p - 2): the printed script is over 2 KB
		{"0xaadd9db8dbe9c48b3fd4e6ae33c9fc07cb308db3b3c9d20ed6639cca703308717d4d9b009bc66842aecda12ae6a380e62881ff2f2d82c68528aa6056583a48f3 - 2", 1, 1}}
	for _, x := range extra {
		jobs = append(jobs, c14Job{expr: x.e, A: x.a, D: x.d, Ps: []int{16, 1, 3}, tag: "extra"})
	}
	outs := make([]c14Out, len(jobs))
	done := make([]bool, len(jobs))
	var timeouts int32
	parallelMap(len(jobs), cliWorkers(), func(i int) {
		if atomic.LoadInt32(&timeouts) >= 4 {
			return // several cases already ran out of time: the rest would only wait as long
		}
		outs[i] = c14RunOut(jobs[i], 1)
		done[i] = true
		if outs[i].timedOut {
			atomic.AddInt32(&timeouts, 1)
		}
	})
	// a timeout may be caused by a loaded machine: re-run that case alone with three times the
	// budget; after two confirmed timeouts the remaining ones are reported as they are
	confirmed := 0
	for i := range outs {
		if done[i] && outs[i].timedOut && confirmed < 2 {
			g.Count("timeout-rerun")
			outs[i] = c14RunOut(jobs[i], 3)
			if outs[i].timedOut {
				g.Count("timeout-confirmed")
				confirmed++
			}
		}
	}
	for i := range outs {
		if !done[i] {
			g.Count("not-run-after-timeouts")
			continue
		}
		g.Line(outs[i].fields...)
		g.Count(jobs[i].tag)
	}
}
