package main

// C05 / C17: temporary allocation (acc/pass/alloc.go) and the named register machine
// (acc/eval/interp.go).
//
// c05 <ir> <names before allocation|-> <in> <out> <prefix> <x> <impl named ir|err|panic> <impl temporaries> <interp distinct>
//     <interp aliased> <input-written-distinct 0/1> <pointer-canonical 0/1>
// c17 <ir> <impl number of temporaries|err>
//
// ir dump: instructions separated by ';' (empty program "-"): k:A(i,j)  k:D(i)  k:S(i,s).
// named dump: z=A(x,t0);t1=D(z);z=S(t1,3); an empty identifier is written "?".

import (
	"fmt"
	"math/big"
	"strconv"
	"strings"

	"github.com/mmcloughlin/addchain"
	"github.com/mmcloughlin/addchain/acc"
	"github.com/mmcloughlin/addchain/acc/ast"
	"github.com/mmcloughlin/addchain/acc/eval"
	"github.com/mmcloughlin/addchain/acc/ir"
	"github.com/mmcloughlin/addchain/acc/parse"
	"github.com/mmcloughlin/addchain/acc/pass"
	"github.com/mmcloughlin/addchain/alg/ensemble"
)

func init() {
	props["C05"] = func(g *Gen) { genC05(g, c05Emit) }
	props["C17"] = func(g *Gen) { genC05(g, c17Emit) }
	replays["C05"] = func(g *Gen, f []string) {
		if len(f) < 7 {
			return
		}
		p, ok := c05ParseIR(f[1])
		if !ok {
			return
		}
		c05WithNames(p, f[2])
		x, _ := new(big.Int).SetString(f[6], 10)
		if x == nil {
			x = big.NewInt(1)
		}
		c05Case(g, p, c05Cfg{f[3], f[4], f[5]}, x)
	}
	replays["C17"] = func(g *Gen, f []string) {
		if len(f) < 2 {
			return
		}
		if p, ok := c05ParseIR(f[1]); ok {
			c17Case(g, p)
		}
	}
}

type c05Cfg struct{ in, out, prefix string }

// naming configurations with pairwise distinct names; in the last two the output resp. input name is what
// ANOTHER configuration's format would give a temporary (a format-blind name cache would collide with it)
var c05Cfgs = []c05Cfg{{"x", "z", "t"}, {"in", "out", "tmp"}, {"t", "t0x", "t0"}, {"x", "t0", "r"}, {"t1", "z", "s"}}

// c05Poison: calls whose outcome is not judged -- allocation of ill-formed programs (a read of an index
// that is only defined later, a dangling read, an empty program) and of a well-formed program under a
// configuration whose output name clashes with a temporary name. They stand for what a long-lived
// process may have done before: the judged cases that follow must not be affected by them (state kept
// in package-level variables, pools or caches after a refusal).
func c05Poison(g *Gen) {
	mk := func(ops ...[3]int) *ir.Program {
		p := &ir.Program{}
		for _, o := range ops {
			p.AddInstruction(&ir.Instruction{Output: ir.Index(o[0]), Op: ir.Add{X: ir.Index(o[1]), Y: ir.Index(o[2])}})
		}
		return p
	}
	later := mk([3]int{1, 0, 2}, [3]int{2, 1, 1}, [3]int{3, 2, 2}, [3]int{4, 3, 3}, [3]int{5, 4, 4})
	dangling := mk([3]int{1, 0, 0}, [3]int{2, 1, 7}, [3]int{3, 2, 2})
	wide := c05Wide(13, 1)
	calls := []struct {
		a pass.Allocator
		p *ir.Program
	}{
		{pass.Allocator{Input: "x", Output: "z", Format: "t%d"}, later},
		{pass.Allocator{Input: "x", Output: "z", Format: "t%d"}, dangling},
		{pass.Allocator{Input: "x", Output: "z", Format: "t%d"}, &ir.Program{}},
		{pass.Allocator{Input: "in", Output: "t3", Format: "t%d"}, wide},
		{pass.Allocator{Input: "t2", Output: "out", Format: "t%d"}, wide.Clone()},
	}
	// rotated, so that each kind of call is, in turn, the one directly before the next judged case
	start := (g.N / 701) % len(calls)
	for k := range calls {
		c := calls[(start+1+k)%len(calls)]
		safe(func() { _ = c.a.Execute(c.p) })
	}
	g.Count("poison-calls")
}

func c05DumpIR(p *ir.Program) string {
	if len(p.Instructions) == 0 {
		return "-"
	}
	parts := make([]string, len(p.Instructions))
	for n, i := range p.Instructions {
		switch op := i.Op.(type) {
		case ir.Add:
			parts[n] = fmt.Sprintf("%d:A(%d,%d)", i.Output.Index, op.X.Index, op.Y.Index)
		case ir.Double:
			parts[n] = fmt.Sprintf("%d:D(%d)", i.Output.Index, op.X.Index)
		case ir.Shift:
			parts[n] = fmt.Sprintf("%d:S(%d,%d)", i.Output.Index, op.X.Index, op.S)
		default:
			parts[n] = "?"
		}
	}
	return strings.Join(parts, ";")
}

func c05Name(o *ir.Operand) string {
	if o.Identifier == "" {
		return "?"
	}
	return o.Identifier
}

func c05DumpNamed(p *ir.Program) string {
	if len(p.Instructions) == 0 {
		return "-"
	}
	parts := make([]string, len(p.Instructions))
	for n, i := range p.Instructions {
		switch op := i.Op.(type) {
		case ir.Add:
			parts[n] = fmt.Sprintf("%s=A(%s,%s)", c05Name(i.Output), c05Name(op.X), c05Name(op.Y))
		case ir.Double:
			parts[n] = fmt.Sprintf("%s=D(%s)", c05Name(i.Output), c05Name(op.X))
		case ir.Shift:
			parts[n] = fmt.Sprintf("%s=S(%s,%d)", c05Name(i.Output), c05Name(op.X), op.S)
		default:
			parts[n] = "?"
		}
	}
	return strings.Join(parts, ";")
}

// c05ParseIR rebuilds a program (fresh operand objects) from a dump.
func c05ParseIR(s string) (*ir.Program, bool) {
	p := &ir.Program{}
	if s == "-" {
		return p, true
	}
	for _, part := range strings.Split(s, ";") {
		c := strings.Index(part, ":")
		if c < 0 || len(part) < c+5 || part[len(part)-1] != ')' {
			return nil, false
		}
		out, err := strconv.Atoi(part[:c])
		if err != nil {
			return nil, false
		}
		kind := part[c+1]
		args := strings.Split(part[c+3:len(part)-1], ",")
		nums := make([]int, len(args))
		for i, a := range args {
			n, err := strconv.Atoi(a)
			if err != nil {
				return nil, false
			}
			nums[i] = n
		}
		inst := &ir.Instruction{Output: ir.Index(out)}
		switch {
		case kind == 'A' && len(nums) == 2:
			inst.Op = ir.Add{X: ir.Index(nums[0]), Y: ir.Index(nums[1])}
		case kind == 'D' && len(nums) == 1:
			inst.Op = ir.Double{X: ir.Index(nums[0])}
		case kind == 'S' && len(nums) == 2:
			inst.Op = ir.Shift{X: ir.Index(nums[0]), S: uint(nums[1])}
		default:
			return nil, false
		}
		p.AddInstruction(inst)
	}
	return p, true
}

// c05InDomain: outputs strictly increasing from >= 1 and no instruction reads an index that the
// same or a later instruction outputs (then the defining output is the canonical operand).
func c05InDomain(p *ir.Program) bool {
	last := 0
	for n, i := range p.Instructions {
		if i.Output.Index <= last {
			return false
		}
		last = i.Output.Index
		for _, in := range i.Op.Inputs() {
			if in.Index < 0 {
				return false
			}
			for _, j := range p.Instructions[n:] {
				if j.Output.Index == in.Index {
					return false
				}
			}
		}
	}
	return true
}

func c05PointerCanonical(p *ir.Program) bool {
	if p.Operands == nil {
		return false
	}
	for _, i := range p.Instructions {
		for _, o := range i.Operands() {
			if p.Operands[o.Index] != o {
				return false
			}
		}
	}
	return true
}

// c05Interp runs the real interpreter on the allocated program. aliased: the input and the
// output name are bound to the same big.Int object, which is what "the output aliases the input"
// means for the generated code (Interpreter.output reuses the stored object and writes into it).
func c05Interp(p *ir.Program, cfg c05Cfg, x *big.Int, aliased bool) (res string, inputWritten bool) {
	xin := new(big.Int).Set(x)
	it := eval.NewInterpreter()
	it.Store(cfg.in, xin)
	if aliased {
		it.Store(cfg.out, xin)
	}
	var err error
	if pn := safe(func() { err = it.Execute(p) }); pn != "" {
		return "panic", false
	}
	if err != nil {
		return "err", false
	}
	out, ok := it.Load(cfg.out)
	if !ok {
		return "undef", false
	}
	cur, _ := it.Load(cfg.in)
	inputWritten = cur != xin || xin.Cmp(x) != 0
	if aliased && out != xin {
		return "unaliased", inputWritten
	}
	return out.String(), inputWritten
}

// c05PreNames dumps the identifiers the operands carry before allocation ("-" when none does).
func c05PreNames(p *ir.Program) string {
	for _, i := range p.Instructions {
		for _, o := range i.Operands() {
			if o.Identifier != "" {
				return c05DumpNamed(p)
			}
		}
	}
	return "-"
}

// c05WithNames parses a pre-names dump onto a freshly parsed program (separate objects).
func c05WithNames(p *ir.Program, names string) {
	if names == "-" {
		return
	}
	parts := strings.Split(names, ";")
	if len(parts) != len(p.Instructions) {
		return
	}
	nm := func(s string) string {
		if s == "?" {
			return ""
		}
		return s
	}
	for n, part := range parts {
		eq := strings.Index(part, "=")
		if eq < 0 || len(part) < eq+4 {
			continue
		}
		inst := p.Instructions[n]
		inst.Output.Identifier = nm(part[:eq])
		args := strings.Split(part[eq+3:len(part)-1], ",")
		for k, in := range inst.Op.Inputs() {
			if k < len(args) {
				in.Identifier = nm(args[k])
			}
		}
	}
}

func c05Case(g *Gen, p *ir.Program, cfg c05Cfg, x *big.Int) {
	dump := c05DumpIR(p)
	pre := c05PreNames(p)
	a := pass.Allocator{Input: cfg.in, Output: cfg.out, Format: cfg.prefix + "%d"}
	var err error
	named, temps, rd, ra, iw, pc := "err", "-", "-", "-", false, false
	if pn := safe(func() { err = a.Execute(p) }); pn != "" {
		named = "panic"
	} else if err == nil {
		named = c05DumpNamed(p)
		temps = strings.Join(p.Temporaries, ",")
		pc = c05PointerCanonical(p)
		rd, iw = c05Interp(p, cfg, x, false)
		ra, _ = c05Interp(p, cfg, x, true)
	}
	g.Line("c05", dump, pre, cfg.in, cfg.out, cfg.prefix, x.String(), named, temps, rd, ra, b01(iw), b01(pc))
	c05HistoryProbes(g, p, cfg, x, named, rd, ra)
}

// c05Held is the previously allocated program with what it computed: allocating another program (with
// other names) afterwards must not change it — operand objects and pass results are per program.
var c05Held struct {
	p             *ir.Program
	cfg           c05Cfg
	x             *big.Int
	named, rd, ra string
}

// c05WellFormed: every input is element 0 or the output of an earlier instruction, and no index is
// output twice (the domain of the property).
func c05WellFormed(p *ir.Program) bool {
	def := map[int]bool{0: true}
	for _, i := range p.Instructions {
		for _, in := range i.Op.Inputs() {
			if !def[in.Index] {
				return false
			}
		}
		if def[i.Output.Index] {
			return false
		}
		def[i.Output.Index] = true
	}
	return true
}

func c05HistoryProbes(g *Gen, p *ir.Program, cfg c05Cfg, x *big.Int, named, rd, ra string) {
	if g.notesViolation() {
		return
	}
	// (1) the program allocated before this one still computes what it computed
	if h := &c05Held; h.p != nil {
		n2 := c05DumpNamed(h.p)
		rd2, _ := c05Interp(h.p, h.cfg, h.x, false)
		ra2, _ := c05Interp(h.p, h.cfg, h.x, true)
		if n2 != h.named || rd2 != h.rd || ra2 != h.ra {
			g.Notes = append(g.Notes, fmt.Sprintf("VIOLATION: program %s allocated with (%s,%s,%s) computed %s/%s; after another program was allocated it reads %s and computes %s/%s",
				c05DumpIR(h.p), h.cfg.in, h.cfg.out, h.cfg.prefix, h.rd, h.ra, n2, rd2, ra2))
			return
		}
	}
	c05Held.p = nil
	if named == "err" || named == "panic" || len(p.Instructions) == 0 {
		return
	}
	c05Held.p, c05Held.cfg, c05Held.x, c05Held.named, c05Held.rd, c05Held.ra = p, cfg, x, named, rd, ra
	// (2) clone, extend by a doubling of the result, allocate the clone under other names: the clone
	// must compute twice the value (pass results of the original must not be carried over)
	v, ok := new(big.Int).SetString(rd, 10)
	if !ok || ra != rd || g.N%4 != 0 || !c05WellFormed(p) {
		return
	}
	want := new(big.Int).Lsh(v, 1).String()
	var cl *ir.Program
	other := c05Cfgs[(g.N/4)%len(c05Cfgs)]
	got, gotA, st := "-", "-", "ok"
	if pn := safe(func() {
		cl = p.Clone()
		out := p.Output().Index
		cl.AddInstruction(&ir.Instruction{Output: ir.Index(out + 1), Op: ir.Double{X: ir.Index(out)}})
		a := pass.Allocator{Input: other.in, Output: other.out, Format: other.prefix + "%d"}
		if err := a.Execute(cl); err != nil {
			st = "err"
			return
		}
		got, _ = c05Interp(cl, other, x, false)
		gotA, _ = c05Interp(cl, other, x, true)
	}); pn != "" {
		st = "panic"
	}
	g.Count("clone-extend-allocate")
	if st != "ok" || got != want || gotA != want {
		g.Notes = append(g.Notes, fmt.Sprintf("VIOLATION: clone of %s extended by a doubling and allocated with (%s,%s,%s): %s, computes %s/%s, want %s",
			c05DumpIR(p), other.in, other.out, other.prefix, st, got, gotA, want))
	}
}

func c17Case(g *Gen, p *ir.Program) {
	dump := c05DumpIR(p)
	// identifiers the operands carry beforehand play no role here (and conflicting ones would be
	// refused by CanonicalizeOperands): drop them
	for _, i := range p.Instructions {
		for _, o := range i.Operands() {
			o.Identifier = ""
		}
	}
	a := pass.Allocator{Input: "x", Output: "z", Format: "t%d"}
	var err error
	n := "err"
	var pristine *ir.Program
	safe(func() { pristine = p.Clone() })
	if pn := safe(func() { err = a.Execute(p) }); pn != "" {
		n = "panic"
	} else if err == nil {
		n = strconv.Itoa(len(p.Temporaries))
	}
	g.Line("c17", dump, n)
	if err != nil || n == "panic" || g.notesViolation() {
		return
	}
	// other naming configurations declare the same number of temporaries (the count is a property of the
	// program, not of the names): an empty output name, and long names
	if g.N%4 == 1 && pristine != nil {
		for _, alt := range []pass.Allocator{{Input: "x", Output: "", Format: "t%d"}, {Input: "input_value", Output: "result_value", Format: "temporary_%d"}} {
			m := "err"
			if pn := safe(func() {
				q := pristine.Clone()
				if e := alt.Execute(q); e == nil {
					m = strconv.Itoa(len(q.Temporaries))
				}
			}); pn != "" {
				m = "panic"
			}
			g.Count("other-names")
			if m != n {
				g.Notes = append(g.Notes, fmt.Sprintf("VIOLATION: program %s declares %s temporaries with names (x,z,t%%d) and %s with (%q,%q,%q)", dump, n, m, alt.Input, alt.Output, alt.Format))
				return
			}
		}
	}
	// history (1): the allocated program is cloned and the clone is allocated — the clone declares what
	// it needs, not what the original declared
	if g.N%3 == 0 {
		m := "err"
		if pn := safe(func() {
			q := p.Clone()
			if e := a.Execute(q); e == nil {
				m = strconv.Itoa(len(q.Temporaries))
			}
		}); pn != "" {
			m = "panic"
		}
		g.Count("clone-allocate")
		if m != n {
			g.Notes = append(g.Notes, fmt.Sprintf("VIOLATION: program %s declares %s temporaries; its clone, allocated afterwards, declares %s", dump, n, m))
			return
		}
	}
}

// c17EvalTruncate: history (2) — a program is evaluated (pass.Eval, what acc.LoadString does), cut back to
// its first k instructions and then allocated: the temporaries are those of the k instructions.
func c17EvalTruncate(g *Gen, p *ir.Program) {
	if len(p.Instructions) < 3 {
		return
	}
	if safe(func() { _ = pass.Eval(p) }) != "" {
		return
	}
	k := 1 + g.R.Intn(len(p.Instructions)-1)
	p.Instructions = p.Instructions[:k]
	if !c05WellFormed(p) {
		return
	}
	g.Count("eval-truncate-allocate")
	c17Case(g, p)
}

// emitters: how one generated program becomes case lines.
type c05Emitter func(g *Gen, p *ir.Program, allCfgs bool)

func c05Emit(g *Gen, p *ir.Program, allCfgs bool) {
	if g.N%701 == 0 {
		c05Poison(g)
	}
	x := new(big.Int).SetUint64(g.R.Next() | 1)
	if allCfgs {
		for _, cfg := range c05Cfgs {
			c05Case(g, p.Clone(), cfg, x)
		}
		return
	}
	c05Case(g, p, c05Cfgs[g.R.Intn(len(c05Cfgs))], x)
}

func c17Emit(g *Gen, p *ir.Program, _ bool) {
	if g.N%701 == 0 {
		c05Poison(g)
	}
	var q *ir.Program
	if g.N%5 == 0 {
		q = p.Clone()
	}
	c17Case(g, p)
	if q != nil {
		c17EvalTruncate(g, q)
	}
}

// c05Shared rebuilds p with exactly one operand object per index (shared between the defining
// output and all reads), the shape acc.Translate produces for named values.
func c05Shared(p *ir.Program) *ir.Program {
	objs := map[int]*ir.Operand{}
	get := func(i int) *ir.Operand {
		if o, ok := objs[i]; ok {
			return o
		}
		o := ir.Index(i)
		objs[i] = o
		return o
	}
	q := &ir.Program{}
	for _, i := range p.Instructions {
		inst := &ir.Instruction{}
		switch op := i.Op.(type) {
		case ir.Add:
			inst.Op = ir.Add{X: get(op.X.Index), Y: get(op.Y.Index)}
		case ir.Double:
			inst.Op = ir.Double{X: get(op.X.Index)}
		case ir.Shift:
			inst.Op = ir.Shift{X: get(op.X.Index), S: op.S}
		}
		inst.Output = get(i.Output.Index)
		q.AddInstruction(inst)
	}
	return q
}

// c05Enum enumerates every well-formed program with exactly n instructions over add (ordered
// operand pairs when ordered, else i <= j), double and shift by each of the given amounts;
// operands are 0 or any earlier output, so dead values and repeated operands occur.
func c05Enum(n int, shifts []uint, ordered bool, f func(p *ir.Program)) {
	var insts []*ir.Instruction
	avail := []int{0}
	var rec func(next int)
	rec = func(next int) {
		if len(insts) == n {
			p := &ir.Program{}
			for _, i := range insts {
				p.AddInstruction(i.Clone())
			}
			f(p)
			return
		}
		push := func(out int, op ir.Op) {
			insts = append(insts, &ir.Instruction{Output: ir.Index(out), Op: op})
			avail = append(avail, out)
			rec(out + 1)
			avail = avail[:len(avail)-1]
			insts = insts[:len(insts)-1]
		}
		cur := append([]int{}, avail...)
		for _, i := range cur {
			for _, j := range cur {
				if !ordered && i > j {
					continue
				}
				push(next, ir.Add{X: ir.Index(i), Y: ir.Index(j)})
			}
			push(next, ir.Double{X: ir.Index(i)})
			for _, s := range shifts {
				push(next+int(s)-1, ir.Shift{X: ir.Index(i), S: s})
			}
		}
	}
	rec(1)
}

// c05Targets: a few structured targets for the search algorithms.
func c05Targets(g *Gen, n int) []*big.Int {
	ts := []*big.Int{}
	one := big.NewInt(1)
	for len(ts) < n {
		k := 20 + g.R.Intn(g.pick(100, 240))
		t := new(big.Int).Lsh(one, uint(k))
		switch g.R.Intn(4) {
		case 0:
			t.Sub(t, big.NewInt(int64(1+g.R.Intn(40))))
		case 1:
			t.Sub(t, one)
			t.Sub(t, new(big.Int).Lsh(one, uint(g.R.Intn(k))))
		case 2:
			t = g.R.Bits(k)
			t.SetBit(t, k-1, 1)
		case 3:
			t.Add(t, g.R.Bits(k/2))
		}
		if t.Cmp(big.NewInt(2)) > 0 {
			ts = append(ts, t)
		}
	}
	return ts
}

// c05SearchPrograms decompiles the chains a few ensemble members find for each target.
func c05SearchPrograms(g *Gen, targets []*big.Int, perTarget int, f func(p *ir.Program)) {
	algs := ensemble.Ensemble()
	for _, t := range targets {
		for k := 0; k < perTarget; k++ {
			a := algs[g.R.Intn(len(algs))]
			var c addchain.Chain
			var err error
			if pn := safe(func() { c, err = a.FindChain(t) }); pn != "" || err != nil {
				g.Count("search-failed")
				continue
			}
			prog, err := c.Program()
			if err != nil {
				g.Count("search-failed")
				continue
			}
			p, err := acc.Decompile(prog)
			if err != nil {
				continue
			}
			f(p)
		}
	}
}

// c05RandomLong: random long well-formed programs with adds, doubles and shifts; with
// probability usedBias every instruction reads the previous result (no dead values).
func c05RandomLong(g *Gen, n int, allUsed bool) *ir.Program {
	p := &ir.Program{}
	avail := []int{0}
	next := 1
	for len(p.Instructions) < n {
		pickOp := func() int {
			if g.R.Intn(3) == 0 {
				return avail[g.R.Intn(len(avail))]
			}
			lo := len(avail) - 6
			if lo < 0 {
				lo = 0
			}
			return avail[lo+g.R.Intn(len(avail)-lo)]
		}
		a := pickOp()
		if allUsed {
			a = avail[len(avail)-1]
		}
		var inst *ir.Instruction
		switch g.R.Intn(5) {
		case 0:
			inst = &ir.Instruction{Output: ir.Index(next), Op: ir.Double{X: ir.Index(a)}}
			next++
		case 1:
			s := uint(2 + g.R.Intn(6))
			if g.R.Intn(10) == 0 {
				s = 64
			}
			inst = &ir.Instruction{Output: ir.Index(next + int(s) - 1), Op: ir.Shift{X: ir.Index(a), S: s}}
			next += int(s)
		default:
			b := pickOp()
			if g.R.Bool() {
				a, b = b, a
			}
			inst = &ir.Instruction{Output: ir.Index(next), Op: ir.Add{X: ir.Index(a), Y: ir.Index(b)}}
			next++
		}
		p.AddInstruction(inst)
		avail = append(avail, inst.Output.Index)
	}
	return p
}

// c05ScriptPrograms: IR translated from random scripts (no index operands past the end), kept
// when inside the model domain.
func c05ScriptPrograms(g *Gen, n int, f func(p *ir.Program)) {
	for i := 0; i < n; i++ {
		text := c06RandScript(g.R, 1+g.R.Intn(8), g.R.Intn(8) == 0)
		ch, err := parse.String(text)
		if err != nil {
			g.Count("script-parse-error")
			continue
		}
		p, err := acc.Translate(ch)
		if err != nil {
			g.Count("script-translate-error")
			continue
		}
		if !c05InDomain(p) {
			g.Count("script-outside-domain")
			continue
		}
		// a well-formed program translated from a script must be allocatable as it stands (with the
		// names the script gave it): a refusal here is a failure of the property, not of the input.
		// Scripts that give an element a second name through a bare index operand (`c = [1]` where
		// element 1 is already called `acc`) are excluded: the allocator refuses two names for one
		// element by design ("identifier conflict", TestCanonicalizeOperandsIdentifierConflict).
		indexAlias := false
		for _, st := range ch.Statements {
			if _, bare := st.Expr.(ast.Operand); bare && st.Name != "" {
				indexAlias = true
			}
		}
		if q, err2 := acc.Translate(ch); !indexAlias && err2 == nil && len(q.Instructions) > 0 && c05WellFormed(q) {
			var aerr error
			a := pass.Allocator{Input: "x", Output: "z", Format: "t%d"}
			pn := safe(func() { aerr = a.Execute(q) })
			if (pn != "" || aerr != nil) && !g.notesViolation() {
				g.Notes = append(g.Notes, fmt.Sprintf("VIOLATION: temporary allocation refuses the well-formed program translated from the script %s: %v %s", encHex(text), aerr, pn))
			}
			g.Count("script-allocatable")
		}
		f(p)
	}
}

// c05OpListPrograms: programs decompiled from random op lists whose additions name their operands
// in either order and that re-read elements inside doubling runs.
func c05OpListPrograms(g *Gen, n int, f func(p *ir.Program)) {
	for i := 0; i < n; i++ {
		m := 2 + g.R.Intn(9)
		prog := addchain.Program{}
		for len(prog) < m {
			L := len(prog)
			a, b := g.R.Intn(L+1), g.R.Intn(L+1)
			switch g.R.Intn(4) {
			case 0:
				b = a // doubling (runs of these become shifts)
			case 1:
				a = L // the newest element
			}
			prog = append(prog, addchain.Op{I: a, J: b})
		}
		var p *ir.Program
		var err error
		if pn := safe(func() { p, err = acc.Decompile(prog) }); pn != "" || err != nil {
			if !g.notesViolation() {
				g.Notes = append(g.Notes, fmt.Sprintf("VIOLATION: Decompile fails on the valid op list %v: %v %s", prog, err, pn))
			}
			continue
		}
		if !c05WellFormed(p) {
			if !g.notesViolation() {
				g.Notes = append(g.Notes, fmt.Sprintf("VIOLATION: the program decompiled from the valid op list %v is not well-formed (an instruction reads a value no instruction produces): %s", prog, c05DumpIR(p)))
			}
			continue
		}
		f(p)
	}
}

// c05Wide builds a program in which about w values are alive at once: `phases` rounds, each producing w
// values from the running value and then folding them into one (the shape of pass.TestAllocator, scaled
// past a machine word of simultaneously live values).
func c05Wide(w, phases int) *ir.Program {
	p := &ir.Program{}
	next := 1
	cur := 0
	for ph := 0; ph < phases; ph++ {
		vals := []int{}
		prev := cur
		for i := 0; i < w; i++ {
			p.AddInstruction(&ir.Instruction{Output: ir.Index(next), Op: ir.Add{X: ir.Index(prev), Y: ir.Index(cur)}})
			prev = next
			vals = append(vals, next)
			next++
		}
		acc := vals[0]
		for _, v := range vals[1:] {
			p.AddInstruction(&ir.Instruction{Output: ir.Index(next), Op: ir.Add{X: ir.Index(acc), Y: ir.Index(v)}})
			acc = next
			next++
		}
		cur = acc
	}
	return p
}

func genC05(g *Gen, emit c05Emitter) {
	// the empty program (Allocator.Execute refuses it)
	emit(g, &ir.Program{}, true)
	// exhaustive small programs, with cloned and with shared operand objects
	maxLen := g.pick(4, 5)
	for n := 1; n <= maxLen; n++ {
		c05Enum(n, []uint{2}, true, func(p *ir.Program) {
			emit(g, p, n <= 4)
			emit(g, c05Shared(p), false)
			g.Count(fmt.Sprintf("enum-len%d", n))
		})
	}
	// one length more, additions with i <= j only: a deterministic sample
	k := 0
	every := g.pick(4, 3)
	c05Enum(maxLen+1, []uint{2}, false, func(p *ir.Program) {
		k++
		if k%every == 0 {
			emit(g, p, false)
			g.Count(fmt.Sprintf("enum-len%d-sample", maxLen+1))
		}
	})
	if g.Thorough {
		// other shift amounts at length <= 4
		for n := 1; n <= 4; n++ {
			c05Enum(n, []uint{1, 3, 64}, false, func(p *ir.Program) {
				emit(g, p, false)
				g.Count("enum-shifts")
			})
		}
	}
	// dangling reads (an index inside a shift): correspondence only, the property does not apply
	for i := 0; i < g.pick(300, 3000); i++ {
		p := c05RandomLong(g, 2+g.R.Intn(8), false)
		for tries := 0; tries < 4; tries++ {
			inst := p.Instructions[g.R.Intn(len(p.Instructions))]
			d := ir.Index(1 + g.R.Intn(p.Output().Index+2))
			switch op := inst.Op.(type) {
			case ir.Add:
				inst.Op = ir.Add{X: op.X, Y: d}
			case ir.Double:
				inst.Op = ir.Double{X: d}
			case ir.Shift:
				inst.Op = ir.Shift{X: d, S: op.S}
			}
			if g.R.Bool() {
				break
			}
		}
		if c05InDomain(p) {
			emit(g, p, false)
			g.Count("dangling-or-wf")
		}
	}
	// wide programs: more simultaneously live values than bits in a machine word
	for _, w := range []int{3, 31, 32, 33, 62, 63, 64, 65, 66, 70, 100, 129, 140} {
		emit(g, c05Wide(w, 1), false)
		if w >= 60 && w <= 70 {
			emit(g, c05Wide(w, 3), false)
		}
		g.Count("wide")
	}
	// decompiled search results
	c05SearchPrograms(g, c05Targets(g, g.pick(25, 150)), g.pick(4, 8), func(p *ir.Program) {
		emit(g, p, false)
		if g.R.Intn(3) == 0 {
			emit(g, c05Shared(p), false)
		}
		g.Count("search")
	})
	// decompiled random op lists (operands in either order)
	c05OpListPrograms(g, g.pick(1500, 15000), func(p *ir.Program) {
		emit(g, p, false)
		g.Count("oplist")
	})
	// translated random scripts
	c05ScriptPrograms(g, g.pick(1500, 15000), func(p *ir.Program) {
		emit(g, p, false)
		g.Count("script")
	})
	// random long programs
	for i := 0; i < g.pick(600, 6000); i++ {
		p := c05RandomLong(g, 5+g.R.Intn(g.pick(40, 120)), g.R.Intn(3) != 0)
		if g.R.Intn(4) == 0 {
			p = c05Shared(p)
		}
		emit(g, p, false)
		g.Count("random-long")
	}
}
