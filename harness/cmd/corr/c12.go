package main

// C12: trace validation of exec.Parallel.Execute.
//
// One case = one real call of exec.Parallel.Execute with k instrumented algorithms and limit L.
// Every instrumented algorithm records `r<i>` on entry of FindChain, blocks on its own gate until
// the controller opens it, records `f<i>` and returns a fixed result. The logger handed to
// SetLogger records `s<i>` / `d<i>` for the lines "start: a<i>" / "done: a<i>". `ret` is recorded
// when Execute returns. All events go to one mutex-protected log with a condition variable; the
// controller only ever waits on that condition variable (no sleeps, no polling), so the sequence
// of gate openings is a deterministic function of (k, L, perm):
//
//   repeat until all k gates are open:
//     target := first algorithm of perm whose gate is still closed
//     wait until  entered(target)  or  #blocked >= min(L, #closed gates)      (saturation)
//     open the gate of target if entered(target), otherwise of the blocked algorithm that comes
//       earliest in perm (target cannot start before somebody finishes: all L tokens are taken)
//     wait until that algorithm recorded `f`
//   wait for `ret`
//
// A watchdog sets a flag after the budget (5 s, then one retry with 30 s); the outcome is then
// reported as `timeout`, never a hang of the harness.

import (
	"context"
	"errors"
	"fmt"
	"io"
	"log"
	"math/big"
	"os"
	"os/exec"
	"path/filepath"
	"runtime"
	"strconv"
	"strings"
	"sync"
	"sync/atomic"
	"syscall"
	"time"

	"github.com/mmcloughlin/addchain"
	"github.com/mmcloughlin/addchain/alg"
	"github.com/mmcloughlin/addchain/alg/binary"
	"github.com/mmcloughlin/addchain/alg/contfrac"
	"github.com/mmcloughlin/addchain/alg/dict"
	acexec "github.com/mmcloughlin/addchain/alg/exec"
)

func init() {
	props["C12"] = genC12
	replays["C12"] = func(g *Gen, f []string) {
		// c12 k L perm trace req tun maxrun outcome n kinds
		if len(f) < 11 {
			return
		}
		k, _ := strconv.Atoi(f[1])
		L, _ := strconv.Atoi(f[2])
		perm := c12DecInts(f[3])
		n, ok := new(big.Int).SetString(f[9], 10)
		if !ok || len(perm) != k {
			return
		}
		kinds := c12DecInts(f[10])
		if len(kinds) != k {
			kinds = make([]int, k)
		}
		c12Case(g, k, L, perm, n, kinds)
	}
}

func c12DecInts(s string) []int {
	if s == "-" || s == "" {
		return []int{}
	}
	parts := strings.Split(s, ",")
	r := make([]int, 0, len(parts))
	for _, p := range parts {
		x, _ := strconv.Atoi(p)
		r = append(r, x)
	}
	return r
}

// c12Log is the shared event log.
type c12Log struct {
	mu       sync.Mutex
	cond     *sync.Cond
	ev       []string
	entered  []bool
	finished []bool
	retDone  bool
	timedOut bool
	panicked string
	unknown  int
	rs       []acexec.Result
	yield    bool
}

func newC12Log(k int, yield bool) *c12Log {
	l := &c12Log{entered: make([]bool, k), finished: make([]bool, k), yield: yield}
	l.cond = sync.NewCond(&l.mu)
	return l
}

func (l *c12Log) record(kind byte, i int) {
	l.mu.Lock()
	l.ev = append(l.ev, fmt.Sprintf("%c%d", kind, i))
	if i >= 0 && i < len(l.entered) {
		switch kind {
		case 'r':
			l.entered[i] = true
		case 'f':
			l.finished[i] = true
		}
	}
	l.cond.Broadcast()
	l.mu.Unlock()
}

// c12Alg is an instrumented algorithm.
type c12Alg struct {
	i     int
	log   *c12Log // nil: not instrumented (sequential reference run)
	gate  chan struct{}
	want  *big.Int
	chain addchain.Chain
	err   error
}

func (a *c12Alg) String() string { return fmt.Sprintf("a%d", a.i) }

func (a *c12Alg) FindChain(n *big.Int) (addchain.Chain, error) {
	if l := a.log; l != nil {
		l.record('r', a.i)
		if l.yield {
			runtime.Gosched()
		}
		<-a.gate
		l.record('f', a.i)
		if l.yield {
			runtime.Gosched()
		}
	}
	if n.Cmp(a.want) != 0 {
		return nil, fmt.Errorf("a%d: called with target %v, want %v", a.i, n, a.want)
	}
	if a.err != nil {
		return nil, a.err
	}
	return a.chain.Clone(), nil
}

// c12Writer receives the logger output; log.Logger issues one Write per Printf, serialised.
type c12Writer struct{ log *c12Log }

// c12InWrite counts goroutines currently inside the logger's writer; c12Overlap records that two were
// there at once (log.Logger serialises the writes of ONE logger: the executor must not call the
// caller's writer from several goroutines at a time — it need not be safe for that).
var c12InWrite, c12Overlap int32

func (w c12Writer) Write(p []byte) (int, error) {
	l := w.log
	if atomic.AddInt32(&c12InWrite, 1) > 1 {
		atomic.StoreInt32(&c12Overlap, 1)
	}
	defer atomic.AddInt32(&c12InWrite, -1)
	runtime.Gosched()
	if l.yield {
		runtime.Gosched()
	}
	line := strings.TrimRight(string(p), "\n")
	kind, rest := byte(0), ""
	switch {
	case strings.HasPrefix(line, "start: a"):
		kind, rest = 's', line[len("start: a"):]
	case strings.HasPrefix(line, "done: a"):
		kind, rest = 'd', line[len("done: a"):]
	}
	if i, err := strconv.Atoi(rest); kind != 0 && err == nil {
		l.record(kind, i)
	} else {
		l.mu.Lock()
		l.unknown++
		l.mu.Unlock()
	}
	if l.yield {
		runtime.Gosched()
	}
	return len(p), nil
}

// c12Chain builds the result of algorithm i for target n. kind 0: a valid chain for n that differs
// per algorithm (binary chain of n-i, then i steps of +1); 1: FindChain fails; 2: valid chain with
// the wrong end (n+1); 3: not an addition chain.
func c12Chain(n *big.Int, i, kind int) (addchain.Chain, error) {
	base := new(big.Int).Sub(n, big.NewInt(int64(i)))
	c, err := binary.RightToLeft{}.FindChain(base)
	if err != nil {
		return nil, err
	}
	one := big.NewInt(1)
	for j := 0; j < i; j++ {
		c = append(c, new(big.Int).Add(c[len(c)-1], one))
	}
	switch kind {
	case 1:
		return nil, fmt.Errorf("a%d: no chain", i)
	case 2:
		c = append(c, new(big.Int).Add(c[len(c)-1], one))
	case 3:
		c = append(c, new(big.Int).Add(new(big.Int).Lsh(c[len(c)-1], 2), one))
	}
	return c, nil
}

func c12ResultEqual(a, b acexec.Result) bool {
	if a.Algorithm != b.Algorithm {
		return false
	}
	if a.Algorithm != nil && a.Algorithm.String() != b.Algorithm.String() {
		return false
	}
	if (a.Target == nil) != (b.Target == nil) || (a.Target != nil && a.Target.Cmp(b.Target) != 0) {
		return false
	}
	if (a.Err == nil) != (b.Err == nil) || (a.Err != nil && a.Err.Error() != b.Err.Error()) {
		return false
	}
	if (a.Chain == nil) != (b.Chain == nil) || !equalInts(a.Chain, b.Chain) {
		return false
	}
	if (a.Program == nil) != (b.Program == nil) || len(a.Program) != len(b.Program) {
		return false
	}
	for i := range a.Program {
		if a.Program[i] != b.Program[i] {
			return false
		}
	}
	return true
}

type c12Outcome struct {
	trace   []string
	outcome string // ok | timeout | panic
	resEq   bool
	tgtSame bool
	maxRun  int
	opened  []int // order in which the controller opened the gates
	unknown int
}

// c12Run performs one Execute call under the controller.
func c12Run(k, L int, perm []int, n *big.Int, kinds []int, budget time.Duration, yield bool) c12Outcome {
	out := c12Outcome{}
	as := make([]alg.ChainAlgorithm, k)
	mine := make([]*c12Alg, k)
	for i := 0; i < k; i++ {
		a := &c12Alg{i: i, gate: make(chan struct{}), want: new(big.Int).Set(n)}
		a.chain, a.err = c12Chain(n, i, kinds[i])
		mine[i] = a
		as[i] = a
	}
	// sequential reference: each algorithm alone, not instrumented
	seq := make([]acexec.Result, k)
	for i := range as {
		seq[i] = acexec.Execute(n, as[i])
	}

	l := newC12Log(k, yield)
	for _, a := range mine {
		a.log = l
	}
	before := new(big.Int).Set(n)
	p := c12SharedExec
	if p == nil {
		p = acexec.NewParallel()
	}
	p.SetConcurrency(L)
	p.SetLogger(log.New(c12Writer{l}, "", 0))
	midSet := c12MidSet

	go func() {
		var rs []acexec.Result
		msg := safe(func() { rs = p.Execute(n, as) })
		l.mu.Lock()
		l.rs = rs
		l.panicked = msg
		if msg == "" {
			l.ev = append(l.ev, "ret")
		}
		l.retDone = true
		l.cond.Broadcast()
		l.mu.Unlock()
	}()
	watchdog := time.AfterFunc(budget, func() {
		l.mu.Lock()
		l.timedOut = true
		l.cond.Broadcast()
		l.mu.Unlock()
	})

	// controller
	l.mu.Lock()
	open := make([]bool, k)
	nOpen := 0
	stop := func() bool { return l.timedOut || l.retDone }
	for nOpen < k && !stop() {
		next := 0
		for open[perm[next]] {
			next++
		}
		target := perm[next]
		blocked := 0
		for i := 0; i < k; i++ {
			if l.entered[i] && !open[i] {
				blocked++
			}
		}
		sat := L
		if k-nOpen < sat {
			sat = k - nOpen
		}
		pick := -1
		if l.entered[target] {
			pick = target
		} else if blocked >= sat && blocked > 0 {
			for _, i := range perm {
				if l.entered[i] && !open[i] {
					pick = i
					break
				}
			}
		}
		if pick < 0 {
			l.cond.Wait()
			continue
		}
		open[pick] = true
		nOpen++
		out.opened = append(out.opened, pick)
		if midSet > 0 && nOpen == 1 {
			// the limit of the executor object is changed while the call is in flight (an algorithm
			// has entered FindChain, so Execute has started): the call keeps the limit it began with
			p.SetConcurrency(midSet)
		}
		close(mine[pick].gate)
		for !l.finished[pick] && !stop() {
			l.cond.Wait()
		}
	}
	for !stop() {
		l.cond.Wait()
	}
	timedOut := !l.retDone
	l.mu.Unlock()
	watchdog.Stop()

	if timedOut {
		// let whatever is still blocked drain, give Execute a moment to come back
		for i := 0; i < k; i++ {
			if !open[i] {
				open[i] = true
				close(mine[i].gate)
			}
		}
		drain := time.AfterFunc(2*time.Second, func() {
			l.mu.Lock()
			l.timedOut = true
			l.cond.Broadcast()
			l.mu.Unlock()
		})
		l.mu.Lock()
		l.timedOut = false
		for !stop() {
			l.cond.Wait()
		}
		l.mu.Unlock()
		drain.Stop()
	}

	l.mu.Lock()
	out.trace = append([]string(nil), l.ev...)
	rs := l.rs
	panicked := l.panicked
	out.unknown = l.unknown
	retDone := l.retDone
	l.mu.Unlock()

	switch {
	case timedOut:
		out.outcome = "timeout"
	case panicked != "":
		out.outcome = "panic"
	default:
		out.outcome = "ok"
	}
	out.resEq = retDone && panicked == "" && len(rs) == k
	if out.resEq {
		for i := range rs {
			if !c12ResultEqual(rs[i], seq[i]) || rs[i].Algorithm != as[i] || rs[i].Target != n {
				out.resEq = false
			}
		}
	}
	out.tgtSame = before.Cmp(n) == 0
	running := 0
	for _, e := range out.trace {
		switch e[0] {
		case 'r':
			if e != "ret" {
				running++
				if running > out.maxRun {
					out.maxRun = running
				}
			}
		case 'f':
			running--
		}
	}
	return out
}

// c12SharedExec, when set, is the one executor object used for every run (limits change between calls);
// c12MidSet, when positive, is a limit set on the executor while a call is in flight.
var (
	c12SharedExec *acexec.Parallel
	c12MidSet     int
)

var c12CaseNo int

// c12Timeouts counts cases that did not return even with the 30 s budget. After three of them the
// generator stops (each costs ~40 s; the failures are already on record as spec failures).
var c12Timeouts int

func c12Case(g *Gen, k, L int, perm []int, n *big.Int, kinds []int) {
	if c12Timeouts >= 3 {
		if c12Timeouts == 3 {
			c12Timeouts++
			g.Notes = append(g.Notes, "c12: generation stopped after 3 cases that did not return within 30s")
		}
		g.Count("skipped-after-timeouts")
		return
	}
	c12CaseNo++
	yield := c12CaseNo%2 == 0
	procs := []int{1, 2, runtime.NumCPU()}[c12CaseNo%3]
	old := runtime.GOMAXPROCS(procs)
	defer runtime.GOMAXPROCS(old)

	o := c12Run(k, L, perm, n, kinds, 5*time.Second, yield)
	if o.outcome == "timeout" {
		g.Count("timeout-5s-retried")
		g.Notes = append(g.Notes, fmt.Sprintf("c12 k=%d L=%d perm=%s: no return within 5s, re-run with 30s", k, L, encIntSlice(perm)))
		o = c12Run(k, L, perm, n, kinds, 30*time.Second, yield)
		if o.outcome == "timeout" {
			c12Timeouts++
		}
	}
	if atomic.LoadInt32(&c12Overlap) != 0 && !g.notesViolation() {
		g.Notes = append(g.Notes, fmt.Sprintf("VIOLATION: the logger's writer was entered by two goroutines at once (k=%d L=%d): executions share the caller's writer without serialising it", k, L))
	}
	g.Line("c12", fmt.Sprint(k), fmt.Sprint(L), encIntSlice(perm), strings.Join(o.trace, ","),
		b01(o.resEq), b01(o.tgtSame), fmt.Sprint(o.maxRun), o.outcome, n.String(), encIntSlice(kinds))
	g.Count("outcome=" + o.outcome)
	g.Count(fmt.Sprintf("k=%d", k))
	g.Count(fmt.Sprintf("procs=%d", procs))
	if o.unknown > 0 {
		g.Count("unknown-log-lines")
	}
	same := len(o.opened) == len(perm)
	for i := range o.opened {
		if same && o.opened[i] != perm[i] {
			same = false
		}
	}
	g.Count("completion-order-is-perm=" + b01(same))
	for _, kd := range kinds {
		if kd != 0 {
			g.Count(fmt.Sprintf("errkind=%d", kd))
		}
	}
}

// c12Named is an un-instrumented algorithm whose name may coincide with another's: the executor must
// treat list positions, not names, as identities.
type c12Named struct {
	name  string
	chain addchain.Chain
	err   error
}

func (a *c12Named) String() string { return a.name }

func (a *c12Named) FindChain(n *big.Int) (addchain.Chain, error) {
	if a.err != nil {
		return nil, a.err
	}
	return a.chain.Clone(), nil
}

// c12Names runs k algorithms with the given (colliding) names and distinct results under limit L and
// compares slot by slot with executing each alone:
//
//	c12n <k> <L> <names, comma separated> <results-equal> <ok|panic|timeout>
func c12Names(g *Gen, k, L int, names []string, kinds []int) {
	n := c12Target(g)
	as := make([]alg.ChainAlgorithm, k)
	for i := 0; i < k; i++ {
		a := &c12Named{name: names[i]}
		a.chain, a.err = c12Chain(n, i, kinds[i])
		as[i] = a
	}
	seq := make([]acexec.Result, k)
	for i := range as {
		seq[i] = acexec.Execute(n, as[i])
	}
	p := acexec.NewParallel()
	p.SetConcurrency(L)
	p.SetLogger(log.New(io.Discard, "", 0))
	done := make(chan string, 1)
	var rs []acexec.Result
	go func() { done <- safe(func() { rs = p.Execute(n, as) }) }()
	outcome, eq := "ok", false
	select {
	case msg := <-done:
		if msg != "" {
			outcome = "panic"
		}
	case <-time.After(20 * time.Second):
		outcome = "timeout"
	}
	if outcome == "ok" && len(rs) == k {
		eq = true
		for i := range rs {
			if !c12ResultEqual(rs[i], seq[i]) || rs[i].Algorithm != as[i] {
				eq = false
			}
		}
	}
	g.Line("c12n", fmt.Sprint(k), fmt.Sprint(L), strings.Join(names, ","), b01(eq), outcome)
	g.Count("names")
}

func c12Target(g *Gen) *big.Int {
	bits := 8 + g.R.Intn(57)
	n := g.R.Bits(bits)
	n.SetBit(n, bits, 1)
	return n
}

func c12Kinds(g *Gen, k int) []int {
	kinds := make([]int, k)
	if g.R.Intn(3) == 0 {
		for i := range kinds {
			if g.R.Intn(3) == 0 {
				kinds[i] = 1 + g.R.Intn(3)
			}
		}
	}
	return kinds
}

func c12Perms(k int, f func(p []int)) {
	p := make([]int, k)
	for i := range p {
		p[i] = i
	}
	var rec func(i int)
	rec = func(i int) {
		if i == k {
			f(append([]int(nil), p...))
			return
		}
		for j := i; j < k; j++ {
			p[i], p[j] = p[j], p[i]
			rec(i + 1)
			p[i], p[j] = p[j], p[i]
		}
	}
	rec(0)
}

func c12RandPerm(g *Gen, k int) []int {
	p := make([]int, k)
	for i := range p {
		p[i] = i
	}
	for i := k - 1; i > 0; i-- {
		j := g.R.Intn(i + 1)
		p[i], p[j] = p[j], p[i]
	}
	return p
}

func genC12(g *Gen) {
	c12Case(g, 0, 1, []int{}, c12Target(g), []int{})
	c12Case(g, 0, 2, []int{}, c12Target(g), []int{})
	for k := 1; k <= g.pick(5, 6); k++ {
		c12Perms(k, func(p []int) {
			for L := 1; L <= k+2; L++ {
				c12Case(g, k, L, p, c12Target(g), c12Kinds(g, k))
			}
		})
	}
	lo, hi, cnt := g.pick(6, 7), g.pick(7, 9), g.pick(100, 300)
	for k := lo; k <= hi; k++ {
		for t := 0; t < cnt; t++ {
			p := c12RandPerm(g, k)
			for L := 1; L <= k+2; L++ {
				c12Case(g, k, L, p, c12Target(g), c12Kinds(g, k))
			}
		}
	}
	// one executor object reused across calls, the limit raised and lowered in between: every call obeys
	// the limit set before it
	c12SharedExec = acexec.NewParallel()
	for _, L := range []int{4, 1, 3, 1, 2, 5, 2, 1, 6, 1} {
		k := 4
		c12Case(g, k, L, c12RandPerm(g, k), c12Target(g), make([]int, k))
		g.Count("shared-executor")
	}
	c12SharedExec = nil
	// the limit changed while a call is in flight
	for _, pr := range [][2]int{{3, 1}, {1, 3}, {2, 4}, {4, 2}, {1, 1}, {2, 5}} {
		c12MidSet = pr[1]
		k := 3
		c12Case(g, k, pr[0], c12RandPerm(g, k), c12Target(g), make([]int, k))
		g.Count("limit-changed-mid-call")
	}
	c12MidSet = 0
	// colliding names, limits on both sides of k and well above it (a limit larger than the list is the
	// CLI default on machines with many cores)
	for k := 1; k <= g.pick(6, 9); k++ {
		for _, L := range []int{1, 2, 3, k, k + 1, 16, 24, 32, 64, 200} {
			for pat := 0; pat < 3; pat++ {
				names := make([]string, k)
				for i := range names {
					switch pat {
					case 0:
						names[i] = "same"
					case 1:
						names[i] = fmt.Sprintf("n%d", i%2)
					default:
						names[i] = fmt.Sprintf("n%d", i/2)
					}
				}
				c12Names(g, k, L, names, c12Kinds(g, k))
			}
		}
	}
	c12SharedSeq(g)
	if g.Thorough {
		c12Race(g)
	}
}

// c12SharedSeq: real dictionary algorithms built the way the ensemble builds them -- ONE sequence
// algorithm value handed to every dictionary algorithm -- with continued-fraction strategies that
// propose several k (dyadic, fermat; the dictionary entries have at most 9 bits), executed in parallel.
// The results must equal those of executing each algorithm alone with a sequence algorithm of its
// own. State shared through the sequence algorithm shows as a difference or as a fatal error of the Go
// runtime (concurrent map access), which the pending-case record turns into a replay.
func c12SharedSeq(g *Gen) {
	targets := []*big.Int{new(big.Int).Sub(new(big.Int).Lsh(big.NewInt(1), 255), big.NewInt(21)), g.R.Bits(192), g.R.Bits(160)}
	build := func(seq func() alg.SequenceAlgorithm) []alg.ChainAlgorithm {
		as := []alg.ChainAlgorithm{}
		for k := uint(2); k <= 9; k++ {
			as = append(as, dict.NewAlgorithm(dict.SlidingWindow{K: k}, seq()))
			as = append(as, dict.NewAlgorithm(dict.FixedWindow{K: k}, seq()))
			as = append(as, dict.NewAlgorithm(dict.Hybrid{K: k, T: 16}, seq()))
		}
		return as
	}
	for _, st := range []contfrac.Strategy{contfrac.DyadicStrategy{}, contfrac.FermatStrategy{}} {
		for _, n := range targets {
			if n.Sign() <= 0 {
				continue
			}
			// reference: every algorithm executed alone with a sequence algorithm of its own
			alone := build(func() alg.SequenceAlgorithm { return contfrac.NewAlgorithm(st) })
			want := make([]acexec.Result, len(alone))
			for i, a := range alone {
				i, a := i, a
				safe(func() { want[i].Chain, want[i].Err = a.FindChain(n) })
			}
			// parallel runs, each over a freshly built list around ONE sequence algorithm (cold state)
			for round := 0; round < g.pick(30, 120); round++ {
				g.Pending("c12sharedseq", st.String(), n.String(), strconv.Itoa(round))
				shared := contfrac.NewAlgorithm(st)
				par := build(func() alg.SequenceAlgorithm { return shared })
				var rs []acexec.Result
				pn := ""
				done := make(chan struct{})
				go func() {
					defer close(done)
					pn = safe(func() {
						ex := acexec.NewParallel()
						ex.SetConcurrency(16)
						rs = ex.Execute(n, par)
					})
				}()
				timedOut := false
				select {
				case <-done:
				case <-time.After(60 * time.Second):
					timedOut = true
				}
				g.Count("shared-sequence-algorithm")
				g.Returned()
				msg := ""
				if timedOut {
					// an executor that never returns is judged by the schedule cases above; stop this probe
					if !g.notesViolation() {
						g.Notes = append(g.Notes, fmt.Sprintf("VIOLATION: %s dictionary algorithms sharing one sequence algorithm, n=%v: Execute does not return within 60 s", st, n))
					}
					return
				}
				if pn != "" {
					msg = "Execute panics: " + pn
				} else if len(rs) != len(par) {
					msg = fmt.Sprintf("%d results for %d algorithms", len(rs), len(par))
				} else {
					for i := range par {
						same := (want[i].Err == nil) == (rs[i].Err == nil) && len(want[i].Chain) == len(rs[i].Chain)
						for j := 0; same && j < len(want[i].Chain); j++ {
							same = want[i].Chain[j].Cmp(rs[i].Chain[j]) == 0
						}
						if !same {
							msg = fmt.Sprintf("result %d (%v) differs from the algorithm executed alone", i, par[i])
							break
						}
					}
				}
				if msg != "" && !g.notesViolation() {
					g.Notes = append(g.Notes, fmt.Sprintf("VIOLATION: %s dictionary algorithms sharing one sequence algorithm, n=%v, round %d: %s", st, n, round, msg))
				}
			}
		}
	}
}

// c12Race builds cmd/race12 with the race detector and runs the real ensemble through
// exec.Parallel (supporting evidence only). A race report or a result mismatch becomes a
// VIOLATION note; an environment that cannot build with -race becomes a plain note.
func c12Race(g *Gen) {
	verif := os.Getenv("VERIF_DIR")
	if verif == "" {
		verif = "/verif"
	}
	harn := filepath.Join(verif, "harness")
	bin := filepath.Join(verif, "work", "race12.bin")
	env := []string{}
	for _, e := range os.Environ() {
		if strings.HasPrefix(e, "CGO_ENABLED=") || strings.HasPrefix(e, "GOMAXPROCS=") || strings.HasPrefix(e, "GORACE=") {
			continue
		}
		env = append(env, e)
	}
	{
		// same lock as ./check uses around its own go builds
		lf, err := os.OpenFile(filepath.Join(verif, "work", "go.lock"), os.O_CREATE|os.O_RDWR, 0o644)
		if err == nil {
			_ = syscall.Flock(int(lf.Fd()), syscall.LOCK_EX)
			defer lf.Close()
		}
		ctx, cancel := context.WithTimeout(context.Background(), 10*time.Minute)
		cmd := exec.CommandContext(ctx, "go", "build", "-race", "-tags", "verif", "-o", bin, "./cmd/race12")
		cmd.Dir = harn
		cmd.Env = append(append([]string{}, env...), "CGO_ENABLED=1")
		b, err := cmd.CombinedOutput()
		cancel()
		if lf != nil {
			_ = syscall.Flock(int(lf.Fd()), syscall.LOCK_UN)
		}
		if err != nil {
			g.Count("race12-build-failed")
			g.Notes = append(g.Notes, "race12 skipped: go build -race failed: "+c12Tail(string(b), 400))
			return
		}
	}
	for _, procs := range []int{1, 4} {
		ctx, cancel := context.WithTimeout(context.Background(), 15*time.Minute)
		cmd := exec.CommandContext(ctx, bin, fmt.Sprint(g.R.Next()))
		cmd.Env = append(append([]string{}, env...), fmt.Sprintf("GOMAXPROCS=%d", procs), "GORACE=halt_on_error=1")
		t0 := time.Now()
		b, err := cmd.CombinedOutput()
		cancel()
		outs := string(b)
		tag := fmt.Sprintf("race12 GOMAXPROCS=%d", procs)
		switch {
		case err == nil:
			g.Stats[fmt.Sprintf("race12-procs%d-parallel-runs-ok", procs)] = strings.Count(outs, "\nok ") + c12B2i(strings.HasPrefix(outs, "ok "))
			g.Notes = append(g.Notes, fmt.Sprintf("%s: no race, results equal sequential (%.0fs): %s", tag, time.Since(t0).Seconds(), c12Tail(outs, 200)))
		case strings.Contains(outs, "DATA RACE"):
			g.Count("race12-race")
			g.Notes = append(g.Notes, "VIOLATION: "+tag+": data race reported: "+c12Tail(outs, 1500))
		case strings.Contains(outs, "MISMATCH"):
			g.Count("race12-mismatch")
			g.Notes = append(g.Notes, "VIOLATION: "+tag+": parallel results differ from sequential: "+c12Tail(outs, 800))
		case errors.Is(ctx.Err(), context.DeadlineExceeded):
			g.Count("race12-timeout")
			g.Notes = append(g.Notes, tag+": did not finish within 15 min (no verdict)")
		default:
			g.Count("race12-failed")
			g.Notes = append(g.Notes, "VIOLATION: "+tag+": failed ("+err.Error()+"): "+c12Tail(outs, 800))
		}
	}
}

func c12B2i(b bool) int {
	if b {
		return 1
	}
	return 0
}

func c12Tail(s string, n int) string {
	s = strings.TrimSpace(s)
	if len(s) > n {
		s = s[len(s)-n:]
	}
	return strings.ReplaceAll(s, "\n", " | ")
}
