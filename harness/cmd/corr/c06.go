package main

// C06: output generation (internal/gen) for the four builtin templates.
//
// c06 <script hex> <ir|err> <names before allocation|-> <template> <impl output hex|err|panic> <chain> <ops> <reload>
//
// ir: acc.Translate of the parsed script, before any pass (dump format of c05).
// chain / ops: what acc.LoadString computes for the script (the evaluated chain, the unrolled
// program). reload: for the `script` template the chain acc.LoadString computes for the
// generated output ("err" if it does not load); "-" for the other templates.

import (
	"bytes"
	"encoding/hex"
	"fmt"
	"io"
	"math/big"
	"os"
	"strings"
	"time"

	"github.com/mmcloughlin/addchain"
	"github.com/mmcloughlin/addchain/acc"
	"github.com/mmcloughlin/addchain/acc/ast"
	"github.com/mmcloughlin/addchain/acc/ir"
	"github.com/mmcloughlin/addchain/acc/parse"
	"github.com/mmcloughlin/addchain/acc/pass"
	"github.com/mmcloughlin/addchain/verifhooks"
)

func init() {
	props["C06"] = genC06
	replays["C06"] = func(g *Gen, f []string) {
		if len(f) < 2 {
			return
		}
		text := ""
		if f[1] != "-" {
			b, err := hex.DecodeString(f[1])
			if err != nil {
				return
			}
			text = string(b)
		}
		c06Case(g, text)
	}
}

var c06Names = []string{"a", "b", "c", "d", "e", "x", "z", "t0", "t1", "t2", "_q", "v10", "acc", "k_2", "w"}

// c06script generates script text while tracking the chain length (the index the next
// instruction will output), so that index operands can be aimed: at defined values, into the
// middle of a shift, or past the end.
type c06script struct {
	r       *RNG
	n       int      // next free chain index (Translate's s.n)
	defined []int    // indexes that some instruction outputs (and 0)
	inside  []int    // indexes skipped by shifts (no instruction outputs them)
	vars    []string // defined variable names
	weird   bool
}

func (s *c06script) operand() string {
	k := s.r.Intn(10)
	switch {
	case k < 4 && len(s.vars) > 0:
		return s.vars[s.r.Intn(len(s.vars))]
	case k < 6:
		// index operand
		m := s.r.Intn(12)
		switch {
		case m < 7 || !s.weird:
			return fmt.Sprintf("[%d]", s.defined[s.r.Intn(len(s.defined))])
		case m < 11 && len(s.inside) > 0:
			return fmt.Sprintf("[%d]", s.inside[s.r.Intn(len(s.inside))])
		default:
			return fmt.Sprintf("[%d]", s.n+s.r.Intn(2))
		}
	case k < 7 && len(s.defined) > 1:
		return fmt.Sprintf("[%d]", s.defined[len(s.defined)-1])
	default:
		return "1"
	}
}

func (s *c06script) base(d int) string {
	if d > 0 && s.r.Intn(3) == 0 {
		return "(" + s.add(d-1) + ")"
	}
	return s.operand()
}

func (s *c06script) shift(d int) string {
	switch s.r.Intn(6) {
	case 0, 1:
		x := s.base(d)
		amt := 1 + s.r.Intn(5)
		if s.weird && s.r.Intn(6) == 0 {
			amt = 0
		}
		if s.r.Intn(40) == 0 {
			amt = 64
		}
		for k := s.n; k < s.n+amt-1; k++ {
			s.inside = append(s.inside, k)
		}
		s.n += amt
		if amt > 0 {
			s.defined = append(s.defined, s.n-1)
		}
		op := " << "
		if s.r.Intn(4) == 0 {
			op = " shl "
		}
		return x + op + fmt.Sprint(amt)
	case 2:
		pre := "2*"
		if s.r.Intn(3) == 0 {
			pre = "dbl "
		}
		x := s.base(d)
		s.defined = append(s.defined, s.n)
		s.n++
		return pre + x
	default:
		return s.base(d)
	}
}

func (s *c06script) add(d int) string {
	terms := 1
	for terms < 4 && s.r.Intn(5) < 2 {
		terms++
	}
	out := s.shift(d)
	for t := 1; t < terms; t++ {
		op := " + "
		if s.r.Intn(5) == 0 {
			op = " add "
		}
		out += op + s.shift(d)
		s.defined = append(s.defined, s.n)
		s.n++
	}
	return out
}

// c06RandScript: a random script of about nStmts statements. weird enables index operands
// pointing into shifts or past the end, and shifts by zero.
func c06RandScript(r *RNG, nStmts int, weird bool) string {
	s := &c06script{r: r, n: 1, defined: []int{0}, weird: weird}
	var b strings.Builder
	used := map[string]bool{}
	for i := 0; i < nStmts; i++ {
		name := c06Names[r.Intn(len(c06Names))]
		if used[name] {
			name = fmt.Sprintf("%s_%d", name, i)
		}
		used[name] = true
		e := s.add(r.Intn(3))
		fmt.Fprintf(&b, "%s = %s\n", name, e)
		s.vars = append(s.vars, name)
	}
	ret := "return "
	if r.Intn(5) == 0 {
		ret = ""
	}
	e := s.add(r.Intn(3))
	b.WriteString(ret + e)
	if r.Intn(4) != 0 {
		b.WriteString("\n")
	}
	return b.String()
}

var c06Alloc = pass.Allocator{Input: "x", Output: "z", Format: "t%d"}

func c06Case(g *Gen, text string) bool {
	var ch *ast.Chain
	var loaded *ir.Program
	var err, lerr error
	irDump, preNames := "err", "-"
	if pn := safe(func() {
		ch, err = parse.String(text)
		if err != nil {
			return
		}
		loaded, lerr = acc.LoadString(text)
		if lerr != nil {
			return
		}
		if p, e := acc.Translate(ch); e == nil {
			irDump = c05DumpIR(p)
			preNames = c05PreNames(p)
		}
	}); pn != "" {
		if !g.notesViolation() {
			g.Notes = append(g.Notes, "VIOLATION: loading the script "+encHex(text)+" panics: "+pn)
		}
		return false
	}
	if err != nil {
		g.Count("skip-parse-error")
		return false
	}
	if lerr != nil {
		g.Count("skip-not-loadable")
		return false
	}
	chain := encInts(loaded.Chain)
	ops := encOps(loaded.Program)
	for _, name := range verifhooks.GenBuiltinTemplateNames() {
		out, reload := "err", "-"
		pn := safe(func() {
			// a fresh parse per template: PrepareData keeps a pointer to the script
			ch2, err := parse.String(text)
			if err != nil {
				return
			}
			d, err := verifhooks.GenPrepareData(verifhooks.GenConfig{Allocator: c06Alloc}, ch2)
			if err != nil {
				g.Count("refused")
				return
			}
			tmpl, err := verifhooks.GenBuiltinTemplate(name)
			if err != nil {
				return
			}
			var buf bytes.Buffer
			if err := verifhooks.GenGenerate(&buf, tmpl, d); err != nil {
				return
			}
			out = encHex(buf.String())
			if buf.Len() == 0 {
				out = "-"
			}
			if name == "script" {
				reload = "err"
				if q, err := acc.LoadString(buf.String()); err == nil {
					reload = encInts(q.Chain)
				}
			}
		})
		if pn != "" {
			out = "panic"
		}
		g.Line("c06", encHex(text), irDump, preNames, name, out, chain, ops, reload)
	}
	return true
}

// c06SearchScript: the script the search command would print for a chain.
func c06SearchScript(c addchain.Chain) (string, bool) {
	prog, err := c.Program()
	if err != nil {
		return "", false
	}
	p, err := acc.Decompile(prog)
	if err != nil {
		return "", false
	}
	s, err := acc.String(p)
	if err != nil {
		return "", false
	}
	return s, true
}

// c06OutFileProbe drives `addchain gen [-type T] -out <file> <script>` through the built binary: a
// long script's output is written to a file, then a short script's output to the SAME file; the file
// must then hold exactly what `gen` prints for the short script (no stale tail of the earlier output).
func c06OutFileProbe(g *Gen) {
	dir, err := os.MkdirTemp("", "c06out")
	if err != nil {
		return
	}
	defer os.RemoveAll(dir)
	long := "a = 2*1\nb = a + 1\nc = b << 3\nd = c + b\ne = d << 4 + a\nf = e + d + c\nreturn f << 3 + e\n"
	short := "a = 2*1\nreturn a + 1\n"
	lp, sp, out := dir+"/long.acc", dir+"/short.acc", dir+"/out.txt"
	if os.WriteFile(lp, []byte(long), 0o644) != nil || os.WriteFile(sp, []byte(short), 0o644) != nil {
		return
	}
	for _, typ := range []string{"listing", "chain", "ops", "script"} {
		os.Remove(out)
		r1 := runCLI([]string{"gen", "-type", typ, "-out", out, lp}, nil, 30*time.Second)
		r2 := runCLI([]string{"gen", "-type", typ, "-out", out, sp}, nil, 30*time.Second)
		want := runCLI([]string{"gen", "-type", typ, sp}, nil, 30*time.Second)
		got, rerr := os.ReadFile(out)
		g.Count("gen-out-file")
		if r1.exit != 0 || r2.exit != 0 || want.exit != 0 || rerr != nil {
			g.Notes = append(g.Notes, fmt.Sprintf("VIOLATION: gen -type %s -out: exit status %d / %d / %d, read error %v; stderr %q", typ, r1.exit, r2.exit, want.exit, rerr, string(r2.stderr)))
			return
		}
		if !bytes.Equal(got, want.stdout) {
			g.Notes = append(g.Notes, fmt.Sprintf("VIOLATION: gen -type %s -out <file> over an existing longer file leaves %q, gen prints %q", typ, string(got), string(want.stdout)))
			return
		}
	}
}

// c06RefusedExit: a script the tool refuses (unreadable operand, parse error, undefined name) must make
// `addchain gen` end with a non-zero status, with and without -out, and leave no partial output behind
// that a caller could mistake for a listing.
func c06RefusedExit(g *Gen) {
	dir, err := os.MkdirTemp("", "c06ref")
	if err != nil {
		return
	}
	defer os.RemoveAll(dir)
	for i, text := range []string{"a = 1 << 3\nreturn [2] + a\n", "a = 1 +\nreturn a\n", "a = 2*1\nreturn b + a\n", "a = 2*1\na = a + 1\nreturn a\n"} {
		refused := false
		safe(func() { _, e := acc.LoadString(text); refused = e != nil })
		if !refused {
			continue
		}
		in, out := fmt.Sprintf("%s/in%d.acc", dir, i), fmt.Sprintf("%s/out%d.txt", dir, i)
		if os.WriteFile(in, []byte(text), 0o644) != nil {
			return
		}
		for _, args := range [][]string{{"gen", in}, {"gen", "-out", out, in}, {"gen", "-type", "script", "-out", out, in}, {"eval", in}} {
			r := runCLI(args, nil, 30*time.Second)
			g.Count("refused-exit")
			if r.timedOut {
				continue
			}
			if r.exit == 0 && !g.notesViolation() {
				g.Notes = append(g.Notes, fmt.Sprintf("VIOLATION: `addchain %s` on the refused script %q exits with status 0 (stdout %q, stderr %q)", strings.Join(args[:len(args)-1], " "), text, string(r.stdout), string(r.stderr)))
			}
		}
	}
}

// c06LongLine: a script whose printed form has a line longer than 64 KiB (a sum of many terms) through
// the builtin script template and every other builtin template: the script output must load back to
// the same chain, and no output may be silently cut.
func c06LongLine(g *Gen) {
	terms := 17000
	if g.Thorough {
		terms = 40000
	}
	text := "s = 2*1\nreturn s" + strings.Repeat(" + 1", terms) + "\n"
	var want *ir.Program
	var rendered string
	msg := ""
	pn := safe(func() {
		ch, e := parse.String(text)
		if e != nil {
			msg = "parse: " + e.Error()
			return
		}
		want, e = acc.LoadString(text)
		if e != nil {
			msg = "load: " + e.Error()
			return
		}
		d, e := verifhooks.GenPrepareData(verifhooks.GenConfig{Allocator: c06Alloc}, ch)
		if e != nil {
			msg = "prepare: " + e.Error()
			return
		}
		tmpl, e := verifhooks.GenBuiltinTemplate("script")
		if e != nil {
			msg = "template: " + e.Error()
			return
		}
		var buf bytes.Buffer
		if e := verifhooks.GenGenerate(&buf, tmpl, d); e != nil {
			msg = "refused"
			return
		}
		rendered = buf.String()
	})
	g.Count("long-line")
	if pn != "" || (msg != "" && msg != "refused") {
		return // the long script itself is not handled: outside this probe
	}
	if msg == "refused" {
		return // an error is a refusal, which the property allows
	}
	bad := ""
	safe(func() {
		got, e := acc.LoadString(rendered)
		if e != nil {
			bad = fmt.Sprintf("does not load (%v); %d bytes of output for %d bytes of script", e, len(rendered), len(text))
			return
		}
		if len(got.Chain) != len(want.Chain) {
			bad = fmt.Sprintf("loads to a chain of %d elements, the script's chain has %d", len(got.Chain), len(want.Chain))
			return
		}
		for i := range got.Chain {
			if got.Chain[i].Cmp(want.Chain[i]) != 0 {
				bad = fmt.Sprintf("loads to another chain (element %d)", i)
				return
			}
		}
	})
	if bad != "" && !g.notesViolation() {
		g.Notes = append(g.Notes, fmt.Sprintf("VIOLATION: the script output for `s = 2*1; return s + 1 + ... + 1` (%d terms) %s", terms, bad))
	}
}

// c06WriteErrors: gen.Generate into a writer that fails after k bytes must report an error for every
// builtin template (an empty or cut-off listing must never be passed off as complete).
func c06WriteErrors(g *Gen) {
	text := "a = 2*1\nb = a + 1\nc = b << 3\nd = c + b\nreturn d << 4 + a\n"
	for _, name := range verifhooks.GenBuiltinTemplateNames() {
		render := func(w io.Writer) (err error, pn string) {
			pn = safe(func() {
				ch, e := parse.String(text)
				if e != nil {
					err = e
					return
				}
				d, e := verifhooks.GenPrepareData(verifhooks.GenConfig{Allocator: c06Alloc}, ch)
				if e != nil {
					err = e
					return
				}
				tmpl, e := verifhooks.GenBuiltinTemplate(name)
				if e != nil {
					err = e
					return
				}
				err = verifhooks.GenGenerate(w, tmpl, d)
			})
			return
		}
		var buf bytes.Buffer
		if err, pn := render(&buf); err != nil || pn != "" || buf.Len() == 0 {
			continue
		}
		n := buf.Len()
		for _, k := range []int{0, 1, n / 3, n / 2, n - 10, n - 1} {
			if k < 0 || k >= n {
				continue
			}
			w := &failAfter{n: k}
			err, pn := render(w)
			g.Count("write-error")
			if pn != "" || err == nil {
				g.Notes = append(g.Notes, fmt.Sprintf("VIOLATION: gen.Generate (%s) reports %v / panic %q although the writer failed after %d of %d bytes", name, err, pn, k, n))
				return
			}
		}
	}
}

func genC06(g *Gen) {
	c06OutFileProbe(g)
	c06RefusedExit(g)
	for _, text := range []string{"a = 1 << 3\nreturn a << 12 + 1\n", "x = 2*1\ny = x + 1\nreturn y << 4 + x\n"} {
		L := "err"
		safe(func() {
			if p, e := acc.LoadString(text); e == nil {
				L = encInts(p.Chain)
			}
		})
		readerFaultProbe(g, text, "", L)
	}
	c06LongLine(g)
	c06WriteErrors(g)
	// fixed cases: the documented shapes and the known delicate ones
	for _, text := range []string{
		"return 1",
		"return 1 << 0",
		"return 1 << 1",
		"return 2*1",
		"return 1 + 1",
		"a = 1 << 3\nreturn a + [2]",
		"a = 1 << 3\nreturn a + [3]",
		"a = 2*1\nreturn a << 0",
		"a = 2*1\nb = a << 0\nreturn b + 1",
		"a = 2*1\nb = a << 0\nreturn b + a",
		"t0 = 1 + 1\nx = t0 + 1\nz = x << 2\nreturn z + t0 + x",
		"a = 1 + 1\nb = a + 1\nreturn a",
		"a = 1 + 1\nb = a + 1\nreturn [1] + [2]",
		"_10 = 2*1\n_11 = 1 + _10\n_1100 = _11 << 2\nreturn (_1100 + _11) << 3 + 1",
		// the same operation written twice (each occurrence is its own chain element)
		"a = 2*1\nb = 2*1\nc = a + b\nreturn c + [2]",
		"a = 2*1\nb = a + 1\nreturn 2*1",
		"a = 1 + 1\nb = 1 + 1\nreturn a + b",
		"a = 1 << 2\nb = 1 << 2\nreturn a + b + [1]",
		"a = 1 + 1\nb = a + 1\nc = a + 1\nreturn b + c + [3]",
		"return (1 + 1) + (1 + 1)",
	} {
		c06Case(g, text)
		g.Count("fixed")
	}
	// search outputs
	nSearch := g.pick(300, 1500)
	done := 0
	c05SearchLike := func(c addchain.Chain) {
		if s, ok := c06SearchScript(c); ok {
			if c06Case(g, s) {
				done++
				g.Count("search")
			}
		}
	}
	// small targets exhaustively through the ensemble's first algorithm, then structured ones
	targets := []*big.Int{}
	for t := int64(2); t <= int64(g.pick(60, 300)); t++ {
		targets = append(targets, big.NewInt(t))
	}
	targets = append(targets, c05Targets(g, nSearch)...)
	for _, t := range targets {
		if done >= nSearch {
			break
		}
		var p *ir.Program
		c05SearchPrograms(g, []*big.Int{t}, 1, func(q *ir.Program) { p = q })
		if p == nil {
			continue
		}
		if err := pass.Eval(p); err != nil {
			continue
		}
		c05SearchLike(p.Chain)
	}
	// generated scripts
	want := g.pick(2700, 27000)
	for got, tries := 0, 0; got < want && tries < 20*want; tries++ {
		text := c06RandScript(g.R, g.R.Intn(9), g.R.Intn(3) == 0)
		if c06Case(g, text) {
			got++
			g.Count("generated")
		}
	}
}
