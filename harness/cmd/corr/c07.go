package main

import (
	"bytes"
	"encoding/hex"
	"fmt"
	"runtime"
	"runtime/debug"
	"strconv"
	"strings"
	"sync"

	"github.com/mmcloughlin/addchain/acc/ast"
	"github.com/mmcloughlin/addchain/acc/parse"
	"github.com/mmcloughlin/addchain/acc/printer"
)

// C07: printing any syntax tree and parsing it back is the identity.
//
// Case lines (all produced by calling the real parse.String / printer.String in-process):
//
//	c07 pb <n|s> <prefix letters|-> <d> <accepted|->
//	    every token sequence prefix·ext with |ext| <= d over c07Tokens (letters a..r index the
//	    alphabet), joined without separator (n) or with single blanks (s); <accepted> lists the
//	    extensions whose text parses as `<ext letters>:<tree dump>` separated by `|` (the empty
//	    extension is written `.`); every other extension was rejected.
//	c07 parse <text hex> <err|panic|tree dump> <printed hex|_> <reparse: err|panic|dump|_> <printed-again hex|_>
//	c07 rt    <tree dump> <printed hex|err|panic> <reparse: err|panic|dump|_>
//	c07 print <tree dump> <printed hex|err|panic>
//
// Tree dump: statements joined by `;`, each `name=expr`, expr in prefix form A(x,y) S(x,n) D(x)
// O(i) I(name); the empty chain is `-`.

func init() {
	props["C07"] = genC07
	replays["C07"] = replayC07
}

var c07Tokens = []string{"1", "[1]", "[2]", "a", "b", "=", "+", "add", "<<", "2*", "dbl", "(", ")", "\n", "2", "08", "return", " "}

func c07DumpExpr(b *strings.Builder, e ast.Expr) {
	switch e := e.(type) {
	case ast.Operand:
		fmt.Fprintf(b, "O(%d)", int(e))
	case ast.Identifier:
		b.WriteString("I(")
		b.WriteString(string(e))
		b.WriteString(")")
	case ast.Add:
		b.WriteString("A(")
		c07DumpExpr(b, e.X)
		b.WriteString(",")
		c07DumpExpr(b, e.Y)
		b.WriteString(")")
	case ast.Shift:
		b.WriteString("S(")
		c07DumpExpr(b, e.X)
		fmt.Fprintf(b, ",%d)", e.S)
	case ast.Double:
		b.WriteString("D(")
		c07DumpExpr(b, e.X)
		b.WriteString(")")
	default:
		fmt.Fprintf(b, "?%T", e)
	}
}

func c07Dump(ch *ast.Chain) string {
	if ch == nil {
		return "nil"
	}
	if len(ch.Statements) == 0 {
		return "-"
	}
	var b strings.Builder
	for i, s := range ch.Statements {
		if i > 0 {
			b.WriteString(";")
		}
		b.WriteString(string(s.Name))
		b.WriteString("=")
		c07DumpExpr(&b, s.Expr)
	}
	return b.String()
}

// c07Undump rebuilds a chain from its dump (replay only).
func c07Undump(s string) (*ast.Chain, bool) {
	ch := &ast.Chain{}
	if s == "-" {
		return ch, true
	}
	for _, part := range strings.Split(s, ";") {
		i := strings.IndexByte(part, '=')
		if i < 0 {
			return nil, false
		}
		e, rest, ok := c07UndumpExpr(part[i+1:])
		if !ok || rest != "" {
			return nil, false
		}
		ch.Statements = append(ch.Statements, ast.Statement{Name: ast.Identifier(part[:i]), Expr: e})
	}
	return ch, true
}

func c07UndumpExpr(s string) (ast.Expr, string, bool) {
	if len(s) < 3 || s[1] != '(' {
		return nil, s, false
	}
	switch s[0] {
	case 'O', 'I':
		j := strings.IndexByte(s, ')')
		if j < 0 {
			return nil, s, false
		}
		if s[0] == 'I' {
			return ast.Identifier(s[2:j]), s[j+1:], true
		}
		v, err := strconv.ParseInt(s[2:j], 10, 64)
		if err != nil {
			return nil, s, false
		}
		return ast.Operand(v), s[j+1:], true
	case 'D':
		x, r, ok := c07UndumpExpr(s[2:])
		if !ok || !strings.HasPrefix(r, ")") {
			return nil, s, false
		}
		return ast.Double{X: x}, r[1:], true
	case 'S':
		x, r, ok := c07UndumpExpr(s[2:])
		if !ok || !strings.HasPrefix(r, ",") {
			return nil, s, false
		}
		j := strings.IndexByte(r, ')')
		if j < 0 {
			return nil, s, false
		}
		v, err := strconv.ParseUint(r[1:j], 10, 64)
		if err != nil {
			return nil, s, false
		}
		return ast.Shift{X: x, S: uint(v)}, r[j+1:], true
	case 'A':
		x, r, ok := c07UndumpExpr(s[2:])
		if !ok || !strings.HasPrefix(r, ",") {
			return nil, s, false
		}
		y, r2, ok := c07UndumpExpr(r[1:])
		if !ok || !strings.HasPrefix(r2, ")") {
			return nil, s, false
		}
		return ast.Add{X: x, Y: y}, r2[1:], true
	}
	return nil, s, false
}

// c07ParseText runs parse.String: the outcome field and the chain (nil unless it parsed).
func c07ParseText(text string) (string, *ast.Chain) {
	var ch *ast.Chain
	var err error
	if p := safe(func() { ch, err = parse.String(text) }); p != "" {
		return "panic", nil
	}
	if err != nil {
		return "err", nil
	}
	if ch == nil {
		return "nil", nil
	}
	return c07Dump(ch), ch
}

// c07Decoy is printed between obtaining a result of printer.Bytes and looking at it, so that a result
// that aliases storage reused by a later print (a pooled or shared buffer) is seen corrupted.
var c07Decoy = &ast.Chain{Statements: []ast.Statement{
	{Name: "zzzzzzzzzzzzzzzzzzzzzzzz", Expr: ast.Shift{X: ast.Add{X: ast.Operand(7), Y: ast.Double{X: ast.Identifier("qqqqqqqqqqqqqqqqqqqqqqqqqqqqqqqq")}}, S: 99999}},
	{Name: "", Expr: ast.Add{X: ast.Identifier("zzzzzzzzzzzzzzzzzzzzzzzz"), Y: ast.Add{X: ast.Operand(123456789), Y: ast.Operand(987654321)}}},
}}

// c07PrintChain runs every printing entry point (printer.Bytes, held across a second print;
// printer.Fprint into a private buffer; printer.String): hex of the text, or err / panic. The text
// reported is the one obtained from Bytes after the decoy print; a difference between the entry points
// is reported as text of its own so that the driver judges it.
func c07PrintChain(ch *ast.Chain) (field string, text string, ok bool) {
	var s string
	var held []byte
	var buf bytes.Buffer
	var err, errb, errf error
	if p := safe(func() {
		held, errb = printer.Bytes(ch)
		_, _ = printer.Bytes(c07Decoy)
		errf = printer.Fprint(&buf, ch)
		_, _ = printer.Bytes(c07Decoy)
		s, err = printer.String(ch)
	}); p != "" {
		return "panic", "", false
	}
	if err != nil || errb != nil || errf != nil {
		return "err", "", false
	}
	if string(held) != s {
		s = string(held)
	} else if buf.String() != s {
		s = buf.String()
	}
	return encHex(s), s, true
}

func c07ParseLine(text string) []string {
	res, ch := c07ParseText(text)
	f := []string{"c07", "parse", encHex(text), res, "_", "_", "_"}
	if ch == nil {
		return f
	}
	pf, ptext, ok := c07PrintChain(ch)
	f[4] = pf
	if !ok {
		return f
	}
	res2, ch2 := c07ParseText(ptext)
	f[5] = res2
	if ch2 == nil {
		return f
	}
	pf2, _, _ := c07PrintChain(ch2)
	f[6] = pf2
	return f
}

func c07RtLine(ch *ast.Chain) []string {
	f := []string{"c07", "rt", c07Dump(ch), "_", "_"}
	pf, ptext, ok := c07PrintChain(ch)
	f[3] = pf
	if !ok {
		return f
	}
	f[4], _ = c07ParseText(ptext)
	return f
}

func c07PrintLine(ch *ast.Chain) []string {
	pf, _, _ := c07PrintChain(ch)
	return []string{"c07", "print", c07Dump(ch), pf}
}

func c07Letters(idx []int) string {
	if len(idx) == 0 {
		return "."
	}
	b := make([]byte, len(idx))
	for i, t := range idx {
		b[i] = byte('a' + t)
	}
	return string(b)
}

func c07Join(idx []int, spaced bool) string {
	var b strings.Builder
	for i, t := range idx {
		if i > 0 && spaced {
			b.WriteByte(' ')
		}
		b.WriteString(c07Tokens[t])
	}
	return b.String()
}

// c07Batch parses every extension of prefix by at most d tokens; it returns the case line and
// the accepted texts.
func c07Batch(spaced bool, prefix []int, d int) ([]string, []string) {
	var acc []string
	var texts []string
	seq := append([]int{}, prefix...)
	var rec func(depth int)
	rec = func(depth int) {
		text := c07Join(seq, spaced)
		res, ch := c07ParseText(text)
		if ch != nil || res != "err" {
			acc = append(acc, c07Letters(seq[len(prefix):])+":"+res)
			if ch != nil {
				texts = append(texts, text)
			}
		}
		if depth == d {
			return
		}
		for t := range c07Tokens {
			seq = append(seq, t)
			rec(depth + 1)
			seq = seq[:len(seq)-1]
		}
	}
	rec(0)
	j := "n"
	if spaced {
		j = "s"
	}
	pl := "-"
	if len(prefix) > 0 {
		pl = c07Letters(prefix)
	}
	a := "-"
	if len(acc) > 0 {
		a = strings.Join(acc, "|")
	}
	return []string{"c07", "pb", j, pl, strconv.Itoa(d), a}, texts
}

// c07Par runs the jobs on several goroutines and returns their results in job order.
func c07Par(n int, job func(i int) [][]string) [][][]string {
	out := make([][][]string, n)
	workers := runtime.NumCPU()
	if workers > 16 {
		workers = 16
	}
	if workers < 1 {
		workers = 1
	}
	var wg sync.WaitGroup
	var mu sync.Mutex
	next := 0
	for w := 0; w < workers; w++ {
		wg.Add(1)
		go func() {
			defer wg.Done()
			for {
				mu.Lock()
				i := next
				next++
				mu.Unlock()
				if i >= n {
					return
				}
				out[i] = job(i)
			}
		}()
	}
	wg.Wait()
	return out
}

func (g *Gen) c07Emit(lines [][]string, tag string) {
	for _, l := range lines {
		g.Line(l...)
		g.Count(tag)
	}
}

// ---- generators -----------------------------------------------------------------------

// c07TokenStream: exhaustive token sequences up to maxLen, both joiners; every accepted text
// additionally gets a `parse` line (print, re-parse, print again).
//
// sample > 1 keeps only every sample-th batch of maximal-length extensions (the shorter
// sequences are then assumed to be covered by an exhaustive call with a smaller maxLen).
func c07TokenStream(g *Gen, spaced bool, maxLen int, sample int, seen map[string]bool) {
	type batch struct {
		prefix []int
		d      int
	}
	var batches []batch
	headLen := maxLen - 2
	if headLen < 0 {
		headLen = 0
	}
	nHeads := 0
	var rec func(seq []int)
	rec = func(seq []int) {
		if len(seq) == headLen {
			nHeads++
			if sample <= 1 || nHeads%sample == 0 {
				batches = append(batches, batch{append([]int{}, seq...), maxLen - headLen})
			}
			return
		}
		if sample <= 1 {
			batches = append(batches, batch{append([]int{}, seq...), 0})
		}
		for t := range c07Tokens {
			rec(append(seq, t))
		}
	}
	rec(nil)
	// process in slabs to bound memory
	const slab = 2000
	for lo := 0; lo < len(batches); lo += slab {
		hi := lo + slab
		if hi > len(batches) {
			hi = len(batches)
		}
		res := c07Par(hi-lo, func(i int) [][]string {
			b := batches[lo+i]
			line, texts := c07Batch(spaced, b.prefix, b.d)
			out := [][]string{line}
			for _, t := range texts {
				out = append(out, c07ParseLine(t))
			}
			return out
		})
		for _, r := range res {
			g.Line(r[0]...)
			g.Count("token-batches")
			for _, l := range r[1:] {
				if seen[l[2]] {
					continue
				}
				seen[l[2]] = true
				g.Line(l...)
				g.Count("token-texts-accepted")
			}
		}
	}
}

var c07Atoms = []ast.Expr{
	ast.Operand(0), ast.Operand(2), ast.Identifier("a"), ast.Identifier("return"), ast.Identifier("add"),
	ast.Identifier("shl"), ast.Identifier("dbl"), ast.Identifier("dblx"), ast.Identifier("i1"),
}

// c07Trees returns every expression tree with exactly k operator nodes, for k = 0..maxOps.
func c07Trees(maxOps int) [][]ast.Expr {
	lv := make([][]ast.Expr, maxOps+1)
	lv[0] = c07Atoms
	for k := 1; k <= maxOps; k++ {
		var cur []ast.Expr
		for _, x := range lv[k-1] {
			cur = append(cur, ast.Double{X: x}, ast.Shift{X: x, S: 3})
		}
		for i := 0; i <= k-1; i++ {
			for _, x := range lv[i] {
				for _, y := range lv[k-1-i] {
					cur = append(cur, ast.Add{X: x, Y: y})
				}
			}
		}
		lv[k] = cur
	}
	return lv
}

var c07AssignNames = []string{"x", "return", "t10", "dbl", "a_long_name", "_"}

func c07TreeStream(g *Gen, maxOps int) {
	lv := c07Trees(maxOps)
	var all []ast.Expr
	for _, l := range lv {
		all = append(all, l...)
	}
	const chunk = 512
	n := (len(all) + chunk - 1) / chunk
	const slab = 400
	for lo := 0; lo < n; lo += slab {
		hi := lo + slab
		if hi > n {
			hi = n
		}
		res := c07Par(hi-lo, func(i int) [][]string {
			var out [][]string
			a := (lo + i) * chunk
			b := a + chunk
			if b > len(all) {
				b = len(all)
			}
			for j := a; j < b; j++ {
				e := all[j]
				out = append(out, c07RtLine(&ast.Chain{Statements: []ast.Statement{{Name: "", Expr: e}}}))
				name := c07AssignNames[j%len(c07AssignNames)]
				out = append(out, c07RtLine(&ast.Chain{Statements: []ast.Statement{
					{Name: ast.Identifier(name), Expr: e}, {Name: "", Expr: ast.Identifier(name)}}}))
			}
			return out
		})
		for _, r := range res {
			g.c07Emit(r, "exhaustive-trees")
		}
	}
}

const c07IdStart = "abcdefghijklmnopqrstuvwxyzABCDEFGHIJKLMNOPQRSTUVWXYZ_"
const c07IdChars = c07IdStart + "0123456789"

var c07LookAlikes = []string{"return", "returnx", "return1", "add", "addy", "shl", "shl2", "dbl", "dbl2", "dbl07", "dbl_",
	"dblx", "dbl1", "dbl1x", "dblD", "_", "__", "x", "i1", "a1", "A", "Z9", "d", "db", "dbL", "Dbl1", "xdbl1", "r", "e", "f0x",
	// other spellings of the keywords (the grammar is case-sensitive) and keywords glued to names
	"DBLE", "DBLx", "dBl_t", "Dblx0", "DBL", "Dbl", "RETURN", "Return", "RETURNx", "ADD", "Add", "ADDy", "SHL", "Shl", "sHl3", "returnadd", "adddbl", "shlx", "E", "e1", "X"}

func c07RandIdent(r *RNG) string {
	if r.Intn(3) == 0 {
		return c07LookAlikes[r.Intn(len(c07LookAlikes))]
	}
	n := 1 + r.Intn(12)
	b := make([]byte, n)
	b[0] = c07IdStart[r.Intn(len(c07IdStart))]
	for i := 1; i < n; i++ {
		b[i] = c07IdChars[r.Intn(len(c07IdChars))]
	}
	return string(b)
}

func c07RandIndex(r *RNG) int {
	switch r.Intn(8) {
	case 0:
		return 0
	case 1:
		return 1<<63 - 1
	case 2:
		return int(r.Next() >> 1)
	case 3:
		return 1 << uint(r.Intn(63))
	default:
		return r.Intn(40)
	}
}

func c07RandShift(r *RNG) uint {
	switch r.Intn(8) {
	case 0:
		return 0
	case 1:
		return 1<<64 - 1
	case 2:
		return uint(r.Next())
	case 3:
		return 1 << 63
	default:
		return uint(r.Intn(300))
	}
}

// c07RandExpr builds a random tree of depth <= depth. weird > 0 admits nodes outside WFTree
// (negative index, identifiers that are not identifiers).
func c07RandExpr(r *RNG, depth int, weird int) ast.Expr {
	if depth == 0 || r.Intn(5) == 0 {
		if weird > 0 && r.Intn(6) == 0 {
			switch r.Intn(4) {
			case 0:
				return ast.Operand(-1 - r.Intn(3))
			case 1:
				return ast.Operand(-1 << 63)
			case 2:
				return ast.Identifier("")
			default:
				return ast.Identifier([]string{"1x", "9", "0x1", "2", "08"}[r.Intn(5)])
			}
		}
		if r.Bool() {
			return ast.Operand(c07RandIndex(r))
		}
		return ast.Identifier(c07RandIdent(r))
	}
	switch r.Intn(4) {
	case 0:
		return ast.Double{X: c07RandExpr(r, depth-1, weird)}
	case 1:
		return ast.Shift{X: c07RandExpr(r, depth-1, weird), S: c07RandShift(r)}
	default:
		return ast.Add{X: c07RandExpr(r, depth-1, weird), Y: c07RandExpr(r, depth-1, weird)}
	}
}

func c07RandChain(r *RNG, weird int) *ast.Chain {
	ch := &ast.Chain{}
	n := r.Intn(5)
	for i := 0; i < n; i++ {
		ch.Statements = append(ch.Statements, ast.Statement{Name: ast.Identifier(c07RandIdent(r)), Expr: c07RandExpr(r, 1+r.Intn(8), weird)})
	}
	ch.Statements = append(ch.Statements, ast.Statement{Name: "", Expr: c07RandExpr(r, 1+r.Intn(8), weird)})
	if weird > 0 {
		switch r.Intn(6) {
		case 0: // named last statement
			ch.Statements[len(ch.Statements)-1].Name = ast.Identifier(c07RandIdent(r))
		case 1: // a return statement in the middle
			ch.Statements[r.Intn(len(ch.Statements))].Name = ""
		case 2: // a name that is not an identifier
			ch.Statements[r.Intn(len(ch.Statements))].Name = ast.Identifier([]string{"1", "7up", "0", "2x"}[r.Intn(4)])
		case 3:
			if r.Intn(4) == 0 {
				ch.Statements = nil
			}
		}
	}
	return ch
}

// c07Render writes a tree as source text with random spellings (add/+/shl/<</dbl/2*, decimal,
// hex and octal literals, redundant parentheses, random blanks). The text need not parse to
// the same tree (keyword run-ons are possible); the case line records what the parser does.
func c07Render(r *RNG, ch *ast.Chain) string {
	var b strings.Builder
	sp := func() {
		for r.Intn(3) == 0 {
			b.WriteByte(" \t\r"[r.Intn(3)])
		}
	}
	lit := func(v uint64) {
		switch r.Intn(4) {
		case 0:
			fmt.Fprintf(&b, "0x%x", v)
		case 1:
			fmt.Fprintf(&b, "0%o", v)
		case 2:
			fmt.Fprintf(&b, "0x%X", v)
		default:
			fmt.Fprintf(&b, "%d", v)
		}
	}
	var expr func(e ast.Expr, prec int)
	expr = func(e ast.Expr, prec int) {
		par := e.Precedence() < prec || r.Intn(8) == 0
		if par {
			b.WriteByte('(')
			sp()
			prec = 0
		}
		switch e := e.(type) {
		case ast.Operand:
			if e == 0 && r.Intn(3) != 0 {
				b.WriteByte('1')
			} else {
				b.WriteByte('[')
				sp()
				lit(uint64(e))
				sp()
				b.WriteByte(']')
			}
		case ast.Identifier:
			b.WriteString(string(e))
		case ast.Add:
			expr(e.X, 1)
			if r.Bool() {
				sp()
				b.WriteByte('+')
				sp()
			} else {
				b.WriteByte(' ')
				sp()
				b.WriteString("add")
				sp()
				if r.Intn(4) != 0 {
					b.WriteByte(' ')
				}
			}
			expr(e.Y, 2)
		case ast.Double:
			if r.Bool() {
				b.WriteByte('2')
				sp()
				b.WriteByte('*')
				sp()
			} else {
				b.WriteString("dbl")
				sp()
				if r.Intn(4) != 0 {
					b.WriteByte(' ')
				}
			}
			expr(e.X, 4)
		case ast.Shift:
			expr(e.X, 4)
			sp()
			if r.Bool() {
				b.WriteString("<<")
			} else {
				b.WriteString(" shl")
				if r.Intn(4) != 0 {
					b.WriteByte(' ')
				}
			}
			sp()
			lit(uint64(e.S))
		}
		if par {
			sp()
			b.WriteByte(')')
		}
	}
	for i, s := range ch.Statements {
		sp()
		last := i == len(ch.Statements)-1
		if !last {
			b.WriteString(string(s.Name))
			sp()
			b.WriteByte('=')
		} else if r.Intn(3) != 0 {
			b.WriteString("return ")
		}
		sp()
		expr(s.Expr, 0)
		sp()
		if !last || r.Bool() {
			b.WriteByte('\n')
		}
	}
	sp()
	return b.String()
}

// c07LongSum: a compact source `x=1<<3 / return x+x+…+x` whose printed form (`x + x + …`) is much
// longer than the source: parse, print, parse again, print again — the trees and the texts must be
// identical (an input limit or work cap in the parser breaks exactly this).
func c07LongSum(g *Gen, terms int) {
	src := "x=1<<3\nreturn x" + strings.Repeat("+x", terms) + "\n"
	d1, ch := c07ParseText(src)
	g.Count("long-sum-roundtrip")
	if ch == nil {
		g.Notes = append(g.Notes, fmt.Sprintf("VIOLATION: a sum of %d terms (%d bytes) does not parse: %s", terms+1, len(src), d1))
		return
	}
	_, text, ok := c07PrintChain(ch)
	if !ok {
		g.Notes = append(g.Notes, fmt.Sprintf("VIOLATION: the tree of a sum of %d terms does not print", terms+1))
		return
	}
	d2, ch2 := c07ParseText(text)
	if ch2 == nil || d2 != d1 {
		g.Notes = append(g.Notes, fmt.Sprintf("VIOLATION: the printed form (%d bytes) of a sum of %d terms (%d bytes of source) parses to %s instead of the same tree", len(text), terms+1, len(src), c12Tail(d2, 60)))
		return
	}
	_, text2, ok2 := c07PrintChain(ch2)
	if !ok2 || text2 != text {
		g.Notes = append(g.Notes, fmt.Sprintf("VIOLATION: formatting a sum of %d terms is not idempotent", terms+1))
	}
}

// c07WriteErrors: printer.Fprint into a writer that fails after k bytes (every k below the length of the
// text) must report an error — otherwise a cut-off script, which may well parse to a different chain, is
// passed off as complete.
func c07WriteErrors(g *Gen) {
	for _, src := range []string{"a = 2*1\nb = a + 1\nreturn b << 3 + a\n", "return 1\n", "x = 1 << 7\ny = x + 1\nz = (y + x) << 2\nreturn z + y + x + 1\n"} {
		_, ch := c07ParseText(src)
		if ch == nil {
			continue
		}
		full, err := printer.String(ch)
		if err != nil {
			continue
		}
		for k := 0; k < len(full); k++ {
			w := &failAfter{n: k}
			var e error
			if pn := safe(func() { e = printer.Fprint(w, ch) }); pn != "" {
				g.Notes = append(g.Notes, fmt.Sprintf("VIOLATION: printer.Fprint panics when the writer fails after %d bytes: %s", k, pn))
				return
			}
			g.Count("write-error")
			if e == nil {
				g.Notes = append(g.Notes, fmt.Sprintf("VIOLATION: printer.Fprint reports success although the writer failed after %d of %d bytes; written %q", k, len(full), string(w.written)))
				return
			}
		}
	}
}

func genC07(g *Gen) {
	c07WriteErrors(g)
	// the generated parser allocates heavily on every failing parse; a relaxed GC halves the wall time
	// (collect only when the heap approaches 3 GiB)
	defer debug.SetGCPercent(debug.SetGCPercent(-1))
	defer debug.SetMemoryLimit(debug.SetMemoryLimit(3 << 30))
	// (a) exhaustive token sequences: joined without separator up to 5 / 6 tokens; joined with
	// single blanks up to 5 tokens, and in the thorough tier every 8th batch of 6-token sequences
	seen := map[string]bool{}
	c07TokenStream(g, false, g.pick(5, 6), 1, seen)
	c07TokenStream(g, true, 5, 1, seen)
	if g.Thorough {
		c07TokenStream(g, true, 6, 8, seen)
	}
	// (b) exhaustive expression trees in return and assignment position
	c07TreeStream(g, g.pick(3, 4))
	// (c) random deep trees in multi-statement scripts
	for i := 0; i < g.pick(2000, 20000); i++ {
		g.Line(c07RtLine(c07RandChain(g.R, 0))...)
		g.Count("random-trees")
	}
	// (d) trees outside WFTree (printer correspondence; the spec does not apply)
	for i := 0; i < g.pick(600, 4000); i++ {
		ch := c07RandChain(g.R, 1)
		if i%2 == 0 {
			g.Line(c07PrintLine(ch)...)
		} else {
			g.Line(c07RtLine(ch)...)
		}
		g.Count("weird-trees")
	}
	// (e) generated source texts in every spelling
	for i := 0; i < g.pick(3000, 30000); i++ {
		text := c07Render(g.R, c07RandChain(g.R, 0))
		g.Line(c07ParseLine(text)...)
		g.Count("rendered-texts")
	}
	// (e2) long inputs: a script whose last term lies beyond 64 KiB / 1 MiB (an input limit or work cap
	// in the parser makes the printed form of a long script parse to a different tree, or not at all)
	for _, n := range []int{65536, 1 << 20} {
		head := "x = 1 << 3\nreturn x"
		g.Line(c07ParseLine(head + strings.Repeat(" ", n-len(head)) + "+ x\n")...)
		// (a long *sum* is not given to the driver: the list-based printer model is quadratic in the
		// number of terms; the round trip of such a script is judged here, on the implementation alone)
		c07LongSum(g, n/3)
		g.Count("long-input")
	}
	// (f) literal edge cases and F8
	for _, t := range []string{
		"[18446744073709551615]", "[18446744073709551616]", "[9223372036854775807]", "[9223372036854775808]",
		"[0xffffffffffffffff]", "[0x7fffffffffffffff]", "[0x8000000000000000]", "[01777777777777777777777]", "[02000000000000000000000]",
		"a = [18446744073709551615] + 1\nreturn a", "1 << 18446744073709551615", "1 << 18446744073709551616", "1 << 0xFFFFFFFFFFFFFFFF",
		"0x", "[0x]", "[0x1F]", "[0X1]", "[08]", "[09]", "[007]", "[078]", "[00]", "[0]", "[0x0]", "1 << 08", "1 << 0", "1 << 00", "1 << 0x",
		"[1_0]", "[0b1]", "[0o7]", "[ 0x10 ]", "[08] + 1", "([08]) ", "a = [08]\n1", "1 << 08 + 1", "(1 << 08", "[08", "a [08]", "return [08",
	} {
		g.Line(c07ParseLine(t)...)
		g.Count("literal-edge-texts")
	}
	// (g) non-ASCII and invalid UTF-8
	hi := []string{"\xff", "1\xff", "\xff1", "1 \xc3\xa9", "\xc3\xa9=1\n1", "a\xc3\xa9 = 1\nreturn a\xc3\xa9", "1\n\xef\xbf\xbd", "\xef\xbf\xbd",
		"1 + \x80", "(\xc0\x80)", "1\x00", "\x00", "1\x0b", "1\x0c", "1\xa0", "a = 1\xc2\xa0\n1", "return\xc2\xa01", "\xe2\x80\x8b1"}
	for i := 0; i < g.pick(200, 2000); i++ {
		text := []byte(c07Render(g.R, c07RandChain(g.R, 0)))
		pos := g.R.Intn(len(text) + 1)
		ins := [][]byte{{0xff}, {0x80}, {0xc3, 0xa9}, {0xef, 0xbf, 0xbd}, {0xc3}, {0xe2, 0x80}}[g.R.Intn(6)]
		t := append(append(append([]byte{}, text[:pos]...), ins...), text[pos:]...)
		hi = append(hi, string(t))
	}
	for _, t := range hi {
		g.Line(c07ParseLine(t)...)
		g.Count("non-ascii-texts")
	}
}

func replayC07(g *Gen, f []string) {
	if len(f) < 3 {
		return
	}
	unhex := func(s string) (string, bool) {
		if s == "-" {
			return "", true
		}
		b, err := hex.DecodeString(s)
		return string(b), err == nil
	}
	switch f[1] {
	case "parse":
		if t, ok := unhex(f[2]); ok {
			g.Line(c07ParseLine(t)...)
		}
	case "rt":
		if ch, ok := c07Undump(f[2]); ok {
			g.Line(c07RtLine(ch)...)
		}
	case "print":
		if ch, ok := c07Undump(f[2]); ok {
			g.Line(c07PrintLine(ch)...)
		}
	case "pb":
		if len(f) < 5 {
			return
		}
		var prefix []int
		if f[3] != "-" {
			for _, c := range f[3] {
				prefix = append(prefix, int(c-'a'))
			}
		}
		d, _ := strconv.Atoi(f[4])
		line, _ := c07Batch(f[2] == "s", prefix, d)
		g.Line(line...)
	}
}
