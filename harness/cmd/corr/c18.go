package main

import (
	"fmt"
	"math/big"
	"strconv"
	"strings"
	"time"

	"github.com/mmcloughlin/addchain"
)

func init() {
	props["C18"] = genC18
	replays["C18"] = func(g *Gen, f []string) {
		if len(f) < 3 {
			return
		}
		switch f[1] {
		case "calls":
			c18Calls(g, c18DecCalls(f[2]))
		case "product":
			if len(f) >= 4 {
				c18Product(g, addchain.Chain(decInts(f[2])), addchain.Chain(decInts(f[3])))
			}
		case "plus":
			if len(f) >= 4 {
				x, _ := new(big.Int).SetString(f[3], 10)
				c18Plus(g, addchain.Chain(decInts(f[2])), x)
			}
		}
	}
}

// c18Call is one builder call: kind 'a' (add i j), 'd' (double i), 's' (shift i by s).
type c18Call struct {
	kind byte
	i, j int
	s    uint
}

func (c c18Call) String() string {
	switch c.kind {
	case 'a':
		return fmt.Sprintf("a:%d:%d", c.i, c.j)
	case 'd':
		return fmt.Sprintf("d:%d", c.i)
	default:
		return fmt.Sprintf("s:%d:%d", c.i, c.s)
	}
}

func c18DecCalls(s string) []c18Call {
	out := []c18Call{}
	if s == "-" || s == "" {
		return out
	}
	for _, t := range strings.Split(s, ";") {
		p := strings.Split(t, ":")
		at := func(k int) int {
			if k >= len(p) {
				return 0
			}
			v, _ := strconv.Atoi(p[k])
			return v
		}
		switch p[0] {
		case "a":
			out = append(out, c18Call{kind: 'a', i: at(1), j: at(2)})
		case "d":
			out = append(out, c18Call{kind: 'd', i: at(1)})
		case "s":
			out = append(out, c18Call{kind: 's', i: at(1), s: uint(at(2))})
		}
	}
	return out
}

// c18Err renders a builder error: en<i> for "negative index", eo<i> for "out of bounds".
func c18Err(err error) string {
	var i int
	msg := err.Error()
	if _, e := fmt.Sscanf(msg, "negative index %d", &i); e == nil {
		return fmt.Sprintf("en%d", i)
	}
	if _, e := fmt.Sscanf(msg, "index %d out of bounds", &i); e == nil {
		return fmt.Sprintf("eo%d", i)
	}
	return "e?" + encHex(msg)
}

func c18Apply(p *addchain.Program, c c18Call) (int, error) {
	switch c.kind {
	case 'a':
		return p.Add(c.i, c.j)
	case 'd':
		return p.Double(c.i)
	default:
		return p.Shift(c.i, c.s)
	}
}

func encBigs(xs []*big.Int) string { return encInts(xs) }

// c18Calls runs the call sequence on a fresh Program with the real builders and
// records every return value, the program after every call and the analyses of
// the final program.
func c18Calls(g *Gen, calls []c18Call) {
	p := addchain.Program{}
	cs := make([]string, len(calls))
	rs := make([]string, len(calls))
	sn := make([]string, len(calls))
	for k, c := range calls {
		cs[k] = c.String()
		var n int
		var err error
		if pn := safe(func() { n, err = c18Apply(&p, c) }); pn != "" {
			rs[k] = "panic"
		} else if err != nil {
			rs[k] = c18Err(err)
		} else {
			rs[k] = fmt.Sprint(n)
		}
		sn[k] = encOps(p)
	}
	join := func(ss []string, sep, empty string) string {
		if len(ss) == 0 {
			return empty
		}
		return strings.Join(ss, sep)
	}
	final := append(addchain.Program{}, p...)
	ch, rd, dp := "panic", "panic", "panic"
	var db, ad int
	safe(func() { ch = encInts(p.Evaluate()) })
	safe(func() { db, ad = p.Count() })
	safe(func() { rd = encIntSlice(p.ReadCounts()) })
	safe(func() {
		// the sets of an earlier call are the caller's to update in place; a later call is unaffected
		c19scribble(p.Dependencies()...)
		dp = encBigs(p.Dependencies())
	})
	// the analyses must not modify the program
	same := len(final) == len(p)
	for k := range final {
		same = same && k < len(p) && final[k] == p[k]
	}
	if !same {
		g.Notes = append(g.Notes, "VIOLATION: analyses modified the program "+join(cs, ";", "-"))
	}
	g.Line("c18", "calls", join(cs, ";", "-"), join(rs, ",", "-"), join(sn, ";", "_"), encOps(final),
		ch, fmt.Sprint(db), fmt.Sprint(ad), rd, dp)
}

func c18Product(g *Gen, a, b addchain.Chain) {
	a0, b0 := cloneInts(a), cloneInts(b)
	out := "panic"
	unch := false
	safe(func() {
		// the arguments are prefixes of longer chains the caller still owns (spare capacity behind
		// them): a result built by appending in place would overwrite the caller's elements
		fa, fb := c18Spare(a), c18Spare(b)
		a, b = fa[:len(a)], fb[:len(b)]
		c := addchain.Product(a, b)
		out = encInts(c)
		// a second call must not disturb the first result
		_ = addchain.Product(a, b)
		_ = addchain.Plus(c, big.NewInt(1))
		_ = addchain.Plus(c, big.NewInt(2))
		unch = equalInts(a0, a) && equalInts(b0, b) && c18SpareIntact(fa, len(a)) && c18SpareIntact(fb, len(b)) && out == encInts(c)
		c18Aliasing(g, "product", c, a0, a)
	})
	g.Line("c18", "product", encInts(a0), encInts(b0), out, b01(unch))
	g.Count("product")
}

func c18Plus(g *Gen, a addchain.Chain, x *big.Int) {
	a0, x0 := cloneInts(a), new(big.Int).Set(x)
	out := "panic"
	unch := false
	safe(func() {
		fa := c18Spare(a)
		a = fa[:len(a)]
		c := addchain.Plus(a, x)
		out = encInts(c)
		// further calls on the same argument must not disturb the first result
		_ = addchain.Plus(a, big.NewInt(1))
		_ = addchain.Plus(a, new(big.Int).Add(x, big.NewInt(1)))
		unch = equalInts(a0, a) && x0.Cmp(x) == 0 && c18SpareIntact(fa, len(a)) && out == encInts(c)
		c18Aliasing(g, "plus", c, a0, a)
	})
	g.Line("c18", "plus", encInts(a0), x0.String(), out, b01(unch))
	g.Count("plus")
}

// c18Spare returns a copy of a followed by three sentinel elements, so that a[:len(a)] has spare
// capacity that belongs to the caller.
func c18Spare(a addchain.Chain) addchain.Chain {
	f := make(addchain.Chain, 0, len(a)+3)
	f = append(f, a...)
	for i := 0; i < 3; i++ {
		f = append(f, big.NewInt(-777-int64(i)))
	}
	return f
}

func c18SpareIntact(f addchain.Chain, n int) bool {
	for i := 0; i < 3; i++ {
		if f[n+i] == nil || f[n+i].Cmp(big.NewInt(-777-int64(i))) != 0 {
			return false
		}
	}
	return true
}

// c18Aliasing records (statistics only, not part of the property) whether the
// result shares its *big.Int elements with the first argument: Chain.Clone is a
// shallow copy, so writing into an element of the result writes into a.
func c18Aliasing(g *Gen, what string, c, a0, a addchain.Chain) {
	for _, y := range c {
		y.Add(y, big.NewInt(1000003))
	}
	if !equalInts(a0, a) {
		g.Count(what + "-result-shares-elements-with-a")
	}
}

// c18Enum enumerates every call sequence of at most depth calls; operands(L)
// lists the operand values tried at program length L, shifts the shift amounts.
func c18Enum(g *Gen, depth int, operands func(L int) []int, shifts []uint, tag string) {
	var rec func(calls []c18Call, L int)
	rec = func(calls []c18Call, L int) {
		if len(calls) > 0 {
			c18Calls(g, calls)
			g.Count(tag)
		}
		if len(calls) == depth {
			return
		}
		ops := operands(L)
		ok := func(i int) bool { return i >= 0 && i <= L }
		for _, i := range ops {
			for _, j := range ops {
				nl := L
				if ok(i) && ok(j) {
					nl = L + 1
				}
				rec(append(calls[:len(calls):len(calls)], c18Call{kind: 'a', i: i, j: j}), nl)
			}
			nl := L
			if ok(i) {
				nl = L + 1
			}
			rec(append(calls[:len(calls):len(calls)], c18Call{kind: 'd', i: i}), nl)
			for _, s := range shifts {
				nl := L
				if ok(i) {
					nl = L + int(s)
				}
				rec(append(calls[:len(calls):len(calls)], c18Call{kind: 's', i: i, s: s}), nl)
			}
		}
	}
	rec(nil, 0)
}

func c18Full(L int) []int {
	r := []int{}
	for i := -1; i <= L+1; i++ {
		r = append(r, i)
	}
	return r
}

// c18Edge: the boundary operands only (below range, first, last valid, above range).
func c18Edge(L int) []int {
	if L == 0 {
		return []int{-1, 0, 1}
	}
	return []int{-1, L, L + 1}
}

func c18Random(g *Gen) {
	n := 20 + g.R.Intn(41)
	calls := []c18Call{}
	L := 0
	operand := func() int {
		switch g.R.Intn(20) {
		case 0:
			return -1 - g.R.Intn(3)
		case 1:
			return L + 1 + g.R.Intn(3)
		case 2:
			return L
		case 3:
			return 0
		}
		return g.R.Intn(L + 1)
	}
	ok := func(i int) bool { return i >= 0 && i <= L }
	for len(calls) < n {
		switch g.R.Intn(10) {
		case 0, 1, 2, 3, 4:
			i, j := operand(), operand()
			calls = append(calls, c18Call{kind: 'a', i: i, j: j})
			if ok(i) && ok(j) {
				L++
			}
		case 5, 6:
			i := operand()
			calls = append(calls, c18Call{kind: 'd', i: i})
			if ok(i) {
				L++
			}
		case 7, 8:
			i := operand()
			s := uint(1 + g.R.Intn(5))
			calls = append(calls, c18Call{kind: 's', i: i, s: s})
			if ok(i) {
				L += int(s)
			}
		case 9:
			if g.R.Intn(3) == 0 {
				// shift by zero: returns i unchecked, appends nothing
				calls = append(calls, c18Call{kind: 's', i: operand(), s: 0})
			} else {
				// long run of doublings of the newest element
				i := L
				s := uint(2 + g.R.Intn(4))
				calls = append(calls, c18Call{kind: 's', i: i, s: s})
				L += int(s)
			}
		}
	}
	c18Calls(g, calls)
	g.Count("random")
	// shift amounts beyond the range of a Go int, on an operand that does not exist (with a valid
	// operand such a call would legitimately append without end): the call must be refused at once and
	// leave the program unchanged. Judged here (the driver's models take shift amounts as small numbers).
	if g.R.Intn(8) == 0 && !g.notesViolation() {
		big := []uint{1 << 63, 1<<63 + 5, ^uint(0), 1 << 62, 1 << 31, 1 << 32}[g.R.Intn(6)]
		bad := []int{-1, -7, L + 1, L + 2, 1 << 20}[g.R.Intn(5)]
		p := addchain.Program{}
		for _, c := range calls {
			safe(func() { _, _ = c18Apply(&p, c) })
		}
		before := append(addchain.Program{}, p...)
		done := make(chan string, 1)
		go func() {
			var err error
			pn := safe(func() { _, err = p.Shift(bad, big) })
			switch {
			case pn != "":
				done <- "panic: " + pn
			case err == nil:
				done <- "accepted"
			default:
				done <- "refused"
			}
		}()
		res := "no answer within 5s"
		select {
		case res = <-done:
		case <-time.After(5 * time.Second):
		}
		same := len(before) == len(p)
		for k := range before {
			same = same && k < len(p) && before[k] == p[k]
		}
		if res != "refused" || (res == "refused" && !same) {
			g.Notes = append(g.Notes, fmt.Sprintf("VIOLATION: Program.Shift(%d, %d) on a program of %d operations: %s (program unchanged: %v)", bad, big, len(before), res, same))
		}
		g.Count("huge-shift-bad-operand")
	}
}

// c18Ascending enumerates the valid ascending chains of exactly the given length.
func c18Ascending(length int, f func(c []int64)) {
	validChains(length, 1<<40, func(c []int64) {
		for k := 1; k < len(c); k++ {
			if c[k-1] >= c[k] {
				return
			}
		}
		f(append([]int64{}, c...))
	})
}

func genC18(g *Gen) {
	// builder call sequences
	c18Calls(g, nil)
	c18Enum(g, g.pick(3, 4), c18Full, []uint{1, 2}, "exhaustive")
	if g.Thorough {
		c18Enum(g, 5, c18Edge, []uint{2}, "edge")
	} else {
		c18Enum(g, 4, c18Edge, []uint{1, 2}, "edge")
	}
	// shift by zero in isolation (documented behaviour only)
	for _, i := range []int{-2, -1, 0, 1, 2, 5} {
		c18Calls(g, []c18Call{{kind: 's', i: i, s: 0}})
		c18Calls(g, []c18Call{{kind: 'd', i: 0}, {kind: 's', i: i, s: 0}, {kind: 'a', i: 1, j: 0}})
	}
	for k := 0; k < g.pick(400, 4000); k++ {
		c18Random(g)
	}
	// product and plus on valid ascending chains
	chains := [][]int64{}
	for l := 1; l <= g.pick(6, 7); l++ {
		c18Ascending(l, func(c []int64) { chains = append(chains, c) })
	}
	g.Stats["ascending-chains"] = len(chains)
	for _, a := range chains {
		for _, b := range chains {
			c18Product(g, fromInt64s(a), fromInt64s(b))
		}
		for _, x := range a {
			c18Plus(g, fromInt64s(a), big.NewInt(x))
		}
		// a non-member, outside the property: correspondence only
		c18Plus(g, fromInt64s(a), big.NewInt(a[len(a)-1]+1))
	}
	// big values
	for k := 0; k < g.pick(200, 2000); k++ {
		a := c18RandomChain(g, 2+g.R.Intn(12))
		b := c18RandomChain(g, 2+g.R.Intn(12))
		c18Product(g, a, b)
		c18Plus(g, a, a[g.R.Intn(len(a))])
	}
	// empty arguments: the Go code panics; outside the property, correspondence only
	one := fromInt64s([]int64{1, 2})
	c18Product(g, addchain.Chain{}, one)
	c18Product(g, one, addchain.Chain{})
	c18Plus(g, addchain.Chain{}, big.NewInt(1))
}

// c18RandomChain returns a random valid ascending chain with large values.
func c18RandomChain(g *Gen, n int) addchain.Chain {
	c := addchain.Chain{big.NewInt(1)}
	for len(c) < n {
		last := c[len(c)-1]
		var s *big.Int
		if g.R.Intn(3) == 0 {
			s = new(big.Int).Lsh(last, 1)
		} else {
			s = new(big.Int).Add(last, c[g.R.Intn(len(c))])
		}
		if g.R.Intn(6) == 0 {
			// a run of doublings to reach big values
			for t := g.R.Intn(40); t > 0 && len(c) < n-1; t-- {
				c = append(c, s)
				s = new(big.Int).Lsh(s, 1)
			}
		}
		c = append(c, s)
	}
	return c
}
