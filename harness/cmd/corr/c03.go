package main

import (
	"encoding/hex"
	"errors"
	"fmt"
	"io"
	"os"
	"strings"
	"testing/iotest"
	"time"

	"github.com/mmcloughlin/addchain/acc"
	"github.com/mmcloughlin/addchain/acc/ast"
	"github.com/mmcloughlin/addchain/acc/ir"
	"github.com/mmcloughlin/addchain/acc/parse"
	"github.com/mmcloughlin/addchain/acc/pass"
)

// C03: loading a script yields the chain defined by grammar and semantics.
//
// Line: c03 <text hex> <parse: err | tree dump> <load: err | chain> <program | -> <error class> <ir: - | err | _ | dump>
//
// tree dump: statements joined by ';', each name=expr (empty name for the return statement), expr in prefix
// form A(x,y) S(x,n) D(x) O(i) I(name). ir dump (result of acc.Translate on the parsed tree): instructions joined
// by ';', each out=A(x,y) | out=D(x) | out=S(x,s) with Go-int indices; '_' for an empty instruction list.

func init() {
	props["C03"] = genC03
	replays["C03"] = func(g *Gen, f []string) {
		if len(f) < 2 {
			return
		}
		text := ""
		if f[1] != "-" {
			b, err := hex.DecodeString(f[1])
			if err != nil {
				return
			}
			text = string(b)
		}
		c03Case(g, text)
	}
}

func c03DumpExpr(b *strings.Builder, e ast.Expr) {
	switch e := e.(type) {
	case ast.Operand:
		fmt.Fprintf(b, "O(%d)", int(e))
	case ast.Identifier:
		fmt.Fprintf(b, "I(%s)", string(e))
	case ast.Add:
		b.WriteString("A(")
		c03DumpExpr(b, e.X)
		b.WriteString(",")
		c03DumpExpr(b, e.Y)
		b.WriteString(")")
	case ast.Shift:
		b.WriteString("S(")
		c03DumpExpr(b, e.X)
		fmt.Fprintf(b, ",%d)", e.S)
	case ast.Double:
		b.WriteString("D(")
		c03DumpExpr(b, e.X)
		b.WriteString(")")
	default:
		b.WriteString("?")
	}
}

func c03DumpTree(c *ast.Chain) string {
	if c == nil || len(c.Statements) == 0 {
		return "-"
	}
	var b strings.Builder
	for i, s := range c.Statements {
		if i > 0 {
			b.WriteString(";")
		}
		b.WriteString(string(s.Name))
		b.WriteString("=")
		c03DumpExpr(&b, s.Expr)
	}
	return b.String()
}

func c03DumpIR(p *ir.Program) string {
	if len(p.Instructions) == 0 {
		return "_"
	}
	parts := make([]string, len(p.Instructions))
	for k, i := range p.Instructions {
		switch op := i.Op.(type) {
		case ir.Add:
			parts[k] = fmt.Sprintf("%d=A(%d,%d)", i.Output.Index, op.X.Index, op.Y.Index)
		case ir.Double:
			parts[k] = fmt.Sprintf("%d=D(%d)", i.Output.Index, op.X.Index)
		case ir.Shift:
			parts[k] = fmt.Sprintf("%d=S(%d,%d)", i.Output.Index, op.X.Index, op.S)
		default:
			parts[k] = "?"
		}
	}
	return strings.Join(parts, ";")
}

func c03Class(err error) string {
	if err == nil {
		return "none"
	}
	m := err.Error()
	switch {
	case strings.Contains(m, "cannot redefine"):
		return "redefine"
	case strings.Contains(m, "undefined"):
		return "undefined"
	case strings.Contains(m, "negative index"):
		return "negindex"
	case strings.Contains(m, "out of bounds"):
		return "bounds"
	case strings.Contains(m, "incorrect output index"):
		return "outputindex"
	}
	return "other"
}

// c03Guard reports whether loading the parsed tree is cheap: the total number of chain elements it describes is
// small, and every large shift is applied directly to an index operand that is certainly out of range, so that
// Program.Shift fails on its first bounds check (a large shift of a valid element would not terminate in practice).
func c03Guard(c *ast.Chain) bool {
	total := 0
	ok := true
	var walk func(e ast.Expr)
	walk = func(e ast.Expr) {
		switch e := e.(type) {
		case ast.Add:
			walk(e.X)
			walk(e.Y)
			total++
		case ast.Double:
			walk(e.X)
			total++
		case ast.Shift:
			walk(e.X)
			if e.S > 4096 {
				o, isop := e.X.(ast.Operand)
				if !isop || (int(o) >= 0 && int(o) <= 100000) {
					ok = false
				}
			} else {
				total += int(e.S)
			}
		}
	}
	for _, s := range c.Statements {
		walk(s.Expr)
	}
	return ok && total <= 6000
}

// c03Case runs the real parser, translator and evaluator on text and writes one line.
func c03Case(g *Gen, text string) {
	var tree *ast.Chain
	var perr error
	if pn := safe(func() { tree, perr = parse.String(text) }); pn != "" {
		g.Line("c03", encHex(text), "panic", "err", "-", "other", "-")
		g.Count("parse-panic")
		return
	}
	if perr != nil {
		// parse failure: LoadString must fail as well
		var lerr error
		var lp *ir.Program
		pn := safe(func() { lp, lerr = acc.LoadString(text) })
		L := "err"
		if pn != "" {
			L = "panic"
		} else if lerr == nil && lp != nil {
			L = encInts(lp.Chain)
		}
		g.Line("c03", encHex(text), "err", L, "-", "parse", "-")
		return
	}
	if !c03Guard(tree) {
		g.Count("guard-skipped-large-shift")
		return
	}
	T := c03DumpTree(tree)
	// Translate separately for the IR dump.
	IR := "err"
	var terr error
	var tp *ir.Program
	if pn := safe(func() { tp, terr = acc.Translate(tree) }); pn != "" {
		IR = "panic"
	} else if terr == nil {
		IR = c03DumpIR(tp)
	}
	// The actual load.
	var lp *ir.Program
	var lerr error
	L, P, C := "err", "-", "none"
	if pn := safe(func() { lp, lerr = acc.LoadString(text) }); pn != "" {
		L, C = "panic", "other"
	} else if lerr != nil {
		C = c03Class(lerr)
	} else {
		L = encInts(lp.Chain)
		P = encOps(lp.Program)
		// cross-check: evaluating the separately translated program gives the same result
		if terr != nil {
			g.Notes = append(g.Notes, "LOADSTRING-OK-BUT-TRANSLATE-FAILED:"+encHex(text))
			L = "inconsistent"
		} else if err := pass.Eval(tp); err != nil || encInts(tp.Chain) != L || encOps(tp.Program) != P {
			g.Notes = append(g.Notes, "LOADSTRING-DIFFERS-FROM-TRANSLATE+EVAL:"+encHex(text))
			L = "inconsistent"
		}
	}
	g.Line("c03", encHex(text), T, L, P, C, IR)
	c03EntryPoints(g, text, T, L)
}

var c03TmpDir string

// c03EntryPoints: the public entry points that read the same bytes must agree — parse.String /
// parse.Reader / parse.File on the tree, acc.LoadString / acc.LoadReader / acc.LoadFile on the chain
// (a sample of the cases; a difference is a harness-side violation with the text as replay).
func c03EntryPoints(g *Gen, text string, T, L string) {
	if g.N%40 != 0 || g.notesViolation() || L == "inconsistent" {
		return
	}
	if c03TmpDir == "" {
		d, err := os.MkdirTemp("", "c03files")
		if err != nil {
			return
		}
		c03TmpDir = d
	}
	path := c03TmpDir + "/s.acc"
	if os.WriteFile(path, []byte(text), 0o644) != nil {
		return
	}
	tree := func(f func() (*ast.Chain, error)) string {
		var c *ast.Chain
		var err error
		if pn := safe(func() { c, err = f() }); pn != "" {
			return "panic"
		}
		if err != nil {
			return "err"
		}
		return c03DumpTree(c)
	}
	chain := func(f func() (*ir.Program, error)) string {
		var p *ir.Program
		var err error
		if pn := safe(func() { p, err = f() }); pn != "" {
			return "panic"
		}
		if err != nil {
			return "err"
		}
		return encInts(p.Chain)
	}
	tr := tree(func() (*ast.Chain, error) { return parse.Reader("s", strings.NewReader(text)) })
	tf := tree(func() (*ast.Chain, error) { return parse.File(path) })
	lr := chain(func() (*ir.Program, error) { return acc.LoadReader("s", strings.NewReader(text)) })
	lf := chain(func() (*ir.Program, error) { return acc.LoadFile(path) })
	g.Count("entry-points")
	readerFaultProbe(g, text, T, L)
	if tr != T || tf != T || lr != L || lf != L {
		g.Notes = append(g.Notes, fmt.Sprintf("VIOLATION: entry points disagree on text %s: parse.String %s / Reader %s / File %s; LoadString %s / LoadReader %s / LoadFile %s",
			encHex(text), T, tr, tf, L, lr, lf))
	}
}

// readerFaultProbe: the reader entry points under the readers the io.Reader contract allows -- data
// delivered together with io.EOF, one byte at a time, half reads -- must give what the string entry
// points give (T = tree dump or "" to skip, L = chain or "err"); a reader that FAILS half-way must make
// them return an error, never the tree or chain of the prefix read so far.
func readerFaultProbe(g *Gen, text string, T, L string) {
	if g.notesViolation() {
		return
	}
	tree := func(r io.Reader) string {
		var c *ast.Chain
		var err error
		if pn := safe(func() { c, err = parse.Reader("s", r) }); pn != "" {
			return "panic"
		}
		if err != nil {
			return "err"
		}
		return c03DumpTree(c)
	}
	chain := func(r io.Reader) string {
		var p *ir.Program
		var err error
		if pn := safe(func() { p, err = acc.LoadReader("s", r) }); pn != "" {
			return "panic"
		}
		if err != nil {
			return "err"
		}
		return encInts(p.Chain)
	}
	kinds := []struct {
		name string
		mk   func() io.Reader
	}{
		{"data-with-EOF", func() io.Reader { return iotest.DataErrReader(strings.NewReader(text)) }},
		{"one-byte", func() io.Reader { return iotest.OneByteReader(strings.NewReader(text)) }},
		{"half", func() io.Reader { return iotest.HalfReader(strings.NewReader(text)) }},
	}
	for _, k := range kinds {
		if T != "" {
			if got := tree(k.mk()); got != T {
				g.Notes = append(g.Notes, fmt.Sprintf("VIOLATION: parse.Reader on a %s reader gives %s, parse.String gives %s (text %s)", k.name, got, T, encHex(text)))
				return
			}
		}
		if got := chain(k.mk()); got != L {
			g.Notes = append(g.Notes, fmt.Sprintf("VIOLATION: acc.LoadReader on a %s reader gives %s, acc.LoadString gives %s (text %s)", k.name, got, L, encHex(text)))
			return
		}
	}
	g.Count("reader-kinds")
	// a read error after a prefix (cut at every third of the text and just before the end)
	for _, cut := range []int{len(text) / 3, 2 * len(text) / 3, len(text) - 1} {
		if cut <= 0 || cut >= len(text) {
			continue
		}
		failing := func() io.Reader {
			return io.MultiReader(strings.NewReader(text[:cut]), iotest.ErrReader(errors.New("injected read error")))
		}
		if got := tree(failing()); got != "err" {
			g.Notes = append(g.Notes, fmt.Sprintf("VIOLATION: parse.Reader returns %s although the reader failed after %d of %d bytes (text %s)", got, cut, len(text), encHex(text)))
			return
		}
		if got := chain(failing()); got != "err" {
			g.Notes = append(g.Notes, fmt.Sprintf("VIOLATION: acc.LoadReader returns the chain %s although the reader failed after %d of %d bytes (text %s)", got, cut, len(text), encHex(text)))
			return
		}
		g.Count("reader-fails-midway")
	}
}

// ---------------------------------------------------------------------------------------------------------
// script generator

type c03gen struct {
	g *Gen
	// generation state
	n       int      // number of chain elements computed so far (including the initial 1)
	defined []string // names defined so far
	later   []string // names of later statements (for the use-before-definition stream)
	// fault injection (each consumed at most once per script)
	wantUndefined bool
	wantLater     bool
	wantForward   bool
	forwardProb   int // per-mille probability that an index operand points at a not-yet-computed element
	shift0Prob    int // per-mille probability of a shift by 0
}

var c03Names = []string{"a", "b", "c", "x", "y", "t0", "t1", "x1", "_z", "i7", "Q", "tmp", "_", "k_2", "m", "w9", "acc", "v", "u", "n0",
	"DBLE", "Dblx", "E", "RETURNx", "ADDy", "Shl3", "return_value", "addend", "shlv"}

func (c *c03gen) r(n int) int { return c.g.R.Intn(n) }

func (c *c03gen) operand(allowIdent bool) ast.Expr {
	k := c.r(100)
	switch {
	case k < 25:
		return ast.Operand(0)
	case k < 60 && allowIdent:
		if c.wantUndefined && c.r(3) == 0 {
			c.wantUndefined = false
			return ast.Identifier("undef" + fmt.Sprint(c.r(10)))
		}
		if c.wantLater && len(c.later) > 0 && c.r(3) == 0 {
			c.wantLater = false
			return ast.Identifier(c.later[c.r(len(c.later))])
		}
		if len(c.defined) > 0 {
			return ast.Identifier(c.defined[c.r(len(c.defined))])
		}
		return ast.Operand(0)
	default:
		if c.r(1000) < c.forwardProb {
			return ast.Operand(c.n + c.r(3))
		}
		return ast.Operand(c.r(c.n))
	}
}

func (c *c03gen) shiftAmount() uint {
	k := c.r(1000)
	switch {
	case k < c.shift0Prob:
		return 0
	case k < 850:
		return uint(1 + c.r(5))
	case k < 980:
		return uint(6 + c.r(12))
	default:
		return uint(18 + c.r(70))
	}
}

// expr generates an expression of nesting depth at most d, updating c.n in evaluation order.
func (c *c03gen) expr(d int) ast.Expr {
	if d == 0 || c.r(100) < 25 {
		return c.operand(true)
	}
	return c.operator(d)
}

func (c *c03gen) operator(d int) ast.Expr {
	k := c.r(100)
	switch {
	case k < 45:
		if c.wantForward && c.r(2) == 0 {
			// an index operand that is exactly one past the computed elements when the addition executes
			c.wantForward = false
			y := c.operand(true)
			e := ast.Add{X: ast.Operand(c.n + c.r(2)), Y: y}
			if c.r(2) == 0 {
				e.X, e.Y = e.Y, e.X
			}
			c.n++
			return e
		}
		x := c.expr(d - 1)
		y := c.expr(d - 1)
		c.n++
		return ast.Add{X: x, Y: y}
	case k < 80:
		x := c.expr(d - 1)
		s := c.shiftAmount()
		if c.wantForward && c.r(2) == 0 {
			c.wantForward = false
			x = ast.Operand(c.n + c.r(2))
			if s == 0 {
				s = 1
			}
		}
		c.n += int(s)
		return ast.Shift{X: x, S: s}
	default:
		x := c.expr(d - 1)
		if c.wantForward && c.r(2) == 0 {
			c.wantForward = false
			x = ast.Operand(c.n + c.r(2))
		}
		c.n++
		return ast.Double{X: x}
	}
}

// script generates a statement list (the last statement is the return statement).
func (c *c03gen) script(maxStmts, depth int) []ast.Statement {
	c.n = 1
	c.defined = nil
	k := 1 + c.r(maxStmts)
	perm := make([]string, len(c03Names))
	copy(perm, c03Names)
	for i := len(perm) - 1; i > 0; i-- {
		j := c.r(i + 1)
		perm[i], perm[j] = perm[j], perm[i]
	}
	names := perm[:k-1]
	var out []ast.Statement
	for i := 0; i < k; i++ {
		// names that are not yet defined here: those of later statements and the statement's own
		c.later = nil
		if i < k-1 {
			c.later = names[i:]
		}
		var e ast.Expr
		q := c.r(100)
		switch {
		case q < 15 && len(c.defined) > 0 && i < k-1:
			e = ast.Identifier(c.defined[c.r(len(c.defined))]) // alias b = a
		case q < 20:
			e = c.operand(true) // bare operand statement
		default:
			e = c.operator(1 + c.r(depth))
		}
		name := ""
		if i < k-1 {
			name = names[i]
		}
		out = append(out, ast.Statement{Name: ast.Identifier(name), Expr: e})
		if i < k-1 {
			c.defined = append(c.defined, name)
		}
	}
	return out
}

// ---------------------------------------------------------------------------------------------------------
// renderer: every spelling the grammar admits

func (c *c03gen) ws() string {
	switch k := c.r(100); {
	case k < 45:
		return ""
	case k < 80:
		return " "
	case k < 88:
		return "\t"
	case k < 92:
		return "\r"
	case k < 96:
		return "  "
	default:
		return " \t\r "[c.r(3) : 3+c.r(2)]
	}
}

func (c *c03gen) ws1() string {
	switch k := c.r(100); {
	case k < 70:
		return " "
	case k < 85:
		return "\t"
	case k < 90:
		return "\r"
	default:
		return " " + c.ws()
	}
}

func (c *c03gen) lit(v uint64) string {
	switch k := c.r(100); {
	case k < 55:
		return fmt.Sprintf("%d", v)
	case k < 80:
		s := fmt.Sprintf("%x", v)
		if c.r(2) == 0 {
			s = strings.ToUpper(s)
		}
		if c.r(5) == 0 {
			s = strings.Repeat("0", 1+c.r(3)) + s
		}
		return "0x" + s
	default:
		s := fmt.Sprintf("%o", v)
		if c.r(5) == 0 {
			s = strings.Repeat("0", 1+c.r(2)) + s
		}
		return "0" + s
	}
}

func isIdentChar(b byte) bool {
	return b == '_' || (b >= '0' && b <= '9') || (b >= 'a' && b <= 'z') || (b >= 'A' && b <= 'Z')
}

// join puts a (possibly keyword) operator between l and r with legal whitespace.
func (c *c03gen) join(l, op, r string) string {
	kw := isIdentChar(op[0]) && op[0] != '2'
	lw, rw := c.ws(), c.ws()
	if kw {
		if l != "" && isIdentChar(l[len(l)-1]) && lw == "" {
			lw = c.ws1()
		}
		if r != "" && isIdentChar(r[0]) && rw == "" {
			rw = c.ws1()
		}
	}
	return l + lw + op + rw + r
}

// render level: 0 = AddExpr position, 1 = ShiftExpr position, 2 = BaseExpr position.
func (c *c03gen) render(e ast.Expr, level int) string {
	s := c.render1(e, level)
	for c.r(100) < 8 {
		s = "(" + c.ws() + s + c.ws() + ")"
	}
	return s
}

func (c *c03gen) paren(s string) string { return "(" + c.ws() + s + c.ws() + ")" }

func (c *c03gen) render1(e ast.Expr, level int) string {
	switch e := e.(type) {
	case ast.Operand:
		if int(e) == 0 && c.r(10) < 8 {
			return "1"
		}
		return "[" + c.ws() + c.lit(uint64(int(e))) + c.ws() + "]"
	case ast.Identifier:
		return string(e)
	case ast.Add:
		if level > 0 {
			return c.paren(c.render(e, 0))
		}
		op := "+"
		if c.r(3) == 0 {
			op = "add"
		}
		var l string
		if _, isadd := e.X.(ast.Add); isadd {
			l = c.render(e.X, 0)
		} else {
			l = c.render(e.X, 1)
		}
		return c.join(l, op, c.render(e.Y, 1))
	case ast.Shift:
		if level > 1 {
			return c.paren(c.render(e, 0))
		}
		op := "<<"
		if c.r(3) == 0 {
			op = "shl"
		}
		return c.join(c.render(e.X, 2), op, c.lit(uint64(e.S)))
	case ast.Double:
		if level > 1 {
			return c.paren(c.render(e, 0))
		}
		var op string
		switch c.r(4) {
		case 0:
			op = "dbl"
		case 1:
			op = "2*"
		case 2:
			op = "2 *"
		default:
			op = "2" + c.ws() + "*"
		}
		x := c.render(e.X, 2)
		if op == "dbl" {
			// `dbl` directly followed by an identifier character would lex as one identifier
			w := c.ws()
			if w == "" && isIdentChar(x[0]) {
				w = c.ws1()
			}
			return op + w + x
		}
		return op + c.ws() + x
	}
	return "?"
}

func (c *c03gen) renderScript(ss []ast.Statement) string {
	var b strings.Builder
	for i, s := range ss {
		b.WriteString(c.ws())
		if i < len(ss)-1 {
			b.WriteString(string(s.Name) + c.ws() + "=" + c.ws() + c.render(s.Expr, 0) + c.ws() + "\n")
			continue
		}
		if c.r(3) != 0 {
			b.WriteString("return" + c.ws1())
		}
		b.WriteString(c.render(s.Expr, 0) + c.ws())
		if c.r(2) == 0 {
			b.WriteString("\n" + c.ws())
		}
	}
	return b.String()
}

func genC03(g *Gen) {
	defer func() {
		if c03TmpDir != "" {
			os.RemoveAll(c03TmpDir)
		}
	}()
	c := &c03gen{g: g}
	scale := g.pick(1, 10)

	// 0. fixed corner cases (Appendix B list)
	for _, s := range []string{
		"return [5]", "x = 1\nreturn x", "x = [7]\nreturn x", "x = [7]\nreturn x + 1", "1", "[0]", "return 1", "1 << 0", "return [0] << 0",
		"a = 1 << 0\nreturn a", "a = 1 + 1\nreturn a << 0", "a = 1 + 1\nb = 1 + 1\nreturn a << 0", "return [1] << 0",
		"a = 1 << 3\nreturn a << 0 + [2]", "[1] + (1 + 1)", "(1 + 1) + [1]", "[2] + (1 + 1)", "[1] + 1",
		"a = 1 + 1\nb = a\nreturn b + a", "a = 1 + 1\nb = a\nc = b\nreturn c << 2 + b + a", "a = 1\nb = a\nreturn a + b",
		"[18446744073709551615] + 1", "return [18446744073709551615]", "1 + [18446744073709551615]",
		"2 * [18446744073709551615]", "[18446744073709551615] << 1", "[18446744073709551615] << 0",
		"[9223372036854775807] + 1", "[9223372036854775808] + 1", "[18446744073709551616] + 1", "1 << 18446744073709551616",
		"[200000] << 9223372036854775808", "[200000] << 18446744073709551615", "[200000] << 9223372036854775807",
		"[18446744073709551615] << 18446744073709551615", "a = [200000] << 18446744073709551615\nreturn 1 + 1",
		"a = 1 + 1\nb = [200000] << 18446744073709551614\nreturn a + 1", "x = [300000] << 0xffffffffffffffff\nreturn x",
		"a = 1 << 3\nreturn a + [2]", "a = 1 shl 3\nreturn a add [2]", "return dbl 1", "return 2*1 + 1", "return 2 * (1 + 1)",
		"a = 1 + 1\na = a + 1\nreturn a", "a = b + 1\nb = 1 + 1\nreturn a", "return a", "return = 1", "a = 1 + 1\nreturn", "",
		"a = 1 + 1\n", "return 1 + 1\nreturn 1", "1 + 1\n1", "a = 2 * 1\nreturn a + [1] + [2] + [3]", "a = 2 * 1\nreturn a + [1] + [2] + [4]",
		"return 1 + 1 + 1 + 1", "return 1 + (1 + (1 + 1))", "return ((1 + 1) + 1) << 010", "return ((1 + 1) + 1) << 0x10",
		"x = 1 << 08\nreturn x", "return [08]", "return 1 << 4 + [3]", "return 1 << 4 + [5]",
		"a = 1 + 1\n = a + 1", "a=1+1\r\nreturn a", "a=1+1\n\nreturn a", "\treturn\t1\t", "returnx", "return1", "return (1)",
		"x = 1 + 1\nreturn x + x << 1", "_ = 1 + 1\n__ = _ + 1\nreturn __ + _",
		// a statement that uses its own name
		"x = x + 1\nreturn x << 2", "acc = acc shl 5 add 1\nreturn acc", "a = 1 + 1\nb = (a + b) + 1\nreturn b", "x = x\nreturn x", "x = 2*x\nreturn x + 1",
	} {
		c03Case(g, s)
		g.Count("fixed")
	}

	// 0b. long inputs: the last token lies beyond 64 KiB and beyond 1 MiB (every tier), beyond 4 MiB (thorough tier) — an input limit, a fixed-size buffer or a work cap
	// silently evaluates a prefix
	sizes := []int{65536, 1 << 20}
	if g.Thorough {
		sizes = append(sizes, 1<<22)
	}
	for _, n := range sizes {
		head := "x = 1 + 1\nreturn x"
		t0 := time.Now()
		c03Case(g, head+strings.Repeat(" ", n-len(head))+"+ x\n")
		c03Case(g, head+" + "+strings.Repeat("(", 3)+strings.Repeat(" ", n-len(head))+"x"+strings.Repeat(")", 3)+" + x\n")
		g.Count("long-input")
		g.Stats[fmt.Sprintf("long-input-%d-ms", n)] = int(time.Since(t0) / time.Millisecond)
	}

	// 1. generated well-formed scripts
	for i := 0; i < 20000*scale; i++ {
		c.forwardProb, c.shift0Prob = 15, 15
		c.wantUndefined, c.wantLater, c.wantForward = false, false, false
		ss := c.script(6, 5)
		c03Case(g, c.renderScript(ss))
		g.Count("wellformed")
	}
	// 1b. scripts with many index operands into the middle of shifts, and zero shifts
	for i := 0; i < 3000*scale; i++ {
		c.forwardProb, c.shift0Prob = 60, 120
		ss := c.script(4, 3)
		c03Case(g, c.renderScript(ss))
		g.Count("wellformed-idx-shift0")
	}

	// 2. rejection classes
	nrej := 600 * scale
	for i := 0; i < nrej; i++ { // undefined name
		c.forwardProb, c.shift0Prob = 0, 0
		for try := 0; try < 50; try++ {
			c.wantUndefined = true
			ss := c.script(5, 4)
			if !c.wantUndefined {
				c03Case(g, c.renderScript(ss))
				g.Count("rej-undefined")
				break
			}
		}
		c.wantUndefined = false
	}
	for i := 0; i < nrej; i++ { // name used before its definition
		for try := 0; try < 50; try++ {
			c.wantLater = true
			ss := c.script(6, 4)
			if !c.wantLater {
				c03Case(g, c.renderScript(ss))
				g.Count("rej-use-before-def")
				break
			}
		}
		c.wantLater = false
	}
	for i := 0; i < nrej; i++ { // redefinition
		ss := c.script(6, 4)
		for len(ss) < 3 {
			ss = c.script(6, 4)
		}
		a, b := c.r(len(ss)-1), c.r(len(ss)-1)
		for a == b {
			b = c.r(len(ss) - 1)
		}
		if a > b {
			a, b = b, a
		}
		ss[b].Name = ss[a].Name
		c03Case(g, c.renderScript(ss))
		g.Count("rej-redefinition")
	}
	for i := 0; i < nrej; i++ { // forward index
		for try := 0; try < 50; try++ {
			c.wantForward = true
			ss := c.script(5, 4)
			if !c.wantForward {
				c03Case(g, c.renderScript(ss))
				g.Count("rej-forward-index")
				break
			}
		}
		c.wantForward = false
	}
	for i := 0; i < nrej; i++ { // duplicate return
		s1 := c.renderScript(c.script(4, 3))
		s2 := c.renderScript(c.script(1, 3))
		if !strings.HasSuffix(strings.TrimRight(s1, " \t\r"), "\n") {
			s1 += "\n"
		}
		c03Case(g, s1+s2)
		g.Count("rej-duplicate-return")
	}
	for i := 0; i < nrej; i++ { // missing return
		ss := c.script(5, 3)
		var b strings.Builder
		for _, s := range ss[:len(ss)-1] {
			b.WriteString(c.ws() + string(s.Name) + c.ws() + "=" + c.ws() + c.render(s.Expr, 0) + c.ws() + "\n")
		}
		switch c.r(4) {
		case 0:
			b.WriteString(c.ws())
		case 1:
			b.WriteString("return" + c.ws())
		case 2:
			b.WriteString("return" + c.ws() + "\n")
		}
		c03Case(g, b.String())
		g.Count("rej-missing-return")
	}
	garbage := " \t\r\n()[]=+*<>_,;:-#/\\\"'abxyzRADS129"
	for i := 0; i < nrej*3; i++ { // garbage: mutations of valid scripts and character soup
		c.forwardProb, c.shift0Prob = 10, 10
		var s string
		if c.r(4) == 0 {
			n := c.r(12)
			bs := make([]byte, n)
			for j := range bs {
				if c.r(12) == 0 {
					bs[j] = byte(c.r(256))
				} else {
					bs[j] = garbage[c.r(len(garbage)-3)]
				}
			}
			s = string(bs)
		} else {
			s = c.renderScript(c.script(4, 3))
			for m := 1 + c.r(2); m > 0 && len(s) > 0; m-- {
				p := c.r(len(s))
				if c.r(2) == 0 {
					s = s[:p] + s[p+1:] // deletion
				} else {
					ch := garbage[c.r(len(garbage)-3)] // never a digit
					s = s[:p] + string(ch) + s[p:]
				}
			}
		}
		c03Case(g, s)
		g.Count("garbage")
	}

	// 3. wrap-around stream: huge index payloads and huge shifts of out-of-range operands
	huge := []string{"18446744073709551615", "18446744073709551614", "9223372036854775808", "9223372036854775807", "9223372036854775809",
		"0xffffffffffffffff", "0x8000000000000000", "01777777777777777777777", "4611686018427387904", "13835058055282163712"}
	for i := 0; i < 300*scale; i++ {
		c.forwardProb, c.shift0Prob = 0, 0
		ss := c.script(4, 3)
		pre := ""
		for _, s := range ss[:len(ss)-1] {
			pre += string(s.Name) + " = " + c.render(s.Expr, 0) + "\n"
		}
		h := huge[c.r(len(huge))]
		far := []string{"[100001]", "[200000]", "[" + huge[c.r(len(huge))] + "]"}[c.r(3)]
		var last string
		switch c.r(6) {
		case 0:
			last = far + " << " + h
		case 1:
			last = "[" + h + "] + " + c.render(ss[len(ss)-1].Expr, 1)
		case 2:
			last = c.render(ss[len(ss)-1].Expr, 1) + " + [" + h + "]"
		case 3:
			last = "2 * [" + h + "]"
		case 4:
			last = "(" + far + " shl " + h + ") + 1"
		default:
			last = "[" + h + "]"
		}
		if c.r(2) == 0 && len(ss) > 1 {
			// huge shift in an assignment, followed by ordinary statements
			c03Case(g, "q_ = "+far+" << "+h+"\n"+pre+"return "+c.render(ss[len(ss)-1].Expr, 0))
		} else {
			c03Case(g, pre+"return "+last)
		}
		g.Count("wrap")
	}

	// 4. every token sequence up to a length bound
	toks := []string{"1", "[1]", "[2]", "a", "b", "=", "+", "<<", "2*", "(", ")", "\n", "2", "return"}
	maxLen := g.pick(4, 5)
	var rec func(seq []string)
	rec = func(seq []string) {
		c03Case(g, strings.Join(seq, " "))
		g.Count("tokens")
		if len(seq) == maxLen {
			return
		}
		for _, t := range toks {
			rec(append(seq, t))
		}
	}
	rec(nil)
}
