package main

import (
	"fmt"
	"math/big"
	"runtime"
	"sort"
	"strings"

	"github.com/mmcloughlin/addchain"
	"github.com/mmcloughlin/addchain/alg"
	"github.com/mmcloughlin/addchain/alg/binary"
	"github.com/mmcloughlin/addchain/alg/dict"
	"github.com/mmcloughlin/addchain/alg/ensemble"
	"github.com/mmcloughlin/addchain/alg/exec"
	"github.com/mmcloughlin/addchain/alg/opt"
)

func init() {
	props["C01"] = genC01
	replays["C01"] = func(g *Gen, f []string) {
		if len(f) >= 3 {
			n, _ := new(big.Int).SetString(f[2], 10)
			c01Case(g, parseConfig(f[1]), n)
		}
	}
}

// config is one chain-algorithm configuration with its stages exposed.
type config struct {
	code string // opt/dict/s4/hr.U.H.D, runs/cf.binary, seq/cf.sqrt, bin
	alg  alg.ChainAlgorithm
	dec  dict.Decomposer       // dictionary algorithms
	seq  alg.SequenceAlgorithm // dictionary, runs, seq
	kind string                // bin, seq, dict, runs
}

func decompCode(c string) dict.Decomposer {
	var k, t uint
	switch c[0] {
	case 'f':
		fmt.Sscanf(c[1:], "%d", &k)
		return dict.FixedWindow{K: k}
	case 's':
		fmt.Sscanf(c[1:], "%d", &k)
		return dict.SlidingWindow{K: k}
	case 'r':
		fmt.Sscanf(c[1:], "%d", &t)
		return dict.RunLength{T: t}
	default:
		fmt.Sscanf(c[1:], "%d_%d", &k, &t)
		return dict.Hybrid{K: k, T: t}
	}
}

func parseConfig(code string) config {
	parts := strings.Split(code, "/")
	cfg := config{code: code}
	wrap := false
	if parts[0] == "opt" {
		wrap = true
		parts = parts[1:]
	}
	cfg.kind = parts[0]
	switch parts[0] {
	case "bin":
		cfg.alg = binary.RightToLeft{}
	case "seq":
		cfg.seq = seqAlg(parts[1])
		cfg.alg = alg.AsChainAlgorithm(cfg.seq)
	case "dict":
		cfg.dec = decompCode(parts[1])
		cfg.seq = seqAlg(parts[2])
		cfg.alg = dict.NewAlgorithm(cfg.dec, cfg.seq)
	case "runs":
		cfg.seq = seqAlg(parts[1])
		cfg.alg = dict.NewRunsAlgorithm(cfg.seq)
	default:
		panic("bad config " + code)
	}
	if wrap {
		cfg.alg = opt.Algorithm{Algorithm: cfg.alg}
	}
	return cfg
}

// ensembleCodes mirrors the structure of ensemble.Ensemble(); the generator checks
// that the names of the algorithms built from these codes are exactly the names
// ensemble.Ensemble() returns, in order.
func ensembleCodes() []string {
	seqs := []string{"hr.U.H.D", "hr.U.H.A", "cf.binary", "cf.co_binary", "cf.dichotomic"}
	decs := []string{}
	for k := 4; k <= 128; k *= 2 {
		decs = append(decs, fmt.Sprintf("s%d", k))
	}
	decs = append(decs, "r0")
	for t := 16; t <= 128; t *= 2 {
		decs = append(decs, fmt.Sprintf("r%d", t))
	}
	for k := 2; k <= 8; k++ {
		decs = append(decs, fmt.Sprintf("h%d_0", k))
		for t := 16; t <= 64; t *= 2 {
			decs = append(decs, fmt.Sprintf("h%d_%d", k, t))
		}
	}
	codes := []string{}
	for _, d := range decs {
		for _, s := range seqs {
			codes = append(codes, "opt/dict/"+d+"/"+s)
		}
	}
	for _, s := range seqs {
		codes = append(codes, "opt/runs/"+s)
	}
	return codes
}

// stagewise recomputes the dictionary/runs pipeline stage by stage and returns the
// order of the rebuilt sum after primitive's sort.Slice (the model's oracle) and the
// final chain.
func stagewise(cfg config, n *big.Int) (oracle dict.Sum, final addchain.Chain, ok bool) {
	oracle, final, _, ok = stagewiseDS(cfg, n)
	return
}

// stagewiseDS also returns the `c01ds` line: the input and output of the dictsumchain call (the driver runs
// the function as translated from dict.go on the same sum)
func stagewiseDS(cfg config, n *big.Int) (oracle dict.Sum, final addchain.Chain, ds []string, ok bool) {
	var sum dict.Sum
	var c addchain.Chain
	var err error
	switch cfg.kind {
	case "dict":
		sum = cfg.dec.Decompose(n)
		sum.SortByExponent()
		c, err = cfg.seq.FindSequence(sum.Dictionary())
		if err != nil {
			return nil, nil, nil, false
		}
	case "runs":
		sum = dict.RunLength{T: 0}.Decompose(n)
		runs := sum.Dictionary()
		lengths := []*big.Int{}
		for _, r := range runs {
			lengths = append(lengths, big.NewInt(int64(r.BitLen())))
		}
		lc, err := cfg.seq.FindSequence(lengths)
		if err != nil {
			return nil, nil, nil, false
		}
		c, err = dict.RunsChain(lc)
		if err != nil {
			return nil, nil, nil, false
		}
	default:
		return nil, nil, nil, false
	}
	out, pruned, err := dict.VerifPrimitive(sum, c)
	if err != nil {
		return nil, nil, nil, false
	}
	if len(sum) > 1 {
		oracle = out
	}
	dc := dict.VerifDictSumChain(out)
	if len(out) > 0 {
		ds = []string{"c01ds", encTerms(out), encInts(dc)}
	}
	all := append(append(addchain.Chain{}, pruned...), dc...)
	sort.Slice(all, func(i, j int) bool { return all[i].Cmp(all[j]) < 0 })
	for _, x := range all {
		if len(final) == 0 || final[len(final)-1].Cmp(x) != 0 {
			final = append(final, x)
		}
	}
	if strings.HasPrefix(cfg.code, "opt/") {
		final, err = opt.Optimize(final)
		if err != nil {
			return nil, nil, nil, false
		}
	}
	return oracle, final, ds, true
}

func c01Case(g *Gen, cfg config, n *big.Int) {
	g.Parallel([]func() []string{func() []string { return c01Fields(cfg, n) }})
	g.Count(cfg.kind)
}

func c01Fields(cfg config, n *big.Int) []string {
	before := new(big.Int).Set(n)
	var r, r2 exec.Result
	out, prog := "err", "-"
	endok := false
	if p := safe(func() { r = exec.Execute(n, cfg.alg) }); p != "" {
		out = "panic"
	} else {
		if r.Chain != nil && r.Program != nil {
			out = encInts(r.Chain)
			prog = encOps(r.Program)
			endok = r.Err == nil
		}
		if r.Err != nil && out == "err" {
			out = "err"
		}
	}
	unch := before.Cmp(n) == 0
	// determinism: a second run gives the same chain
	det := true
	if p := safe(func() { r2 = exec.Execute(new(big.Int).Set(before), cfg.alg) }); p == "" {
		det = equalInts(r.Chain, r2.Chain) && (r.Err == nil) == (r2.Err == nil)
	}
	oracle := "-"
	stage := "1"
	var ds []string
	if cfg.kind == "dict" || cfg.kind == "runs" {
		var o dict.Sum
		var fin addchain.Chain
		okS := false
		_ = ds
		safe(func() { o, fin, ds, okS = stagewiseDS(cfg, new(big.Int).Set(before)) })
		if okS {
			oracle = encTerms(o)
			stage = b01(r.Chain != nil && equalInts(fin, r.Chain))
		} else {
			stage = b01(r.Chain == nil)
		}
	}
	line := []string{"c01", cfg.code, before.String(), oracle, out, prog, b01(endok), b01(unch), b01(det), stage}
	if ds != nil {
		line = append(append(line, "\n"), ds...)
	}
	return line
}

func genC01(g *Gen) {
	// tie: the harness's mirror of the ensemble is exactly the ensemble
	ens := ensemble.Ensemble()
	codes := ensembleCodes()
	okNames := len(ens) == len(codes)
	for i := 0; okNames && i < len(ens); i++ {
		if parseConfig(codes[i]).alg.String() != ens[i].String() {
			okNames = false
			g.Notes = append(g.Notes, fmt.Sprintf("VIOLATION: ensemble member %d is %s, mirror has %s", i, ens[i], parseConfig(codes[i]).alg))
		}
	}
	if len(ens) != len(codes) {
		g.Notes = append(g.Notes, fmt.Sprintf("VIOLATION: ensemble has %d members, mirror has %d", len(ens), len(codes)))
	}
	ensCfg := make([]config, len(codes))
	for i, c := range codes {
		ensCfg[i] = parseConfig(c)
	}
	// extra configurations
	extra := []string{"bin", "opt/bin"}
	logSeqs := []string{"cf.binary", "cf.co_binary", "cf.dichotomic", "cf.sqrt", "hr.U.H.D", "hr.U.H.A"}
	for _, s := range logSeqs {
		extra = append(extra, "seq/"+s, "opt/seq/"+s, "runs/"+s)
	}
	for _, K := range []int{1, 2, 3, 5, 7} {
		for _, s := range []string{"cf.dichotomic", "hr.U.H.D"} {
			extra = append(extra, fmt.Sprintf("dict/f%d/%s", K, s), fmt.Sprintf("dict/s%d/%s", K, s), fmt.Sprintf("opt/dict/f%d/%s", K, s))
			for _, T := range []int{0, 1, 2, 3, K, K + 1} {
				extra = append(extra, fmt.Sprintf("dict/h%d_%d/%s", K, T, s))
			}
		}
	}
	for _, T := range []int{0, 1, 2, 3, 7} {
		extra = append(extra, fmt.Sprintf("dict/r%d/cf.binary", T), fmt.Sprintf("dict/r%d/hr.U.H.A", T))
	}
	smallOnly := []string{"seq/cf.total", "seq/cf.dyadic", "seq/cf.fermat", "seq/hr.D", "seq/hr.A", "dict/s3/cf.dyadic", "dict/s3/cf.fermat", "dict/f4/hr.D", "dict/h3_0/hr.A", "runs/cf.dyadic", "runs/hr.D"}
	extraCfg := []config{}
	for _, c := range extra {
		extraCfg = append(extraCfg, parseConfig(c))
	}
	smallCfg := []config{}
	for _, c := range smallOnly {
		smallCfg = append(smallCfg, parseConfig(c))
	}
	tasks := []func() []string{}
	add := func(cfg config, n *big.Int) {
		n = new(big.Int).Set(n)
		tasks = append(tasks, func() []string { return c01Fields(cfg, n) })
		g.Count(cfg.kind)
	}
	// every small n x all configurations
	maxn := int64(g.pick(64, 256))
	for n := int64(1); n <= maxn; n++ {
		for _, cfg := range ensCfg {
			add(cfg, big.NewInt(n))
		}
	}
	for n := int64(1); n <= int64(g.pick(200, 1000)); n++ {
		for _, cfg := range extraCfg {
			add(cfg, big.NewInt(n))
		}
		for _, cfg := range smallCfg {
			if cfg.code == "seq/cf.total" && n > 40 {
				continue
			}
			add(cfg, big.NewInt(n))
		}
	}
	// structured values up to 1024 bits x ensemble (+ extras on a subset)
	for i := 0; i < g.pick(30, 80); i++ {
		K := uint(1 + g.R.Intn(8))
		T := uint(g.R.Intn(20))
		if g.R.Intn(3) == 0 {
			K = uint(4 << uint(g.R.Intn(6)))
			T = uint(16 << uint(g.R.Intn(4)))
		}
		maxbits := 300
		if g.Thorough {
			// every fourth target up to the documented 1024 bits (a 1024-bit case line carries ~0.3 MB
			// of stage-wise data; the driver re-validates every chain)
			maxbits = 400
			if i%4 == 0 {
				maxbits = 1024
			}
		}
		x := structured(g, 1, maxbits, K, T)[0]
		for _, cfg := range ensCfg {
			add(cfg, x)
		}
		for _, cfg := range extraCfg {
			add(cfg, x)
		}
	}
	// targets made of several runs of ones of assorted lengths (what the runs algorithms and
	// run-length/hybrid decomposers branch on): every runs configuration + a slice of the ensemble
	runsCfg := []config{}
	for _, cfg := range append(append([]config{}, ensCfg...), extraCfg...) {
		if cfg.kind == "runs" {
			runsCfg = append(runsCfg, cfg)
		}
	}
	for i := 0; i < g.pick(250, 8000); i++ {
		x := new(big.Int)
		nr := 3 + g.R.Intn(6)
		maxlen := 48
		if g.R.Intn(3) == 0 {
			maxlen = 24
		}
		for r := 0; r < nr; r++ {
			l := uint(1 + g.R.Intn(maxlen))
			x.Lsh(x, l)
			x.Or(x, new(big.Int).Sub(new(big.Int).Lsh(big.NewInt(1), l), big.NewInt(1)))
			if r+1 < nr {
				x.Lsh(x, uint(1+g.R.Intn(2)))
			}
		}
		if g.R.Intn(4) == 0 {
			x.Lsh(x, uint(g.R.Intn(5)))
		}
		if g.Thorough && i >= 1000 {
			// the long tail: only the two configurations most sensitive to chain order
			add(parseConfig("runs/hr.U.H.A"), x)
			add(parseConfig("opt/runs/hr.U.H.A"), x)
			continue
		}
		for _, cfg := range runsCfg {
			add(cfg, x)
		}
		for j := 0; j < 6; j++ {
			add(ensCfg[g.R.Intn(len(ensCfg))], x)
		}
	}
	// a small top term, a long run of zeros, then one dense window: the doublings dictsumchain makes from the
	// top term (2, 4, 8, …) re-create small elements the dictionary chain already holds, so the final
	// sort + unique has duplicates to remove — on every dictionary configuration, small and wide windows
	dictCfg := []config{}
	for _, cfg := range append(append([]config{}, ensCfg...), extraCfg...) {
		if cfg.kind == "dict" {
			dictCfg = append(dictCfg, cfg)
		}
	}
	for _, c := range []string{"dict/s10/cf.dichotomic", "dict/s12/cf.dichotomic", "dict/s16/hr.U.H.D", "dict/f10/cf.dichotomic", "dict/h10_0/cf.dichotomic", "opt/dict/s10/cf.dichotomic"} {
		dictCfg = append(dictCfg, parseConfig(c))
	}
	for i := 0; i < g.pick(5, 24); i++ {
		w := uint(6 + g.R.Intn(12))
		low := g.R.Bits(int(w))
		low.SetBit(low, int(w)-1, 1)
		low.SetBit(low, 0, 1)
		low.Lsh(low, uint(g.R.Intn(6)))
		x := new(big.Int).Lsh(big.NewInt(int64(1+2*g.R.Intn(2))), uint(low.BitLen()+4+g.R.Intn(40)))
		x.Add(x, low)
		if i == 0 {
			x = big.NewInt(34359755360) // 2^35 + a 15-bit window: doublings of the top term meet 16 in the dictionary chain
		}
		for _, cfg := range dictCfg {
			add(cfg, x)
		}
	}
	g.Parallel(tasks)
	c01ViaParallel(g, ens)
	c01History(g, append(append([]config{}, ensCfg...), extraCfg...))
}

// c01History uses ONE algorithm object per configuration the way a long-lived caller does: the caller's
// target object is reused for another value, a target congruent to the first modulo 2^64 is requested,
// and then the first request is repeated. The answer must be the one a fresh object gives, and the one
// given the first time (no state may survive a call).
func c01History(g *Gen, cfgs []config) {
	two64 := new(big.Int).Lsh(big.NewInt(1), 64)
	run := func(a alg.ChainAlgorithm, n *big.Int) (addchain.Chain, string) {
		var r exec.Result
		if p := safe(func() { r = exec.Execute(n, a) }); p != "" {
			return nil, "panic"
		}
		if r.Err != nil {
			return nil, "err"
		}
		return r.Chain, "ok"
	}
	for i, cfg := range cfgs {
		if !g.Thorough && i%4 != g.N%4 && cfg.kind == "dict" {
			continue // a quarter of the dictionary configurations per quick run
		}
		obj := parseConfig(cfg.code).alg
		v := int64(3 + g.R.Intn(4000))
		n := big.NewInt(v)
		first, st1 := run(obj, n)
		firstCopy := cloneInts(first)
		n.SetInt64(v + 1 + int64(g.R.Intn(50)))
		run(obj, n)
		run(obj, new(big.Int).Add(big.NewInt(v), two64))
		run(obj, new(big.Int).Add(big.NewInt(5), two64))
		run(obj, big.NewInt(5))
		again, st2 := run(obj, big.NewInt(v))
		fresh, st3 := run(parseConfig(cfg.code).alg, big.NewInt(v))
		g.Count("history")
		if st2 != st3 || st1 != st3 || !equalInts(again, fresh) || !equalInts(firstCopy, fresh) {
			g.Notes = append(g.Notes, fmt.Sprintf("VIOLATION: %s on n=%d after earlier calls on the same object: %s %s; first call %s %s; fresh object %s %s",
				cfg.code, v, st2, encInts(again), st1, encInts(firstCopy), st3, encInts(fresh)))
			return
		}
	}
}

// c01ViaParallel runs members of the ensemble the way the CLI does — through exec.Parallel — and
// compares every slot with exec.Execute of that algorithm alone: no error, same chain, same program.
// Small limits and a single processor make the executor's completion logic matter.
func c01ViaParallel(g *Gen, ens []alg.ChainAlgorithm) {
	for t := 0; t < g.pick(24, 200); t++ {
		n := big.NewInt(int64(2 + g.R.Intn(5000)))
		if t%4 == 0 {
			n = g.R.Bits(64 + g.R.Intn(120))
			n.SetBit(n, 0, 1)
		}
		k := 1 + g.R.Intn(4)
		as := make([]alg.ChainAlgorithm, k)
		for i := range as {
			as[i] = ens[g.R.Intn(len(ens))]
		}
		limit := []int{1, 1, 2, k, k + 3}[t%5]
		procs := []int{1, 2, 0}[t%3]
		var rs []exec.Result
		msg := ""
		func() {
			if procs > 0 {
				defer runtime.GOMAXPROCS(runtime.GOMAXPROCS(procs))
			}
			p := exec.NewParallel()
			p.SetConcurrency(limit)
			msg = safe(func() { rs = p.Execute(n, as) })
		}()
		g.Count("via-parallel")
		bad := ""
		if msg != "" {
			bad = "panic: " + msg
		} else if len(rs) != k {
			bad = fmt.Sprintf("%d results for %d algorithms", len(rs), k)
		} else {
			for i := range rs {
				want := exec.Execute(n, as[i])
				switch {
				case rs[i].Err != nil:
					bad = fmt.Sprintf("slot %d reports error %v", i, rs[i].Err)
				case want.Err != nil:
				case !equalInts(rs[i].Chain, want.Chain) || len(rs[i].Program) != len(want.Program):
					bad = fmt.Sprintf("slot %d: chain %s, alone %s", i, encInts(rs[i].Chain), encInts(want.Chain))
				}
			}
		}
		if bad != "" {
			g.Notes = append(g.Notes, fmt.Sprintf("VIOLATION: exec.Parallel (limit %d, GOMAXPROCS %d) on n=%v with %d ensemble members: %s", limit, procs, n, k, bad))
			return
		}
	}
}
