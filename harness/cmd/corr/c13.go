package main

import (
	"bytes"
	"encoding/hex"
	"fmt"
	"math/big"
	"strings"
	"time"

	"github.com/mmcloughlin/addchain/verifhooks"
)

func init() {
	props["C13"] = genC13
	replays["C13"] = func(g *Gen, f []string) {
		if len(f) < 2 {
			return
		}
		expr := ""
		if f[1] != "-" {
			b, err := hex.DecodeString(f[1])
			if err != nil {
				return
			}
			expr = string(b)
		}
		c13Case(g, expr)
	}
}

// A calc.Eval call that does not return is an outcome of that case (`timeout`), not a harness
// failure: every call runs on a worker goroutine with a per-case budget. On expiry the worker is
// abandoned (its goroutine is leaked) and a fresh one is started; after c13MaxTimeouts expiries no
// further case containing '^' is evaluated, so abandoned workers cannot pile up.
const (
	c13Budget      = 2 * time.Second
	c13MaxTimeouts = 8
)

type c13Result struct {
	x        *big.Int
	err      error
	panicked string
}

type c13Worker struct {
	in  chan string
	out chan c13Result
}

var (
	c13W        *c13Worker
	c13Timeouts int
)

func c13NewWorker() *c13Worker {
	w := &c13Worker{in: make(chan string), out: make(chan c13Result, 1)}
	go func() {
		for expr := range w.in {
			var r c13Result
			r.panicked = safe(func() { r.x, r.err = verifhooks.CalcEval(expr) })
			w.out <- r
		}
	}()
	return w
}

// c13Eval runs calc.Eval(expr) with the per-case budget; ok is false on expiry.
func c13Eval(expr string) (r c13Result, ok bool) {
	if c13W == nil {
		c13W = c13NewWorker()
	}
	c13W.in <- expr
	select {
	case r = <-c13W.out:
		return r, true
	default:
	}
	t := time.NewTimer(c13Budget)
	defer t.Stop()
	select {
	case r = <-c13W.out:
		return r, true
	case <-t.C:
		c13W = nil // abandoned; a new worker is started for the next case
		return r, false
	}
}

// c13Case evaluates expr with the real calc.Eval and writes
// `c13 <expr hex> <ok|err|divzero|panic|panic-other|timeout> <value|->`: `divzero` is the error
// "division by zero", `err` any other error, `panic` a recovered "division by zero" panic,
// `timeout` a call that did not return within the per-case budget.
func c13Case(g *Gen, expr string) {
	if !c13Guard(expr) {
		g.Count("guard-skipped-large-power")
		return
	}
	if c13Timeouts >= c13MaxTimeouts && strings.Contains(expr, "^") {
		g.Count("guard-skipped-after-timeouts")
		return
	}
	r, returned := c13Eval(expr)
	outcome, val := "ok", "-"
	switch {
	case !returned:
		outcome = "timeout"
		c13Timeouts++
	case r.panicked == "division by zero":
		outcome = "panic"
	case r.panicked != "":
		outcome = "panic-other"
	case r.err != nil && r.err.Error() == "division by zero":
		outcome = "divzero"
	case r.err != nil:
		outcome = "err"
	case r.x == nil:
		outcome = "nil-value"
	default:
		val = r.x.String()
	}
	g.Line("c13", encHex(expr), outcome, val)
	g.Count("impl=" + outcome)
}

// ---- capped conventional reference (used only to keep generated inputs computable) ----

const (
	refOK = iota
	refDivZero
	refCapped
)

type refEvaluator struct {
	vals    []*big.Int
	ops     []byte
	maxExp  int64
	maxBits int
	status  int
}

func (e *refEvaluator) factor(i int) (*big.Int, int) {
	base := e.vals[i]
	if i < len(e.ops) && e.ops[i] == '^' {
		y, j := e.factor(i + 1)
		if e.status != refOK {
			return base, j
		}
		if y.Sign() <= 0 {
			return big.NewInt(1), j
		}
		if !y.IsInt64() || y.Int64() > e.maxExp || int64(base.BitLen()+1)*y.Int64() > int64(e.maxBits) {
			e.status = refCapped
			return base, j
		}
		return new(big.Int).Exp(base, y, nil), j
	}
	return base, i
}

func (e *refEvaluator) term(i int) (*big.Int, int) {
	acc, i := e.factor(i)
	for e.status == refOK && i < len(e.ops) && (e.ops[i] == '*' || e.ops[i] == '/') {
		op := e.ops[i]
		var y *big.Int
		y, j := e.factor(i + 1)
		if e.status != refOK {
			return acc, j
		}
		if op == '*' {
			acc = new(big.Int).Mul(acc, y)
		} else {
			if y.Sign() == 0 {
				e.status = refDivZero
				return acc, j
			}
			acc = new(big.Int).Div(acc, y)
		}
		i = j
	}
	return acc, i
}

// refEval evaluates vals[0] ops[0] vals[1] ... by the conventional rules, refusing large powers.
func refEval(vals []*big.Int, ops []byte, maxExp int64, maxBits int) (*big.Int, int) {
	e := &refEvaluator{vals: vals, ops: ops, maxExp: maxExp, maxBits: maxBits}
	acc, i := e.term(0)
	for e.status == refOK && i < len(e.ops) {
		op := e.ops[i]
		t, j := e.term(i + 1)
		if e.status != refOK {
			break
		}
		if op == '+' {
			acc = new(big.Int).Add(acc, t)
		} else {
			acc = new(big.Int).Sub(acc, t)
		}
		i = j
	}
	return acc, e.status
}

// c13Guard reports whether calc.Eval can be called on expr without computing an astronomically
// large power. It replays the scanner and the two-stack algorithm of calc.go as it is on the unchanged
// tree (including the application of a trailing operator by yard.result) with a capped power:
// exponent at most 2000 and result at most 2^21 bits. Used only to filter generated inputs; a changed
// calc.go is covered by the per-case budget (outcome `timeout`).
func c13Guard(expr string) bool {
	if !strings.Contains(expr, "^") {
		return true
	}
	prec := map[byte]int{'^': 3, '*': 3, '/': 3, '+': 2, '-': 2}
	var vals []*big.Int
	var ops []byte
	capped := false
	// apply returns false when evaluation stops (error, division by zero or cap)
	apply := func(op byte) bool {
		n := len(vals)
		if n < 2 {
			return false
		}
		x, y := vals[n-2], vals[n-1]
		z := new(big.Int)
		switch op {
		case '^':
			if y.Sign() <= 0 {
				z.SetInt64(1)
			} else if !y.IsInt64() || y.Int64() > 2000 || int64(x.BitLen()+1)*y.Int64() > 1<<21 {
				capped = true
				return false
			} else {
				z.Exp(x, y, nil)
			}
		case '*':
			z.Mul(x, y)
		case '/':
			if y.Sign() == 0 {
				return false
			}
			z.Div(x, y)
		case '+':
			z.Add(x, y)
		case '-':
			z.Sub(x, y)
		}
		vals = append(vals[:n-2], z)
		return true
	}
	b := []byte(expr)
	operand := true
	for len(b) > 0 {
		if b[0] == ' ' {
			b = b[1:]
			continue
		}
		if operand {
			i := 0
			if b[0] == '-' {
				i++
			}
			isdigit := func(c byte) bool { return '0' <= c && c <= '9' }
			switch {
			case strings.HasPrefix(string(b[i:]), "0b"):
				isdigit = func(c byte) bool { return c == '0' || c == '1' }
				i += 2
			case strings.HasPrefix(string(b[i:]), "0x"):
				isdigit = func(c byte) bool { return ('0' <= c && c <= '9') || ('a' <= c && c <= 'f') }
				i += 2
			}
			for ; i < len(b) && isdigit(b[i]); i++ {
			}
			x, ok := new(big.Int).SetString(string(b[:i]), 0)
			if !ok {
				return true
			}
			vals = append(vals, x)
			b = b[i:]
			operand = false
			continue
		}
		op := b[0]
		p, ok := prec[op]
		if !ok {
			return true
		}
		for len(ops) > 0 {
			top := ops[len(ops)-1]
			if prec[top] < p || (prec[top] == p && op == '^') {
				break
			}
			if !apply(top) {
				return !capped
			}
			ops = ops[:len(ops)-1]
		}
		ops = append(ops, op)
		b = b[1:]
		operand = true
	}
	for len(ops) > 0 {
		top := ops[len(ops)-1]
		ops = ops[:len(ops)-1]
		if !apply(top) {
			return !capped
		}
	}
	return true
}

// ---- rendering ----

// c13Lit renders v in base 10, 16 (0x) or 2 (0b), lower-case, minus sign first.
func c13Lit(v *big.Int, base int) string {
	a := new(big.Int).Abs(v)
	s := ""
	switch base {
	case 16:
		s = "0x" + a.Text(16)
	case 2:
		s = "0b" + a.Text(2)
	default:
		s = a.Text(10)
	}
	if v.Sign() < 0 {
		s = "-" + s
	}
	return s
}

func c13Spaces(g *Gen, max int) string {
	if max == 0 {
		return ""
	}
	return strings.Repeat(" ", g.R.Intn(max+1))
}

// c13Render joins literal texts and operators; sp is the maximal number of blanks at each gap.
func c13Render(g *Gen, lits []string, ops []byte, sp int) string {
	var b strings.Builder
	b.WriteString(c13Spaces(g, sp))
	for i, l := range lits {
		b.WriteString(l)
		b.WriteString(c13Spaces(g, sp))
		if i < len(ops) {
			b.WriteByte(ops[i])
			b.WriteString(c13Spaces(g, sp))
		}
	}
	return b.String()
}

var c13Ops = []byte{'^', '*', '/', '+', '-'}

type c13SmallLit struct {
	text string
	val  *big.Int
}

var c13Small = []c13SmallLit{
	{"0", big.NewInt(0)}, {"1", big.NewInt(1)}, {"2", big.NewInt(2)}, {"3", big.NewInt(3)},
	{"7", big.NewInt(7)}, {"-2", big.NewInt(-2)}, {"0x10", big.NewInt(16)}, {"0b101", big.NewInt(5)},
}

// c13Small emits one expression over the small literal set unless the capped reference refuses it.
func c13SmallCase(g *Gen, li []int, oi []int) {
	lits := make([]string, len(li))
	vals := make([]*big.Int, len(li))
	ops := make([]byte, len(oi))
	for i, k := range li {
		lits[i], vals[i] = c13Small[k].text, c13Small[k].val
	}
	for i, k := range oi {
		ops[i] = c13Ops[k]
	}
	if _, st := refEval(vals, ops, 64, 1<<20); st == refCapped {
		g.Count("small-skipped-capped")
		return
	}
	sp := 0
	if g.R.Intn(4) == 0 {
		sp = 2
	}
	g.Count(fmt.Sprintf("small-ops=%d", len(ops)))
	c13Case(g, c13Render(g, lits, ops, sp))
}

func c13Exhaustive(g *Gen, nops int) {
	li := make([]int, nops+1)
	oi := make([]int, nops)
	var rec func(pos int)
	rec = func(pos int) {
		if pos == 2*nops+1 {
			c13SmallCase(g, li, oi)
			return
		}
		if pos%2 == 0 {
			for k := range c13Small {
				li[pos/2] = k
				rec(pos + 1)
			}
		} else {
			for k := range c13Ops {
				oi[pos/2] = k
				rec(pos + 1)
			}
		}
	}
	rec(0)
}

func c13Sampled(g *Gen, nops, count int) {
	li := make([]int, nops+1)
	oi := make([]int, nops)
	for n := 0; n < count; n++ {
		for i := range li {
			li[i] = g.R.Intn(len(c13Small))
		}
		for i := range oi {
			oi[i] = g.R.Intn(len(c13Ops))
		}
		c13SmallCase(g, li, oi)
	}
}

// c13RandomWF returns a random well-formed expression: literals up to `bits` bits in all three bases,
// exponents kept small, refused by the capped reference when a power would be large.
func c13RandomWF(g *Gen, maxOps, bits, sp int) (string, []string, []byte) {
	for {
		n := g.R.Intn(maxOps + 1)
		lits := make([]string, n+1)
		vals := make([]*big.Int, n+1)
		ops := make([]byte, n)
		for i := 0; i < n; i++ {
			ops[i] = c13Ops[g.R.Intn(len(c13Ops))]
		}
		for i := 0; i <= n; i++ {
			var v *big.Int
			switch {
			case i > 0 && ops[i-1] == '^':
				v = big.NewInt(int64(g.R.Intn(44) - 3)) // exponent -3..40
			case g.R.Intn(3) == 0:
				v = big.NewInt(int64(g.R.Intn(21)))
			default:
				v = g.R.Bits(1 + g.R.Intn(bits))
			}
			if !(i > 0 && ops[i-1] == '^') && g.R.Intn(4) == 0 {
				v = new(big.Int).Neg(v)
			}
			vals[i] = v
			lits[i] = c13Lit(v, []int{10, 16, 2}[g.R.Intn(3)])
			if v.Sign() == 0 && g.R.Intn(8) == 0 {
				lits[i] = "-" + lits[i] // -0, -0x0, -0b0
			}
		}
		if _, st := refEval(vals, ops, 40, 1<<21); st == refCapped {
			g.Count("random-retry-capped")
			continue
		}
		return c13Render(g, lits, ops, sp), lits, ops
	}
}

func genC13(g *Gen) {
	// 1. exhaustive over the small literal set
	for n := 0; n <= g.pick(3, 4); n++ {
		c13Exhaustive(g, n)
	}
	if g.Thorough {
		c13Sampled(g, 5, 1000000)
	} else {
		c13Sampled(g, 4, 300000)
	}

	// 2. random well-formed expressions, big literals, all bases, blanks
	for i := 0; i < g.pick(60000, 400000); i++ {
		e, _, ops := c13RandomWF(g, 12, 300, 3)
		g.Count(fmt.Sprintf("random-ops=%d", len(ops)))
		c13Case(g, e)
	}

	// 2b. literals at the machine-word boundaries, in every base and sign, alone and inside expressions
	for _, e := range []uint{31, 32, 63, 64} {
		for _, d := range []int64{-2, -1, 0, 1, 2} {
			v := new(big.Int).Add(new(big.Int).Lsh(big.NewInt(1), e), big.NewInt(d))
			for _, lit := range []string{v.String(), "0x" + v.Text(16), "0b" + v.Text(2), "-" + v.String(), "-0x" + v.Text(16)} {
				for _, form := range []string{"%s", "%s+1", "2*%s", "%s-%s", "2^70-%s", "3 * %s / 3", "%s^2", "2^128 + %s"} {
					c13Case(g, strings.ReplaceAll(form, "%s", lit))
					g.Count("word-boundary-literal")
				}
			}
		}
	}

	// 3. malformed classes, each derived from a random small well-formed expression
	per := g.pick(400, 4000)
	otherOps := []byte{'^', '*', '/', '+'}
	stray := []string{"(", ")", "a", "%", "_", "\t", "\n", ",", ".", "x", "g", "A", "=", "!", "\xff", "\xc3\xa9", "o", "X", "b"}
	badLits := []string{"0x", "0b", "08", "09", "018", "1_0", "0xAB", "0xaB", "0xA", "-", "- 1", "--1", "0b2", "0b12",
		"0x1g", "1e3", "0o17", "0X10", "0B1", "-0x", "-0b", "0x-1", "+1", "1.5", "0b_1", "0x_1", "-+1", "0b102",
		"0x0x1", "0b0b1", "0b0x1", "0x0X1", "0b0B1"}
	odd := []string{"00", "017", "-017", "-0", "0007", "-00", "0x0", "-0x0", "0b0", "00x1", "010", "0x00ff", "0b0011", "077777777777777777777777",
		// hexadecimal digits that look like another prefix
		"0x0b1", "0x0b", "-0x0b10", "0x0b0", "0x0bff", "0xb0b", "0x0b11", "0xb", "0x00b1"}
	wf := func(maxOps int) (string, []string, []byte) { return c13RandomWF(g, maxOps, 70, 1) }
	emit := func(class, e string) {
		g.Count("class=" + class)
		c13Case(g, e)
	}
	emit("empty", "")
	for i := 1; i <= 5; i++ {
		emit("only-spaces", strings.Repeat(" ", i))
	}
	for i := 0; i < per; i++ {
		e, lits, ops := wf(4)
		op := string(c13Ops[g.R.Intn(5)])
		emit("trailing-operator", e+op+c13Spaces(g, 2))
		emit("leading-operator", c13Spaces(g, 1)+string(otherOps[g.R.Intn(4)])+c13Spaces(g, 1)+e)
		emit("two-literals", e+" "+c13Spaces(g, 1)+lits[g.R.Intn(len(lits))])
		emit("minus-space", strings.Replace(e, lits[0], "- "+strings.TrimPrefix(lits[0], "-"), 1))
		if len(ops) > 0 {
			k := g.R.Intn(len(ops))
			l2 := append([]string{}, lits...)
			// double operator: the second one is not a minus sign glued to the literal
			l2[k+1] = string(otherOps[g.R.Intn(4)]) + c13Spaces(g, 1) + l2[k+1]
			emit("double-operator", c13Render(g, l2, ops, 1))
			l3 := append([]string{}, lits...)
			l3[k+1] = "- " + strings.TrimPrefix(l3[k+1], "-")
			emit("operator-minus-space", c13Render(g, l3, ops, 1))
			// missing operator between two literals inside the expression
			emit("missing-operator", c13Render(g, lits[:k+1], ops[:k], 1)+" "+c13Render(g, lits[k+1:], ops[k+1:], 1))
		}
		// stray character at a random byte position or replacing a literal
		s := stray[g.R.Intn(len(stray))]
		pos := g.R.Intn(len(e) + 1)
		emit("stray-character", e[:pos]+s+e[pos:])
		k := g.R.Intn(len(lits))
		l4 := append([]string{}, lits...)
		l4[k] = badLits[g.R.Intn(len(badLits))]
		emit("bad-literal", c13Render(g, l4, ops, 1))
		l5 := append([]string{}, lits...)
		l5[k] = odd[g.R.Intn(len(odd))]
		emit("leading-zero-or-odd-literal", c13Render(g, l5, ops, 1))
		// division by zero: a zero literal or a zero-valued factor after '/'
		zero := []string{"0", "-0", "0x0", "0b0", "0^3", "0*5", "0/7", "0 ^ 2"}[g.R.Intn(8)]
		emit("division-by-zero", e+c13Spaces(g, 1)+"/"+c13Spaces(g, 1)+zero)
		e2, _, _ := wf(2)
		emit("division-by-zero-then-more", e+"/"+zero+string(c13Ops[g.R.Intn(5)])+e2)
		emit("division-by-zero-then-malformed", e+"/0"+[]string{"+", " 1", "*", " )", "^"}[g.R.Intn(5)])
		emit("malformed-then-division-by-zero", []string{"+", "1 1", "(", "0x "}[g.R.Intn(4)]+e+"/0")
	}
	c13UnitBase(g)
	c13CLIMalformed(g)
	for _, e := range []string{"7%0", "7 % 0", "5%2", "7%0x0", "7 % 0^3", "1&0", "8>>1", "2**3", "1|0", "~1", "7//0", "7%", "%7"} {
		emit("other-languages-operators", e)
	}
	// the recorded defect: yard.result applies a trailing operator to the two operands below it
	for _, e := range []string{"1+0/", "3-0/", "7 + 0 /", "1+2+0/", "5*0/", "2^0/", "0/", "1+2*0/", "1-1*0 / ", "2+3^", "2*3^", "2+3*"} {
		emit("trailing-operator-fixed", e)
	}
	for _, l := range append(append([]string{}, badLits...), odd...) {
		emit("single-literal", l)
		emit("single-literal", "1+"+l)
		emit("single-literal", l+"*2")
		emit("single-literal", " "+l+" ")
	}
	for _, s := range stray {
		emit("single-stray", s)
		emit("single-stray", "1"+s)
		emit("single-stray", "1"+s+"2")
		emit("single-stray", "1+"+s+"2")
		emit("single-stray", s+"1")
	}
}

// c13UnitBase: powers whose base is 0, 1 or -1 have a value of one machine word whatever the exponent,
// so they are well-formed expressions the evaluator must answer (exponents far beyond what the
// generators above allow themselves; `^` groups to the right and binds like `*`). Judged here, with the
// conventional value as the expectation: the Lean driver is not given exponents of hundreds of bits.
func c13UnitBase(g *Gen) {
	cases := []struct {
		e    string
		want int64
	}{
		{"1^2^300", 1}, {"1^16777217", 1}, {"-1^0x1000001", -1}, {"-1^16777216", 1}, {"2^8 - 1^16777217", 255},
		{"3*-1^2^64+10", 13}, {"0^2^300", 0}, {"0^2^300 + 7", 7}, {"5*1^2^64", 5}, {"-1^2^70 + 1", 2},
		{"1^-1^2^65", 1}, {"7 - 0^0x10000000000000001", 7}, {"-1^0b1000000000000000000000001", -1},
	}
	for _, c := range cases {
		r, returned := c13Eval(c.e)
		g.Count("unit-base-power")
		msg := ""
		switch {
		case !returned:
			msg = "does not return within the time budget"
		case r.panicked != "":
			msg = "panics: " + r.panicked
		case r.err != nil:
			msg = "is refused: " + r.err.Error()
		case r.x == nil || !r.x.IsInt64() || r.x.Int64() != c.want:
			msg = fmt.Sprintf("evaluates to %v", r.x)
		}
		if msg != "" && !g.notesViolation() {
			g.Notes = append(g.Notes, fmt.Sprintf("VIOLATION: the well-formed expression %q %s, its value is %d", c.e, msg, c.want))
		}
	}
}

// c13CLIMalformed: the value the search is run for comes from the evaluator; a malformed expression on the
// command line must make `addchain search` end with a non-zero status and print no script (a fall-back
// that "repairs" the expression would search for a number the user never wrote).
func c13CLIMalformed(g *Gen) {
	if addchainBin() == "" {
		return
	}
	for _, e := range []string{"12ab", "1_0", "1e1", "+7", "f", "ff", "0x", "1 1", "0b102", "2^", "abc", "0xg", "7 7 7", "1_000", "dead_beef"} {
		var err error
		if pn := safe(func() { _, err = verifhooks.CalcEval(e) }); pn != "" || err == nil {
			continue // not malformed for the evaluator itself: nothing to compare
		}
		r := runCLI([]string{"search", e}, nil, 60*time.Second)
		g.Count("cli-malformed")
		if r.timedOut {
			continue
		}
		if (r.exit == 0 || len(bytes.TrimSpace(r.stdout)) > 0) && !g.notesViolation() {
			g.Notes = append(g.Notes, fmt.Sprintf("VIOLATION: `addchain search %q`: the evaluator refuses the expression (%v) but the command exits with status %d and prints %q", e, err, r.exit, string(r.stdout)))
		}
	}
}
