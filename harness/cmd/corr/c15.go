package main

import (
	"bytes"
	"crypto/sha1"
	"encoding/hex"
	"fmt"
	"io"
	"math/big"
	"os"
	"path/filepath"
	"strconv"
	"strings"
	"sync/atomic"
	"time"

	"github.com/mmcloughlin/addchain/acc"
	"github.com/mmcloughlin/addchain/acc/ast"
	"github.com/mmcloughlin/addchain/acc/ir"
	"github.com/mmcloughlin/addchain/acc/parse"
	"github.com/mmcloughlin/addchain/acc/pass"
	"github.com/mmcloughlin/addchain/acc/printer"
	"github.com/mmcloughlin/addchain/verifhooks"
)

// C15: every input ends in a result or a diagnostic.
//
//   c15 cli <args, NUL-separated, hex> <stdin hex, first 2000 bytes> <exit|-1> <timeout 0/1> <panic text 0/1> <stdin sha1/12> <stdin length>
//   c15 lib <entry> <input hex> <ok|err|panic> <panic message hex>
//
// The CLI cases run the binary built from the working tree with a timeout; the library cases call
// the entry points in-process under recover.

func init() {
	props["C15"] = genC15
	replays["C15"] = replayC15
}

const (
	c15Timeout    = 20 * time.Second
	c15StdinShown = 2000
	c15MaxShift   = 64
)

type cliCase struct {
	args  []string
	stdin []byte
	tag   string
}

type cliOut struct {
	res      cliResult
	panicTxt bool
	rerun    bool
}

func c15PanicText(stderr []byte) bool {
	return bytes.Contains(stderr, []byte("panic:")) || bytes.Contains(stderr, []byte("fatal error:")) ||
		bytes.Contains(stderr, []byte("goroutine "))
}

func c15Bad(o cliOut) bool {
	return o.res.timedOut || o.panicTxt || !(o.res.exit == 0 || o.res.exit == 1 || o.res.exit == 2)
}

func stdinDigest(b []byte) string {
	h := sha1.Sum(b)
	return hex.EncodeToString(h[:6])
}

func failingDir() string {
	d := os.Getenv("VERIF_DIR")
	if d == "" {
		d = "/verif"
	}
	return filepath.Join(d, "work", "c15-failing")
}

func c15Line(g *Gen, c cliCase, o cliOut) {
	shown := c.stdin
	if len(shown) > c15StdinShown {
		shown = shown[:c15StdinShown]
	}
	if c15Bad(o) {
		// keep the full input and the end of stderr of a failing case
		dir := failingDir()
		if err := os.MkdirAll(dir, 0o755); err == nil {
			base := filepath.Join(dir, stdinDigest(c.stdin))
			_ = os.WriteFile(base+".in", c.stdin, 0o644)
			se := o.res.stderr
			if len(se) > 4000 {
				se = se[len(se)-4000:]
			}
			_ = os.WriteFile(base+".err", se, 0o644)
			_ = os.WriteFile(base+".args", []byte(strings.Join(c.args, "\n")), 0o644)
			g.Notes = append(g.Notes, fmt.Sprintf("c15-failing-input: addchain %q stdin=%s.in exit=%d timeout=%v", c.args, base, o.res.exit, o.res.timedOut))
		}
	}
	g.Line("c15", "cli", encHex(strings.Join(c.args, "\x00")), encHex(string(shown)), strconv.Itoa(o.res.exit),
		b01(o.res.timedOut), b01(o.panicTxt), stdinDigest(c.stdin), strconv.Itoa(len(c.stdin)))
}

func runCLICase(c cliCase, mult int) cliOut {
	r := runCLI(c.args, c.stdin, time.Duration(mult)*c15Timeout)
	return cliOut{res: r, panicTxt: c15PanicText(r.stderr)}
}

// runCLICases runs all cases on the worker pool and writes the lines in case order. A case that
// hit its timeout is run once more, alone, with three times the budget.
func runCLICases(g *Gen, cases []cliCase) {
	outs := make([]cliOut, len(cases))
	done := make([]bool, len(cases))
	var timeouts int32
	parallelMap(len(cases), cliWorkers(), func(i int) {
		if atomic.LoadInt32(&timeouts) >= 8 {
			return // many invocations already ran out of time: the rest would only wait as long
		}
		outs[i] = runCLICase(cases[i], 1)
		done[i] = true
		if outs[i].res.timedOut {
			atomic.AddInt32(&timeouts, 1)
		}
	})
	confirmed := 0
	for i := range outs {
		if done[i] && outs[i].res.timedOut && confirmed < 3 {
			g.Count("cli-timeout-rerun")
			outs[i] = runCLICase(cases[i], 3)
			outs[i].rerun = true
			if outs[i].res.timedOut {
				g.Count("cli-timeout-confirmed")
				confirmed++
			}
		}
	}
	for i := range outs {
		if !done[i] {
			g.Count("cli-not-run-after-timeouts")
			continue
		}
		c15Line(g, cases[i], outs[i])
		g.Count("cli:" + cases[i].tag)
	}
}

// ---- shift amounts are bounded -------------------------------------------------------------

// shiftSafe reports whether no shift operator in the text is followed by a number above 64 (the
// property bounds shift amounts: `x << 1000000` legitimately allocates a million doublings).
func shiftSafe(text string) bool {
	b := []byte(text)
	for i := 0; i < len(b); i++ {
		n := 0
		if bytes.HasPrefix(b[i:], []byte("<<")) {
			n = 2
		} else if bytes.HasPrefix(b[i:], []byte("shl")) {
			n = 3
		} else {
			continue
		}
		j := i + n
		for j < len(b) && (b[j] == ' ' || b[j] == '\t' || b[j] == '\r' || b[j] == '\n' || b[j] == '(') {
			j++
		}
		k := j
		for k < len(b) && (b[k] >= '0' && b[k] <= '9' || b[k] >= 'a' && b[k] <= 'f' || b[k] >= 'A' && b[k] <= 'F' || b[k] == 'x' || b[k] == 'X') {
			k++
		}
		if k == j || !(b[j] >= '0' && b[j] <= '9') {
			continue
		}
		lit := string(b[j:k])
		v, err := strconv.ParseUint(lit, 0, 64)
		if err != nil {
			// not a literal the parser accepts as a whole; a prefix of it may still be one
			digits := 0
			for digits < len(lit) && lit[digits] >= '0' && lit[digits] <= '9' {
				digits++
			}
			if digits > 2 {
				return false
			}
			continue
		}
		if v > c15MaxShift {
			return false
		}
	}
	return true
}

// ---- script corpus ---------------------------------------------------------------------------

var c15Hand = []string{
	"return 2*1\n",
	"_10 = 2*1\n_11 = 1 + _10\nreturn (_11 << 3 + 1) << 2 + _10\n",
	"a = 1 add 1\nb = a shl 3\nc = dbl b\nreturn c add [1]\n",
	"x = 1 << 64\nreturn x + 1\n",
	"t = [0] + [0]\nu = t << 2 + [1]\nreturn u + t\n",
	"return ((1 + 2*1) << 5 + 1) << 3\n",
	"_10 = 2*1\n_100 = 2*_10\nx = _100 + _10 + 1\nreturn 2*(x + _100)",
}

var c15Special = []string{
	"return 1\n", "return 1", "1", "return 1 << 0\n", "return [5]\n", "return [0]\n", "return [1]\n", "", " ", "   \n\t \r\n", "\n",
	"return\n", "return return 1\n", "a = 1\nreturn a\n", "a = 2*1\na = 2*a\nreturn a\n", "a = 2*b\nreturn a\n",
	"return 1 + 1\n\n\n", "a = 2*1\n", "return 2*1\nreturn 2*1\n", "return 2*1\r\n", "a = 2*1\r\nreturn a\r\n",
	"return [18446744073709551615]\n", "return [18446744073709551616]\n", "return [9223372036854775807] + 1\n", "return [9223372036854775808] + 1\n",
	"return 1 << 1\n", "return 1 << 08\n", "return 1 << 0x\n", "return 1 << 0x10\n", "return 1 << 010\n", "return 1 << 64\n",
	"return 1 << 18446744073709551616\n", "return 1 << -1\n", "return 2 * 1\n", "return 2*2*1\n", "return dbl dbl 1\n", "return dbl1\n", "return dblx\n",
	"x = 1 + 1\nx1 = x + x\nreturn x1 + [2]\n", "x = 1 + 1\nreturn x + [3]\n", "x = 1 + 1\nreturn [2] + [2]\n",
	"a = 1 << 3\nreturn a + [2]\n", "_ = 2*1\nreturn _\n", "return = 2*1\nreturn return\n", "add = 2*1\nreturn add add add\n",
	"return 1 +\n", "return + 1\n", "return (1\n", "return 1)\n", "return ()\n", "return (((1)))\n", "return 1 1\n", "a b = 1\nreturn a\n",
	"# comment\nreturn 1\n", "// comment\nreturn 2*1\n", "return 2*1 // trailing\n",
	"\xef\xbb\xbfreturn 2*1\n", "return \xff\xfe\n", "a\xc3 = 2*1\nreturn a\xc3\n", "return 2*1\x00\n", "\x00", "\xc0\x80", "é = 2*1\nreturn é\n",
}

// c15Tokens splits a script into tokens (newline is a token; blanks are dropped).
func c15Tokens(s string) []string {
	var toks []string
	b := []byte(s)
	isWord := func(c byte) bool {
		return c == '_' || c >= '0' && c <= '9' || c >= 'a' && c <= 'z' || c >= 'A' && c <= 'Z'
	}
	for i := 0; i < len(b); {
		c := b[i]
		switch {
		case c == ' ' || c == '\t' || c == '\r':
			i++
		case isWord(c):
			j := i
			for j < len(b) && isWord(b[j]) {
				j++
			}
			// "2*" is the doubling operator: keep "2" and "*" separate tokens
			toks = append(toks, string(b[i:j]))
			i = j
		case c == '<' && i+1 < len(b) && b[i+1] == '<':
			toks = append(toks, "<<")
			i += 2
		default:
			toks = append(toks, string(c))
			i++
		}
	}
	return toks
}

func c15Join(toks []string, sep string) string {
	var sb strings.Builder
	for i, t := range toks {
		if i > 0 && t != "\n" && toks[i-1] != "\n" {
			sb.WriteString(sep)
		}
		sb.WriteString(t)
	}
	return sb.String()
}

func isNumberTok(t string) bool { return t != "" && t[0] >= '0' && t[0] <= '9' }

var c15NumberSubst = []string{"0", "1", "18446744073709551615", "18446744073709551616", "08", "0x", "64", "0x40", "007"}

// c15Mutants returns grammar-aware single mutations of a script: every position when the script
// is short, sampled positions otherwise.
func c15Mutants(g *Gen, src string, perOp int) []string {
	toks := c15Tokens(src)
	n := len(toks)
	var out []string
	positions := func(m int) []int {
		if m <= perOp {
			ps := make([]int, m)
			for i := range ps {
				ps[i] = i
			}
			return ps
		}
		ps := make([]int, perOp)
		for i := range ps {
			ps[i] = g.R.Intn(m)
		}
		return ps
	}
	emit := func(t []string) {
		out = append(out, c15Join(t, " "))
	}
	cp := func() []string { return append([]string{}, toks...) }
	for _, i := range positions(n) { // delete
		t := append(cp()[:i], toks[i+1:]...)
		emit(t)
	}
	for _, i := range positions(n) { // duplicate
		t := append(cp()[:i+1], toks[i:]...)
		emit(t)
	}
	for _, i := range positions(n - 1) { // swap adjacent
		t := cp()
		t[i], t[i+1] = t[i+1], t[i]
		emit(t)
	}
	for _, i := range positions(n) { // replace numbers
		if !isNumberTok(toks[i]) {
			continue
		}
		for _, s := range c15NumberSubst {
			t := cp()
			t[i] = s
			emit(t)
		}
	}
	for _, i := range positions(n + 1) { // unbalanced parentheses, stray tokens
		for _, ins := range []string{"(", ")", "+", "<<", "=", "\n", "[", "]", "return", "2", "*"} {
			t := append(cp()[:i], append([]string{ins}, toks[i:]...)...)
			emit(t)
		}
	}
	for _, i := range positions(n) { // wrap a token in parentheses
		t := append(cp()[:i], append([]string{"(", toks[i], ")"}, toks[i+1:]...)...)
		emit(t)
	}
	// two random mutations combined
	for k := 0; k < perOp; k++ {
		t := cp()
		for m := 0; m < 2 && len(t) > 1; m++ {
			i := g.R.Intn(len(t))
			switch g.R.Intn(3) {
			case 0:
				t = append(t[:i], t[i+1:]...)
			case 1:
				j := g.R.Intn(len(t))
				t[i], t[j] = t[j], t[i]
			default:
				t[i] = []string{"(", ")", "1", "[", "]", "=", "+", "<<", "\n", "a", "0"}[g.R.Intn(11)]
			}
		}
		emit(t)
	}
	// the same text without blanks where the tokens allow it
	out = append(out, c15Join(toks, ""))
	return out
}

func c15Garbage(g *Gen, base []string, count int) []string {
	var out []string
	for i := 0; i < count; i++ {
		n := 1 + g.R.Intn(200)
		b := make([]byte, n)
		for j := range b {
			b[j] = byte(g.R.Next())
		}
		out = append(out, string(b))
	}
	for i := 0; i < count; i++ { // byte flips in a valid script
		b := []byte(base[g.R.Intn(len(base))])
		if len(b) == 0 {
			continue
		}
		for k := 0; k < 1+g.R.Intn(3); k++ {
			b[g.R.Intn(len(b))] = byte(g.R.Next())
		}
		out = append(out, string(b))
	}
	for i := 0; i < count; i++ { // printable garbage over the script alphabet
		const al = "1 2*()[]+<=_ab\n0x8return"
		n := 1 + g.R.Intn(60)
		b := make([]byte, n)
		for j := range b {
			b[j] = al[g.R.Intn(len(al))]
		}
		out = append(out, string(b))
	}
	return out
}

func nest(open, inner, close string, depth int) string {
	return "return " + strings.Repeat(open, depth) + inner + strings.Repeat(close, depth) + "\n"
}

// c15ShiftLadder is a valid script of n statements, each shifting the previous one by 64.
func c15ShiftLadder(n int) string {
	var sb strings.Builder
	sb.WriteString("a0 = 1 << 64\n")
	for i := 1; i < n; i++ {
		fmt.Fprintf(&sb, "a%d = a%d << 64\n", i, i-1)
	}
	fmt.Fprintf(&sb, "return a%d + 1\n", n-1)
	return sb.String()
}

// ---- expression corpus -----------------------------------------------------------------------

var c15Exprs = []string{
	"", " ", "1+", "+1", "1++2", "1 2", "1/0", "1+0/", "0", "2-3", "1", "2^-1", "0x", "0b", "08", "1_0", "abc", "1$", "\xff\xfe", "1+\x00",
	"1/0+", "0/0", "2^0/0", "1-1", "0*5", "-0", "--1", "- 1", "1 +", "(1)", "2**3", "2^", "^2", "1e3", "1.5", "0x1g", "0XFF", "0b12", "９",
	"23", "2^64-59", "2 ^ 7 - 1", "0x7f * 0b101 + 1", "100/7", "-5+10", "2^255-19", "7/2*2", "2^3^2", "1000000007",
}

// ---- generator ---------------------------------------------------------------------------------

func genC15(g *Gen) {
	bin := addchainBin()
	if _, err := os.Stat(bin); err != nil {
		g.Notes = append(g.Notes, "VIOLATION: addchain binary not found at "+bin)
		return
	}
	// valid scripts: hand-written plus what the binary's own search prints
	valid := append([]string{}, c15Hand...)
	for _, e := range []string{"23", "2^64-59", "2^255-19"} {
		r := runCLI([]string{"search", e}, nil, 3*c15Timeout)
		if r.exit == 0 && len(r.stdout) > 0 {
			valid = append(valid, string(r.stdout))
		}
	}
	perOp := g.pick(12, 40)
	var mutants []string
	for _, v := range valid {
		mutants = append(mutants, c15Mutants(g, v, perOp)...)
	}
	garbage := c15Garbage(g, valid, g.pick(30, 200))
	long := []string{
		"return " + strings.Repeat("a", 5000) + "\n",
		strings.Repeat("a = 2*1\n", 300) + "return a\n",
		"return 1" + strings.Repeat(" + 1", 500) + "\n",
		c15ShiftLadder(100),
	}
	// parenthesis nesting: bounded depths
	nests := []string{nest("(", "1", ")", 4), nest("(", "1", ")", 12), nest("(", "1", ")", 24), nest("(", "1", ")", 200),
		nest("2*(", "1", ")", 24), nest("(1+", "1", ")", 24), nest("(", "1", "", 24), nest("dbl(", "1", ")", 200)}
	if g.Thorough {
		nests = append(nests, nest("(", "1", ")", 16), nest("(", "1", ")", 48), nest("(1 add ", "[1]", ") shl 1", 40),
			nest("(", "a", ")", 30), nest("((", "1", ")", 30))
	}

	var cases []cliCase
	add := func(tag string, stdin string, args ...string) {
		if !shiftSafe(stdin) {
			g.Count("skipped-unbounded-shift")
			return
		}
		cases = append(cases, cliCase{args: args, stdin: []byte(stdin), tag: tag})
	}
	subs := [][]string{{"eval"}, {"fmt"}, {"fmt", "-b"}, {"gen"}, {"gen", "-type", "chain"}, {"gen", "-type", "ops"}, {"gen", "-type", "script"}}
	// every valid and special script through every subcommand
	for _, s := range append(append([]string{}, valid...), c15Special...) {
		for _, sc := range subs {
			add("script:"+strings.Join(sc, "_"), s, sc...)
		}
		add("script:gen_nosuch", s, "gen", "-type", "nosuch")
	}
	// mutants: round-robin over the subcommands in quick, all of them in thorough
	for i, m := range mutants {
		if g.Thorough {
			for _, sc := range subs {
				add("mutant:"+strings.Join(sc, "_"), m, sc...)
			}
			continue
		}
		for k := 0; k < 2; k++ {
			sc := subs[(i*2+k)%len(subs)]
			add("mutant:"+strings.Join(sc, "_"), m, sc...)
		}
	}
	for i, s := range append(garbage, long...) {
		for k := 0; k < g.pick(2, len(subs)); k++ {
			sc := subs[(i+3*k)%len(subs)]
			add("garbage:"+strings.Join(sc, "_"), s, sc...)
		}
	}
	for _, s := range nests {
		for _, sc := range subs[:4] {
			add("nest:"+strings.Join(sc, "_"), s, sc...)
		}
	}
	// other ways of calling the script subcommands
	for _, name := range []string{"text", "zzz", "tmpl", "Script", "script2", "listing ", "opsx", "a"} {
		add("cli-misc", "return 2*1\n", "gen", "-type", name)
	}
	add("cli-misc", "return 2*1\n", "gen", "-type", "")
	add("cli-misc", "return 2*1\n", "gen", "-type", "../templates/listing")
	add("cli-misc", "return 2*1\n", "gen", "-tmpl", "/nonexistent/template")
	add("cli-misc", "return 2*1\n", "gen", "-out", "/nonexistent/dir/out")
	add("cli-misc", "return 2*1\n", "gen", "-nosuchflag")
	add("cli-misc", "", "eval", "/nonexistent/file.acc")
	add("cli-misc", "", "fmt", "/nonexistent/file.acc")
	add("cli-misc", "", "fmt", "-b", "/")
	add("cli-misc", "", "gen", "/nonexistent/file.acc")
	add("cli-misc", "")
	add("cli-misc", "", "nosuch")
	add("cli-misc", "", "help")
	add("cli-misc", "", "help", "search")
	add("cli-misc", "", "cite")
	add("cli-misc", "", "-nosuchflag")
	add("cli-misc", "", "search")
	add("cli-misc", "", "search", "-h")
	add("cli-misc", "", "search", "5", "7")
	add("cli-misc", "", "search", "-5")

	// search: expression strings
	huge := "1" + strings.Repeat("0", 1999)
	exprs := append([]string{}, c15Exprs...)
	exprs = append(exprs, "7%0", "7 % 0", "5%2", "7%0x0", "7 % 0^3", "1&0", "8>>1", "2**3", "7 mod 0", "1|0", "~1", "7//0")
	exprs = append(exprs, huge, "-"+huge, strings.Repeat("1+", 400)+"1", strings.Repeat(" ", 3000)+"7", "2^600+1", "0x"+strings.Repeat("f", 150))
	limit := new(big.Int).Lsh(big.NewInt(1), 700)
	for _, e := range exprs {
		if !c13Guard(e) {
			g.Count("skipped-large-power")
			continue
		}
		var n *big.Int
		var err error
		if p := safe(func() { n, err = verifhooks.CalcEval(e) }); p == "" && err == nil && n != nil && n.CmpAbs(limit) > 0 {
			g.Count("search-skipped-target-above-2^700")
			continue
		}
		if strings.ContainsRune(e, 0) {
			g.Count("search-skipped-NUL-in-argument") // cannot be passed in argv
			continue
		}
		add("search-expr", "", "search", "--", e)
		if !strings.HasPrefix(e, "-") {
			add("search-expr", "", "search", e)
		}
	}
	// search: concurrency and cost settings
	for _, p := range []string{"-1", "0", "1", "2", "1000", "-9223372036854775808", "9223372036854775807", "99999999999999999999", "x", "", "1.5", "0x10"} {
		for _, e := range []string{"23", "2^64-59", "1", "0", "1/0"} {
			if (p == "9223372036854775807") && e != "0" && e != "1/0" {
				// a channel of 2^63 tokens is a legitimate out-of-memory, excluded like unbounded shifts
				g.Count("skipped-unbounded-concurrency")
				continue
			}
			add("search-p", "", "search", "-p", p, e)
		}
	}
	for _, a := range []string{"0", "-1", "1e308", "NaN", "0.5", "Inf", "-Inf", "1e-320", "x", ""} {
		for _, d := range []string{"1", "0", "-1", "1e308", "NaN", "0.5"} {
			add("search-cost", "", "search", "-add", a, "-double", d, "23")
		}
		add("search-cost", "", "search", "-v", "-double", a, "-p", "3", "2^64-59")
	}
	runCLICases(g, cases)

	// ---- library entry points --------------------------------------------------------------
	alphabet := []string{"1", "[1]", "[2]", "a", "b", "=", "+", "<<", "2*", "dbl", "(", ")", "\n", "0", "08", "return", "[18446744073709551615]"}
	var inputs []string
	maxLen := 4
	var rec func(prefix []string)
	rec = func(prefix []string) {
		inputs = append(inputs, strings.Join(prefix, " "))
		if len(prefix) >= 2 {
			inputs = append(inputs, strings.Join(prefix, ""))
		}
		if len(prefix) == maxLen {
			return
		}
		for _, t := range alphabet {
			rec(append(prefix, t))
		}
	}
	rec([]string{})
	g.Stats["lib-token-sequences"] = len(inputs)
	inputs = append(inputs, valid...)
	inputs = append(inputs, c15Special...)
	inputs = append(inputs, mutants...)
	inputs = append(inputs, garbage...)
	inputs = append(inputs, long...)
	inputs = append(inputs, nest("(", "1", ")", 4), nest("(", "1", ")", 10))
	// deep nesting through every library entry point (linear with the memoizing parser; a parser that
	// backtracks without memoization doubles its work per level)
	for _, d := range []int{20, 26, 40, 100, 200} {
		inputs = append(inputs, "return "+nest("(", "1", ")", d)+"\n", nest("(", "1", "", d), nest("2*(", "1", ")", d),
			"a = "+nest("(", "1 + 1", ")", d)+"\nreturn a + "+nest("(", "a", ")", d))
	}
	safeInputs := inputs[:0]
	for _, s := range inputs {
		if shiftSafe(s) {
			safeInputs = append(safeInputs, s)
		} else {
			g.Count("skipped-unbounded-shift")
		}
	}
	inputs = safeInputs
	stop := libWatchdog()
	results := make([][]libLine, len(inputs))
	parallelMap(len(inputs), cliWorkers(), func(i int) { results[i] = libRun(i%libSlots, inputs[i]) })
	// calc
	calcAlpha := []string{"1", "0", "2", "-3", "+", "-", "*", "/", "^", " ", "0x", "08", "a", "(", ")"}
	var calcIn []string
	var crec func(prefix string, depth int)
	crec = func(prefix string, depth int) {
		calcIn = append(calcIn, prefix)
		if depth == 4 {
			return
		}
		for _, t := range calcAlpha {
			crec(prefix+t, depth+1)
		}
	}
	crec("", 0)
	calcIn = append(calcIn, exprs...)
	calcRes := make([]libLine, len(calcIn))
	calcSkip := make([]bool, len(calcIn))
	parallelMap(len(calcIn), cliWorkers(), func(i int) {
		if !c13Guard(calcIn[i]) {
			calcSkip[i] = true
			return
		}
		calcRes[i] = libCalc(i%libSlots, calcIn[i])
	})
	stop()
	for i := range results {
		for _, l := range results[i] {
			if l.outcome == "skipped" {
				g.Count("lib-skipped-after-timeouts")
				continue
			}
			g.Line("c15", "lib", l.entry, encHex(inputs[i]), l.outcome, encHex(l.panicMsg))
			g.Count("lib:" + l.entry + "=" + l.outcome)
			if l.outcome == "panic" {
				g.Notes = append(g.Notes, fmt.Sprintf("c15-lib-panic: %s on %q: %s", l.entry, inputs[i], l.panicMsg))
			}
		}
	}
	for i := range calcRes {
		if calcSkip[i] {
			g.Count("skipped-large-power")
			continue
		}
		l := calcRes[i]
		if l.outcome == "skipped" {
			g.Count("lib-skipped-after-timeouts")
			continue
		}
		g.Line("c15", "lib", l.entry, encHex(calcIn[i]), l.outcome, encHex(l.panicMsg))
		g.Count("lib:" + l.entry + "=" + l.outcome)
	}
}

// ---- in-process entry points -------------------------------------------------------------------

type libLine struct {
	entry, outcome, panicMsg string
}

const libSlots = 64

var (
	libStart [libSlots]int64
	libInput [libSlots]atomic.Value
)

// libWatchdog aborts the harness when one in-process call does not return within 120 s (the
// library cases are all tiny; a call that long is a hang, reported as a harness failure naming the input).
func libWatchdog() (stop func()) {
	done := make(chan struct{})
	go func() {
		for {
			select {
			case <-done:
				return
			case <-time.After(2 * time.Second):
			}
			now := time.Now().UnixNano()
			for i := range libStart {
				st := atomic.LoadInt64(&libStart[i])
				if st != 0 && now-st > int64(120*time.Second) {
					fmt.Fprintf(os.Stderr, "C15: a library entry point did not return within 120s on input %q\n", libInput[i].Load())
					os.Exit(3)
				}
			}
		}
	}()
	return func() { close(done) }
}

// libTimeouts counts calls that did not return within libBudget; after the first one the remaining
// inputs are skipped (an abandoned call keeps a core busy and may keep allocating).
var libTimeouts int32

const libBudget = 20 * time.Second

func libCall(slot int, input string, entry string, f func() error) libLine {
	if atomic.LoadInt32(&libTimeouts) >= 1 {
		return libLine{entry, "skipped", ""}
	}
	libInput[slot].Store(entry + ": " + input)
	type res struct {
		p   string
		err error
	}
	done := make(chan res, 1)
	go func() {
		var err error
		p := safe(func() { err = f() })
		done <- res{p, err}
	}()
	var r res
	select {
	case r = <-done:
	case <-time.After(libBudget):
		atomic.AddInt32(&libTimeouts, 1)
		return libLine{entry, "timeout", ""}
	}
	switch {
	case r.p != "":
		return libLine{entry, "panic", r.p}
	case r.err != nil:
		return libLine{entry, "err", ""}
	}
	return libLine{entry, "ok", ""}
}

func libCalc(slot int, s string) libLine {
	return libCall(slot, s, "calc", func() error {
		x, err := verifhooks.CalcEval(s)
		if err == nil && x == nil {
			return fmt.Errorf("nil value without error")
		}
		return err
	})
}

// libRun drives one source text through every entry point it reaches.
func libRun(slot int, s string) []libLine {
	var out []libLine
	var tree *ast.Chain
	l := libCall(slot, s, "parse", func() error {
		var err error
		tree, err = parse.String(s)
		return err
	})
	out = append(out, l)
	out = append(out, libCall(slot, s, "parse-reader", func() error {
		_, err := parse.Reader("input", strings.NewReader(s))
		return err
	}))
	if l.outcome != "ok" || tree == nil {
		return out
	}
	out = append(out, libCall(slot, s, "print", func() error { _, err := printer.String(tree); return err }))
	var prog *ir.Program
	l = libCall(slot, s, "translate", func() error {
		var err error
		prog, err = acc.Translate(tree)
		return err
	})
	out = append(out, l)
	out = append(out, libCall(slot, s, "load", func() error { _, err := acc.LoadString(s); return err }))
	if l.outcome == "ok" && prog != nil {
		var built *ast.Chain
		lb := libCall(slot, s, "build", func() error {
			var err error
			built, err = acc.Build(prog)
			return err
		})
		out = append(out, lb)
		if lb.outcome == "ok" && built != nil {
			out = append(out, libCall(slot, s, "print-built", func() error { _, err := printer.String(built); return err }))
		}
		// pass.Eval on a freshly translated program
		out = append(out, libCall(slot, s, "eval", func() error {
			p2, err := acc.Translate(tree)
			if err != nil {
				return err
			}
			return pass.Eval(p2)
		}))
	}
	var data *verifhooks.GenData
	lp := libCall(slot, s, "prepare", func() error {
		cfg := verifhooks.GenConfig{Allocator: pass.Allocator{Input: "x", Output: "z", Format: "t%d"}}
		var err error
		data, err = verifhooks.GenPrepareData(cfg, tree)
		return err
	})
	out = append(out, lp)
	if lp.outcome == "ok" && data != nil {
		for _, name := range verifhooks.GenBuiltinTemplateNames() {
			name := name
			out = append(out, libCall(slot, s, "generate:"+name, func() error {
				tmpl, err := verifhooks.GenBuiltinTemplate(name)
				if err != nil {
					return err
				}
				return verifhooks.GenGenerate(io.Discard, tmpl, data)
			}))
		}
	}
	return out
}

// ---- replay --------------------------------------------------------------------------------------

func replayC15(g *Gen, f []string) {
	if len(f) < 4 {
		return
	}
	switch f[1] {
	case "cli":
		args := strings.Split(decHexField(f[2]), "\x00")
		if f[2] == "-" {
			args = nil
		}
		stdin := []byte(decHexField(f[3]))
		if len(f) >= 9 {
			if n, err := strconv.Atoi(f[8]); err == nil && n > len(stdin) {
				if b, err := os.ReadFile(filepath.Join(failingDir(), f[7]+".in")); err == nil {
					stdin = b
				}
			}
		}
		c := cliCase{args: args, stdin: stdin, tag: "replay"}
		c15Line(g, c, runCLICase(c, 3))
	case "lib":
		s := decHexField(f[3])
		if !shiftSafe(s) {
			return
		}
		stop := libWatchdog()
		defer stop()
		if f[2] == "calc" {
			l := libCalc(0, s)
			g.Line("c15", "lib", l.entry, encHex(s), l.outcome, encHex(l.panicMsg))
			return
		}
		for _, l := range libRun(0, s) {
			if l.entry == f[2] {
				g.Line("c15", "lib", l.entry, encHex(s), l.outcome, encHex(l.panicMsg))
			}
		}
	}
}
