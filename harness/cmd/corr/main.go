// Command corr generates correspondence cases for one property: it calls the
// real addchain code in-process and writes one protocol line per case.
package main

import (
	"bufio"
	"encoding/json"
	"fmt"
	"os"
	"strconv"
	"strings"
	"time"
)

type genFunc func(g *Gen)

var props = map[string]genFunc{}

// replays re-run one recorded case line against the current code.
var replays = map[string]func(g *Gen, fields []string){}

func main() {
	if len(os.Args) < 5 {
		fmt.Fprintln(os.Stderr, "usage: corr <prop> <quick|thorough> <seed> <outfile> [statsfile]")
		os.Exit(2)
	}
	prop, tier := os.Args[1], os.Args[2]
	seed, err := strconv.ParseUint(os.Args[3], 10, 64)
	if err != nil {
		fmt.Fprintln(os.Stderr, "bad seed")
		os.Exit(2)
	}
	f, ok := props[prop]
	if !ok {
		fmt.Fprintln(os.Stderr, "unknown property", prop)
		os.Exit(2)
	}
	out, err := os.Create(os.Args[4])
	if err != nil {
		fmt.Fprintln(os.Stderr, err)
		os.Exit(2)
	}
	w := bufio.NewWriterSize(out, 1<<20)
	g := &Gen{Tier: tier, Thorough: tier == "thorough", R: NewRNG(seed ^ hashString(prop)), W: w, Stats: map[string]int{}}
	if tier != "replay" {
		g.PendingPath = os.Args[4] + ".pending"
		os.Remove(g.PendingPath)
		limit := int64(900)
		if v, err := strconv.ParseInt(os.Getenv("VERIF_STALL_SECONDS"), 10, 64); err == nil && v > 0 {
			limit = v
		}
		go func() {
			for {
				time.Sleep(5 * time.Second)
				if t := pendingSince.Load(); t != 0 && time.Now().Unix()-t > limit {
					fmt.Fprintf(os.Stderr, "fatal error: harness watchdog: the pending case has not returned for %d s\n", limit)
					os.Exit(2)
				}
			}
		}()
	}
	if corpus := os.Getenv("VERIF_CORPUS"); corpus != "" {
		g.corpus(corpus)
	}
	if tier == "replay" {
		rf, ok := replays[prop]
		if !ok {
			fmt.Fprintln(os.Stderr, "no replay support for", prop)
			os.Exit(2)
		}
		rf(g, strings.Fields(os.Getenv("VERIF_REPLAY")))
	} else {
		f(g)
	}
	if err := w.Flush(); err != nil {
		fmt.Fprintln(os.Stderr, err)
		os.Exit(2)
	}
	out.Close()
	if g.PendingPath != "" {
		os.Remove(g.PendingPath)
	}
	if len(os.Args) > 5 {
		b, _ := json.MarshalIndent(map[string]interface{}{"lines": g.N, "stats": g.Stats, "notes": g.Notes}, "", " ")
		_ = os.WriteFile(os.Args[5], b, 0o644)
	}
}
