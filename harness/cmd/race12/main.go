// Command race12 is built with `go build -race` (thorough tier of C12, supporting evidence only).
// It runs the real ensemble through exec.Parallel for several targets and limits and compares
// every result with the one obtained by executing each algorithm alone. The caller sets
// GOMAXPROCS and GORACE=halt_on_error=1: a data race terminates the process with exit status 66.
//
// Exit status: 0 all equal; 3 mismatch (a line starting with MISMATCH is printed).
package main

import (
	"fmt"
	"math/big"
	"os"
	"runtime"
	"strconv"

	"github.com/mmcloughlin/addchain/alg"
	"github.com/mmcloughlin/addchain/alg/ensemble"
	"github.com/mmcloughlin/addchain/alg/exec"
)

type rng struct{ s uint64 }

func (r *rng) next() uint64 {
	r.s += 0x9e3779b97f4a7c15
	z := r.s
	z = (z ^ (z >> 30)) * 0xbf58476d1ce4e5b9
	z = (z ^ (z >> 27)) * 0x94d049bb133111eb
	return z ^ (z >> 31)
}

func equal(a, b exec.Result) string {
	if a.Algorithm.String() != b.Algorithm.String() {
		return "algorithm " + a.Algorithm.String() + " vs " + b.Algorithm.String()
	}
	if (a.Err == nil) != (b.Err == nil) || (a.Err != nil && a.Err.Error() != b.Err.Error()) {
		return fmt.Sprintf("err %v vs %v", a.Err, b.Err)
	}
	if a.Target.Cmp(b.Target) != 0 {
		return "target"
	}
	if len(a.Chain) != len(b.Chain) {
		return "chain length"
	}
	for i := range a.Chain {
		if a.Chain[i].Cmp(b.Chain[i]) != 0 {
			return fmt.Sprintf("chain[%d]", i)
		}
	}
	if len(a.Program) != len(b.Program) {
		return "program length"
	}
	for i := range a.Program {
		if a.Program[i] != b.Program[i] {
			return fmt.Sprintf("program[%d]", i)
		}
	}
	return ""
}

func main() {
	seed := uint64(1)
	if len(os.Args) > 1 {
		seed, _ = strconv.ParseUint(os.Args[1], 10, 64)
	}
	r := &rng{s: seed}
	one := big.NewInt(1)
	t1 := new(big.Int).Sub(new(big.Int).Lsh(one, 127), one)
	t2 := new(big.Int).Sub(new(big.Int).Lsh(one, 255), big.NewInt(19))
	t3 := new(big.Int)
	for i := 0; i < 4; i++ {
		t3.Lsh(t3, 64)
		t3.Or(t3, new(big.Int).SetUint64(r.next()))
	}
	t3.SetBit(t3, 255, 1)
	bad := 0
	for _, n := range []*big.Int{t1, t2, t3} {
		var as []alg.ChainAlgorithm = ensemble.Ensemble()
		before := new(big.Int).Set(n)
		seq := make([]exec.Result, len(as))
		for i, a := range as {
			seq[i] = exec.Execute(n, a)
		}
		for _, limit := range []int{1, 2, 16} {
			p := exec.NewParallel()
			p.SetConcurrency(limit)
			rs := p.Execute(n, as)
			if len(rs) != len(as) {
				fmt.Printf("MISMATCH n=%v limit=%d: %d results for %d algorithms\n", n, limit, len(rs), len(as))
				bad++
				continue
			}
			for i := range rs {
				if rs[i].Algorithm != as[i] {
					fmt.Printf("MISMATCH n=%v limit=%d slot %d holds the result of %v, want %v\n", n, limit, i, rs[i].Algorithm, as[i])
					bad++
				} else if d := equal(rs[i], seq[i]); d != "" {
					fmt.Printf("MISMATCH n=%v limit=%d slot %d (%v): %s\n", n, limit, i, as[i], d)
					bad++
				}
			}
			if before.Cmp(n) != 0 {
				fmt.Printf("MISMATCH n=%v limit=%d: target modified (was %v)\n", n, limit, before)
				bad++
			}
			fmt.Printf("ok bits=%d limit=%d gomaxprocs=%d algorithms=%d\n", n.BitLen(), limit, runtime.GOMAXPROCS(0), len(as))
		}
	}
	if bad > 0 {
		os.Exit(3)
	}
}
