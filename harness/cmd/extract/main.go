// Command extract re-reads the current /repo sources with go/ast, regenerates
// the small Lean tables the theorems are proved over (lean/AC/Gen/*.lean,
// rewritten only when their content changes) and compares structural facts
// with the hand-written expectations under /verif/expect.
//
// usage: extract <repo> <verif> <property>
// output: JSON {"checked": [...], "mismatches": [...], "regenerated": [...]}
package main

import (
	"encoding/json"
	"fmt"
	"go/ast"
	"go/parser"
	"go/printer"
	"go/token"
	"os"
	"path/filepath"
	"strings"
)

// Ctx carries the result of one extraction run.
type Ctx struct {
	Repo, Verif string
	Checked     []string `json:"checked"`
	Mismatches  []string `json:"mismatches"`
	Regenerated []string `json:"regenerated"`
}

type extractor func(c *Ctx)

// extractors maps a property id to the facts it depends on.
var extractors = map[string][]extractor{}

func register(f extractor, pids ...string) {
	for _, p := range pids {
		extractors[p] = append(extractors[p], f)
	}
}

func main() {
	if len(os.Args) < 4 {
		fmt.Fprintln(os.Stderr, "usage: extract <repo> <verif> <property>")
		os.Exit(2)
	}
	c := &Ctx{Repo: os.Args[1], Verif: os.Args[2], Checked: []string{}, Mismatches: []string{}, Regenerated: []string{}}
	for _, f := range extractors[os.Args[3]] {
		f(c)
	}
	b, _ := json.MarshalIndent(c, "", " ")
	fmt.Println(string(b))
}

// Check records one fact comparison.
func (c *Ctx) Check(name string, ok bool, detail string) {
	c.Checked = append(c.Checked, name)
	if !ok {
		c.Mismatches = append(c.Mismatches, name+": "+detail)
	}
}

// Fail records an extraction failure as a mismatch.
func (c *Ctx) Fail(name string, err error) {
	c.Checked = append(c.Checked, name)
	c.Mismatches = append(c.Mismatches, fmt.Sprintf("%s: extraction failed: %v", name, err))
}

// ParseFile parses a Go file of the repository.
func (c *Ctx) ParseFile(rel string) (*token.FileSet, *ast.File, error) {
	fset := token.NewFileSet()
	f, err := parser.ParseFile(fset, filepath.Join(c.Repo, rel), nil, parser.ParseComments)
	return fset, f, err
}

// Src renders an AST node as source text with normalised whitespace.
func Src(fset *token.FileSet, n ast.Node) string {
	var b strings.Builder
	_ = printer.Fprint(&b, fset, n)
	return strings.Join(strings.Fields(b.String()), " ")
}

// WriteGen writes a generated Lean file if (and only if) its content changed.
func (c *Ctx) WriteGen(name, content string) {
	path := filepath.Join(c.Verif, "lean", "AC", "Gen", name)
	old, err := os.ReadFile(path)
	if err == nil && string(old) == content {
		return
	}
	if os.Getenv("VERIF_NO_REGEN") != "" {
		// alternate-tree run: never rewrite the shared table; the theorems proved over it no
		// longer speak about this tree, which the caller treats as a broken proof obligation.
		c.Mismatches = append(c.Mismatches, "generated table "+name+" differs from the one the theorems were checked over")
		return
	}
	if err := os.WriteFile(path, []byte(content), 0o644); err != nil {
		c.Mismatches = append(c.Mismatches, "cannot write "+path+": "+err.Error())
		return
	}
	c.Regenerated = append(c.Regenerated, name)
}

// Expect compares got with the content of expect/<name>; a missing file is a mismatch.
func (c *Ctx) Expect(name, got string) {
	want, err := os.ReadFile(filepath.Join(c.Verif, "expect", name))
	if err != nil {
		c.Check("expect/"+name, false, "expectation file missing")
		return
	}
	w := strings.TrimSpace(string(want))
	g := strings.TrimSpace(got)
	detail := ""
	if w != g {
		wl, gl := strings.Split(w, "\n"), strings.Split(g, "\n")
		for i := 0; i < len(wl) || i < len(gl); i++ {
			a, b := "", ""
			if i < len(wl) {
				a = wl[i]
			}
			if i < len(gl) {
				b = gl[i]
			}
			if a != b {
				detail = fmt.Sprintf("line %d: expected %q, source now has %q", i+1, a, b)
				break
			}
		}
	}
	c.Check("expect/"+name, w == g, detail)
}

// FuncSrc returns the normalised source of a top-level function or method ("Recv.Name" or "Name").
func FuncSrc(fset *token.FileSet, f *ast.File, name string) (string, bool) {
	for _, d := range f.Decls {
		fd, ok := d.(*ast.FuncDecl)
		if !ok {
			continue
		}
		n := fd.Name.Name
		if fd.Recv != nil && len(fd.Recv.List) == 1 {
			t := fd.Recv.List[0].Type
			if s, ok := t.(*ast.StarExpr); ok {
				t = s.X
			}
			if id, ok := t.(*ast.Ident); ok {
				n = id.Name + "." + n
			}
		}
		if n == name {
			return Src(fset, fd), true
		}
	}
	return "", false
}
