package main

import "strings"

func init() { register(extractC20, "C20") }

// extractC20 compares the normalised source of every function the C20 model
// mirrors (internal/metavars/metavars.go) with the committed expectation, and
// the two format strings the written text depends on.
func extractC20(c *Ctx) {
	const file = "internal/metavars/metavars.go"
	fset, f, err := c.ParseFile(file)
	if err != nil {
		c.Fail("metavars.go", err)
		return
	}
	for _, fn := range []struct{ name, file string }{
		{"File.Get", "metavars_get.txt"},
		{"File.Add", "metavars_add.txt"},
		{"File.Set", "metavars_set.txt"},
		{"File.get", "metavars_lookup.txt"},
		{"Write", "metavars_write.txt"},
		{"Read", "metavars_read.txt"},
		{"parse", "metavars_parse.txt"},
		{"builder.file", "metavars_builder_file.txt"},
		{"builder.decl", "metavars_builder_decl.txt"},
		{"builder.gendecl", "metavars_builder_gendecl.txt"},
		{"builder.valuespec", "metavars_builder_valuespec.txt"},
	} {
		src, ok := FuncSrc(fset, f, fn.name)
		if !ok {
			c.Check("expect/"+fn.file, false, "function "+fn.name+" not found in "+file)
			continue
		}
		c.Expect(fn.file, src)
	}
	// the line printer Write goes through
	if pfset, pf, err := c.ParseFile("internal/print/printer.go"); err != nil {
		c.Fail("print/printer.go", err)
	} else {
		for _, fn := range []struct{ name, file string }{
			{"New", "print_new.txt"},
			{"Printer.Indent", "print_indent.txt"},
			{"Printer.Dedent", "print_dedent.txt"},
			{"Printer.Linef", "print_linef.txt"},
			{"Printer.NL", "print_nl.txt"},
			{"Printer.Printf", "print_printf.txt"},
		} {
			src, ok := FuncSrc(pfset, pf, fn.name)
			if !ok {
				c.Check("expect/"+fn.file, false, "function "+fn.name+" not found in internal/print/printer.go")
				continue
			}
			c.Expect(fn.file, src)
		}
	}
	w, _ := FuncSrc(fset, f, "Write")
	c.Check("metavars.Write: spec line is `%s = %q`", strings.Contains(w, `p.Linef("%s = %q", prop.Name, prop.Value)`), "format string changed")
	c.Check("metavars.Write: doc line is `// %s`, skipped when empty",
		strings.Contains(w, `if prop.Doc != "" { p.Linef("// %s", prop.Doc) }`), "doc line changed")
	v, _ := FuncSrc(fset, f, "builder.valuespec")
	c.Check("metavars.Read: doc leader is `// `", strings.Contains(v, `const leader = "// "`), "leader changed")
}
