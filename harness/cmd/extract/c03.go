package main

func init() { register(extractC03, "C03") }

// c03Funcs lists every function the C03 load model (lean/AC/SemX.lean) mirrors, with the committed
// expectation of its normalised source.
var c03Funcs = []struct{ file, name, expect string }{
	{"acc/translate.go", "Translate", "acc_translate.txt"},
	{"acc/translate.go", "newstate", "acc_translate_newstate.txt"},
	{"acc/translate.go", "state.statement", "acc_translate_statement.txt"},
	{"acc/translate.go", "state.expr", "acc_translate_expr.txt"},
	{"acc/translate.go", "state.add", "acc_translate_add.txt"},
	{"acc/translate.go", "state.double", "acc_translate_double.txt"},
	{"acc/translate.go", "state.shift", "acc_translate_shift.txt"},
	{"acc/translate.go", "state.define", "acc_translate_define.txt"},
	{"acc/translate.go", "state.lookup", "acc_translate_lookup.txt"},
	{"acc/pass/eval.go", "Compile", "acc_pass_compile.txt"},
	{"acc/pass/eval.go", "Eval", "acc_pass_eval.txt"},
	{"acc/acc.go", "LoadString", "acc_loadstring.txt"},
	{"acc/acc.go", "LoadReader", "acc_loadreader.txt"},
	{"acc/ir/ir.go", "Program.AddInstruction", "acc_ir_addinstruction.txt"},
	{"acc/ir/ir.go", "Index", "acc_ir_index.txt"},
	{"acc/ir/ir.go", "NewOperand", "acc_ir_newoperand.txt"},
	{"program.go", "Program.Shift", "program_shift.txt"},
	{"program.go", "Program.Double", "program_double.txt"},
	{"program.go", "Program.Add", "program_add.txt"},
	{"program.go", "Program.boundscheck", "program_boundscheck.txt"},
	{"program.go", "Program.Evaluate", "program_evaluate.txt"},
}

// extractC03 compares the normalised source of the translator, the compile / eval pass and the
// Program primitives with the committed expectations (the parser side is covered by extractC07).
func extractC03(c *Ctx) {
	for _, fn := range c03Funcs {
		fset, f, err := c.ParseFile(fn.file)
		if err != nil {
			c.Fail(fn.file, err)
			continue
		}
		src, ok := FuncSrc(fset, f, fn.name)
		if !ok {
			c.Check("expect/"+fn.expect, false, "function "+fn.name+" not found in "+fn.file)
			continue
		}
		c.Expect(fn.expect, src)
	}
}
