package main

import (
	"fmt"
	"go/ast"
	"go/token"
	"strings"
)

// gotr: a translator from an imperative fragment of Go to Lean `do` blocks in the `Option` monad
// (`none` = the Go code panics: index out of range, negative make size).  It is used for program.go
// and for the small functions of chain.go (C18 translator tie): the generated file
// lean/AC/Gen/ProgramFns.lean is what AC/ProgramTie.lean proves equal to the hand-written model
// AC/ProgramX.lean, so the theorems of C18 are re-checked against what the source says now.
//
// Fragment (anything else fails the translation, reported as a broken tie):
//   types       int (Int), uint (Nat), bool, error (Option GoErr), *big.Int (Int), Op (GOp),
//               Program / *Program (List GOp), Chain, []*big.Int, []int (List Int);
//   statements  x := E; x, y := f(..); x = E; x++; x--; a[i]++; x = append(x, E); *p = append(*p, E);
//               v.SetBit(v, i, b); if [init;] C {..} [else {..}]; switch { case C: .. };
//               return ..; for _, x := range E {..}; for i, x := range E {..}; for ; s > 0; s-- {..};
//   expressions literals, locals, x.I / x.J, a[i], len(..), make([]int, n), composite literals of the
//               slice types and of Op, fmt.Errorf(fmt, arg), nil (error), calls of translated
//               functions and methods, new(big.Int).Add/Or, bigint.One(), comparison, + - ! && ||.
// Every translated function is monadic; a loop becomes a structurally recursive function over the
// ranged list (or the counter) that takes the variables in scope as parameters: an outermost loop
// carries the rest of the function in its base case (so `return` inside the loop leaves the
// function), a nested loop returns the variables it assigns.  A method with a pointer receiver
// returns the receiver's new value in front of its results.

type gtFunc struct {
	lean    string   // Lean name
	recv    string   // Go receiver type ("" for a plain function), without '*'
	ptr     bool     // pointer receiver
	params  []string // Go types of the parameters (receiver excluded)
	results []string // Go types of the results
	pkg     string   // "" for the root package, else the package name (functions of internal/bigints)
}

type gotr struct {
	fset     *token.FileSet
	funcs    map[string]*gtFunc // "Recv.Name" or "Name"
	err      error
	out      *strings.Builder // finished definitions (loop functions come before their parent)
	cur      *gtFunc
	curKey   string
	nloop    int
	scopes   []map[string]string // local name -> Go type
	order    []string            // locals in definition order (for loop-function parameters)
	named    []string            // named results of the current function
	depth    int                 // loop nesting depth
	mut      map[string]bool     // variables assigned somewhere in the current function
	innerRet bool                // translating the body of a nested loop that contains a return
	recCalls []string            // the recursive call of each enclosing loop (what `continue` does)
}

func (t *gotr) fail(n ast.Node, why string) {
	if t.err == nil {
		t.err = fmt.Errorf("%s: %s", why, Src(t.fset, n))
	}
}

var gtTypes = map[string]string{
	"int": "Int", "uint": "Nat", "bool": "Bool", "error": "Option GoErr", "*big.Int": "Int", "Op": "GOp",
	"Program": "List GOp", "*Program": "List GOp", "Chain": "List Int", "[]*big.Int": "List Int", "[]int": "List Int", "[]Op": "List GOp", "[][]Op": "List (List GOp)", "map[uint]uint": "(Nat → Nat)", "Sum": "List GTerm", "Term": "GTerm", "FixedWindow": "Nat", "?*big.Int": "Option Int",
}

var gtElem = map[string]string{"Program": "Op", "*Program": "Op", "Chain": "*big.Int", "[]*big.Int": "*big.Int", "[]int": "int", "[]Op": "Op", "[][]Op": "[]Op", "Sum": "Term"}

// functions of internal/bigint translated by c19.go (AC/Gen/BigintFns.lean; pure, never panic)
var gtBigint = map[string]struct {
	params []string
	result string
}{
	"One": {nil, "*big.Int"}, "Zero": {nil, "*big.Int"}, "Clone": {[]string{"*big.Int"}, "*big.Int"},
	"Equal": {[]string{"*big.Int", "*big.Int"}, "bool"}, "EqualInt64": {[]string{"*big.Int", "int"}, "bool"},
	"IsZero": {[]string{"*big.Int"}, "bool"}, "IsNonZero": {[]string{"*big.Int"}, "bool"},
	"Pow2": {[]string{"uint"}, "*big.Int"}, "Ones": {[]string{"uint"}, "*big.Int"},
	"Extract": {[]string{"*big.Int", "uint", "uint"}, "*big.Int"},
}

// math/big value-producing methods (the receiver's old value is irrelevant) and observers
var gtBigValue = map[string]bool{"Add": true, "Sub": true, "Mul": true, "Or": true, "Lsh": true, "Rsh": true, "Set": true}

func gtBigArgs(m string) []string {
	if m == "Set" {
		return []string{"*big.Int"}
	}
	if m == "Lsh" || m == "Rsh" {
		return []string{"*big.Int", "uint"}
	}
	return []string{"*big.Int", "*big.Int"}
}

// tyOf renders a type expression; the qualifier of the root package is dropped (package opt writes
// addchain.Op, addchain.Chain).
func tyOf(fset *token.FileSet, n ast.Node) string {
	return strings.ReplaceAll(Src(fset, n), "addchain.", "")
}

func (t *gotr) leanType(n ast.Node, goType string) string {
	if l, ok := gtTypes[goType]; ok {
		return l
	}
	t.fail(n, "unsupported type "+goType)
	return "Unit"
}

func (t *gotr) lookup(name string) (string, bool) {
	for i := len(t.scopes) - 1; i >= 0; i-- {
		if ty, ok := t.scopes[i][name]; ok {
			return ty, true
		}
	}
	return "", false
}

func (t *gotr) define(n ast.Node, name, ty string) {
	if name == "_" {
		return
	}
	if _, ok := t.lookup(name); ok {
		// a redefinition in an inner scope would make the Lean binding outlive the Go one
		for _, o := range t.order {
			if o == name {
				if _, here := t.scopes[len(t.scopes)-1][name]; !here {
					t.fail(n, "shadowed variable "+name)
				}
				t.scopes[len(t.scopes)-1][name] = ty
				return
			}
		}
	}
	t.scopes[len(t.scopes)-1][name] = ty
	t.order = append(t.order, name)
}

func (t *gotr) push() { t.scopes = append(t.scopes, map[string]string{}) }
func (t *gotr) pop() {
	top := t.scopes[len(t.scopes)-1]
	t.scopes = t.scopes[:len(t.scopes)-1]
	keep := t.order[:0:0]
	for _, o := range t.order {
		if _, gone := top[o]; !gone {
			keep = append(keep, o)
		}
	}
	t.order = keep
}

// expr translates an expression and returns the Lean term and the Go type.
func (t *gotr) expr(e ast.Expr) (string, string) {
	switch v := e.(type) {
	case *ast.ParenExpr:
		s, ty := t.expr(v.X)
		return "(" + s + ")", ty
	case *ast.Ident:
		switch v.Name {
		case "true", "false":
			return v.Name, "bool"
		case "nil":
			return "goNil", "error"
		}
		if ty, ok := t.lookup(v.Name); ok {
			if ty == "?*big.Int" {
				// a pointer that may be nil (`var x *big.Int`): reading through it panics when it is nil
				return "(← " + v.Name + ")", "*big.Int"
			}
			return v.Name, ty
		}
	case *ast.BasicLit:
		if v.Kind == token.INT {
			return v.Value, "int"
		}
	case *ast.StarExpr:
		s, ty := t.expr(v.X)
		return s, strings.TrimPrefix(ty, "*")
	case *ast.SelectorExpr:
		s, ty := t.expr(v.X)
		if ty == "Op" && (v.Sel.Name == "I" || v.Sel.Name == "J") {
			return s + "." + v.Sel.Name, "int"
		}
		if ty == "Term" && v.Sel.Name == "D" {
			return s + ".D", "*big.Int"
		}
		if ty == "Term" && v.Sel.Name == "E" {
			return s + ".E", "uint"
		}
		if ty == "FixedWindow" && v.Sel.Name == "K" {
			return s, "uint" // the struct has the single field K: it is passed as that field
		}
	case *ast.SliceExpr:
		a, aty := t.expr(v.X)
		if _, ok := gtElem[aty]; ok && !v.Slice3 {
			if v.Low == nil && v.High != nil {
				h, hty := t.expr(v.High)
				if hty == "int" {
					return "(← sliceTo " + a + " " + h + ")", aty
				}
			}
			if v.Low != nil && v.High == nil {
				l, lty := t.expr(v.Low)
				if lty == "int" {
					return "(← sliceFrom " + a + " " + l + ")", aty
				}
			}
		}
	case *ast.IndexExpr:
		a, aty := t.expr(v.X)
		i, ity := t.expr(v.Index)
		if aty == "map[uint]uint" && ity == "uint" {
			return "(" + a + " " + i + ")", "uint" // a missing key reads as zero
		}
		if el, ok := gtElem[aty]; ok && ity == "int" {
			return "(← idx " + a + " " + i + ")", el
		}
	case *ast.UnaryExpr:
		if v.Op == token.SUB {
			x, ty := t.expr(v.X)
			if ty == "int" {
				return "(-" + x + ")", "int"
			}
		}
		if v.Op == token.NOT {
			s, ty := t.expr(v.X)
			if ty == "bool" {
				return "(!" + s + ")", "bool"
			}
		}
	case *ast.BinaryExpr:
		if v.Op == token.EQL || v.Op == token.NEQ {
			if id, ok := v.X.(*ast.Ident); ok && Src(t.fset, v.Y) == "nil" {
				if ty, ok := t.lookup(id.Name); ok && ty == "?*big.Int" {
					if v.Op == token.EQL {
						return id.Name + ".isNone", "bool"
					}
					return id.Name + ".isSome", "bool"
				}
			}
		}
		x, xt := t.expr(v.X)
		y, yt := t.expr(v.Y)
		switch v.Op {
		case token.LAND, token.LOR:
			if strings.Contains(y, "←") && xt == "bool" && yt == "bool" {
				// the right operand may panic: evaluate it only when the left one does not decide
				if v.Op == token.LOR {
					return "(← (if " + x + " then pure true else do pure " + y + "))", "bool"
				}
				return "(← (if " + x + " then do pure " + y + " else pure false))", "bool"
			}
			if xt == "bool" && yt == "bool" {
				return "(" + x + " " + v.Op.String() + " " + y + ")", "bool"
			}
		case token.EQL, token.NEQ:
			if xt == "error" || yt == "error" {
				other := x
				if x == "goNil" {
					other = y
				} else if y != "goNil" {
					break
				}
				if v.Op == token.NEQ {
					return other + ".isSome", "bool"
				}
				return other + ".isNone", "bool"
			}
			if xt == yt && (xt == "int" || xt == "uint" || xt == "bool") {
				return "(" + x + " " + v.Op.String() + " " + y + ")", "bool"
			}
		case token.LSS, token.LEQ, token.GTR, token.GEQ:
			if xt == yt && (xt == "int" || xt == "uint") {
				op := map[token.Token]string{token.LSS: "<", token.LEQ: "≤", token.GTR: ">", token.GEQ: "≥"}[v.Op]
				return "(decide (" + x + " " + op + " " + y + "))", "bool"
			}
		case token.QUO:
			// unsigned division by a positive literal (signed division truncates toward zero: not supported)
			if xt == "uint" && isLit(v.Y) && Src(t.fset, v.Y) != "0" {
				return "(" + x + " / " + y + ")", "uint"
			}
		case token.ADD, token.SUB:
			// unsigned subtraction would need truncation: only int
			if xt == yt && (xt == "int" || (xt == "uint" && v.Op == token.ADD)) {
				return "(" + x + " " + v.Op.String() + " " + y + ")", xt
			}
			if xt == "uint" && yt == "int" && isLit(v.Y) && v.Op == token.ADD {
				return "(" + x + " + " + y + ")", "uint"
			}
		}
	case *ast.CompositeLit:
		ty := tyOf(t.fset, v.Type)
		elts := []string{}
		etys := []string{}
		for _, el := range v.Elts {
			if _, kv := el.(*ast.KeyValueExpr); kv {
				continue
			}
			s, ety := t.expr(el)
			elts = append(elts, s)
			etys = append(etys, ety)
		}
		if ty == "Term" && len(v.Elts) == 2 {
			var dd, ee string
			good := true
			for _, el := range v.Elts {
				kv, ok := el.(*ast.KeyValueExpr)
				if !ok {
					good = false
					break
				}
				val, vty := t.expr(kv.Value)
				switch Src(t.fset, kv.Key) {
				case "D":
					dd = val
					good = good && vty == "*big.Int"
				case "E":
					ee = val
					good = good && vty == "uint"
				default:
					good = false
				}
			}
			if good && dd != "" && ee != "" {
				return "(GTerm.mk " + dd + " " + ee + ")", "Term"
			}
		}
		if ty == "map[uint]uint" && len(elts) == 0 {
			return "(fun (_ : Nat) => (0 : Nat))", ty
		}
		if ty == "Op" && len(elts) == 0 {
			return "(GOp.mk 0 0)", "Op"
		}
		if ty == "Op" && len(elts) == 2 && etys[0] == "int" && etys[1] == "int" {
			return "(GOp.mk " + elts[0] + " " + elts[1] + ")", "Op"
		}
		if el, ok := gtElem[ty]; ok {
			for _, ety := range etys {
				if ety != el {
					t.fail(e, "element type")
				}
			}
			return "[" + strings.Join(elts, ", ") + "]", ty
		}
	case *ast.CallExpr:
		return t.call(v)
	}
	t.fail(e, "unsupported expression")
	return "sorryUnsupported", "?"
}

func (t *gotr) args(call *ast.CallExpr, want []string) []string {
	if len(call.Args) != len(want) {
		t.fail(call, "arity")
		return nil
	}
	out := []string{}
	for i, a := range call.Args {
		s, ty := t.expr(a)
		sliceOfBig := func(x string) bool { return x == "Chain" || x == "[]*big.Int" }
		if ty != want[i] && !(ty == "int" && want[i] == "uint" && isLit(a)) && !(sliceOfBig(ty) && sliceOfBig(want[i])) {
			t.fail(a, "argument type "+ty+", want "+want[i])
		}
		out = append(out, s)
	}
	return out
}

func isLit(e ast.Expr) bool { _, ok := e.(*ast.BasicLit); return ok }

func resultType(f *gtFunc) string {
	if len(f.results) == 1 {
		return f.results[0]
	}
	return "(" + strings.Join(f.results, ",") + ")"
}

// call translates a call expression used as a value (single result, value receiver).
func (t *gotr) call(v *ast.CallExpr) (string, string) {
	switch f := v.Fun.(type) {
	case *ast.Ident:
		switch f.Name {
		case "uint":
			if len(v.Args) == 1 {
				if c, ok := v.Args[0].(*ast.CallExpr); ok && len(c.Args) == 0 {
					if sel, ok := c.Fun.(*ast.SelectorExpr); ok && sel.Sel.Name == "Uint64" {
						x, xt := t.expr(sel.X)
						if xt == "*big.Int" {
							// Uint64 of a value outside [0, 2^64) is undefined: refused (the code checks IsUint64 first)
							return "(← goUint64 " + x + ")", "uint"
						}
					}
				}
			}
			if len(v.Args) == 1 && isLit(v.Args[0]) {
				return Src(t.fset, v.Args[0]), "uint"
			}
			if len(v.Args) == 1 {
				x, xt := t.expr(v.Args[0])
				if xt == "int" {
					// int -> uint wraps for negative values in Go; the translated functions only convert
					// values they have just established to be non-negative (`goUint` panics otherwise,
					// so a tie theorem cannot be proved about a wrapped value)
					return "(← goUint " + x + ")", "uint"
				}
			}
		case "int":
			if len(v.Args) == 1 {
				x, xt := t.expr(v.Args[0])
				if xt == "uint" {
					return "(Int.ofNat " + x + ")", "int"
				}
			}
		case "new":
			if len(v.Args) == 1 && Src(t.fset, v.Args[0]) == "big.Int" {
				return "(bNewInt 0)", "*big.Int"
			}
		case "max", "min":
			if len(v.Args) == 2 {
				a, aty := t.expr(v.Args[0])
				b, bty := t.expr(v.Args[1])
				if aty == "int" && bty == "int" {
					return "(" + f.Name + " " + a + " " + b + ")", "int"
				}
			}
		case "append":
			if len(v.Args) == 2 {
				x, xt := t.expr(v.Args[0])
				e, et := t.expr(v.Args[1])
				if v.Ellipsis != token.NoPos {
					if _, ok := gtElem[xt]; ok && gtElem[xt] == gtElem[et] {
						return "(" + x + " ++ " + e + ")", xt
					}
					break
				}
				if gtElem[xt] == et {
					return "(" + x + " ++ [" + e + "])", xt
				}
			}
		case "len":
			if len(v.Args) == 1 {
				s, ty := t.expr(v.Args[0])
				if _, ok := gtElem[ty]; ok {
					return "(len " + s + ")", "int"
				}
			}
		case "make":
			if (len(v.Args) == 2 || len(v.Args) == 3) && tyOf(t.fset, v.Args[0]) == "[]*big.Int" {
				// make([]*big.Int, n[, cap]): n nil pointers, modelled as n placeholders that the
				// translated functions overwrite before reading (capacity is not modelled)
				n, nt := t.expr(v.Args[1])
				if nt == "int" {
					return "(← makeBigs " + n + ")", "[]*big.Int"
				}
			}
			if len(v.Args) == 2 && tyOf(t.fset, v.Args[0]) == "[][]Op" {
				n, nt := t.expr(v.Args[1])
				if nt == "int" {
					return "(← makeOpLists " + n + ")", "[][]Op"
				}
			}
			if len(v.Args) == 2 && tyOf(t.fset, v.Args[0]) == "[]int" {
				n, nt := t.expr(v.Args[1])
				if nt == "int" {
					return "(← makeInts " + n + ")", "[]int"
				}
			}
		}
		key := f.Name
		if t.cur.pkg != "" {
			key = t.cur.pkg + "." + f.Name
		}
		if g, ok := gtBigint[f.Name]; ok && t.cur.pkg == "bigint" {
			a := t.args(v, g.params)
			return "(" + strings.TrimSpace("AC.Gen.Bigint."+lowerFirst(f.Name)+" "+strings.Join(a, " ")) + ")", g.result
		}
		if g, ok := t.funcs[key]; ok && !g.ptr {
			a := t.args(v, g.params)
			return "(← " + strings.TrimSpace(g.lean+" "+strings.Join(a, " ")) + ")", resultType(g)
		}
	case *ast.SelectorExpr:
		src := Src(t.fset, f)
		if (src == "fmt.Errorf" || src == "errors.New") && len(v.Args) >= 1 {
			if lit, ok := v.Args[0].(*ast.BasicLit); ok && lit.Kind == token.STRING {
				as := []string{}
				good := src == "fmt.Errorf" || len(v.Args) == 1
				for _, x := range v.Args[1:] {
					a, aty := t.expr(x)
					if aty != "int" && aty != "*big.Int" {
						good = false
					}
					as = append(as, a)
				}
				if good {
					return "(goErr " + lit.Value + " [" + strings.Join(as, ", ") + "])", "error"
				}
			}
		}
		if src == "bigints.ContainsSorted" && len(v.Args) == 2 {
			// sort.Search with a closure: a primitive (the binary-search model of AC/Helpers.lean)
			a := t.args(v, []string{"*big.Int", "[]*big.Int"})
			return "(bigintsContainsSorted " + strings.Join(a, " ") + ")", "bool"
		}
		if x, ok := f.X.(*ast.Ident); ok && x.Name == "addchain" {
			if g, ok := t.funcs[f.Sel.Name]; ok && !g.ptr && g.recv == "" {
				a := t.args(v, g.params)
				return "(← " + strings.TrimSpace(g.lean+" "+strings.Join(a, " ")) + ")", resultType(g)
			}
		}
		if x, ok := f.X.(*ast.Ident); ok && x.Name == "bigints" {
			if g, ok := t.funcs["bigints."+f.Sel.Name]; ok {
				a := t.args(v, g.params)
				rt := resultType(g)
				if rt == "[]*big.Int" && t.cur.pkg == "" {
					rt = "Chain" // the root package converts implicitly (Chain is []*big.Int)
				}
				return "(← " + strings.TrimSpace(g.lean+" "+strings.Join(a, " ")) + ")", rt
			}
		}
		if x, ok := f.X.(*ast.Ident); ok && x.Name == "bigint" {
			if g, ok := gtBigint[f.Sel.Name]; ok {
				a := t.args(v, g.params)
				return "(" + strings.TrimSpace("AC.Gen.Bigint."+lowerFirst(f.Sel.Name)+" "+strings.Join(a, " ")) + ")", g.result
			}
		}
		if src == "big.NewInt" && len(v.Args) == 1 {
			a, aty := t.expr(v.Args[0])
			if aty == "int" {
				return "(bNewInt " + a + ")", "*big.Int"
			}
		}
		if c, ok := f.X.(*ast.CallExpr); ok && Src(t.fset, c) == "new(big.Int)" {
			if f.Sel.Name == "Sqrt" {
				a := t.args(v, []string{"*big.Int"})
				return "(← bSqrt " + strings.Join(a, " ") + ")", "*big.Int"
			}
			if f.Sel.Name == "Div" {
				a := t.args(v, []string{"*big.Int", "*big.Int"})
				return "(← bDiv " + strings.Join(a, " ") + ")", "*big.Int"
			}
			if f.Sel.Name == "Rsh" {
				a := t.args(v, []string{"*big.Int", "uint"})
				return "(bRsh " + strings.Join(a, " ") + ")", "*big.Int"
			}
			if gtBigValue[f.Sel.Name] {
				a := t.args(v, gtBigArgs(f.Sel.Name))
				return "(b" + f.Sel.Name + " " + strings.Join(a, " ") + ")", "*big.Int"
			}
		}
		// method of a translated type on a value
		recv, rty := t.expr(f.X)
		if rty == "*big.Int" && f.Sel.Name == "IsUint64" && len(v.Args) == 0 {
			return "(bIsUint64 " + recv + ")", "bool"
		}
		if rty == "*big.Int" && f.Sel.Name == "Sign" && len(v.Args) == 0 {
			return "(bSign " + recv + ")", "int"
		}
		if rty == "*big.Int" && f.Sel.Name == "BitLen" && len(v.Args) == 0 {
			return "(bBitLen " + recv + ")", "int"
		}
		if rty == "*big.Int" && f.Sel.Name == "Bit" && len(v.Args) == 1 {
			a := t.args(v, []string{"int"})
			return "(← bBit " + recv + " " + strings.Join(a, " ") + ")", "int"
		}
		if rty == "*big.Int" && f.Sel.Name == "Cmp" {
			a := t.args(v, []string{"*big.Int"})
			return "(bCmp " + recv + " " + strings.Join(a, " ") + ")", "int"
		}
		if g, ok := t.funcs[strings.TrimPrefix(rty, "*")+"."+f.Sel.Name]; ok && !g.ptr {
			a := t.args(v, g.params)
			return "(← " + g.lean + " " + strings.Join(append([]string{recv}, a...), " ") + ")", resultType(g)
		}
		// value method of a type of the current (non-root) package: dict.Term.Int, dict.Sum.Int
		if g, ok := t.funcs[t.cur.pkg+"."+rty+"."+f.Sel.Name]; ok && t.cur.pkg != "" && !g.ptr {
			a := t.args(v, g.params)
			return "(← " + g.lean + " " + strings.Join(append([]string{recv}, a...), " ") + ")", resultType(g)
		}
	}
	t.fail(v, "unsupported call")
	return "sorryUnsupported", "?"
}

// ptrCall recognises recv.M(args) with M a pointer-receiver method and recv the current
// function's pointer receiver; returns the Lean call (without ←).
func (t *gotr) ptrCall(e ast.Expr) (string, *gtFunc, string, bool) {
	v, ok := e.(*ast.CallExpr)
	if !ok {
		return "", nil, "", false
	}
	f, ok := v.Fun.(*ast.SelectorExpr)
	if !ok {
		return "", nil, "", false
	}
	id, ok := f.X.(*ast.Ident)
	if !ok {
		return "", nil, "", false
	}
	rty, ok := t.lookup(id.Name)
	if !ok || !strings.HasPrefix(rty, "*") {
		return "", nil, "", false
	}
	g, ok := t.funcs[strings.TrimPrefix(rty, "*")+"."+f.Sel.Name]
	if !ok || !g.ptr {
		return "", nil, "", false
	}
	a := t.args(v, g.params)
	return g.lean + " " + strings.Join(append([]string{id.Name}, a...), " "), g, id.Name, true
}

func (t *gotr) retTuple(n ast.Node, vals []string) string {
	if t.cur.ptr {
		vals = append([]string{t.recvName()}, vals...)
	}
	if len(vals) == 1 {
		return vals[0]
	}
	return "(" + strings.Join(vals, ", ") + ")"
}

func (t *gotr) recvName() string { return t.order[0] }

// assigned collects the outer-scope variables assigned in a statement list.
func (t *gotr) assigned(list []ast.Stmt) []string {
	set := map[string]bool{}
	ast.Inspect(&ast.BlockStmt{List: list}, func(n ast.Node) bool {
		mark := func(e ast.Expr) {
			for {
				switch x := e.(type) {
				case *ast.IndexExpr:
					e = x.X
					continue
				case *ast.StarExpr:
					e = x.X
					continue
				case *ast.Ident:
					set[x.Name] = true
				}
				return
			}
		}
		switch s := n.(type) {
		case *ast.AssignStmt:
			if s.Tok != token.DEFINE {
				for _, l := range s.Lhs {
					mark(l)
				}
			}
		case *ast.IncDecStmt:
			mark(s.X)
		case *ast.ExprStmt:
			if c, ok := s.X.(*ast.CallExpr); ok {
				if sel, ok := c.Fun.(*ast.SelectorExpr); ok {
					if id, ok := sel.X.(*ast.Ident); ok {
						if ty, ok := t.lookup(id.Name); ok && (ty == "*big.Int" || ty == "?*big.Int" || strings.HasPrefix(ty, "*")) {
							set[id.Name] = true
						}
						if ty, ok := t.lookup(id.Name); ok && (sel.Sel.Name == "AppendClone" && ty == "Chain" || sel.Sel.Name == "SortByExponent" && ty == "Sum") {
							set[id.Name] = true // pointer-receiver / in-place methods on a local slice
						}
					}
				}
			}
		}
		return true
	})
	out := []string{}
	for _, o := range t.order {
		if set[o] {
			out = append(out, o)
		}
	}
	return out
}

func mentions(n ast.Node, name string) bool {
	found := false
	ast.Inspect(n, func(x ast.Node) bool {
		if id, ok := x.(*ast.Ident); ok && id.Name == name {
			found = true
		}
		return true
	})
	return found
}

// block translates a statement list; tail is what follows when the list falls through ("" = nothing).
func (t *gotr) block(list []ast.Stmt, ind string, tail string) string {
	var b strings.Builder
	for k, s := range list {
		if loop, ok := t.isLoop(s); ok {
			b.WriteString(t.loop(loop, list[k+1:], ind, tail))
			return b.String()
		}
		b.WriteString(t.stmt(s, ind))
	}
	if tail != "" {
		b.WriteString(ind + tail + "\n")
	}
	return b.String()
}

func (t *gotr) isLoop(s ast.Stmt) (ast.Stmt, bool) {
	switch s.(type) {
	case *ast.RangeStmt, *ast.ForStmt:
		return s, true
	}
	return nil, false
}

func (t *gotr) stmt(s ast.Stmt, ind string) string {
	switch v := s.(type) {
	case *ast.ReturnStmt:
		if t.depth > 1 && !t.innerRet {
			t.fail(s, "return inside a nested loop")
		}
		vals := []string{}
		if len(v.Results) == 1 && len(t.cur.results) > 1 {
			// return recv.M(..) / return f(..) handing on all results of the call
			if callS, g, _, ok := t.ptrCall(v.Results[0]); ok && t.cur.ptr && strings.Join(g.results, ",") == strings.Join(t.cur.results, ",") {
				return ind + "return (← " + callS + ")\n"
			}
		}
		if len(v.Results) == 0 {
			vals = append(vals, t.named...)
		}
		for i, r := range v.Results {
			e, ty := t.expr(r)
			want := "?"
			if i < len(t.cur.results) {
				want = t.cur.results[i]
			}
			if e == "goNil" {
				if _, isSlice := gtElem[want]; isSlice {
					e, ty = "[]", want
				}
			}
			if ty != want {
				t.fail(r, "result type "+ty+", want "+want)
			}
			vals = append(vals, e)
		}
		if len(vals) != len(t.cur.results) {
			t.fail(s, "number of results")
		}
		if t.depth > 1 {
			// inside a nested loop: the loop function hands the function's result to its caller
			return ind + "return (Sum.inl " + t.retTuple(s, vals) + ")\n"
		}
		return ind + "return " + t.retTuple(s, vals) + "\n"
	case *ast.DeclStmt:
		// var x *big.Int: a nil pointer
		if gd, ok := v.Decl.(*ast.GenDecl); ok && gd.Tok == token.VAR && len(gd.Specs) == 1 {
			if vs, ok := gd.Specs[0].(*ast.ValueSpec); ok && len(vs.Names) == 1 && len(vs.Values) == 0 && vs.Type != nil && Src(t.fset, vs.Type) == "*big.Int" {
				t.define(s, vs.Names[0].Name, "?*big.Int")
				return ind + "let mut " + vs.Names[0].Name + " : Option Int := none\n"
			}
		}
	case *ast.AssignStmt:
		if v.Tok == token.ASSIGN && len(v.Lhs) == 1 && len(v.Rhs) == 1 {
			if id, ok := v.Lhs[0].(*ast.Ident); ok {
				if lt, ok := t.lookup(id.Name); ok && lt == "?*big.Int" {
					e, ety := t.expr(v.Rhs[0])
					if ety == "*big.Int" {
						return ind + id.Name + " := some " + e + "\n"
					}
				}
			}
		}
		// *p = append(*p, E) / x = append(x, E)
		if len(v.Lhs) == 1 && len(v.Rhs) == 1 {
			if c, ok := v.Rhs[0].(*ast.CallExpr); ok && v.Tok == token.ASSIGN {
				if id, ok := c.Fun.(*ast.Ident); ok && id.Name == "append" && len(c.Args) == 2 && c.Ellipsis == token.NoPos && Src(t.fset, c.Args[0]) == Src(t.fset, v.Lhs[0]) {
					x, xt := t.expr(v.Lhs[0])
					e, et := t.expr(c.Args[1])
					if gtElem[xt] == et {
						return ind + x + " := " + x + " ++ [" + e + "]\n"
					}
				}
			}
		}
		// x *= k / x += k on integers
		if (v.Tok == token.MUL_ASSIGN || v.Tok == token.ADD_ASSIGN) && len(v.Lhs) == 1 && len(v.Rhs) == 1 {
			if id, ok := v.Lhs[0].(*ast.Ident); ok {
				if lt, ok := t.lookup(id.Name); ok && (lt == "uint" || lt == "int") && !t.isLoopVar(id.Name) {
					e, ety := t.expr(v.Rhs[0])
					if ety == lt || (ety == "int" && isLit(v.Rhs[0])) {
						op := " * "
						if v.Tok == token.ADD_ASSIGN {
							op = " + "
						}
						return ind + id.Name + " := " + id.Name + op + e + "\n"
					}
				}
			}
		}
		// a, b := bigint.MinMax(x, y)
		if v.Tok == token.DEFINE && len(v.Lhs) == 2 && len(v.Rhs) == 1 {
			if c, ok := v.Rhs[0].(*ast.CallExpr); ok && Src(t.fset, c.Fun) == "bigint.MinMax" && len(c.Args) == 2 {
				a := t.args(c, []string{"*big.Int", "*big.Int"})
				n1, n2 := v.Lhs[0].(*ast.Ident).Name, v.Lhs[1].(*ast.Ident).Name
				t.define(s, n1, "*big.Int")
				t.define(s, n2, "*big.Int")
				return ind + "let (" + n1 + ", " + n2 + ") := AC.Gen.Bigint.minMax " + strings.Join(a, " ") + "\n"
			}
		}
		// a, b := x, y (every right-hand side is evaluated before any name is bound)
		if v.Tok == token.DEFINE && len(v.Lhs) == len(v.Rhs) && len(v.Lhs) > 1 {
			out, names := "", []string{}
			for i, r := range v.Rhs {
				e, ty := t.expr(r)
				n := v.Lhs[i].(*ast.Ident).Name
				if n == "_" {
					continue
				}
				out += ind + "let " + n + "_new : " + t.leanType(s, ty) + " := " + e + "\n"
				names = append(names, n+":"+ty)
			}
			for _, nt := range names {
				p := strings.SplitN(nt, ":", 2)
				t.define(s, p[0], p[1])
				out += ind + t.letKw(p[0]) + p[0] + " : " + t.leanType(s, p[1]) + " := " + p[0] + "_new\n"
			}
			return out
		}
		// x, y := recv.M(..) with M a pointer-receiver method, or a multi-result call
		if len(v.Rhs) == 1 && v.Tok == token.DEFINE {
			if callS, g, recv, ok := t.ptrCall(v.Rhs[0]); ok && len(v.Lhs) == len(g.results) {
				pat := []string{recv + "'"}
				post := ind + recv + " := " + recv + "'\n"
				for i, l := range v.Lhs {
					n := l.(*ast.Ident).Name
					if n == "_" {
						pat = append(pat, "_")
						continue
					}
					t.define(l, n, g.results[i])
					if t.mut[n] {
						pat = append(pat, n+"'")
						post += ind + "let mut " + n + " := " + n + "'\n"
					} else {
						pat = append(pat, n)
					}
				}
				return ind + "let (" + strings.Join(pat, ", ") + ") ← " + callS + "\n" + post
			}
			if c, ok := v.Rhs[0].(*ast.CallExpr); ok && len(v.Lhs) > 1 {
				save := t.err
				e, ty := t.call(c)
				if t.err == nil && strings.HasPrefix(ty, "(") {
					tys := strings.Split(strings.Trim(ty, "()"), ",")
					if len(tys) == len(v.Lhs) {
						pat := []string{}
						post := ""
						for i, l := range v.Lhs {
							n := l.(*ast.Ident).Name
							if n == "_" {
								pat = append(pat, "_")
								continue
							}
							t.define(l, n, tys[i])
							if t.mut[n] {
								pat = append(pat, n+"'")
								post += ind + "let mut " + n + " := " + n + "'\n"
							} else {
								pat = append(pat, n)
							}
						}
						e = strings.TrimSuffix(strings.TrimPrefix(e, "(← "), ")")
						return ind + "let (" + strings.Join(pat, ", ") + ") ← " + e + "\n" + post
					}
				}
				t.err = save
			}
		}
		if len(v.Lhs) == 1 && len(v.Rhs) == 1 && v.Tok == token.ASSIGN {
			if ix, ok := v.Lhs[0].(*ast.IndexExpr); ok {
				if id, ok := ix.X.(*ast.Ident); ok {
					if aty, ok := t.lookup(id.Name); ok {
						i, ity := t.expr(ix.Index)
						e, ety := t.expr(v.Rhs[0])
						if ity == "int" && gtElem[aty] == ety {
							return ind + id.Name + " := (← setIdx " + id.Name + " " + i + " " + e + ")\n"
						}
					}
				}
			}
		}
		if len(v.Lhs) == 1 && len(v.Rhs) == 1 {
			if id, ok := v.Lhs[0].(*ast.Ident); ok {
				e, ty := t.expr(v.Rhs[0])
				if v.Tok == token.DEFINE {
					t.define(s, id.Name, ty)
					return ind + t.letKw(id.Name) + id.Name + " : " + t.leanType(s, ty) + " := " + e + "\n"
				}
				if lt, ok := t.lookup(id.Name); ok && v.Tok == token.ASSIGN && (lt == ty || (lt == "uint" && ty == "int" && isLit(v.Rhs[0])) || (gtElem[lt] == "*big.Int" && gtElem[ty] == "*big.Int")) {
					if t.depth > 0 && t.isLoopVar(id.Name) {
						t.fail(s, "assignment to a loop variable")
					}
					return ind + id.Name + " := " + e + "\n"
				}
			}
		}
	case *ast.BranchStmt:
		if v.Tok == token.CONTINUE && v.Label == nil && len(t.recCalls) > 0 {
			return ind + "return (← " + t.recCalls[len(t.recCalls)-1] + ")\n"
		}
	case *ast.IncDecStmt:
		d := " + 1"
		if v.Tok == token.DEC {
			d = " - 1"
		}
		switch x := v.X.(type) {
		case *ast.Ident:
			if ty, ok := t.lookup(x.Name); ok && ty == "int" && !t.isLoopVar(x.Name) {
				return ind + x.Name + " := " + x.Name + d + "\n"
			}
		case *ast.IndexExpr:
			if id, ok := x.X.(*ast.Ident); ok {
				if ty, ok := t.lookup(id.Name); ok && ty == "[]int" {
					i, ity := t.expr(x.Index)
					if ity == "int" {
						return ind + id.Name + " := (← setIdx " + id.Name + " " + i + " ((← idx " + id.Name + " " + i + ")" + d + "))\n"
					}
				}
			}
		}
	case *ast.ExprStmt:
		if c, ok := v.X.(*ast.CallExpr); ok {
			if sel, ok := c.Fun.(*ast.SelectorExpr); ok && sel.Sel.Name == "SortByExponent" && len(c.Args) == 0 {
				if id, ok := sel.X.(*ast.Ident); ok {
					if ty, ok := t.lookup(id.Name); ok && ty == "Sum" {
						// sort.Slice by exponent, in place: a primitive (the insertion sort of the model)
						return ind + id.Name + " := (sumSortByExponent " + id.Name + ")\n"
					}
				}
			}
		}
		if c, ok := v.X.(*ast.CallExpr); ok && len(c.Args) == 1 {
			if sel, ok := c.Fun.(*ast.SelectorExpr); ok && sel.Sel.Name == "AppendClone" {
				if id, ok := sel.X.(*ast.Ident); ok {
					if ty, ok := t.lookup(id.Name); ok && ty == "Chain" {
						// (*Chain).AppendClone on a local chain: `*c = append(*c, bigint.Clone(x))`; values
						// are immutable here, so the clone is the value
						a, aty := t.expr(c.Args[0])
						if aty == "*big.Int" {
							return ind + id.Name + " := " + id.Name + " ++ [" + a + "]\n"
						}
					}
				}
			}
		}
		if c, ok := v.X.(*ast.CallExpr); ok && Src(t.fset, c.Fun) == "bigints.Sort" && len(c.Args) == 1 {
			if id, ok := c.Args[0].(*ast.Ident); ok {
				if ty, ok := t.lookup(id.Name); ok && ty == "[]*big.Int" {
					// sort.Slice by value, in place: a primitive (merge sort; any correct sort of integers
					// returns the same list)
					return ind + id.Name + " := (bigintsSort " + id.Name + ")\n"
				}
			}
		}
		if c, ok := v.X.(*ast.CallExpr); ok {
			if id, ok := c.Fun.(*ast.Ident); ok && id.Name == "panic" {
				return ind + "goPanic\n"
			}
		}
		// v.Add(a, b) and friends: the local v is rebound to the value
		if c, ok := v.X.(*ast.CallExpr); ok {
			if sel, ok := c.Fun.(*ast.SelectorExpr); ok && gtBigValue[sel.Sel.Name] {
				if id, ok := sel.X.(*ast.Ident); ok {
					if ty, ok := t.lookup(id.Name); ok && ty == "*big.Int" {
						a := t.args(c, gtBigArgs(sel.Sel.Name))
						return ind + id.Name + " := (b" + sel.Sel.Name + " " + strings.Join(a, " ") + ")\n"
					}
					if ty, ok := t.lookup(id.Name); ok && ty == "?*big.Int" {
						// the method call itself dereferences the receiver: nil panics
						a := t.args(c, gtBigArgs(sel.Sel.Name))
						return ind + "let _ ← " + id.Name + "\n" + ind + id.Name + " := some (b" + sel.Sel.Name + " " + strings.Join(a, " ") + ")\n"
					}
				}
			}
		}
		// v.SetBit(v, i, b)
		if c, ok := v.X.(*ast.CallExpr); ok {
			if sel, ok := c.Fun.(*ast.SelectorExpr); ok && sel.Sel.Name == "SetBit" && len(c.Args) == 3 {
				if id, ok := sel.X.(*ast.Ident); ok {
					if ty, ok := t.lookup(id.Name); ok && ty == "*big.Int" {
						x, _ := t.expr(c.Args[0])
						i, ity := t.expr(c.Args[1])
						bb, bty := t.expr(c.Args[2])
						if ity == "int" && bty == "int" {
							return ind + id.Name + " := (← bSetBit " + x + " " + i + " " + bb + ")\n"
						}
					}
				}
			}
		}
	case *ast.IfStmt:
		t.push()
		defer t.pop()
		out := ""
		if v.Init != nil {
			out += t.stmt(v.Init, ind)
		}
		c, cty := t.expr(v.Cond)
		if cty != "bool" {
			t.fail(v.Cond, "condition type")
		}
		out += ind + "if " + c + " then\n"
		t.push()
		out += t.blockOrUnit(v.Body.List, ind+"  ")
		t.pop()
		switch el := v.Else.(type) {
		case nil:
		case *ast.BlockStmt:
			out += ind + "else\n"
			t.push()
			out += t.blockOrUnit(el.List, ind+"  ")
			t.pop()
		default:
			t.fail(s, "else-if")
		}
		return out
	case *ast.SwitchStmt:
		if v.Init == nil && v.Tag != nil {
			// switch E { case k: .. }: E evaluated once, compared in order (integer tags only)
			tag, tty := t.expr(v.Tag)
			if tty != "int" {
				t.fail(s, "switch tag type")
			}
			out := ind + "let _tag : Int := " + tag + "\n"
			kw := "if "
			for _, cc := range v.Body.List {
				cl := cc.(*ast.CaseClause)
				if len(cl.List) != 1 {
					t.fail(cl, "case list")
					continue
				}
				c, cty := t.expr(cl.List[0])
				if cty != "int" {
					t.fail(cl, "case type")
				}
				out += ind + kw + "(_tag == " + c + ") then\n"
				t.push()
				out += t.blockOrUnit(cl.Body, ind+"  ")
				t.pop()
				kw = "else if "
			}
			return out
		}
		if v.Init == nil && v.Tag == nil {
			out := ""
			kw := "if "
			for _, cc := range v.Body.List {
				cl := cc.(*ast.CaseClause)
				if len(cl.List) != 1 {
					t.fail(cl, "case list")
					continue
				}
				c, cty := t.expr(cl.List[0])
				if cty != "bool" {
					t.fail(cl, "case type")
				}
				out += ind + kw + c + " then\n"
				t.push()
				out += t.blockOrUnit(cl.Body, ind+"  ")
				t.pop()
				kw = "else if "
			}
			return out
		}
	}
	t.fail(s, "unsupported statement")
	return ind + "sorryUnsupported\n"
}

func (t *gotr) blockOrUnit(list []ast.Stmt, ind string) string {
	for _, s := range list {
		if _, ok := t.isLoop(s); ok {
			// an outermost loop carries the rest of the function, so its block must end by returning;
			// a nested loop is an ordinary statement (it returns the variables it assigns)
			if _, ret := list[len(list)-1].(*ast.ReturnStmt); !ret && t.depth == 0 {
				t.fail(s, "loop inside a conditional whose block does not end by returning")
			}
		}
	}
	if len(list) == 0 {
		return ind + "pure ()\n"
	}
	return t.block(list, ind, "")
}

var loopVars []string

func (t *gotr) isLoopVar(n string) bool {
	for _, l := range loopVars {
		if l == n {
			return true
		}
	}
	return false
}

// loop emits the recursive function for a loop and returns the statement(s) that call it.
func (t *gotr) loop(s ast.Stmt, rest []ast.Stmt, ind string, tail string) string {
	t.nloop++
	name := fmt.Sprintf("%s_loop%d", t.cur.lean, t.nloop)
	outer := t.depth == 0
	var body []ast.Stmt
	var domType, nilPat, consPat, recArg, callArg string
	var extra []string // loop-bound variables defined for the body
	idxName, idxStart, idxStep := "", "0", " + 1"
	counter, downIdx := "", ""
	converge := false
	condS := ""
	pre := ""
	mapPost, mapVar := "", ""
	t.push()
	switch v := s.(type) {
	case *ast.RangeStmt:
		if v.Tok != token.DEFINE {
			t.fail(s, "range without :=")
		}
		x, xt := t.expr(v.X)
		el, ok := gtElem[xt]
		if !ok {
			t.fail(s, "range over "+xt)
			el = "int"
		}
		val := "_"
		if v.Value != nil {
			val = v.Value.(*ast.Ident).Name
		}
		if k, ok := v.Key.(*ast.Ident); ok && k.Name != "_" {
			idxName = k.Name
		}
		domType = "List " + t.leanType(s, el)
		nilPat, consPat, recArg, callArg = "[]", val+" :: _rest", "_rest", x
		body = v.Body.List
		if val != "_" {
			extra = append(extra, val+":"+el)
		}
	case *ast.ForStmt:
		body = v.Body.List
		domType = "Nat"
		nilPat, consPat, recArg = "0", "_n + 1", "_n"
		init, _ := v.Init.(*ast.AssignStmt)
		cond, _ := v.Cond.(*ast.BinaryExpr)
		post, _ := v.Post.(*ast.IncDecStmt)
		switch {
		case v.Init == nil && cond != nil && cond.Op == token.GTR && Src(t.fset, cond.Y) == "0" && post != nil && post.Tok == token.DEC && Src(t.fset, post.X) == Src(t.fset, cond.X) && t.isIntLocal(cond.X):
			// for ; k > 0; k-- { .. } with k a signed local that the body reads but does not assign and that
			// is not mentioned afterwards: max(k, 0) passes, the index handed down decreasing
			downIdx = Src(t.fset, cond.X)
			idxName, idxStart, idxStep = downIdx, downIdx, " - 1"
			for _, as := range t.assigned(body) {
				if as == downIdx {
					t.fail(s, "countdown index assigned in the loop body")
				}
			}
			if mentions(&ast.BlockStmt{List: rest}, downIdx) {
				t.fail(s, "countdown index used after the loop")
			}
			callArg = "(Int.toNat " + downIdx + ")"
		case init != nil && init.Tok == token.DEFINE && len(init.Lhs) == 1 && len(init.Rhs) == 1 && cond != nil && cond.Op == token.GTR && Src(t.fset, cond.X) == Src(t.fset, init.Lhs[0]) && post != nil && post.Tok == token.DEC && Src(t.fset, post.X) == Src(t.fset, init.Lhs[0]):
			// for i := A; i > B; i-- { .. } with i unsigned and not mentioned in the body, B not assigned
			// in the body: A - B passes (none when A <= B)
			counter = Src(t.fset, init.Lhs[0])
			a, aty := t.expr(init.Rhs[0])
			b, bty := t.expr(cond.Y)
			if aty != "uint" || (bty != "uint" && b != "0") {
				t.fail(s, "bounds of an unsigned countdown")
			}
			if mentions(v.Body, counter) {
				t.fail(s, "unsigned countdown variable used in the loop body")
			}
			for _, as := range t.assigned(body) {
				if mentions(cond.Y, as) {
					t.fail(s, "bound of a countdown is assigned in its body")
				}
			}
			callArg = "(" + a + " - " + b + ")"
		case v.Init == nil && cond != nil && cond.Op == token.GTR && Src(t.fset, cond.Y) == "0" && post != nil && post.Tok == token.DEC && Src(t.fset, post.X) == Src(t.fset, cond.X):
			// for ; s > 0; s-- { .. } with s an unsigned local not mentioned in the body or afterwards
			counter = Src(t.fset, cond.X)
			if ty, _ := t.lookup(counter); ty != "uint" {
				t.fail(s, "countdown over a signed variable")
			}
			if mentions(v.Body, counter) || mentions(&ast.BlockStmt{List: rest}, counter) {
				t.fail(s, "loop counter used outside the loop header")
			}
			callArg = counter
		case init != nil && init.Tok == token.DEFINE && len(init.Lhs) == 1 && len(init.Rhs) == 1 && cond != nil && (cond.Op == token.LSS || cond.Op == token.LEQ) && Src(t.fset, cond.X) == Src(t.fset, init.Lhs[0]) && post != nil && post.Tok == token.INC && Src(t.fset, post.X) == Src(t.fset, init.Lhs[0]):
			// for i := A; i < B; i++ { .. }: i is not assigned in the body and B does not change
			idxName = Src(t.fset, init.Lhs[0])
			a, aty := t.expr(init.Rhs[0])
			b, bty := t.expr(cond.Y)
			if aty != "int" || bty != "int" || strings.Contains(a, "←") || strings.Contains(b, "←") {
				t.fail(s, "bounds of a counting loop")
			}
			for _, as := range t.assigned(body) {
				if mentions(cond.Y, as) {
					t.fail(s, "bound of a counting loop is assigned in its body")
				}
			}
			idxStart = a
			callArg = "(Int.toNat (" + b + " - " + a + "))"
			if cond.Op == token.LEQ {
				callArg = "(Int.toNat ((" + b + " + 1) - " + a + "))"
			}
		case init != nil && init.Tok == token.DEFINE && len(init.Lhs) == 2 && len(init.Rhs) == 2 && cond != nil && cond.Op == token.LEQ && Src(t.fset, cond.X) == Src(t.fset, init.Lhs[0]) && Src(t.fset, cond.Y) == Src(t.fset, init.Lhs[1]) && v.Post == nil:
			// for l, r := A, B; l <= r; { .. }: run with fuel r-l+1 and the condition re-checked;
			// running out of fuel with the condition still true yields `goDiverge`
			converge = true
			l, r := Src(t.fset, init.Lhs[0]), Src(t.fset, init.Lhs[1])
			a, aty := t.expr(init.Rhs[0])
			b, bty := t.expr(init.Rhs[1])
			if aty != "int" || bty != "int" {
				t.fail(s, "bounds of a converging loop")
			}
			t.define(s, l, "int")
			t.define(s, r, "int")
			pre = ind + "let mut " + l + " : Int := " + a + "\n" + ind + "let mut " + r + " : Int := " + b + "\n"
			callArg = "(Int.toNat ((" + r + " - " + l + ") + 1))"
			condS, _ = t.expr(v.Cond)
			for _, st := range rest {
				if _, isL := t.isLoop(st); isL {
					t.fail(s, "loop after a converging loop")
				}
			}
		case v.Init == nil && cond != nil && cond.Op == token.LSS && post != nil && post.Tok == token.INC && Src(t.fset, post.X) == Src(t.fset, cond.X) && isMapIndex(cond.X):
			// for ; m[k] < b; m[k]++ { .. }: k and b are not assigned in the body; runs b - m[k] times
			// (none when m[k] >= b), m[k] incremented after every pass
			ix := cond.X.(*ast.IndexExpr)
			mname := Src(t.fset, ix.X)
			kx, kty := t.expr(ix.Index)
			bx, bty := t.expr(cond.Y)
			if mty, _ := t.lookup(mname); mty != "map[uint]uint" || kty != "uint" || bty != "uint" {
				t.fail(s, "map counting loop")
			}
			for _, as := range t.assigned(body) {
				if mentions(cond.Y, as) || mentions(ix.Index, as) || as == mname {
					t.fail(s, "bound, key or map of a map counting loop is assigned in its body")
				}
			}
			callArg = "(" + bx + " - (" + mname + " " + kx + "))"
			mapPost = mname + " := fun (x : Nat) => if x == " + kx + " then (" + mname + " " + kx + ") + 1 else " + mname + " x"
			mapVar = mname
		case v.Init == nil && v.Post == nil && v.Cond != nil:
			// for C { .. } with C a conjunction of `len(v) > 0`: run with fuel Σ len(v) and the
			// condition re-checked; running out of fuel with C still true yields `goDiverge`
			converge = true
			fuel := []string{}
			var conj func(e ast.Expr)
			conj = func(e ast.Expr) {
				if be, ok := e.(*ast.BinaryExpr); ok && be.Op == token.LAND {
					conj(be.X)
					conj(be.Y)
					return
				}
				if be, ok := e.(*ast.BinaryExpr); ok && be.Op == token.GTR && Src(t.fset, be.Y) == "0" {
					if c, ok := be.X.(*ast.CallExpr); ok && Src(t.fset, c.Fun) == "len" && len(c.Args) == 1 {
						x, _ := t.expr(c.Args[0])
						fuel = append(fuel, "(len "+x+")")
						return
					}
				}
				// p.Cmp(x) <= 0 with p growing: fuel bitlen(x) + 1
				if be, ok := e.(*ast.BinaryExpr); ok && be.Op == token.LEQ && Src(t.fset, be.Y) == "0" {
					if c, ok := be.X.(*ast.CallExpr); ok && len(c.Args) == 1 {
						if sel, ok := c.Fun.(*ast.SelectorExpr); ok && sel.Sel.Name == "Cmp" {
							x, xt := t.expr(c.Args[0])
							if xt == "*big.Int" && !strings.Contains(x, "←") {
								fuel = append(fuel, "((bBitLen "+x+") + 1)")
								return
							}
						}
					}
				}
				// bigint.IsNonZero(b) with b shrinking (shifted right): fuel bitlen(b) + 1
				if c, ok := e.(*ast.CallExpr); ok && Src(t.fset, c.Fun) == "bigint.IsNonZero" && len(c.Args) == 1 {
					x, xt := t.expr(c.Args[0])
					if xt == "*big.Int" && !strings.Contains(x, "←") {
						fuel = append(fuel, "((bBitLen "+x+") + 1)")
						return
					}
				}
				// h > 0 with h an int local that the body decreases: fuel h
				if be, ok := e.(*ast.BinaryExpr); ok && be.Op == token.GTR && Src(t.fset, be.Y) == "0" {
					if id, ok := be.X.(*ast.Ident); ok {
						if ty, ok := t.lookup(id.Name); ok && ty == "int" {
							fuel = append(fuel, id.Name)
							return
						}
					}
				}
				// k.Cmp(n) < 0 with k growing: fuel n - k
				if be, ok := e.(*ast.BinaryExpr); ok && be.Op == token.LSS && Src(t.fset, be.Y) == "0" {
					if c, ok := be.X.(*ast.CallExpr); ok && len(c.Args) == 1 {
						if sel, ok := c.Fun.(*ast.SelectorExpr); ok && sel.Sel.Name == "Cmp" {
							x, xt := t.expr(sel.X)
							y, yt := t.expr(c.Args[0])
							if xt == "*big.Int" && yt == "*big.Int" && !strings.Contains(x+y, "←") {
								fuel = append(fuel, "("+y+" - "+x+")")
								return
							}
						}
					}
				}
				// k.Cmp(one) > 0 with k shrinking: fuel bitlen(k) + 1
				if be, ok := e.(*ast.BinaryExpr); ok && be.Op == token.GTR && Src(t.fset, be.Y) == "0" {
					if c, ok := be.X.(*ast.CallExpr); ok && len(c.Args) == 1 {
						if sel, ok := c.Fun.(*ast.SelectorExpr); ok && sel.Sel.Name == "Cmp" {
							x, xt := t.expr(sel.X)
							if xt == "*big.Int" && !strings.Contains(x, "←") {
								fuel = append(fuel, "((bBitLen "+x+") + 1)")
								return
							}
						}
					}
				}
				t.fail(s, "condition of a while loop")
			}
			conj(v.Cond)
			callArg = "(Int.toNat (" + strings.Join(fuel, " + ") + "))"
			condS, _ = t.expr(v.Cond)
			for _, st := range rest {
				if _, isL := t.isLoop(st); isL {
					t.fail(s, "loop after a while loop")
				}
			}
		default:
			t.fail(s, "unsupported for loop")
			t.pop()
			return ind + "sorryUnsupported\n"
		}
	}
	// variables in scope: all become parameters
	vars := []string{}
	for _, o := range t.order {
		if o != counter && o != downIdx {
			vars = append(vars, o)
		}
	}
	vtypes := []string{}
	for _, v := range vars {
		ty, _ := t.lookup(v)
		vtypes = append(vtypes, t.leanType(s, ty))
	}
	t.push()
	saveLoopVars := loopVars
	loopVars = append([]string{}, loopVars...)
	for _, e := range extra {
		p := strings.SplitN(e, ":", 2)
		t.define(s, p[0], p[1])
		loopVars = append(loopVars, p[0])
	}
	if idxName != "" {
		if downIdx == "" {
			t.define(s, idxName, "int")
		}
		loopVars = append(loopVars, idxName)
	}
	assigned := []string{}
	for _, a := range t.assigned(body) {
		if a != counter {
			assigned = append(assigned, a)
		}
	}
	if mapVar != "" {
		// the loop header itself assigns the map: keep the declaration order of t.order
		set := map[string]bool{mapVar: true}
		for _, a := range assigned {
			set[a] = true
		}
		assigned = assigned[:0]
		for _, o := range t.order {
			if set[o] {
				assigned = append(assigned, o)
			}
		}
	}
	// result type
	rts := []string{}
	if outer {
		if t.cur.ptr {
			rts = append(rts, "List GOp")
		}
		for _, r := range t.cur.results {
			rts = append(rts, t.leanType(s, r))
		}
	} else {
		for _, a := range assigned {
			ty, _ := t.lookup(a)
			rts = append(rts, t.leanType(s, ty))
		}
		if len(rts) == 0 {
			rts = []string{"Unit"}
		}
	}
	resType := strings.Join(rts, " × ")
	hasRet := false
	if !outer {
		ast.Inspect(&ast.BlockStmt{List: body}, func(n ast.Node) bool {
			if _, ok := n.(*ast.ReturnStmt); ok {
				hasRet = true
			}
			return true
		})
	}
	if hasRet {
		// a nested loop that may leave the function: Sum.inl = the function's result
		frs := []string{}
		if t.cur.ptr {
			frs = append(frs, "List GOp")
		}
		for _, r := range t.cur.results {
			frs = append(frs, t.leanType(s, r))
		}
		resType = "(" + strings.Join(frs, " × ") + ") ⊕ (" + resType + ")"
		if t.depth != 1 {
			t.fail(s, "returning loop nested more than once")
		}
	}
	var d strings.Builder
	sig := []string{domType}
	if idxName != "" {
		sig = append(sig, "Int")
	}
	sig = append(sig, vtypes...)
	fmt.Fprintf(&d, "def %s : %s → Option (%s)\n", name, strings.Join(sig, " → "), resType)
	pats := func(first string, idx string) string {
		p := []string{first}
		if idxName != "" {
			p = append(p, idx)
		}
		return strings.Join(append(p, vars...), ", ")
	}
	muts := func() string {
		o := ""
		for i, v := range vars {
			if t.mut[v] {
				o += "    let mut " + v + " : " + vtypes[i] + " := " + v + "\n"
			}
		}
		return o
	}
	tuple := func(xs []string) string {
		if len(xs) == 0 {
			return "()"
		}
		if len(xs) == 1 {
			return xs[0]
		}
		return "(" + strings.Join(xs, ", ") + ")"
	}
	// the body is translated first (it may emit nested loop functions before ours)
	bind := "    "
	if converge {
		bind = "      "
	}
	t.depth++
	saveInner := t.innerRet
	t.innerRet = hasRet
	recCall := name + " " + recArg
	if idxName != "" {
		recCall += " (" + idxName + idxStep + ")"
	}
	recCall += " " + strings.Join(vars, " ")
	t.recCalls = append(t.recCalls, recCall)
	tailS := recCall
	if mapPost != "" {
		tailS = mapPost + "\n" + bind + recCall
	}
	bodyS := t.block(body, bind, tailS)
	t.recCalls = t.recCalls[:len(t.recCalls)-1]
	t.innerRet = saveInner
	t.depth--
	t.pop()
	loopVars = saveLoopVars
	// what follows the loop: the rest of the function (outermost loop) or the assigned variables
	restS := ""
	if outer {
		if len(rest) == 0 && tail == "" {
			t.fail(s, "function falls off its end after a loop")
		}
		restS = t.block(rest, bind, tail)
	} else {
		restS = bind + "return " + tuple(assigned) + "\n"
		if hasRet {
			restS = bind + "return (Sum.inr " + tuple(assigned) + ")\n"
		}
	}
	idxPat := "_"
	if converge || downIdx != "" || idxName != "" && (mentions(&ast.BlockStmt{List: rest}, idxName)) {
		idxPat = idxName
	}
	fmt.Fprintf(&d, "  | %s => do\n", pats(nilPat, idxPat))
	d.WriteString(muts())
	if converge {
		d.WriteString("    if " + condS + " then\n      goDiverge\n    else\n" + restS)
	} else {
		d.WriteString(restS)
	}
	fmt.Fprintf(&d, "  | %s => do\n", pats(consPat, idxName))
	d.WriteString(muts())
	if converge {
		d.WriteString("    if " + condS + " then\n" + bodyS + "    else\n" + restS)
	} else {
		d.WriteString(bodyS)
	}
	d.WriteString("\n")
	t.out.WriteString(d.String())
	// call site
	call := name + " " + callArg
	if idxName != "" {
		call += " " + idxStart
	}
	call += " " + strings.Join(vars, " ")
	t.pop()
	if outer {
		// `return`: the loop may sit inside a conditional, and leaving it leaves the function
		return pre + ind + "return (← " + call + ")\n"
	}
	out := pre
	if hasRet {
		out += ind + "match (← " + call + ") with\n" + ind + "| .inl _r => return _r\n"
		switch len(assigned) {
		case 0:
			out += ind + "| .inr _ => pure ()\n"
		case 1:
			out += ind + "| .inr _v => " + assigned[0] + " := _v\n"
		default:
			ps, as := []string{}, []string{}
			for _, a := range assigned {
				ps = append(ps, a+"'")
				as = append(as, a+" := "+a+"'")
			}
			out += ind + "| .inr (" + strings.Join(ps, ", ") + ") =>\n"
			for _, a := range as {
				out += ind + "  " + a + "\n"
			}
		}
		return out + t.block(rest, ind, tail)
	}
	switch len(assigned) {
	case 0:
		out += ind + "let _ ← " + call + "\n"
	case 1:
		out += ind + assigned[0] + " ← " + call + "\n"
	default:
		out += ind + tuple(assigned) + " ← " + call + "\n"
	}
	return out + t.block(rest, ind, tail)
}

func mentionsCallWithPtr(e ast.Expr) bool { return false }

func (t *gotr) isIntLocal(e ast.Expr) bool {
	id, ok := e.(*ast.Ident)
	if !ok {
		return false
	}
	ty, ok := t.lookup(id.Name)
	return ok && ty == "int"
}

func isMapIndex(e ast.Expr) bool {
	ix, ok := e.(*ast.IndexExpr)
	if !ok {
		return false
	}
	_, ok = ix.X.(*ast.Ident)
	return ok
}

func (t *gotr) letKw(name string) string {
	if t.mut[name] {
		return "let mut "
	}
	return "let "
}

// mutScan lists (by name, without types) the variables a function body assigns: the targets of
// `=`, `++`, `--`, the receivers of method calls used as statements, and the pointer receiver
// when a pointer-receiver method is called on it.
func (t *gotr) mutScan(fd *ast.FuncDecl) map[string]bool {
	set := map[string]bool{}
	root := func(e ast.Expr) {
		for {
			switch x := e.(type) {
			case *ast.IndexExpr:
				e = x.X
				continue
			case *ast.StarExpr:
				e = x.X
				continue
			case *ast.Ident:
				set[x.Name] = true
			}
			return
		}
	}
	recv := ""
	if fd.Recv != nil && len(fd.Recv.List) == 1 && len(fd.Recv.List[0].Names) == 1 {
		if _, ok := fd.Recv.List[0].Type.(*ast.StarExpr); ok {
			recv = fd.Recv.List[0].Names[0].Name
		}
	}
	ast.Inspect(fd.Body, func(n ast.Node) bool {
		switch s := n.(type) {
		case *ast.AssignStmt:
			if s.Tok != token.DEFINE {
				for _, l := range s.Lhs {
					root(l)
				}
			}
		case *ast.IncDecStmt:
			root(s.X)
		case *ast.ExprStmt:
			if c, ok := s.X.(*ast.CallExpr); ok {
				if sel, ok := c.Fun.(*ast.SelectorExpr); ok {
					root(sel.X)
				}
			}
		case *ast.CallExpr:
			if sel, ok := s.Fun.(*ast.SelectorExpr); ok && recv != "" {
				if id, ok := sel.X.(*ast.Ident); ok && id.Name == recv {
					set[recv] = true
				}
			}
		}
		return true
	})
	return set
}

// function translates one declaration.
func (t *gotr) function(key string, fd *ast.FuncDecl) {
	g := t.funcs[key]
	t.cur, t.curKey, t.nloop, t.depth = g, key, 0, 0
	t.scopes, t.order, t.named = nil, nil, nil
	loopVars = nil
	t.push()
	params := []string{}
	if fd.Recv != nil && len(fd.Recv.List[0].Names) == 1 {
		r := fd.Recv.List[0]
		ty := tyOf(t.fset, r.Type)
		t.define(fd, r.Names[0].Name, ty)
		params = append(params, "("+r.Names[0].Name+" : "+t.leanType(fd, ty)+")")
	}
	for _, fl := range fd.Type.Params.List {
		ty := tyOf(t.fset, fl.Type)
		for _, id := range fl.Names {
			t.define(fd, id.Name, ty)
			params = append(params, "("+id.Name+" : "+t.leanType(fd, ty)+")")
		}
	}
	pre := ""
	t.mut = t.mutScan(fd)
	for _, o := range t.order {
		ty, _ := t.lookup(o)
		if t.mut[o] {
			pre += "  let mut " + o + " : " + t.leanType(fd, ty) + " := " + o + "\n"
		}
	}
	if fd.Type.Results != nil {
		for _, fl := range fd.Type.Results.List {
			ty := tyOf(t.fset, fl.Type)
			for _, id := range fl.Names {
				if ty != "int" {
					t.fail(fd, "named result of type "+ty)
				}
				t.define(fd, id.Name, ty)
				t.named = append(t.named, id.Name)
				pre += "  " + t.letKw(id.Name) + id.Name + " : Int := 0\n"
			}
		}
	}
	rts := []string{}
	if g.ptr {
		rts = append(rts, "List GOp")
	}
	for _, r := range g.results {
		rts = append(rts, t.leanType(fd, r))
	}
	body := t.block(fd.Body.List, "  ", "")
	fmt.Fprintf(t.out, "/-- `%s`: `%s` -/\ndef %s %s : Option (%s) := do\n%s%s\n", key, Src(t.fset, fd.Type), g.lean, strings.Join(params, " "), strings.Join(rts, " × "), pre, body)
}

// gtKey returns "Recv.Name" / "Name" and the receiver description.
func gtKey(fset *token.FileSet, fd *ast.FuncDecl) (string, string, bool) {
	if fd.Recv == nil || len(fd.Recv.List) != 1 {
		return fd.Name.Name, "", false
	}
	ty := Src(fset, fd.Recv.List[0].Type)
	return strings.TrimPrefix(ty, "*") + "." + fd.Name.Name, strings.TrimPrefix(ty, "*"), strings.HasPrefix(ty, "*")
}

// forCounter returns the counter of a `for ; s > 0; s--` loop ("" otherwise).
func forCounter(fset *token.FileSet, s ast.Stmt) string {
	v, ok := s.(*ast.ForStmt)
	if !ok || v.Cond == nil {
		return ""
	}
	if be, ok := v.Cond.(*ast.BinaryExpr); ok {
		if id, ok := be.X.(*ast.Ident); ok {
			return id.Name
		}
	}
	return ""
}
