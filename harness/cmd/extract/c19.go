package main

import (
	"fmt"
	"go/ast"
	"go/token"
	"strings"
	"unicode"
)

// C19 translator tie: the straight-line helpers of internal/bigint/bigint.go are TRANSLATED, on every
// run, from their Go source into Lean definitions over a handful of math/big primitives
// (lean/AC/BigPrim.lean). The generated file lean/AC/Gen/BigintFns.lean is what the theorems of
// AC/BigintTie.lean are proved about, so a change of the Go source changes the Lean terms and the proofs
// are re-checked against what the code says now.
//
// Supported fragment (anything else makes the translation fail, which is reported as a broken tie):
//   parameters and results of type *big.Int (Int), uint (Nat), int / int64 (Int), bool (Bool);
//   statements  v := E | v.M(args) (v a local *big.Int: v is rebound to the value) | return E[, E]
//               | if C { ...return } (followed by the rest);
//   expressions identifiers, integer literals, big.NewInt(k), new(big.Int).M(args), v.M(args),
//               calls of the other translated helpers, uint(E) / int(E), == != < <= > >= - + ! && ||.
// math/big methods: Lsh Rsh Sub Add And Set (value-producing; the receiver's old value is irrelevant),
// Cmp BitLen Sign (observers). Assumption recorded in DESIGN.md: the helpers hand out fresh integers,
// so a rebinding of a local never shows through another name (checked dynamically by the scribble probes).

func init() { register(extractC19, "C19") }

var c19Targets = []string{"Zero", "One", "Equal", "EqualInt64", "IsZero", "IsNonZero", "Clone", "Pow2", "IsPow2", "Mask", "Ones", "MinMax", "Extract"}

type c19tr struct {
	fset   *token.FileSet
	funcs  map[string]bool
	locals map[string]string // name -> Lean type
	err    error
}

func (t *c19tr) fail(n ast.Node, why string) string {
	if t.err == nil {
		t.err = fmt.Errorf("%s: %s", why, Src(t.fset, n))
	}
	return "sorryUnsupported"
}

func lowerFirst(s string) string {
	r := []rune(s)
	r[0] = unicode.ToLower(r[0])
	return string(r)
}

func (t *c19tr) leanType(e ast.Expr) string {
	switch Src(t.fset, e) {
	case "*big.Int":
		return "Int"
	case "uint":
		return "Nat"
	case "int", "int64":
		return "Int"
	case "bool":
		return "Bool"
	}
	return t.fail(e, "unsupported type")
}

var c19Value = map[string]int{"Lsh": 2, "Rsh": 2, "Sub": 2, "Add": 2, "And": 2, "Set": 1}
var c19Observer = map[string]int{"Cmp": 1, "BitLen": 0, "Sign": 0}

// method translates recv.M(args) where recv is either new(big.Int) or a local *big.Int.
func (t *c19tr) method(call *ast.CallExpr, sel *ast.SelectorExpr) string {
	m := sel.Sel.Name
	args := []string{}
	for _, a := range call.Args {
		args = append(args, t.expr(a))
	}
	if n, ok := c19Value[m]; ok {
		if len(args) != n {
			return t.fail(call, "wrong arity")
		}
		return "(b" + m + " " + strings.Join(args, " ") + ")"
	}
	if n, ok := c19Observer[m]; ok {
		if len(args) != n {
			return t.fail(call, "wrong arity")
		}
		recv := t.expr(sel.X)
		return "(b" + m + " " + strings.Join(append([]string{recv}, args...), " ") + ")"
	}
	return t.fail(call, "unsupported math/big method")
}

func (t *c19tr) expr(e ast.Expr) string {
	switch v := e.(type) {
	case *ast.ParenExpr:
		return "(" + t.expr(v.X) + ")"
	case *ast.Ident:
		if v.Name == "true" || v.Name == "false" {
			return v.Name
		}
		if _, ok := t.locals[v.Name]; ok {
			return v.Name
		}
		return t.fail(e, "unknown identifier")
	case *ast.BasicLit:
		if v.Kind == token.INT {
			return v.Value
		}
	case *ast.UnaryExpr:
		if v.Op == token.NOT {
			return "(!" + t.expr(v.X) + ")"
		}
	case *ast.BinaryExpr:
		ops := map[token.Token]string{token.EQL: "==", token.NEQ: "!=", token.LSS: "<", token.LEQ: "<=", token.GTR: ">", token.GEQ: ">=",
			token.SUB: "-", token.ADD: "+", token.LAND: "&&", token.LOR: "||"}
		if op, ok := ops[v.Op]; ok {
			x, y := t.expr(v.X), t.expr(v.Y)
			switch v.Op {
			case token.LSS, token.LEQ, token.GTR, token.GEQ:
				return "(decide (" + x + " " + op + " " + y + "))"
			case token.EQL, token.NEQ:
				return "(" + x + " " + op + " " + y + ")"
			}
			return "(" + x + " " + op + " " + y + ")"
		}
	case *ast.CallExpr:
		switch f := v.Fun.(type) {
		case *ast.Ident:
			switch f.Name {
			case "uint":
				if len(v.Args) == 1 {
					return "(Int.toNat " + t.expr(v.Args[0]) + ")"
				}
			case "int", "int64":
				if len(v.Args) == 1 {
					return "(Int.ofNat " + t.expr(v.Args[0]) + ")"
				}
			}
			if t.funcs[f.Name] {
				args := []string{}
				for _, a := range v.Args {
					args = append(args, t.expr(a))
				}
				if len(args) == 0 {
					return lowerFirst(f.Name)
				}
				return "(" + lowerFirst(f.Name) + " " + strings.Join(args, " ") + ")"
			}
		case *ast.SelectorExpr:
			if Src(t.fset, f) == "big.NewInt" && len(v.Args) == 1 {
				return "(bNewInt " + t.expr(v.Args[0]) + ")"
			}
			// new(big.Int).M(...)
			if c, ok := f.X.(*ast.CallExpr); ok && Src(t.fset, c) == "new(big.Int)" {
				if _, obs := c19Observer[f.Sel.Name]; obs {
					return t.fail(e, "observer on a fresh integer")
				}
				return t.method(v, f)
			}
			if id, ok := f.X.(*ast.Ident); ok {
				if ty, ok := t.locals[id.Name]; ok && ty == "Int" {
					return t.method(v, f)
				}
			}
		}
	}
	return t.fail(e, "unsupported expression")
}

// stmts translates a statement list that must end by returning on every path.
func (t *c19tr) stmts(list []ast.Stmt, indent string) string {
	if len(list) == 0 {
		t.fail(&ast.BlockStmt{}, "path without return")
		return "sorryUnsupported"
	}
	s, rest := list[0], list[1:]
	switch v := s.(type) {
	case *ast.ReturnStmt:
		if len(rest) != 0 {
			return t.fail(s, "code after return")
		}
		rs := []string{}
		for _, r := range v.Results {
			rs = append(rs, t.expr(r))
		}
		if len(rs) == 1 {
			return indent + rs[0]
		}
		return indent + "(" + strings.Join(rs, ", ") + ")"
	case *ast.AssignStmt:
		if v.Tok == token.DEFINE && len(v.Lhs) == 1 && len(v.Rhs) == 1 {
			if id, ok := v.Lhs[0].(*ast.Ident); ok {
				val := t.expr(v.Rhs[0])
				ty := "Int"
				// x.BitLen() and friends are Go ints: Lean Int as well; comparisons give Bool
				t.locals[id.Name] = ty
				return indent + "let " + id.Name + " := " + val + "\n" + t.stmts(rest, indent)
			}
		}
	case *ast.ExprStmt:
		// v.M(args) as a statement: the local v is rebound to the value
		if call, ok := v.X.(*ast.CallExpr); ok {
			if sel, ok := call.Fun.(*ast.SelectorExpr); ok {
				if id, ok := sel.X.(*ast.Ident); ok {
					if _, isVal := c19Value[sel.Sel.Name]; isVal && t.locals[id.Name] == "Int" {
						return indent + "let " + id.Name + " := " + t.method(call, sel) + "\n" + t.stmts(rest, indent)
					}
				}
			}
		}
	case *ast.IfStmt:
		if v.Init == nil && v.Else == nil {
			c := t.expr(v.Cond)
			return indent + "if " + c + " then\n" + t.stmts(v.Body.List, indent+"  ") + "\n" + indent + "else\n" + t.stmts(rest, indent+"  ")
		}
	}
	return t.fail(s, "unsupported statement")
}

// fixReturnRebind: `return mask.Sub(mask, Pow2(l))` needs no rebinding (the value is returned).

func extractC19(c *Ctx) {
	const file = "internal/bigint/bigint.go"
	fset, f, err := c.ParseFile(file)
	if err != nil {
		c.Fail("bigint.go", err)
		return
	}
	t := &c19tr{fset: fset, funcs: map[string]bool{}}
	for _, n := range c19Targets {
		t.funcs[n] = true
	}
	decls := map[string]*ast.FuncDecl{}
	for _, d := range f.Decls {
		if fd, ok := d.(*ast.FuncDecl); ok && fd.Recv == nil {
			decls[fd.Name.Name] = fd
		}
	}
	var b strings.Builder
	b.WriteString("import AC.BigPrim\n/-! GENERATED by harness/cmd/extract (c19.go) from internal/bigint/bigint.go of the working tree — do not edit.\n    Each definition is the translation of the Go function of the same name. -/\nnamespace AC.Gen.Bigint\nopen AC.BigPrim\n\n")
	for _, name := range c19Targets {
		fd, ok := decls[name]
		if !ok {
			c.Check("translate bigint."+name, false, "function not found")
			continue
		}
		t.locals = map[string]string{}
		t.err = nil
		params := []string{}
		for _, fl := range fd.Type.Params.List {
			ty := t.leanType(fl.Type)
			for _, id := range fl.Names {
				t.locals[id.Name] = ty
				params = append(params, "("+id.Name+" : "+ty+")")
			}
		}
		rts := []string{}
		if fd.Type.Results != nil {
			for _, fl := range fd.Type.Results.List {
				ty := t.leanType(fl.Type)
				k := len(fl.Names)
				if k == 0 {
					k = 1
				}
				for i := 0; i < k; i++ {
					rts = append(rts, ty)
				}
			}
		}
		body := t.stmts(fd.Body.List, "  ")
		if t.err != nil {
			c.Check("translate bigint."+name, false, "outside the translated fragment: "+t.err.Error())
			continue
		}
		c.Check("translate bigint."+name, true, "")
		sig := lowerFirst(name)
		if len(params) > 0 {
			sig += " " + strings.Join(params, " ")
		}
		fmt.Fprintf(&b, "/-- `%s` -/\ndef %s : %s :=\n%s\n\n", Src(fset, fd.Type), sig, strings.Join(rts, " × "), body)
	}
	b.WriteString("end AC.Gen.Bigint\n")
	if len(c.Mismatches) == 0 {
		c.WriteGen("BigintFns.lean", b.String())
	}
}
