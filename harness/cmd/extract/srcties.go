package main

import (
	"go/ast"
	"os"
	"path/filepath"
	"sort"
	"strings"
)

// Source ties for the properties whose models are otherwise tied to /repo by correspondence
// only: the normalised source of every function of the listed files (doc comments stripped) is
// compared with a committed expectation expect/src_<file>.txt. A change to any modelled function
// breaks the tie and triggers the widened search for a failing input; VERIF_WRITE_EXPECT=1
// regenerates the expectations from the current tree.
var srcTies = map[string][]string{
	"C01": {"alg/exec/exec.go", "alg/ensemble/ensemble.go", "alg/dict/dict.go", "alg/dict/runs.go", "alg/binary/binary.go", "alg/opt/opt.go", "alg/alg.go", "alg/contfrac/contfrac.go", "alg/heuristic/heuristic.go", "chain.go", "program.go"},
	"C02": {"chain.go", "program.go"},
	"C08": {"alg/contfrac/contfrac.go", "alg/heuristic/heuristic.go", "internal/bigints/bigints.go"},
	"C09": {"alg/dict/dict.go", "internal/bigint/bigint.go"},
	"C10": {"alg/opt/opt.go", "chain.go"},
	"C11": {"alg/dict/runs.go", "chain.go"},
	"C12": {"alg/exec/exec.go"},
	"C14": {"cmd/addchain/search.go", "cmd/addchain/eval.go", "alg/exec/exec.go"},
	"C18": {"program.go", "chain.go"},
	"C19": {"internal/bigint/bigint.go", "internal/bigints/bigints.go", "internal/bigvector/bigvector.go"},
}

func init() {
	for pid := range srcTies {
		register(extractSrcTies(pid), pid)
	}
}

func extractSrcTies(pid string) extractor {
	return func(c *Ctx) {
		for _, file := range srcTies[pid] {
			fset, f, err := c.ParseFile(file)
			if err != nil {
				c.Fail(file, err)
				continue
			}
			lines := []string{}
			for _, d := range f.Decls {
				switch x := d.(type) {
				case *ast.FuncDecl:
					x.Doc = nil
					lines = append(lines, Src(fset, x))
				case *ast.GenDecl:
					x.Doc = nil
					for _, s := range x.Specs {
						switch sp := s.(type) {
						case *ast.ValueSpec:
							sp.Doc, sp.Comment = nil, nil
						case *ast.TypeSpec:
							sp.Doc, sp.Comment = nil, nil
						}
					}
					if x.Tok.String() != "import" {
						lines = append(lines, Src(fset, x))
					}
				}
			}
			sort.Strings(lines)
			name := "src_" + strings.NewReplacer("/", "_", ".go", "").Replace(file) + ".txt"
			text := strings.Join(lines, "\n")
			if os.Getenv("VERIF_WRITE_EXPECT") != "" {
				_ = os.WriteFile(filepath.Join(c.Verif, "expect", name), []byte(text+"\n"), 0o644)
			}
			c.Expect(name, text)
		}
	}
}
