package main

import (
	"fmt"
	"go/ast"
	"go/token"
	"os"
	"path/filepath"
	"sort"
	"strings"
)

func init() { register(extractC15, "C15") }

// c15Scope lists the directories (non-recursive, non-test files) and single files whose partial
// operations are inventoried. The generated PEG parser (acc/parse/internal/parser) is not in scope:
// its engine is assumed (DESIGN section 8).
var c15Scope = []string{
	"cmd/addchain", "internal/calc", "internal/cli", "acc", "acc/ast", "acc/ir", "acc/pass", "acc/parse",
	"acc/printer", "acc/eval", "alg/exec", "alg/dict", "alg/heuristic", "alg/contfrac", "alg/opt", "alg/binary",
	"alg/ensemble", "internal/gen", "internal/bigint", "internal/bigints", "internal/bigvector",
	"chain.go", "program.go",
}

var c15DivMethods = map[string]bool{"Div": true, "DivMod": true, "Mod": true, "Quo": true, "QuoRem": true, "Rem": true}

// extractC15 builds the partial-operation inventory: one line `file:func:kind:expression` per
// explicit panic call, index expression with an arithmetic index x[… ± …], slice expression, type assertion
// without comma-ok, division / remainder (operators and big.Int methods) and channel creation.
// Line numbers are left out, so moving code inside a function does not disturb the tie; a new,
// removed or relocated site does.
func extractC15(c *Ctx) {
	var files []string
	for _, s := range c15Scope {
		full := filepath.Join(c.Repo, s)
		st, err := os.Stat(full)
		if err != nil {
			c.Check("c15.scope:"+s, false, "in-scope path missing: "+s)
			continue
		}
		if !st.IsDir() {
			files = append(files, s)
			continue
		}
		ents, err := os.ReadDir(full)
		if err != nil {
			c.Fail("c15.scope:"+s, err)
			continue
		}
		for _, e := range ents {
			n := e.Name()
			if e.IsDir() || !strings.HasSuffix(n, ".go") || strings.HasSuffix(n, "_test.go") || strings.HasSuffix(n, "_verif.go") {
				continue
			}
			files = append(files, filepath.ToSlash(filepath.Join(s, n)))
		}
	}
	sort.Strings(files)
	var lines []string
	for _, rel := range files {
		fset, f, err := c.ParseFile(rel)
		if err != nil {
			c.Fail("c15.parse:"+rel, err)
			continue
		}
		lines = append(lines, c15Sites(fset, f, rel)...)
	}
	sort.Strings(lines)
	text := strings.Join(lines, "\n") + "\n"
	if os.Getenv("VERIF_C15_WRITE_EXPECT") == "1" { // maintenance only: (re)create the expectation from the current source
		_ = os.WriteFile(filepath.Join(c.Verif, "expect", "panic_sites.txt"), []byte(text), 0o644)
	}
	c.Expect("panic_sites.txt", text)
	c.Check("c15.inventory-files", len(files) >= 40, fmt.Sprintf("only %d in-scope files found", len(files)))
	kinds := map[string]int{}
	for _, l := range lines {
		p := strings.SplitN(l, ":", 4)
		if len(p) == 4 {
			kinds[p[2]]++
		}
	}
	// the explicit panics that guard lemmas or fixes refer to must still be where the proofs say
	want := []string{
		"alg/heuristic/heuristic.go:DeltaLargest.Suggest:panic-call:",
		"internal/bigvector/bigvector.go:",
		"alg/exec/exec.go:Parallel.Execute:make-chan:",
	}
	for _, w := range want {
		found := false
		for _, l := range lines {
			if strings.HasPrefix(l, w) {
				found = true
				break
			}
		}
		c.Check("c15.site:"+w, found, "no inventory line starts with "+w)
	}
}

func c15FuncName(fd *ast.FuncDecl) string {
	n := fd.Name.Name
	if fd.Recv != nil && len(fd.Recv.List) == 1 {
		t := fd.Recv.List[0].Type
		if s, ok := t.(*ast.StarExpr); ok {
			t = s.X
		}
		if id, ok := t.(*ast.Ident); ok {
			n = id.Name + "." + n
		}
	}
	return n
}

func c15Sites(fset *token.FileSet, f *ast.File, rel string) []string {
	var out []string
	emit := func(fn, kind string, n ast.Node) {
		out = append(out, fmt.Sprintf("%s:%s:%s:%s", rel, fn, kind, Src(fset, n)))
	}
	walk := func(fn string, root ast.Node) {
		// type assertions used in the comma-ok form are total
		commaOK := map[*ast.TypeAssertExpr]bool{}
		ast.Inspect(root, func(n ast.Node) bool {
			switch v := n.(type) {
			case *ast.AssignStmt:
				if len(v.Lhs) == 2 && len(v.Rhs) == 1 {
					if ta, ok := v.Rhs[0].(*ast.TypeAssertExpr); ok {
						commaOK[ta] = true
					}
				}
			case *ast.ValueSpec:
				if len(v.Names) == 2 && len(v.Values) == 1 {
					if ta, ok := v.Values[0].(*ast.TypeAssertExpr); ok {
						commaOK[ta] = true
					}
				}
			}
			return true
		})
		ast.Inspect(root, func(n ast.Node) bool {
			switch v := n.(type) {
			case *ast.CallExpr:
				if id, ok := v.Fun.(*ast.Ident); ok {
					if id.Name == "panic" {
						emit(fn, "panic-call", v)
					}
					if id.Name == "make" && len(v.Args) >= 1 {
						if _, ok := v.Args[0].(*ast.ChanType); ok {
							emit(fn, "make-chan", v)
						}
					}
				}
			case *ast.SelectorExpr:
				// x.Div(…) calls and method values such as (*big.Int).Div in calc's operator table
				if c15DivMethods[v.Sel.Name] {
					emit(fn, "division", v)
				}
			case *ast.IndexExpr:
				if b, ok := v.Index.(*ast.BinaryExpr); ok && (b.Op == token.SUB || b.Op == token.ADD) {
					emit(fn, "index-arith", v)
				}
			case *ast.SliceExpr:
				emit(fn, "slice-expr", v)
			case *ast.TypeAssertExpr:
				if v.Type != nil && !commaOK[v] { // v.Type == nil is the x.(type) of a type switch
					emit(fn, "type-assert", v)
				}
			case *ast.BinaryExpr:
				if v.Op == token.QUO || v.Op == token.REM {
					emit(fn, "division", v)
				}
			case *ast.AssignStmt:
				if v.Tok == token.QUO_ASSIGN || v.Tok == token.REM_ASSIGN {
					emit(fn, "division", v)
				}
			}
			return true
		})
	}
	for _, d := range f.Decls {
		switch v := d.(type) {
		case *ast.FuncDecl:
			if v.Body != nil {
				walk(c15FuncName(v), v.Body)
			}
		case *ast.GenDecl:
			walk("<package>", v)
		}
	}
	return out
}
