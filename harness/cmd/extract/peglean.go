package main

import (
	"fmt"
	"strconv"
	"strings"
)

// The normal form of a grammar rule (an S-expression, see c07.go) rendered as a Lean term of
// AC.PegG.PE, so that the grammar of acc.peg can be *executed* by the generic interpreter of
// lean/AC/PegGeneric.lean. The generated file is lean/AC/Gen/AccGrammar.lean.

type nfReader struct {
	s    string
	pos  int
	err  error
	nact int
}

func (r *nfReader) fail(msg string) {
	if r.err == nil {
		r.err = fmt.Errorf("%s at %d in %q", msg, r.pos, r.s)
	}
}

func (r *nfReader) skip() {
	for r.pos < len(r.s) && r.s[r.pos] == ' ' {
		r.pos++
	}
}

func leanChar(c rune) string { return fmt.Sprintf("(Char.ofNat %d)", c) }

func leanChars(s string) string {
	parts := []string{}
	for _, c := range s {
		parts = append(parts, leanChar(c))
	}
	return "[" + strings.Join(parts, ", ") + "]"
}

func (r *nfReader) expr() string {
	r.skip()
	if r.pos >= len(r.s) {
		r.fail("expression expected")
		return "PE.any"
	}
	switch c := r.s[r.pos]; {
	case c == '(':
		r.pos++
		r.skip()
		start := r.pos
		for r.pos < len(r.s) && r.s[r.pos] != ' ' {
			r.pos++
		}
		op := r.s[start:r.pos]
		var items []string
		name := ""
		if op == "lab" {
			r.skip()
			st := r.pos
			for r.pos < len(r.s) && r.s[r.pos] != ' ' {
				r.pos++
			}
			name = r.s[st:r.pos]
		}
		for {
			r.skip()
			if r.pos >= len(r.s) {
				r.fail("unterminated list")
				return "PE.any"
			}
			if r.s[r.pos] == ')' {
				r.pos++
				break
			}
			items = append(items, r.expr())
		}
		one := func() string {
			if len(items) != 1 {
				r.fail("one operand expected for " + op)
				return "PE.any"
			}
			return items[0]
		}
		switch op {
		case "seq":
			return "(PE.seq [" + strings.Join(items, ", ") + "])"
		case "/":
			return "(PE.alt [" + strings.Join(items, ", ") + "])"
		case "*":
			return "(PE.star " + one() + ")"
		case "+":
			return "(PE.plus " + one() + ")"
		case "?":
			return "(PE.opt " + one() + ")"
		case "!":
			return "(PE.nott " + one() + ")"
		case "&":
			return "(PE.andd " + one() + ")"
		case "lab":
			return "(PE.lab " + strconv.Quote(name) + " " + one() + ")"
		case "act":
			body := one()
			k := r.nact
			r.nact++
			return fmt.Sprintf("(PE.act %d %s)", k, body)
		}
		r.fail("unknown operator " + op)
		return "PE.any"
	case c == '.':
		r.pos++
		return "PE.any"
	case c == '"':
		// a Go-quoted string, optionally followed by i
		end := r.pos + 1
		for end < len(r.s) && r.s[end] != '"' {
			if r.s[end] == '\\' {
				end++
			}
			end++
		}
		if end >= len(r.s) {
			r.fail("unterminated string")
			return "PE.any"
		}
		val, err := strconv.Unquote(r.s[r.pos : end+1])
		if err != nil {
			r.fail("bad string")
			return "PE.any"
		}
		r.pos = end + 1
		ic := "false"
		if r.pos < len(r.s) && r.s[r.pos] == 'i' {
			ic = "true"
			r.pos++
		}
		return "(PE.lit " + leanChars(val) + " " + ic + ")"
	case c == '[':
		// classNF: [^? a-b c-d |  x y]i?   (runes quoted with strconv.QuoteRune, quotes stripped)
		end := strings.Index(r.s[r.pos:], "]")
		for end >= 0 && r.pos+end > 0 && r.s[r.pos+end-1] == '\\' {
			n := strings.Index(r.s[r.pos+end+1:], "]")
			if n < 0 {
				end = -1
				break
			}
			end += 1 + n
		}
		if end < 0 {
			r.fail("unterminated class")
			return "PE.any"
		}
		body := r.s[r.pos+1 : r.pos+end]
		r.pos += end + 1
		ic := "false"
		if r.pos < len(r.s) && r.s[r.pos] == 'i' {
			ic = "true"
			r.pos++
		}
		inv := "false"
		if strings.HasPrefix(body, "^") {
			inv = "true"
			body = body[1:]
		}
		bar := strings.Index(body, "|")
		if bar < 0 {
			r.fail("class without |")
			return "PE.any"
		}
		unq := func(tok string) (rune, bool) {
			v, err := strconv.Unquote("'" + tok + "'")
			if err != nil || len([]rune(v)) != 1 {
				// QuoteRune leaves ' ' as is; a token may also be an escaped quote
				if len([]rune(tok)) == 1 {
					return []rune(tok)[0], true
				}
				return 0, false
			}
			return []rune(v)[0], true
		}
		var ranges, chars []string
		for _, tok := range strings.Fields(body[:bar]) {
			i := strings.Index(tok[1:], "-")
			if i < 0 {
				r.fail("bad range " + tok)
				return "PE.any"
			}
			a, ok1 := unq(tok[:i+1])
			b, ok2 := unq(tok[i+2:])
			if !ok1 || !ok2 {
				r.fail("bad range " + tok)
				return "PE.any"
			}
			ranges = append(ranges, "("+leanChar(a)+", "+leanChar(b)+")")
		}
		// single characters are separated by one blank each; a blank itself appears as an empty token
		rest := body[bar+1:]
		for len(rest) > 0 {
			if rest[0] != ' ' {
				r.fail("class characters malformed")
				return "PE.any"
			}
			rest = rest[1:]
			j := 0
			if len(rest) > 0 && rest[0] == '\\' {
				j = 2
				if len(rest) > 1 && (rest[1] == 'x' || rest[1] == 'u' || rest[1] == 'U') {
					for j < len(rest) && rest[j] != ' ' {
						j++
					}
				}
			} else {
				_, size := []rune(rest)[0], len(string([]rune(rest)[0]))
				j = size
			}
			if j > len(rest) {
				r.fail("class characters malformed")
				return "PE.any"
			}
			ch, ok := unq(rest[:j])
			if !ok {
				r.fail("bad class character " + rest[:j])
				return "PE.any"
			}
			chars = append(chars, leanChar(ch))
			rest = rest[j:]
		}
		return "(PE.cls [" + strings.Join(ranges, ", ") + "] [" + strings.Join(chars, ", ") + "] " + inv + " " + ic + ")"
	default:
		start := r.pos
		for r.pos < len(r.s) && r.s[r.pos] != ' ' && r.s[r.pos] != ')' {
			r.pos++
		}
		return "(PE.ref " + strconv.Quote(r.s[start:r.pos]) + ")"
	}
}

// grammarLean renders the rules as lean/AC/Gen/AccGrammar.lean.
func grammarLean(rules []pegRule) (string, error) {
	var b strings.Builder
	b.WriteString("import AC.PegGeneric\n/-! GENERATED by harness/cmd/extract from acc/parse/acc.peg of the working tree — do not edit.\n    One entry per grammar rule, in order; the first rule is the entry point. Actions are numbered per rule in\n    order of appearance. -/\nnamespace AC.Gen\nopen AC.PegG\n\ndef accGrammar : Grammar := [\n")
	for i, ru := range rules {
		r := &nfReader{s: ru.nf}
		e := r.expr()
		r.skip()
		if r.err == nil && r.pos != len(r.s) {
			r.fail("trailing input")
		}
		if r.err != nil {
			return "", fmt.Errorf("rule %s: %v", ru.name, r.err)
		}
		sep := ","
		if i == len(rules)-1 {
			sep = ""
		}
		fmt.Fprintf(&b, "  (%s, %s)%s\n", strconv.Quote(ru.name), e, sep)
	}
	b.WriteString("]\n\nend AC.Gen\n")
	return b.String(), nil
}
