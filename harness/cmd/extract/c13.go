package main

import (
	"fmt"
	"go/ast"
	"go/token"
	"os"
	"path/filepath"
	"sort"
	"strconv"
	"strings"
)

func init() { register(extractC13, "C13") }

// calcOp is one entry of the `operators` map literal of internal/calc/calc.go.
type calcOp struct {
	ch      byte
	prec    int
	right   bool
	apply   string
	divisor bool
}

// calcApplyTag names the big.Int method an operator's apply function calls:
// `(*big.Int).Mul` -> "Mul"; `func(z, x, y *big.Int) *big.Int { return z.Exp(x, y, nil) }` -> "Exp".
// Anything else is returned as normalised source so that the Lean table check fails.
func calcApplyTag(fset *token.FileSet, e ast.Expr) string {
	switch v := e.(type) {
	case *ast.SelectorExpr: // (*big.Int).Mul
		if p, ok := v.X.(*ast.ParenExpr); ok {
			if Src(fset, p.X) == "*big.Int" {
				return v.Sel.Name
			}
		}
	case *ast.FuncLit:
		// exactly: func(z, x, y *big.Int) *big.Int { return z.M(x, y, nil) }
		want := func(m string) string {
			return "func(z, x, y *big.Int) *big.Int { return z." + m + "(x, y, nil) }"
		}
		src := Src(fset, v)
		if len(v.Body.List) == 1 {
			if r, ok := v.Body.List[0].(*ast.ReturnStmt); ok && len(r.Results) == 1 {
				if c, ok := r.Results[0].(*ast.CallExpr); ok {
					if s, ok := c.Fun.(*ast.SelectorExpr); ok && src == want(s.Sel.Name) {
						return s.Sel.Name
					}
				}
			}
		}
	}
	return "?" + Src(fset, e)
}

func extractC13(c *Ctx) {
	const file = "internal/calc/calc.go"
	fset, f, err := c.ParseFile(file)
	if err != nil {
		c.Fail("calc.go", err)
		return
	}

	// --- the associativity constants: leftassociative must be iota = 0, rightassociative = 1
	assocOK := false
	var ops []calcOp
	opsFound := false
	var problems []string
	for _, d := range f.Decls {
		gd, ok := d.(*ast.GenDecl)
		if !ok {
			continue
		}
		if gd.Tok == token.CONST {
			names := []string{}
			for _, s := range gd.Specs {
				vs := s.(*ast.ValueSpec)
				for _, n := range vs.Names {
					names = append(names, n.Name)
				}
			}
			if strings.Join(names, ",") == "leftassociative,rightassociative" {
				vs0 := gd.Specs[0].(*ast.ValueSpec)
				assocOK = len(vs0.Values) == 1 && Src(fset, vs0.Values[0]) == "iota" && Src(fset, vs0.Type) == "associativity"
			}
		}
		if gd.Tok != token.VAR {
			continue
		}
		for _, s := range gd.Specs {
			vs := s.(*ast.ValueSpec)
			if len(vs.Names) != 1 || vs.Names[0].Name != "operators" || len(vs.Values) != 1 {
				continue
			}
			cl, ok := vs.Values[0].(*ast.CompositeLit)
			if !ok || Src(fset, cl.Type) != "map[byte]operator" {
				problems = append(problems, "operators is not a map[byte]operator literal")
				continue
			}
			opsFound = true
			for _, el := range cl.Elts {
				kv, ok := el.(*ast.KeyValueExpr)
				if !ok {
					problems = append(problems, "non key-value element")
					continue
				}
				kl, ok := kv.Key.(*ast.BasicLit)
				if !ok || kl.Kind != token.CHAR {
					problems = append(problems, "key is not a character literal: "+Src(fset, kv.Key))
					continue
				}
				r, _, _, err := strconv.UnquoteChar(kl.Value[1:len(kl.Value)-1], '\'')
				if err != nil || r > 126 || r < 33 {
					problems = append(problems, "bad key "+kl.Value)
					continue
				}
				op := calcOp{ch: byte(r), prec: -1, apply: "?"}
				seen := map[string]bool{}
				vl, ok := kv.Value.(*ast.CompositeLit)
				if !ok {
					problems = append(problems, "value is not a composite literal")
					continue
				}
				for _, fe := range vl.Elts {
					fkv, ok := fe.(*ast.KeyValueExpr)
					if !ok {
						problems = append(problems, "positional field in operator literal")
						continue
					}
					name := Src(fset, fkv.Key)
					seen[name] = true
					switch name {
					case "precedence":
						bl, ok := fkv.Value.(*ast.BasicLit)
						if !ok || bl.Kind != token.INT {
							problems = append(problems, "precedence not an integer literal: "+Src(fset, fkv.Value))
							continue
						}
						n, err := strconv.Atoi(bl.Value)
						if err != nil || n < 0 {
							problems = append(problems, "bad precedence "+bl.Value)
							continue
						}
						op.prec = n
					case "associativity":
						switch Src(fset, fkv.Value) {
						case "leftassociative":
							op.right = false
						case "rightassociative":
							op.right = true
						default:
							problems = append(problems, "unknown associativity "+Src(fset, fkv.Value))
						}
					case "apply":
						op.apply = calcApplyTag(fset, fkv.Value)
					case "divisor":
						switch Src(fset, fkv.Value) {
						case "true":
							op.divisor = true
						case "false":
							op.divisor = false
						default:
							problems = append(problems, "divisor is not a boolean literal: "+Src(fset, fkv.Value))
						}
					default:
						problems = append(problems, "unknown field "+name)
					}
				}
				// an omitted field takes Go's zero value: precedence 0, leftassociative, nil apply, divisor false
				if !seen["precedence"] {
					op.prec = 0
				}
				if !seen["apply"] {
					op.apply = "nil"
				}
				ops = append(ops, op)
			}
		}
	}
	c.Check("calc.associativity-consts", assocOK, "const block is not `leftassociative associativity = iota; rightassociative`")
	c.Check("calc.operators-literal", opsFound && len(problems) == 0, strings.Join(problems, "; "))

	// --- generated Lean table (source order of the map literal)
	var b strings.Builder
	b.WriteString("/-! GENERATED by /verif/harness/cmd/extract (c13.go) from /repo/internal/calc/calc.go — do not edit.\n")
	b.WriteString("    One entry per key of the `operators` map literal, in source order:\n")
	b.WriteString("    (operator character, precedence, associativity = rightassociative, big.Int method applied,\n")
	b.WriteString("     divisor = the second operand must be non-zero). -/\n")
	b.WriteString("namespace AC.Gen\n\n")
	b.WriteString("def calcOps : List (Char × Nat × Bool × String × Bool) := [\n")
	for i, o := range ops {
		sep := ","
		if i == len(ops)-1 {
			sep = ""
		}
		fmt.Fprintf(&b, "  (Char.ofNat %d, %d, %v, %s, %v)%s  -- '%c'\n", o.ch, o.prec, o.right, strconv.Quote(o.apply), o.divisor, sep, o.ch)
	}
	b.WriteString("]\n\nend AC.Gen\n")
	c.WriteGen("CalcOps.lean", b.String())

	// duplicate keys would be a compile error in Go; still record the key set
	keys := []string{}
	for _, o := range ops {
		keys = append(keys, string(o.ch))
	}
	sort.Strings(keys)
	c.Check("calc.operator-keys", strings.Join(keys, "") == "*+-/^", "operator characters are now "+strings.Join(keys, ""))

	// --- the operator struct: exactly the fields the extractor understands
	for _, d := range f.Decls {
		gd, ok := d.(*ast.GenDecl)
		if !ok || gd.Tok != token.TYPE {
			continue
		}
		for _, sp := range gd.Specs {
			ts := sp.(*ast.TypeSpec)
			if ts.Name.Name != "operator" {
				continue
			}
			st, ok := ts.Type.(*ast.StructType)
			if !ok {
				c.Check("calc.operator-struct", false, "operator is not a struct")
				continue
			}
			fields := []string{}
			for _, fl := range st.Fields.List {
				for _, n := range fl.Names {
					fields = append(fields, n.Name+" "+Src(fset, fl.Type))
				}
			}
			got := strings.Join(fields, "; ")
			want := "precedence int; associativity associativity; apply func(*big.Int, *big.Int, *big.Int) *big.Int; divisor bool"
			c.Check("calc.operator-struct", got == want, "fields are now: "+got)
		}
	}

	// --- source fragments the hand-written model mirrors
	for _, fn := range []struct{ name, file string }{
		{"yard.operand", "calc_yard_operand.txt"},
		{"yard.operator", "calc_yard_operator.txt"},
		{"yard.apply", "calc_yard_apply.txt"},
		{"yard.result", "calc_yard_result.txt"},
		{"yard.peek", "calc_yard_peek.txt"},
		{"yard.pop", "calc_yard_pop.txt"},
		{"Eval", "calc_eval.txt"},
		{"number", "calc_number.txt"},
		{"skip", "calc_skip.txt"},
		{"isdecimal", "calc_isdecimal.txt"},
		{"ishex", "calc_ishex.txt"},
		{"isbinary", "calc_isbinary.txt"},
	} {
		src, ok := FuncSrc(fset, f, fn.name)
		if !ok {
			c.Check("expect/"+fn.file, false, "function "+fn.name+" not found in "+file)
			continue
		}
		// drop the doc comment: only the code is mirrored by the model
		if i := strings.Index(src, "func "); i > 0 {
			src = src[i:]
		}
		if os.Getenv("VERIF_C13_WRITE_EXPECT") == "1" { // maintenance only: (re)create the expectation from the current source
			_ = os.WriteFile(filepath.Join(c.Verif, "expect", fn.file), []byte(src+"\n"), 0o644)
		}
		c.Expect(fn.file, src)
	}
}
