package main

import (
	"fmt"
	"go/ast"
	"go/token"
	"os"
	"path/filepath"
	"strconv"
	"strings"
)

// C07 / C03 tie: the acc grammar, the generated parser's grammar literal, the action code, the
// printer and the precedence constants.
//
//   - acc.peg is read with a small pigeon-syntax reader and each rule is normalised to an
//     s-expression (`(/ a b)` choice, `(seq a b)`, `(act x)` action with the code dropped,
//     `(lab n x)`, `(* x) (+ x) (? x) (! x) (& x)`, Go-quoted literals, `[ranges|chars]` classes,
//     `.` any);
//   - zparser.go's `g` composite literal is walked into the same normal form (classes from the
//     `chars`/`ranges` fields the runtime actually uses);
//   - the two must agree rule by rule, and must equal expect/acc_grammar.txt;
//   - the code block of every action in acc.peg must equal the body of the generated `on…`
//     function, and the `on…`/`callon…` sources must equal expect/acc_actions.txt;
//   - printer.go's functions and the tabwriter construction are compared with expectations;
//   - ast.go's precedence constants are regenerated into lean/AC/Gen/AstPrec.lean, which the
//     printer model and the round-trip proof use.
func init() { register(extractC07, "C07", "C03") }

// ---- pigeon grammar reader ------------------------------------------------------------

type pegReader struct {
	s   string
	pos int
	err error
}

type pegRule struct {
	name    string
	nf      string
	actions []string // normalised code blocks in order of appearance
}

func (p *pegReader) fail(msg string) {
	if p.err == nil {
		line := 1 + strings.Count(p.s[:p.pos], "\n")
		p.err = fmt.Errorf("acc.peg line %d: %s", line, msg)
	}
}

func (p *pegReader) skip() {
	for p.pos < len(p.s) {
		c := p.s[p.pos]
		if c == ' ' || c == '\t' || c == '\n' || c == '\r' {
			p.pos++
		} else if strings.HasPrefix(p.s[p.pos:], "//") {
			for p.pos < len(p.s) && p.s[p.pos] != '\n' {
				p.pos++
			}
		} else {
			return
		}
	}
}

func isIdentByte(c byte, first bool) bool {
	return c == '_' || (c >= 'a' && c <= 'z') || (c >= 'A' && c <= 'Z') || (!first && c >= '0' && c <= '9')
}

// peekIdent returns the identifier at the current position (after blanks) without consuming it.
func (p *pegReader) peekIdent() string {
	p.skip()
	i := p.pos
	for i < len(p.s) && isIdentByte(p.s[i], i == p.pos) {
		i++
	}
	return p.s[p.pos:i]
}

// atRuleStart reports whether the input continues with `Name <-`.
func (p *pegReader) atRuleStart() bool {
	id := p.peekIdent()
	if id == "" {
		return false
	}
	save := p.pos
	p.pos += len(id)
	p.skip()
	ok := strings.HasPrefix(p.s[p.pos:], "<-")
	p.pos = save
	return ok
}

// codeBlock reads `{ … }` with balanced braces, skipping Go strings, runes and comments.
func (p *pegReader) codeBlock() string {
	p.skip()
	if p.pos >= len(p.s) || p.s[p.pos] != '{' {
		p.fail("code block expected")
		return ""
	}
	start := p.pos + 1
	depth := 0
	for p.pos < len(p.s) {
		c := p.s[p.pos]
		switch {
		case c == '{':
			depth++
			p.pos++
		case c == '}':
			depth--
			p.pos++
			if depth == 0 {
				return strings.Join(strings.Fields(p.s[start:p.pos-1]), " ")
			}
		case c == '"' || c == '\'' || c == '`':
			q := c
			p.pos++
			for p.pos < len(p.s) && p.s[p.pos] != q {
				if p.s[p.pos] == '\\' && q != '`' {
					p.pos++
				}
				p.pos++
			}
			p.pos++
		case strings.HasPrefix(p.s[p.pos:], "//"):
			for p.pos < len(p.s) && p.s[p.pos] != '\n' {
				p.pos++
			}
		default:
			p.pos++
		}
	}
	p.fail("unterminated code block")
	return ""
}

func pegUnescape(p *pegReader, quote byte) rune {
	// p.pos is just after a backslash
	if p.pos >= len(p.s) {
		p.fail("dangling escape")
		return 0
	}
	c := p.s[p.pos]
	p.pos++
	switch c {
	case 'n':
		return '\n'
	case 't':
		return '\t'
	case 'r':
		return '\r'
	case '\\', '\'', '"', ']', '-', '[':
		return rune(c)
	}
	p.fail("unsupported escape \\" + string(c))
	return 0
}

func classNF(ranges, chars []rune, inverted, ignoreCase bool) string {
	var b strings.Builder
	b.WriteByte('[')
	if inverted {
		b.WriteByte('^')
	}
	q := func(r rune) string { s := strconv.QuoteRune(r); return s[1 : len(s)-1] }
	for i := 0; i+1 < len(ranges); i += 2 {
		b.WriteString(q(ranges[i]) + "-" + q(ranges[i+1]) + " ")
	}
	b.WriteByte('|')
	for _, c := range chars {
		b.WriteString(" " + q(c))
	}
	b.WriteByte(']')
	if ignoreCase {
		b.WriteByte('i')
	}
	return b.String()
}

func (p *pegReader) primary(r *pegRule) string {
	p.skip()
	if p.pos >= len(p.s) {
		p.fail("expression expected")
		return "?"
	}
	c := p.s[p.pos]
	switch {
	case c == '(':
		p.pos++
		e := p.choice(r)
		p.skip()
		if p.pos < len(p.s) && p.s[p.pos] == ')' {
			p.pos++
		} else {
			p.fail("`)` expected")
		}
		return e
	case c == '.':
		p.pos++
		return "."
	case c == '\'' || c == '"':
		p.pos++
		var val []rune
		for p.pos < len(p.s) && p.s[p.pos] != c {
			if p.s[p.pos] == '\\' {
				p.pos++
				val = append(val, pegUnescape(p, c))
			} else {
				val = append(val, rune(p.s[p.pos]))
				p.pos++
			}
		}
		p.pos++
		nf := strconv.Quote(string(val))
		if p.pos < len(p.s) && p.s[p.pos] == 'i' {
			p.pos++
			nf += "i"
		}
		return nf
	case c == '[':
		p.pos++
		inverted := false
		if p.pos < len(p.s) && p.s[p.pos] == '^' {
			inverted = true
			p.pos++
		}
		next := func() rune {
			if p.s[p.pos] == '\\' {
				p.pos++
				return pegUnescape(p, ']')
			}
			ch := rune(p.s[p.pos])
			p.pos++
			return ch
		}
		var ranges, chars []rune
		for p.pos < len(p.s) && p.s[p.pos] != ']' {
			a := next()
			if p.pos+1 < len(p.s) && p.s[p.pos] == '-' && p.s[p.pos+1] != ']' {
				p.pos++
				bb := next()
				ranges = append(ranges, a, bb)
			} else {
				chars = append(chars, a)
			}
		}
		p.pos++
		ic := false
		if p.pos < len(p.s) && p.s[p.pos] == 'i' {
			ic = true
			p.pos++
		}
		return classNF(ranges, chars, inverted, ic)
	case isIdentByte(c, true):
		id := p.peekIdent()
		p.pos += len(id)
		return id
	}
	p.fail("unexpected character " + strconv.QuoteRune(rune(c)))
	p.pos++
	return "?"
}

func (p *pegReader) suffixed(r *pegRule) string {
	e := p.primary(r)
	if p.pos < len(p.s) {
		switch p.s[p.pos] {
		case '*', '+', '?':
			op := p.s[p.pos]
			p.pos++
			return "(" + string(op) + " " + e + ")"
		}
	}
	return e
}

func (p *pegReader) prefixed(r *pegRule) string {
	p.skip()
	if p.pos < len(p.s) && (p.s[p.pos] == '!' || p.s[p.pos] == '&') {
		op := p.s[p.pos]
		p.pos++
		return "(" + string(op) + " " + p.suffixed(r) + ")"
	}
	return p.suffixed(r)
}

func (p *pegReader) labeled(r *pegRule) string {
	id := p.peekIdent()
	if id != "" && p.pos+len(id) < len(p.s) && p.s[p.pos+len(id)] == ':' {
		p.pos += len(id) + 1
		return "(lab " + id + " " + p.prefixed(r) + ")"
	}
	return p.prefixed(r)
}

func (p *pegReader) seqEnd() bool {
	p.skip()
	if p.pos >= len(p.s) || p.err != nil {
		return true
	}
	switch p.s[p.pos] {
	case '/', ')', '{':
		return true
	}
	return p.atRuleStart()
}

func (p *pegReader) actionSeq(r *pegRule) string {
	var items []string
	for !p.seqEnd() {
		items = append(items, p.labeled(r))
	}
	if len(items) == 0 {
		p.fail("empty sequence")
		return "?"
	}
	e := items[0]
	if len(items) > 1 {
		e = "(seq " + strings.Join(items, " ") + ")"
	}
	p.skip()
	if p.pos < len(p.s) && p.s[p.pos] == '{' {
		r.actions = append(r.actions, p.codeBlock())
		e = "(act " + e + ")"
	}
	return e
}

func (p *pegReader) choice(r *pegRule) string {
	alts := []string{p.actionSeq(r)}
	for {
		p.skip()
		if p.pos < len(p.s) && p.s[p.pos] == '/' && !strings.HasPrefix(p.s[p.pos:], "//") {
			p.pos++
			alts = append(alts, p.actionSeq(r))
		} else {
			break
		}
	}
	if len(alts) == 1 {
		return alts[0]
	}
	return "(/ " + strings.Join(alts, " ") + ")"
}

// readPeg returns the initializer code and the rules of a pigeon grammar.
func readPeg(src string) (string, []pegRule, error) {
	p := &pegReader{s: src}
	init := ""
	p.skip()
	if p.pos < len(p.s) && p.s[p.pos] == '{' {
		init = p.codeBlock()
	}
	var rules []pegRule
	for p.err == nil {
		p.skip()
		if p.pos >= len(p.s) {
			break
		}
		if !p.atRuleStart() {
			p.fail("rule expected")
			break
		}
		r := pegRule{name: p.peekIdent()}
		p.pos += len(r.name)
		p.skip()
		p.pos += 2 // <-
		r.nf = p.choice(&r)
		rules = append(rules, r)
	}
	return init, rules, p.err
}

// ---- the generated parser's grammar literal -------------------------------------------

type zAction struct{ rule, run string }

type zWalker struct {
	fset    *token.FileSet
	rule    string
	actions []zAction
	bad     []string
}

func kvFields(cl *ast.CompositeLit) map[string]ast.Expr {
	m := map[string]ast.Expr{}
	for _, el := range cl.Elts {
		if kv, ok := el.(*ast.KeyValueExpr); ok {
			if id, ok := kv.Key.(*ast.Ident); ok {
				m[id.Name] = kv.Value
			}
		}
	}
	return m
}

func strLit(e ast.Expr) (string, bool) {
	bl, ok := e.(*ast.BasicLit)
	if !ok || bl.Kind != token.STRING {
		return "", false
	}
	s, err := strconv.Unquote(bl.Value)
	return s, err == nil
}

func runeList(e ast.Expr) ([]rune, bool) {
	if e == nil {
		return nil, true
	}
	cl, ok := e.(*ast.CompositeLit)
	if !ok {
		return nil, false
	}
	var out []rune
	for _, el := range cl.Elts {
		bl, ok := el.(*ast.BasicLit)
		if !ok || bl.Kind != token.CHAR {
			return nil, false
		}
		r, _, _, err := strconv.UnquoteChar(bl.Value[1:len(bl.Value)-1], '\'')
		if err != nil {
			return nil, false
		}
		out = append(out, r)
	}
	return out, true
}

func boolLit(e ast.Expr) bool {
	id, ok := e.(*ast.Ident)
	return ok && id.Name == "true"
}

func (z *zWalker) expr(e ast.Expr) string {
	u, ok := e.(*ast.UnaryExpr)
	if !ok || u.Op != token.AND {
		z.bad = append(z.bad, "not an &composite: "+Src(z.fset, e))
		return "?"
	}
	cl, ok := u.X.(*ast.CompositeLit)
	if !ok {
		z.bad = append(z.bad, "not a composite literal")
		return "?"
	}
	tn, _ := cl.Type.(*ast.Ident)
	if tn == nil {
		z.bad = append(z.bad, "untyped literal")
		return "?"
	}
	f := kvFields(cl)
	sub := func() string {
		if f["expr"] == nil {
			z.bad = append(z.bad, tn.Name+" without expr")
			return "?"
		}
		return z.expr(f["expr"])
	}
	list := func(key string) []string {
		l, ok := f[key].(*ast.CompositeLit)
		if !ok {
			z.bad = append(z.bad, tn.Name+" without "+key)
			return nil
		}
		var out []string
		for _, el := range l.Elts {
			out = append(out, z.expr(el))
		}
		return out
	}
	switch tn.Name {
	case "ruleRefExpr":
		s, _ := strLit(f["name"])
		return s
	case "seqExpr":
		return "(seq " + strings.Join(list("exprs"), " ") + ")"
	case "choiceExpr":
		return "(/ " + strings.Join(list("alternatives"), " ") + ")"
	case "litMatcher":
		s, ok := strLit(f["val"])
		if !ok {
			z.bad = append(z.bad, "litMatcher val")
		}
		nf := strconv.Quote(s)
		if boolLit(f["ignoreCase"]) {
			nf += "i"
		}
		return nf
	case "charClassMatcher":
		ranges, ok1 := runeList(f["ranges"])
		chars, ok2 := runeList(f["chars"])
		if !ok1 || !ok2 || f["classes"] != nil {
			z.bad = append(z.bad, "charClassMatcher fields")
		}
		return classNF(ranges, chars, boolLit(f["inverted"]), boolLit(f["ignoreCase"]))
	case "anyMatcher":
		return "."
	case "zeroOrMoreExpr":
		return "(* " + sub() + ")"
	case "oneOrMoreExpr":
		return "(+ " + sub() + ")"
	case "zeroOrOneExpr":
		return "(? " + sub() + ")"
	case "notExpr":
		return "(! " + sub() + ")"
	case "andExpr":
		return "(& " + sub() + ")"
	case "labeledExpr":
		l, _ := strLit(f["label"])
		return "(lab " + l + " " + sub() + ")"
	case "actionExpr":
		run := Src(z.fset, f["run"])
		z.actions = append(z.actions, zAction{z.rule, strings.TrimPrefix(run, "(*parser).")})
		return "(act " + sub() + ")"
	}
	z.bad = append(z.bad, "unsupported expression type "+tn.Name)
	return "?" + tn.Name
}

// zparserGrammar walks `var g = &grammar{rules: []*rule{…}}`.
func zparserGrammar(fset *token.FileSet, f *ast.File) ([]pegRule, []zAction, []string) {
	z := &zWalker{fset: fset}
	var rules []pegRule
	for _, d := range f.Decls {
		gd, ok := d.(*ast.GenDecl)
		if !ok || gd.Tok != token.VAR {
			continue
		}
		for _, s := range gd.Specs {
			vs := s.(*ast.ValueSpec)
			if len(vs.Names) != 1 || vs.Names[0].Name != "g" || len(vs.Values) != 1 {
				continue
			}
			u, ok := vs.Values[0].(*ast.UnaryExpr)
			if !ok {
				z.bad = append(z.bad, "g is not &grammar{…}")
				continue
			}
			gl, ok := u.X.(*ast.CompositeLit)
			if !ok || Src(fset, gl.Type) != "grammar" {
				z.bad = append(z.bad, "g is not &grammar{…}")
				continue
			}
			rl, ok := kvFields(gl)["rules"].(*ast.CompositeLit)
			if !ok {
				z.bad = append(z.bad, "grammar without rules")
				continue
			}
			for _, el := range rl.Elts {
				rc, ok := el.(*ast.CompositeLit)
				if !ok {
					z.bad = append(z.bad, "rule is not a literal")
					continue
				}
				rf := kvFields(rc)
				name, _ := strLit(rf["name"])
				z.rule = name
				if rf["expr"] == nil {
					z.bad = append(z.bad, "rule "+name+" without expr")
					continue
				}
				rules = append(rules, pegRule{name: name, nf: z.expr(rf["expr"])})
			}
		}
	}
	return rules, z.actions, z.bad
}

func rulesText(rules []pegRule) string {
	var b strings.Builder
	for _, r := range rules {
		b.WriteString(r.name + " <- " + r.nf + "\n")
	}
	return b.String()
}

func bodySrc(fset *token.FileSet, f *ast.File, name string) (string, bool) {
	for _, d := range f.Decls {
		fd, ok := d.(*ast.FuncDecl)
		if !ok || fd.Body == nil {
			continue
		}
		n := fd.Name.Name
		if fd.Recv != nil && len(fd.Recv.List) == 1 {
			t := fd.Recv.List[0].Type
			if s, ok := t.(*ast.StarExpr); ok {
				t = s.X
			}
			if id, ok := t.(*ast.Ident); ok {
				n = id.Name + "." + n
			}
		}
		if n == name {
			s := Src(fset, fd.Body)
			s = strings.TrimSpace(strings.TrimSuffix(strings.TrimPrefix(s, "{"), "}"))
			return s, true
		}
	}
	return "", false
}

func extractC07(c *Ctx) {
	// ---- grammar: acc.peg vs zparser.go vs expectation
	pegSrc, err := os.ReadFile(filepath.Join(c.Repo, "acc/parse/acc.peg"))
	if err != nil {
		c.Fail("acc.peg", err)
		return
	}
	initCode, pegRules, err := readPeg(string(pegSrc))
	if err != nil {
		c.Fail("acc.peg", err)
		return
	}
	zfset, zf, err := c.ParseFile("acc/parse/internal/parser/zparser.go")
	if err != nil {
		c.Fail("zparser.go", err)
		return
	}
	zRules, zActions, bad := zparserGrammar(zfset, zf)
	c.Check("zparser.go grammar literal readable", len(bad) == 0 && len(zRules) > 0, strings.Join(bad, "; "))
	// rule by rule
	var diffs []string
	for i := 0; i < len(pegRules) || i < len(zRules); i++ {
		a, b := "<missing>", "<missing>"
		if i < len(pegRules) {
			a = pegRules[i].name + " <- " + pegRules[i].nf
		}
		if i < len(zRules) {
			b = zRules[i].name + " <- " + zRules[i].nf
		}
		if a != b {
			diffs = append(diffs, fmt.Sprintf("rule %d: acc.peg has %q, zparser.go has %q", i+1, a, b))
		}
	}
	c.Check("zparser.go grammar = acc.peg grammar", len(diffs) == 0, strings.Join(diffs, "; "))
	c.Expect("acc_grammar.txt", rulesText(pegRules))
	// the grammar as an executable Lean table for the generic PEG interpreter
	if lean, err := grammarLean(pegRules); err != nil {
		c.Check("acc.peg grammar rendered for the generic interpreter", false, err.Error())
	} else {
		c.Check("acc.peg grammar rendered for the generic interpreter", true, "")
		c.WriteGen("AccGrammar.lean", lean)
	}

	// ---- action code: acc.peg code blocks vs generated on… functions
	var pegActs []struct{ rule, code string }
	for _, r := range pegRules {
		for _, a := range r.actions {
			pegActs = append(pegActs, struct{ rule, code string }{r.name, a})
		}
	}
	var actDiffs []string
	var actText strings.Builder
	if len(pegActs) != len(zActions) {
		actDiffs = append(actDiffs, fmt.Sprintf("acc.peg has %d actions, zparser.go has %d", len(pegActs), len(zActions)))
	}
	for i, za := range zActions {
		callon, ok1 := FuncSrc(zfset, zf, "parser."+za.run)
		onName := strings.TrimPrefix(za.run, "call")
		on, ok2 := FuncSrc(zfset, zf, "current."+onName)
		body, _ := bodySrc(zfset, zf, "current."+onName)
		if !ok1 || !ok2 {
			actDiffs = append(actDiffs, "missing "+za.run+" / "+onName)
			continue
		}
		if !strings.Contains(callon, "p.cur."+onName+"(") {
			actDiffs = append(actDiffs, za.run+" does not call "+onName)
		}
		if i < len(pegActs) {
			if pegActs[i].rule != za.rule {
				actDiffs = append(actDiffs, fmt.Sprintf("action %d belongs to rule %s in acc.peg but %s in zparser.go", i+1, pegActs[i].rule, za.rule))
			}
			if pegActs[i].code != body {
				actDiffs = append(actDiffs, fmt.Sprintf("action of %s: acc.peg has %q, %s has %q", za.rule, pegActs[i].code, onName, body))
			}
		}
		fmt.Fprintf(&actText, "%s: %s\n%s\n%s\n", za.rule, za.run, callon, on)
	}
	c.Check("zparser.go action functions = acc.peg code blocks", len(actDiffs) == 0, strings.Join(actDiffs, "; "))
	c.Expect("acc_actions.txt", actText.String())
	if hs, ok := bodySrc(zfset, zf, "exprs"); ok {
		c.Check("zparser.go exprs helper = acc.peg initializer", strings.Contains(initCode, hs), "initializer: "+initCode+" / generated: "+hs)
		full, _ := FuncSrc(zfset, zf, "exprs")
		c.Expect("acc_exprs_helper.txt", full)
	} else {
		c.Check("zparser.go exprs helper = acc.peg initializer", false, "func exprs not found")
	}
	// the runtime pieces the model's semantics rest on
	for _, fn := range []struct{ name, file string }{
		{"parser.parseActionExpr", "acc_rt_action.txt"},
		{"parser.parseChoiceExpr", "acc_rt_choice.txt"},
		{"parser.parseSeqExpr", "acc_rt_seq.txt"},
		{"parser.parseZeroOrMoreExpr", "acc_rt_star.txt"},
		{"parser.parseOneOrMoreExpr", "acc_rt_plus.txt"},
		{"parser.parseZeroOrOneExpr", "acc_rt_opt.txt"},
		{"parser.parseNotExpr", "acc_rt_not.txt"},
		{"parser.parseLitMatcher", "acc_rt_lit.txt"},
		{"parser.parseCharClassMatcher", "acc_rt_class.txt"},
		{"parser.read", "acc_rt_read.txt"},
		{"parser.restore", "acc_rt_restore.txt"},
		{"parser.parseRule", "acc_rt_rule.txt"},
		{"parser.getMemoized", "acc_rt_getmemo.txt"},
		{"parser.setMemoized", "acc_rt_setmemo.txt"},
		{"Memoize", "acc_rt_memoize_option.txt"},
	} {
		if s, ok := FuncSrc(zfset, zf, fn.name); ok {
			c.Expect(fn.file, s)
		} else {
			c.Check("expect/"+fn.file, false, "function "+fn.name+" not found in zparser.go")
		}
	}
	if pfset, pf, err := c.ParseFile("acc/parse/parse.go"); err != nil {
		c.Fail("parse.go", err)
	} else {
		for _, fn := range []struct{ name, file string }{{"String", "acc_parse_string.txt"}, {"Reader", "acc_parse_reader.txt"}, {"cast", "acc_parse_cast.txt"}} {
			if s, ok := FuncSrc(pfset, pf, fn.name); ok {
				c.Expect(fn.file, s)
			} else {
				c.Check("expect/"+fn.file, false, "function "+fn.name+" not found in parse.go")
			}
		}
	}

	// ---- printer
	if pfset, pf, err := c.ParseFile("acc/printer/printer.go"); err != nil {
		c.Fail("printer.go", err)
	} else {
		for _, fn := range []struct{ name, file string }{
			{"Fprint", "acc_printer_fprint.txt"},
			{"newprinter", "acc_printer_new.txt"},
			{"printer.node", "acc_printer_node.txt"},
			{"printer.statement", "acc_printer_statement.txt"},
			{"printer.expr", "acc_printer_expr.txt"},
			{"printer.add", "acc_printer_add.txt"},
			{"printer.double", "acc_printer_double.txt"},
			{"printer.shift", "acc_printer_shift.txt"},
			{"printer.identifier", "acc_printer_identifier.txt"},
			{"printer.operand", "acc_printer_operand.txt"},
		} {
			if s, ok := FuncSrc(pfset, pf, fn.name); ok {
				c.Expect(fn.file, s)
			} else {
				c.Check("expect/"+fn.file, false, "function "+fn.name+" not found in printer.go")
			}
		}
	}
	if pfset, pf, err := c.ParseFile("internal/print/printer.go"); err != nil {
		c.Fail("print/printer.go", err)
	} else {
		for _, fn := range []struct{ name, file string }{
			{"NewTabWriter", "acc_print_newtabwriter.txt"},
			{"TabWriter.Flush", "acc_print_flush.txt"},
			{"Printer.NL", "print_nl.txt"},
			{"Printer.Printf", "print_printf.txt"},
		} {
			if s, ok := FuncSrc(pfset, pf, fn.name); ok {
				c.Expect(fn.file, s)
			} else {
				c.Check("expect/"+fn.file, false, "function "+fn.name+" not found in internal/print/printer.go")
			}
		}
	}

	// ---- ast.go: precedence constants -> lean/AC/Gen/AstPrec.lean
	afset, af, err := c.ParseFile("acc/ast/ast.go")
	if err != nil {
		c.Fail("ast.go", err)
		return
	}
	consts := map[string]int{}
	for _, d := range af.Decls {
		gd, ok := d.(*ast.GenDecl)
		if !ok || gd.Tok != token.CONST {
			continue
		}
		for _, s := range gd.Specs {
			vs := s.(*ast.ValueSpec)
			for i, n := range vs.Names {
				if i < len(vs.Values) {
					if bl, ok := vs.Values[i].(*ast.BasicLit); ok && bl.Kind == token.INT {
						if v, err := strconv.Atoi(bl.Value); err == nil {
							consts[n.Name] = v
						}
					}
				}
			}
		}
	}
	type precOf struct {
		typ, src string
		val      int
	}
	var precs []precOf
	var problems []string
	for _, d := range af.Decls {
		fd, ok := d.(*ast.FuncDecl)
		if !ok || fd.Name.Name != "Precedence" || fd.Recv == nil || len(fd.Recv.List) != 1 {
			continue
		}
		typ := Src(afset, fd.Recv.List[0].Type)
		if fd.Body == nil || len(fd.Body.List) != 1 {
			problems = append(problems, typ+".Precedence is not a single return")
			continue
		}
		rs, ok := fd.Body.List[0].(*ast.ReturnStmt)
		if !ok || len(rs.Results) != 1 {
			problems = append(problems, typ+".Precedence is not a single return")
			continue
		}
		src := Src(afset, rs.Results[0])
		switch v := rs.Results[0].(type) {
		case *ast.BasicLit:
			n, err := strconv.Atoi(v.Value)
			if err != nil || n < 0 {
				problems = append(problems, typ+".Precedence returns "+src)
				continue
			}
			precs = append(precs, precOf{typ, src, n})
		case *ast.Ident:
			n, ok := consts[v.Name]
			if !ok || n < 0 {
				problems = append(problems, typ+".Precedence returns unknown constant "+src)
				continue
			}
			precs = append(precs, precOf{typ, src, n})
		default:
			problems = append(problems, typ+".Precedence returns "+src)
		}
	}
	want := []string{"Operand", "Identifier", "Add", "Shift", "Double"}
	got := []string{}
	for _, p := range precs {
		got = append(got, p.typ)
	}
	_, okLo := consts["LowestPrec"]
	_, okHi := consts["HighestPrec"]
	okTypes := strings.Join(got, ",") == strings.Join(want, ",")
	c.Check("ast.go expression types with Precedence()", okTypes && okLo && okHi && len(problems) == 0,
		fmt.Sprintf("types %v (want %v); %s", got, want, strings.Join(problems, "; ")))
	if !(okTypes && okLo && okHi && len(problems) == 0) {
		return
	}
	var b strings.Builder
	b.WriteString("/-! GENERATED by /verif/harness/cmd/extract (c07.go) from /repo/acc/ast/ast.go — do not edit.\n")
	b.WriteString("    The operator precedence range (`LowestPrec`, `HighestPrec`) and the value returned by the\n")
	b.WriteString("    `Precedence()` method of each expression type (source expression in the comment). -/\n")
	b.WriteString("namespace AC.Gen.AstPrec\n\n")
	fmt.Fprintf(&b, "def lowestPrec : Nat := %d\n", consts["LowestPrec"])
	fmt.Fprintf(&b, "def highestPrec : Nat := %d\n", consts["HighestPrec"])
	lean := map[string]string{"Operand": "operand", "Identifier": "identifier", "Add": "add", "Shift": "shift", "Double": "double"}
	for _, p := range precs {
		fmt.Fprintf(&b, "def %s : Nat := %d  -- %s\n", lean[p.typ], p.val, p.src)
	}
	b.WriteString("\nend AC.Gen.AstPrec\n")
	c.WriteGen("AstPrec.lean", b.String())
	if is, ok := FuncSrc(afset, af, "IsOp"); ok {
		c.Expect("acc_ast_isop.txt", is)
	}
}
