package main

import (
	"go/ast"
	"go/token"
	"os"
	"path/filepath"
	"strings"
)

// C18 translator tie: program.go (and `New` of chain.go) is translated on every run into
// lean/AC/Gen/ProgramFns.lean by the imperative translator of gotr.go; AC/ProgramTie.lean proves the
// generated definitions equal to the hand-written model AC/ProgramX.lean on which the C18 theorems are
// stated, and AC/Props/C18.lean restates the builder and analysis theorems over the generated ones.

// C02 rests on the same generated file (Chain.Ops, Chain.IsAscending: AC/ChainTie.lean).
// c18Relevant: the source files whose translated functions each property rests on. A change in another
// file's functions does not concern the property: their blocks are taken over from the existing
// generated file, so that it neither shows as a difference of the generated table nor as a failed
// translation in that property's check.
var c18Relevant = map[string][]string{
	"C18": {"program.go", "chain.go", "internal/bigints/bigints.go"},
	"C02": {"chain.go", "program.go", "internal/bigints/bigints.go"},
	"C19": {"internal/bigints/bigints.go", "internal/bigint/bigint.go"},
	"C10": {"alg/opt/opt.go", "chain.go", "program.go", "internal/bigints/bigints.go"},
	"C08": {"alg/heuristic/heuristic.go", "alg/contfrac/contfrac.go", "internal/bigints/bigints.go"},
	"C11": {"alg/dict/runs.go", "chain.go", "program.go", "internal/bigints/bigints.go"},
	"C09": {"alg/dict/dict.go"},
	"C01": {"alg/dict/dict.go", "alg/binary/binary.go"},
}

func init() {
	for pid := range c18Relevant {
		pid := pid
		register(func(c *Ctx) { extractC18(c, pid) }, pid)
	}
}

// c18OldBlocks reads the blocks (`-- BEGIN key` .. `-- END key`) of the existing generated file.
func c18OldBlocks(c *Ctx) map[string]string {
	out := map[string]string{}
	b, err := os.ReadFile(filepath.Join(c.Verif, "lean", "AC", "Gen", "ProgramFns.lean"))
	if err != nil {
		return out
	}
	text := string(b)
	for {
		i := strings.Index(text, "-- BEGIN ")
		if i < 0 {
			return out
		}
		text = text[i+len("-- BEGIN "):]
		nl := strings.Index(text, "\n")
		if nl < 0 {
			return out
		}
		key := text[:nl]
		end := strings.Index(text, "-- END "+key+"\n")
		if end < 0 {
			return out
		}
		out[key] = text[nl+1 : end]
		text = text[end:]
	}
}

// translated in this order (a function is emitted after the functions it calls)
var c18Targets = []struct{ file, key string }{
	{"internal/bigint/bigint.go", "bigint.BitsSet"}, {"internal/bigint/bigint.go", "bigint.Pow2UpTo"},
	{"internal/bigints/bigints.go", "bigints.Index"}, {"internal/bigints/bigints.go", "bigints.Contains"},
	{"internal/bigints/bigints.go", "bigints.Clone"}, {"internal/bigints/bigints.go", "bigints.Concat"},
	{"internal/bigints/bigints.go", "bigints.Unique"}, {"internal/bigints/bigints.go", "bigints.MergeUnique"},
	{"internal/bigints/bigints.go", "bigints.InsertSortedUnique"},
	{"program.go", "Op.IsDouble"}, {"program.go", "Op.Operands"}, {"program.go", "Op.Uses"},
	{"program.go", "Program.boundscheck"}, {"program.go", "Program.Add"}, {"program.go", "Program.Double"},
	{"program.go", "Program.Shift"}, {"program.go", "Program.Count"}, {"program.go", "Program.Doubles"},
	{"program.go", "Program.Adds"}, {"chain.go", "New"}, {"program.go", "Program.Evaluate"},
	{"program.go", "Program.ReadCounts"}, {"program.go", "Program.Dependencies"},
	{"chain.go", "Chain.End"}, {"chain.go", "Chain.IsAscending"}, {"chain.go", "Chain.Ops"},
	{"chain.go", "Chain.Op"}, {"chain.go", "Chain.Program"}, {"chain.go", "Chain.Validate"}, {"chain.go", "Chain.Produces"},
	{"chain.go", "Chain.Superset"}, {"chain.go", "Chain.Clone"}, {"chain.go", "Product"}, {"chain.go", "Plus"},
	{"alg/dict/runs.go", "dict.RunsChain"}, {"alg/dict/dict.go", "dict.Term.Int"}, {"alg/dict/dict.go", "dict.Sum.Int"},
	{"alg/dict/dict.go", "dict.Sum.Dictionary"}, {"alg/dict/dict.go", "dict.FixedWindow.Decompose"},
	{"alg/dict/dict.go", "dict.dictsumchain"}, {"alg/binary/binary.go", "binary.RightToLeft.FindChain"},
	{"alg/opt/opt.go", "opt.pruneuses"}, {"alg/opt/opt.go", "opt.Optimize"},
	{"alg/heuristic/heuristic.go", "heuristic.Halving.Suggest"}, {"alg/heuristic/heuristic.go", "heuristic.DeltaLargest.Suggest"},
	{"alg/heuristic/heuristic.go", "heuristic.Approximation.Suggest"},
	{"alg/contfrac/contfrac.go", "contfrac.BinaryStrategy.K"}, {"alg/contfrac/contfrac.go", "contfrac.CoBinaryStrategy.K"},
	{"alg/contfrac/contfrac.go", "contfrac.DichotomicStrategy.K"},
	{"alg/contfrac/contfrac.go", "contfrac.DyadicStrategy.K"}, {"alg/contfrac/contfrac.go", "contfrac.FermatStrategy.K"},
	{"alg/contfrac/contfrac.go", "contfrac.TotalStrategy.K"}, {"alg/contfrac/contfrac.go", "contfrac.SqrtStrategy.K"},
}

func extractC18(c *Ctx, pid string) {
	var out strings.Builder
	var blk strings.Builder
	t := &gotr{funcs: map[string]*gtFunc{}, out: &blk}
	relevant := map[string]bool{}
	for _, f := range c18Relevant[pid] {
		relevant[f] = true
	}
	old := c18OldBlocks(c)
	decls := map[string]*ast.FuncDecl{}
	fsets := map[string]*token.FileSet{}
	for _, file := range []string{"program.go", "chain.go", "internal/bigints/bigints.go", "internal/bigint/bigint.go", "alg/opt/opt.go", "alg/heuristic/heuristic.go", "alg/contfrac/contfrac.go", "alg/dict/runs.go", "alg/dict/dict.go", "alg/binary/binary.go"} {
		fset, f, err := c.ParseFile(file)
		if err != nil {
			c.Fail(file, err)
			return
		}
		for _, d := range f.Decls {
			fd, ok := d.(*ast.FuncDecl)
			if !ok {
				continue
			}
			key, recv, ptr := gtKey(fset, fd)
			pkg := ""
			if strings.HasPrefix(file, "internal/") || strings.HasPrefix(file, "alg/") {
				pkg = f.Name.Name
				key = pkg + "." + key
			}
			want := false
			for _, tg := range c18Targets {
				if tg.file == file && tg.key == key {
					want = true
				}
			}
			if !want {
				continue
			}
			g := &gtFunc{recv: recv, ptr: ptr, pkg: pkg}
			if pkg != "" {
				g.lean = pkg + recv + fd.Name.Name
			} else if recv == "" {
				g.lean = "fn" + fd.Name.Name
			} else {
				g.lean = lowerFirst(recv) + strings.ToUpper(fd.Name.Name[:1]) + fd.Name.Name[1:]
			}
			for _, fl := range fd.Type.Params.List {
				for range fl.Names {
					g.params = append(g.params, tyOf(fset, fl.Type))
				}
			}
			if fd.Type.Results != nil {
				for _, fl := range fd.Type.Results.List {
					k := len(fl.Names)
					if k == 0 {
						k = 1
					}
					for i := 0; i < k; i++ {
						g.results = append(g.results, tyOf(fset, fl.Type))
					}
				}
			}
			t.funcs[key] = g
			decls[key] = fd
			fsets[key] = fset
		}
	}
	out.WriteString("import AC.GoPrim\nimport AC.Gen.BigintFns\n/-! GENERATED by harness/cmd/extract (gotr.go, c18.go) from program.go and chain.go of the working tree — do not edit.\n    Each definition is the translation of the Go function or method named in its doc comment; `none` = the Go code panics. -/\nset_option linter.unusedVariables false\nnamespace AC.Gen.Program\nopen AC.GoPrim AC.BigPrim\n\n")
	for _, tg := range c18Targets {
		blk.Reset()
		fd, ok := decls[tg.key]
		failed := ""
		if !ok {
			failed = "function not found"
		} else {
			t.fset = fsets[tg.key]
			t.err = nil
			t.function(tg.key, fd)
			if t.err != nil {
				failed = "outside the translated fragment: " + t.err.Error()
			}
		}
		body := blk.String()
		if !relevant[tg.file] {
			// another property's function: keep the block the theorems were checked over
			if ob, have := old[tg.key]; have {
				body = ob
			} else if failed != "" {
				body = ""
			}
		} else if failed != "" {
			c.Check("translate "+tg.key, false, failed)
			continue
		} else {
			c.Check("translate "+tg.key, true, "")
		}
		out.WriteString("-- BEGIN " + tg.key + "\n" + body + "-- END " + tg.key + "\n\n")
	}
	out.WriteString("end AC.Gen.Program\n")
	if os.Getenv("VERIF_GOTR_DEBUG") != "" {
		_ = os.WriteFile(os.Getenv("VERIF_GOTR_DEBUG"), []byte(out.String()), 0o644)
	}
	if len(c.Mismatches) == 0 {
		c.WriteGen("ProgramFns.lean", out.String())
	}
}
