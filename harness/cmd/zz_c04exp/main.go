package main

import (
	"fmt"

	"github.com/mmcloughlin/addchain"
	"github.com/mmcloughlin/addchain/acc"
	"github.com/mmcloughlin/addchain/acc/pass"
	"github.com/mmcloughlin/addchain/acc/printer"
)

func try(p addchain.Program) {
	ir, err := acc.Decompile(p)
	fmt.Printf("prog %v\nir:\n%v", p, ir)
	fmt.Println("dangling:", pass.CheckDanglingInputs(ir))
	ch, err := acc.Build(ir)
	if err != nil {
		fmt.Println("build err", err)
		return
	}
	for k, o := range ir.Operands {
		fmt.Printf("  operand %d name %q\n", k, o.Identifier)
	}
	s, _ := printer.String(ch)
	fmt.Printf("%#v\n%s", ch, s)
	p2, err := acc.LoadString(s)
	if err != nil {
		fmt.Println("load err", err)
		return
	}
	fmt.Println(p2.Chain, p2.Program)
	fmt.Println("----")
}

func main() {
	try(addchain.Program{})
	try(addchain.Program{{0, 0}})
	try(addchain.Program{{0, 0}, {1, 0}, {2, 2}, {3, 3}, {4, 4}, {5, 2}})
	// long doubling run then reuse
	p := addchain.Program{}
	for i := 0; i < 10; i++ {
		p = append(p, addchain.Op{I: i, J: i})
	}
	p = append(p, addchain.Op{I: 10, J: 0}, addchain.Op{I: 11, J: 5}, addchain.Op{I: 12, J: 1}, addchain.Op{I: 13, J: 2}, addchain.Op{I: 14, J: 3}, addchain.Op{I: 15, J: 4}, addchain.Op{I: 16, J: 6}, addchain.Op{I: 17, J: 7}, addchain.Op{I:18,J:18}, addchain.Op{I:19,J:19})
	try(p)
}
